(* C04 / C12 over Model/ConcAll.v (every request kind as a thread, one step per top-level transaction, any number of threads,
   any schedule).
   C04: which transactions of a request touch the heavy tables (everything but consumers / projects / users / consumer types):
        none of a request answered >= 300 (c04a_rejected_no_trace); at most one of any request, and a request whose
        transaction has touched them is answered with success (c04a_one_commit).
   C12: a consumer record without allocations exists only while some thread still owes its removal - it has created the
        record and is not finished, or it is between the two transactions of DELETE /allocations; when every thread is
        answered, consumers exist exactly while they hold allocations (c12a_final_state). *)
From PV Require Import Model.ConcAll Proofs.Defs Proofs.C04 Proofs.C10 Proofs.C05 Proofs.C10c Proofs.C05a Proofs.C06a.
From PV Require Proofs.C01 Proofs.C12 Proofs.C08c Proofs.C07d Proofs.C07e Proofs.C19.

(* ================================================================ the heavy tables *)
Definition hv (d : db) :=
  (rps d, invs d, allocs d, (rcs d, traits d, aggs d), (rp_aggs d, rp_traits d)).

Lemma hv_aux cf v d c : hv (aux_names cf v d c) = hv d.
Proof. unfold aux_names. cbv zeta. destruct (38 <=? v); reflexivity. Qed.

(* a thread whose further transactions cannot touch the heavy tables: answered, or between the two transactions of DELETE
   /allocations (rows deleted, consumer record still to be removed) *)
Definition is_delcons (t : tstate) : bool := match t with TDelCons _ => true | _ => false end.
Definition a_delcons (t : athread) : bool :=
  match t with ATree (TTOther t0) | ACached _ t0 | ACacheLoad t0 | ADelLoad t0 => is_delcons t0 | _ => false end.
Definition spent (t : athread) : bool := match a_resp t with Some _ => true | None => a_delcons t end.
(* ... and whose answer is, or will be, a success *)
Definition succ (t : athread) : bool := match a_resp t with Some r => status r <? 300 | None => a_delcons t end.
Definition t_spent (t : tstate) : bool := match t_resp t with Some _ => true | None => is_delcons t end.
Definition t_succ (t : tstate) : bool := match t_resp t with Some r => status r <? 300 | None => is_delcons t end.

Definition hstep (sp sc sp' sc' : bool) (d d' : db) : Prop :=
  (sp = true -> hv d' = hv d /\ sp' = true /\ (sc = true -> sc' = true)) /\
  (sp = false -> hv d' = hv d \/ (sp' = true /\ sc' = true)).
Lemma hs_same sp sc sp' sc' d d' : hv d' = hv d -> (sp = true -> sp' = true /\ (sc = true -> sc' = true)) -> hstep sp sc sp' sc' d d'.
Proof. intros H1 H2. split; [intro E; destruct (H2 E); auto|auto]. Qed.
Lemma hs_open sp' sc' d d' : hv d' = hv d -> hstep false false sp' sc' d d'.
Proof. intro H. split; [discriminate|auto]. Qed.
Lemma hs_commit sc d d' : hstep false sc true true d d'.
Proof. split; [discriminate|auto]. Qed.

Lemma cod_spent us r : t_spent (cleanup_or_done us r) = true /\ t_succ (cleanup_or_done us r) = (status r <? 300).
Proof. unfold t_spent, t_succ. rewrite cleanup_resp. auto. Qed.
Lemma hs_cod sc us s cd d d' : hv d' = hv d ->
  hstep false sc (t_spent (cleanup_or_done us (err s cd))) (t_succ (cleanup_or_done us (err s cd))) d d'.
Proof. intro H. split; [discriminate|auto]. Qed.

Lemma prov_write_hv r g d d' rs : prov_write r g d = (d', rs) -> d' = d \/ status rs < 300.
Proof. intro H. destruct (prov_write_outcome r g d d' rs 0 H) as [[_ E]|[E _]]; auto. Qed.

Lemma t_hstep t d : hstep (t_spent t) (t_succ t) (t_spent (snd (tstep t d))) (t_succ (snd (tstep t d))) d (fst (tstep t d)).
Proof.
  destruct t as [r|r|r g|x todo|x todo acc|x e todo acc|x e todo acc|x ks todo objs|x ks objs|todo r|c0|c0 rows|c0];
    cbn [tstep].
  - (* TDone *) apply hs_same; [reflexivity|auto].
  - (* TProvRead *)
    destruct (prov_target r) as [u0|]; [|apply hs_open; reflexivity].
    destruct (find_rp d u0) as [me|]; [|apply hs_open; reflexivity].
    destruct (prov_precheck r me d) as [e|]; apply hs_open; reflexivity.
  - (* TProvWrite *)
    destruct (prov_write r g d) as [d' rs] eqn:Ew. cbn [fst snd]. destruct (prov_write_hv _ _ _ _ _ Ew) as [->|Hs]; [apply hs_open; reflexivity|].
    unfold t_spent, t_succ. cbn [t_resp is_delcons]. apply Z.ltb_lt in Hs. rewrite Hs. apply hs_commit.
  - (* TRi *)
    destruct todo as [|r rest]; cbn [fst snd]; [apply hs_open; reflexivity|].
    destruct (find_rp d (ri_rp r)) as [me|]; [|apply hs_open; reflexivity].
    destruct (negb (ri_gen r =? rp_gen me)); apply hs_open; reflexivity.
  - (* TCons *)
    destruct todo as [|e rest]; cbn [fst snd]; [apply hs_open; reflexivity|]. cbv zeta.
    destruct (rq_attrs (x_cf x) (x_v x) e) as [[pj us] ty].
    destruct (find_cons d (ci_uuid e)) as [k|]; destruct (_ && _); cbn [fst snd]; apply hs_open; apply hv_aux.
  - (* TCreate *)
    destruct (rq_attrs (x_cf x) (x_v x) e) as [[pj us] ty].
    destruct (find_cons d (ci_uuid e)) as [k|]; cbn [fst snd]; apply hs_open; reflexivity.
  - (* TReload *)
    destruct (rq_attrs (x_cf x) (x_v x) e) as [[pj us] ty].
    destruct (find_cons d (ci_uuid e)) as [k|]; cbn [fst snd]; [|apply hs_open; reflexivity].
    destruct (28 <=? x_v x); apply hs_open; reflexivity.
  - (* TObjs *)
    destruct todo as [|w rest]; cbn [fst snd]; [apply hs_open; reflexivity|]. cbv zeta.
    destruct w as [k|k a]; [apply hs_open; reflexivity|]. destruct (find_rp d (ai_rp a)); apply hs_open; reflexivity.
  - (* TMain *)
    destruct (main_txn x ks objs d) as [d'|e0]; cbn [fst snd]; [|apply hs_open; reflexivity].
    destruct (cod_spent (created_uuids (empty_created ks (x_all x))) (ok 204)) as [-> ->]. apply hs_commit.
  - (* TCleanup *)
    destruct todo as [|u rest]; cbn [fst snd]; (apply hs_same; [reflexivity|]); [auto|]. intros _. destruct rest; auto.
  - (* TDelRead *) destruct (wipe_list d c0); apply hs_open; reflexivity.
  - (* TDelRows *) apply hs_commit.
  - (* TDelCons *) apply hs_same; [reflexivity|auto].
Qed.

Lemma a_hstep cf t d :
  hstep (spent t) (succ t) (spent (fst (astep cf t d))) (succ (fst (astep cf t d))) d (snd (astep cf t d)).
Proof.
  assert (Hok : forall s sc d1, s < 300 -> hstep false sc (spent (ADone (ok s))) (succ (ADone (ok s))) d d1).
  { intros s sc d1 Hs. unfold spent, succ. cbn [a_resp ADone ok status]. apply Z.ltb_lt in Hs. rewrite Hs. apply hs_commit. }
  destruct t as [t0|snap t0|t0|c0|t0|u0 g ts|u0 ts g|u0 ts g lost|v u0 g l|v u0 l g gone|n|n|n|old new|id new|n|id|t1|t1|t1|t1 stale].
  - (* ATree *)
    destruct t0 as [r|v u0 name parent|v u0 name parent|v u0 name np g|u0|u0|t0]; cbn [astep ttstep].
    + apply hs_same; [reflexivity|auto].
    + unfold h_rp_create. destruct (_ && _); [apply hs_open; reflexivity|].
      destruct (rp_create d u0 name parent) as [d'|e]; [|destruct e; apply hs_open; reflexivity].
      cbn [fst snd]. unfold spent, succ. cbn [a_resp]. destruct (20 <=? v); apply hs_commit.
    + destruct (find_rp d u0) as [me|]; [|apply hs_open; reflexivity]. destruct (_ && _); apply hs_open; reflexivity.
    + destruct (find_rp d u0) as [me|]; [|apply hs_open; reflexivity].
      destruct (rp_update d me name np (37 <=? v)) as [d'|e]; cbn [rp_update_answer]; [apply hs_commit|destruct e; apply hs_open; reflexivity].
    + destruct (find_rp d u0); apply hs_open; reflexivity.
    + destruct (rp_delete d u0) as [d'|e]; cbn [rp_delete_answer]; [apply hs_commit|destruct e; apply hs_open; reflexivity].
    + pose proof (t_hstep t0 d) as H. destruct (tstep t0 d) as [d' t']. exact H.
  - (* ACached *)
    destruct t0 as [r|r|r g|x todo|x todo acc|x e todo acc|x e todo acc|x ks todo objs|x ks objs|todo r|c1|c1 rows|c1];
      try (rewrite acached_default by (intros; discriminate); cbn [fst snd];
           match goal with |- context [tstep ?tt d] => exact (t_hstep tt d) end).
    + (* TObjs *)
      destruct todo as [|[k|k a] rest];
        try (rewrite acached_default by (intros; discriminate); cbn [fst snd];
             match goal with |- context [tstep ?tt d] => exact (t_hstep tt d) end).
      cbn [astep tstep]. destruct (cache_misses snap (wipe_list d (co_uuid k))); cbn [fst snd]; apply hs_open; reflexivity.
    + (* TMain *)
      cbn [astep]. unfold main_txn_cached.
      destruct (main_txn x ks objs (set_rcs d (rcs d ++ stale_rows d snap))) as [d'|e0]; cbn [fst snd]; [|apply hs_open; reflexivity].
      unfold spent, succ. cbn [a_resp a_delcons]. rewrite cleanup_resp. apply hs_commit.
  - (* ACacheLoad *)
    cbn [astep fst snd]. unfold spent, succ. cbn [a_resp a_delcons]. apply hs_same; [reflexivity|].
    intro E. destruct t0; cbn [is_delcons] in E; try discriminate. cbn [t_resp is_delcons]. auto.
  - (* ADelRead *)
    cbn [astep tstep]. destruct (wipe_list d c0); cbn [tdone fst snd]; apply hs_open; reflexivity.
  - (* ADelLoad *)
    cbn [astep fst snd]. unfold spent, succ. cbn [a_resp a_delcons]. apply hs_same; [reflexivity|].
    intro E. destruct t0; cbn [is_delcons] in E; try discriminate. cbn [t_resp is_delcons]. auto.
  - (* ATraitsRead *)
    cbn [astep]. destruct (find_rp d u0) as [me|]; [|apply hs_open; reflexivity]. destruct (negb _); apply hs_open; reflexivity.
  - (* ATraitsLook *) cbn [astep]. destruct (negb _); apply hs_open; reflexivity.
  - (* ATraitsWrite *)
    cbn [astep]. destruct (existsb _ ts); [apply hs_open; reflexivity|].
    destruct (set_traits_chk d u0 g ts) as [d'|e]; [|destruct e; apply hs_open; reflexivity].
    cbn [fst snd]. unfold spent, succ. cbn [a_resp ADone]. apply hs_commit.
  - (* AAggsRead *)
    cbn [astep]. destruct (find_rp d u0) as [me|]; [|apply hs_open; reflexivity]. destruct (_ && _); apply hs_open; reflexivity.
  - (* AAggsWrite *)
    cbn [astep]. destruct (if gone then None else find_rp d u0); [|apply hs_open; reflexivity].
    destruct (set_aggregates_txn d u0 g (dedup l) (19 <=? v)) as [d'|e]; [|apply hs_open; reflexivity].
    cbn [fst snd]. unfold spent, succ. cbn [a_resp ADone]. destruct (19 <=? v); apply hs_commit.
  - (* ARcCreate *) cbn [astep]. destruct (rc_create d n) as [d'|e]; [apply Hok; lia|apply hs_open; reflexivity].
  - (* ARcPutLook *) cbn [astep]. destruct (rc_id_of_name d n); apply hs_open; reflexivity.
  - (* ARcPutCreate *) cbn [astep]. destruct (rc_create d n) as [d'|e]; [apply Hok; lia|apply hs_open; reflexivity].
  - (* ARcRenLook *)
    cbn [astep]. destruct (rc_id_of_name d old) as [id|]; [|apply hs_open; reflexivity]. destruct (id <? MIN_CUSTOM_RC_ID); apply hs_open; reflexivity.
  - (* ARcRenSave *)
    cbn [astep]. destruct (negb _); [apply hs_open; reflexivity|]. destruct (_ || _); [apply hs_open; reflexivity|apply Hok; lia].
  - (* ARcDelLook *)
    cbn [astep]. destruct (rc_id_of_name d n) as [id|]; [|apply hs_open; reflexivity]. destruct (id <? MIN_CUSTOM_RC_ID); apply hs_open; reflexivity.
  - (* ARcDestroy *)
    cbn [astep]. destruct (existsb _ (invs d)); [apply hs_open; reflexivity|]. destruct (negb _); [apply hs_open; reflexivity|apply Hok; lia].
  - (* ATraitPutLook *) cbn [astep]. destruct (trait_exists d t1); apply hs_open; reflexivity.
  - (* ATraitCreate *) cbn [astep]. destruct (trait_create d t1) as [d'|e]; [apply Hok; lia|apply hs_open; reflexivity].
  - (* ATraitDelLook *)
    cbn [astep]. destruct (negb _); [apply hs_open; reflexivity|]. destruct (is_std_trait t1); apply hs_open; reflexivity.
  - (* ATraitDestroy *)
    cbn [astep]. destruct stale; [apply hs_open; reflexivity|]. destruct (existsb _ (rp_traits d)); [apply hs_open; reflexivity|].
    destruct (negb _); [apply hs_open; reflexivity|apply Hok; lia].
Qed.

(* ================================================================ positions in the thread list *)
Lemma raw_nth cf : forall ts i d,
  match nth_error ts i with
  | Some t => nth_error (fst (a_step_raw cf i ts d)) i = Some (fst (astep cf t d)) /\ snd (a_step_raw cf i ts d) = snd (astep cf t d)
  | None => a_step_raw cf i ts d = (ts, d)
  end /\
  forall j, j <> i -> nth_error (fst (a_step_raw cf i ts d)) j = nth_error ts j.
Proof.
  induction ts as [|t ts IH]; intros i d; [destruct i; (cbn; split; [reflexivity|intros j _; reflexivity])|].
  destruct i as [|i]; cbn [a_step_raw nth_error].
  - destruct (astep cf t d) as [t' d']. cbn [fst snd]. split; [split; reflexivity|]. intros [|j] Hj; [contradiction|reflexivity].
  - destruct (IH i d) as [I1 I2]. destruct (a_step_raw cf i ts d) as [ts' d']. cbn [fst snd] in *. split.
    + destruct (nth_error ts i); [exact I1|]. injection I1 as -> ->. reflexivity.
    + intros [|j] Hj; cbn [nth_error]; [reflexivity|]. apply I2. congruence.
Qed.

(* what one step of the schedule does to the thread list: the stepping thread makes one transaction, every thread is noted *)
Lemma step_nth cf ts i d :
  let ts' := fst (a_step_thread cf i ts d) in let d' := snd (a_step_thread cf i ts d) in
  exists gt gp,
    match nth_error ts i with
    | Some t => nth_error ts' i = Some (anote gt gp (fst (astep cf t d))) /\ d' = snd (astep cf t d)
    | None => d' = d
    end /\
    forall j, j <> i \/ nth_error ts i = None -> nth_error ts' j = option_map (anote gt gp) (nth_error ts j).
Proof.
  cbv zeta. destruct (raw_nth cf ts i d) as [R1 R2]. unfold a_step_thread.
  destruct (a_step_raw cf i ts d) as [ts1 d1] eqn:Es. cbn [fst snd] in *.
  exists (gone_traits d d1), (gone_rps d d1). split.
  - destruct (nth_error ts i) as [t|]; [|congruence]. destruct R1 as [R1 ->]. split; [|reflexivity].
    rewrite nth_error_map, R1. reflexivity.
  - intros j [Hj|Hn]; rewrite nth_error_map.
    + rewrite (R2 j Hj). reflexivity.
    + rewrite Hn in R1. injection R1 as -> _. reflexivity.
Qed.

Lemma anote_spent gt gp t : spent (anote gt gp t) = spent t /\ succ (anote gt gp t) = succ t.
Proof. unfold spent, succ. rewrite anote_resp. destruct t; auto. Qed.

(* one step of the schedule: spent threads stay spent (and successful), and either the heavy tables are as before or the
   stepping thread was not spent and now is, with a success *)
Lemma step_hv cf ts i d :
  let ts' := fst (a_step_thread cf i ts d) in let d' := snd (a_step_thread cf i ts d) in
  (forall j t, nth_error ts j = Some t -> exists t', nth_error ts' j = Some t' /\
     (spent t = true -> spent t' = true /\ (succ t = true -> succ t' = true))) /\
  (hv d' = hv d \/ exists t t', nth_error ts i = Some t /\ nth_error ts' i = Some t' /\ spent t = false /\ spent t' = true /\ succ t' = true).
Proof.
  cbv zeta. destruct (step_nth cf ts i d) as (gt & gp & S1 & S2). cbv zeta in S1, S2. split.
  - intros j t Hj. destruct (Nat.eq_dec j i) as [->|Hne].
    + rewrite Hj in S1. destruct S1 as [S1 _]. eexists. split; [exact S1|]. intro Hs.
      destruct (anote_spent gt gp (fst (astep cf t d))) as [-> ->]. destruct (proj1 (a_hstep cf t d) Hs) as (_ & A & B). auto.
    + rewrite (S2 j (or_introl Hne)), Hj. eexists. split; [reflexivity|]. destruct (anote_spent gt gp t) as [-> ->]. auto.
  - destruct (nth_error ts i) as [t|] eqn:Hi; [|left; rewrite S1; reflexivity]. destruct S1 as [S1 ->].
    destruct (spent t) eqn:Hs.
    + left. apply (proj1 (a_hstep cf t d) Hs).
    + destruct (proj2 (a_hstep cf t d) Hs) as [H|[A B]]; [left; exact H|right].
      exists t, (anote gt gp (fst (astep cf t d))). destruct (anote_spent gt gp (fst (astep cf t d))) as [-> ->]. auto.
Qed.

Lemma run_spent cf : forall s ts d j t, nth_error ts j = Some t -> spent t = true ->
  exists t', nth_error (fst (a_run_sched cf s ts d)) j = Some t' /\ spent t' = true /\ (succ t = true -> succ t' = true).
Proof.
  induction s as [|i s IH]; intros ts d j t Hj Hs; cbn [a_run_sched]; [exists t; auto|].
  destruct (proj1 (step_hv cf ts i d) j t Hj) as (t1 & H1 & H2). destruct (H2 Hs) as [A B].
  destruct (a_step_thread cf i ts d) as [ts1 d1]. cbn [fst snd] in *.
  destruct (IH ts1 d1 j t1 H1 A) as (t' & E & F & G). exists t'. auto.
Qed.

(* ================================================================ C04 (b), (c) *)
(* the k-th step of schedule s: the states before and after it *)
Definition before_step (cf : cfg) (reqs : list req) (s : list nat) (d : db) (k : nat) : list athread * db :=
  a_exec cf reqs (firstn k s) d.
Definition after_step (cf : cfg) (reqs : list req) (s : list nat) (d : db) (k : nat) : list athread * db :=
  a_exec cf reqs (firstn (S k) s) d.
Lemma firstn_S_nth {A} : forall (s : list A) k i, nth_error s k = Some i -> firstn (S k) s = firstn k s ++ [i].
Proof.
  induction s as [|x s IH]; intros k i H; [destruct k; discriminate|]. destruct k as [|k]; cbn [nth_error firstn] in *.
  - injection H as ->. reflexivity.
  - rewrite (IH k i H). reflexivity.
Qed.
Lemma firstn_plus {A} : forall a b (s : list A), firstn (a + b) s = firstn a s ++ firstn b (skipn a s).
Proof. induction a as [|a IH]; intros b s; [reflexivity|]. destruct s as [|x s]; [destruct b; reflexivity|]. cbn. rewrite IH. reflexivity. Qed.
Lemma after_is_step cf reqs s d k i : nth_error s k = Some i ->
  after_step cf reqs s d k = a_step_thread cf i (fst (before_step cf reqs s d k)) (snd (before_step cf reqs s d k)).
Proof.
  intro H. unfold after_step, before_step, a_exec. rewrite (firstn_S_nth s k i H), C08c.a_run_sched_app. cbn [a_run_sched].
  destruct (a_step_thread cf i _ _). reflexivity.
Qed.
Lemma exec_from_after cf reqs s d k :
  a_exec cf reqs s d = a_run_sched cf (skipn (S k) s) (fst (after_step cf reqs s d k)) (snd (after_step cf reqs s d k)).
Proof. unfold after_step, a_exec. rewrite <- C08c.a_run_sched_app, firstn_skipn. reflexivity. Qed.

(* (b) any start state, any requests, any schedule: a step of request i that changes a heavy table (providers, inventories,
   allocations, trait / aggregate associations, classes, traits, aggregates) leaves request i with a success fixed or
   certain; so a request that ends with an answer >= 300 has changed none of them at any point - each of its transactions
   was rolled back or touched only consumers / projects / users / consumer types *)
Theorem c04a_rejected_no_trace : forall cf reqs s d k i t r,
  nth_error s k = Some i ->
  nth_error (fst (a_exec cf reqs s d)) i = Some t -> a_resp t = Some r -> 300 <= status r ->
  hv (snd (after_step cf reqs s d k)) = hv (snd (before_step cf reqs s d k)).
Proof.
  intros cf reqs s d k i t r Hk Ht Hr Hs. pose proof (after_is_step cf reqs s d k i Hk) as Ea.
  destruct (proj2 (step_hv cf (fst (before_step cf reqs s d k)) i (snd (before_step cf reqs s d k)))) as [H|(t0 & t1 & _ & H1 & _ & H2 & H3)].
  - rewrite Ea. exact H.
  - exfalso. rewrite <- Ea in H1. destruct (run_spent cf (skipn (S k) s) _ (snd (after_step cf reqs s d k)) i t1 H1 H2) as (t' & E & _ & G).
    rewrite <- exec_from_after in E. rewrite Ht in E. injection E as <-. specialize (G H3). unfold succ in G. rewrite Hr in G.
    apply Z.ltb_lt in G. lia.
Qed.

(* (c) at most one transaction of a request changes a heavy table *)
Theorem c04a_one_commit : forall cf reqs s d k1 k2 i,
  (k1 < k2)%nat -> nth_error s k1 = Some i -> nth_error s k2 = Some i ->
  hv (snd (after_step cf reqs s d k1)) <> hv (snd (before_step cf reqs s d k1)) ->
  hv (snd (after_step cf reqs s d k2)) = hv (snd (before_step cf reqs s d k2)).
Proof.
  intros cf reqs s d k1 k2 i Hlt H1 H2 Hch. pose proof (after_is_step cf reqs s d k1 i H1) as E1.
  destruct (proj2 (step_hv cf (fst (before_step cf reqs s d k1)) i (snd (before_step cf reqs s d k1)))) as [H|(t0 & t1 & _ & T1 & _ & S1 & _)];
    [exfalso; apply Hch; rewrite E1; exact H|].
  rewrite <- E1 in T1.
  (* from after k1 to before k2 *)
  assert (Eb : before_step cf reqs s d k2 =
               a_run_sched cf (firstn (k2 - S k1) (skipn (S k1) s)) (fst (after_step cf reqs s d k1)) (snd (after_step cf reqs s d k1))).
  { unfold before_step, after_step, a_exec. rewrite <- C08c.a_run_sched_app. f_equal.
    replace k2 with (S k1 + (k2 - S k1))%nat at 1 by lia. rewrite firstn_plus. reflexivity. }
  destruct (run_spent cf (firstn (k2 - S k1) (skipn (S k1) s)) _ (snd (after_step cf reqs s d k1)) i t1 T1 S1) as (t2 & T2 & S2 & _).
  rewrite <- Eb in T2. pose proof (after_is_step cf reqs s d k2 i H2) as E2.
  destruct (proj2 (step_hv cf (fst (before_step cf reqs s d k2)) i (snd (before_step cf reqs s d k2)))) as [H|(t3 & _ & T3 & _ & S3 & _)].
  - rewrite E2. exact H.
  - rewrite T2 in T3. injection T3 as <-. congruence.
Qed.

(* ... and a request whose transaction changed a heavy table is answered with success, if it is answered *)
Theorem c04a_commit_is_success : forall cf reqs s d k i t r,
  nth_error s k = Some i ->
  hv (snd (after_step cf reqs s d k)) <> hv (snd (before_step cf reqs s d k)) ->
  nth_error (fst (a_exec cf reqs s d)) i = Some t -> a_resp t = Some r -> status r < 300.
Proof.
  intros cf reqs s d k i t r Hk Hch Ht Hr. destruct (Z_lt_le_dec (status r) 300) as [H|H]; [exact H|].
  exfalso. apply Hch. eapply c04a_rejected_no_trace; eassumption.
Qed.

(* ================================================================ C12: which consumers hold allocations after the main transaction *)
Definition stray (d : db) (c : Z) : Prop := cgen_of d c <> None /\ ~ holds_allocs d c.

Lemma sa_rows w0 l0 w1 : set_allocations w0 l0 = Ok w1 ->
  (forall c, ~ In c (map q_cons l0) -> (holds_allocs w1 c <-> holds_allocs w0 c)) /\
  (forall c, In c (map q_cons l0) -> cgl (consumers w1) c <> None -> holds_allocs w1 c).
Proof.
  intro H. pose proof (C01.set_allocations_inv _ _ _ H) as (_ & _ & HA). split.
  - intros c Hc. unfold holds_allocs. rewrite HA. unfold C01.purge. cbn [allocs set_allocs]. split.
    + intros (a & Ha & Ea). apply in_app_or in Ha. destruct Ha as [Ha|Ha].
      * apply filter_In in Ha. exists a. split; [apply Ha|exact Ea].
      * exfalso. apply in_map_iff in Ha. destruct Ha as (o & <- & Ho). apply filter_In in Ho. apply Hc. subst c. change (In (q_cons o) (map q_cons l0)). apply in_map. apply Ho.
    + intros (a & Ha & Ea). exists a. split; [|exact Ea]. apply in_or_app. left. apply filter_In. split; [exact Ha|].
      apply negb_true_iff, memZ_nIn. rewrite Ea. exact Hc.
  - intros c Hc Hne. revert H. unfold set_allocations. cbv zeta. intro H.
    destruct (check_capacity _ l0) as [[]|]; [|discriminate]. cbn [bind] in H.
    destruct (cas_rps _ _) as [d3|] eqn:E3; [|discriminate]. cbn [bind] in H.
    destruct (cas_conss _ _) as [d4|] eqn:E4; [|discriminate]. cbn [bind] in H. injection H as <-.
    apply cas_rps_spec in E3. destruct E3 as (_ & A3 & _). cbn in A3.
    apply cas_conss_spec in E4. destruct E4 as ((_ & _ & A4 & _) & _). rewrite A3 in A4.
    unfold holds_allocs. unfold delete_consumers_if_no_allocations in *. cbn [consumers set_consumers allocs] in *.
    revert Hne.
    match goal with |- cgl (filter ?f _) _ <> _ -> _ =>
      match f with (fun c => negb (memZ _ ?cs && negb (existsb _ ?al))) =>
        rewrite (cgl_filter (fun z => negb (memZ z cs && negb (existsb (fun a => a_cons a =? z) al)))) end end.
    destruct (existsb (fun a => a_cons a =? c) (allocs d4)) eqn:Ex.
    + intros _. apply existsb_exists in Ex. destruct Ex as (a & Ha & Ea). apply Z.eqb_eq in Ea. eauto.
    + match goal with |- (if negb (memZ c ?cs && _) then _ else _) <> _ -> _ => destruct (memZ c cs) eqn:M end;
        cbn [andb negb]; [intro Hn; exfalso; apply Hn; reflexivity|]. intros _.
      apply memZ_nIn in M. assert (Hw : In c (map q_cons (filter (fun a => 0 <? q_amt a) l0))).
      { destruct (memZ c (map q_cons (filter (fun a => 0 <? q_amt a) l0))) eqn:M2; [apply memZ_In; exact M2|].
        exfalso. apply M. apply filter_In. split; [apply dedup_In; exact Hc|]. rewrite M2. reflexivity. }
      apply in_map_iff in Hw. destruct Hw as (o & Eo & Ho). apply filter_In in Ho. destruct Ho as [Ho Hp]. apply Z.ltb_lt in Hp.
      exists (mkAlloc (q_cons o) (q_rp o) (q_rc o) (q_amt o)). split; [|exact Eo]. rewrite A4. apply in_or_app. right.
      apply in_map_iff. exists o. split; [reflexivity|]. apply filter_In. split; [exact Ho|]. apply negb_true_iff, Z.eqb_neq. lia.
Qed.

Lemma replace_all_rows : forall fuel c0 w l w', replace_all fuel c0 w l = Ok w' ->
  exists w0 l0, map strip l0 = map strip l /\ (forall c, cgl (consumers w0) c = cgl (consumers w) c) /\
    (forall c, ~ In c (map q_cons l) -> (holds_allocs w0 c <-> holds_allocs w c)) /\ set_allocations w0 l0 = Ok w'.
Proof.
  induction fuel as [|f IH]; intros c0 w l w' H; cbn [replace_all] in H; [discriminate|].
  destruct (set_allocations_w w l) as [w1 [e|]] eqn:E.
  - destruct e; try discriminate. pose proof (C18.saw_shape _ _ _ _ E) as (_ & _ & _ & _ & _ & _ & _ & Hal & _).
    apply saw_spec in E. destruct E as (_ & E). destruct (E eq_refl) as (C & _).
    destruct (refresh c0 l) as [l1|] eqn:R; [|discriminate].
    destruct (IH _ _ _ _ H) as (w0 & l0 & S0 & C0 & R0 & H0). pose proof (refresh_strip _ _ _ R) as S1.
    exists w0, l0. split; [congruence|]. split; [intro c; rewrite C0, C; reflexivity|]. split; [|exact H0].
    intros c Hc. rewrite R0 by (rewrite (strip_conss _ _ S1); exact Hc). unfold holds_allocs.
    assert (Hp : forall a, In a (allocs (C01.purge w l)) <-> In a (allocs w) /\ ~ In (a_cons a) (map q_cons l)).
    { intro a. unfold C01.purge. cbn [allocs set_allocs]. rewrite filter_In, negb_true_iff, memZ_nIn. tauto. }
    split.
    + intros (a & Ha & Ea). exists a. split; [|exact Ea]. destruct Hal as [Hal|[_ Hal]]; rewrite Hal in Ha.
      * apply Hp in Ha. apply Ha.
      * apply in_app_or in Ha. destruct Ha as [Ha|Ha]; [apply Hp in Ha; apply Ha|].
        exfalso. apply in_map_iff in Ha. destruct Ha as (o & <- & Ho). apply filter_In in Ho. apply Hc. subst c. change (In (q_cons o) (map q_cons l)). apply in_map. apply Ho.
    + intros (a & Ha & Ea). exists a. split; [|exact Ea]. assert (Hpa : In a (allocs (C01.purge w l))) by (apply Hp; rewrite Ea; auto).
      destruct Hal as [Hal|[_ Hal]]; rewrite Hal; [exact Hpa|apply in_or_app; left; exact Hpa].
  - inv H. apply saw_spec in E. destruct E as (E & _). exists w, l. repeat split; auto; tauto.
Qed.

Lemma holds_ac d d' c : C12.ac d' = C12.ac d -> (holds_allocs d' c <-> holds_allocs d c).
Proof. unfold C12.ac. intro E. injection E as E _. unfold holds_allocs. rewrite E. tauto. Qed.

Lemma main_rows x ks objs d d' : main_txn x ks objs d = Ok d' ->
  (forall c, ~ In c (map q_cons objs) -> (holds_allocs d' c <-> holds_allocs d c)) /\
  (forall c, In c (map q_cons objs) -> cgen_of d' c <> None -> holds_allocs d' c).
Proof.
  unfold main_txn. cbv zeta. intro H.
  destruct (fold_update_spec ks d) as [(_ & _ & AL & _) CG].
  assert (HU : forall c, holds_allocs (fold_left update_consumer ks d) c <-> holds_allocs d c) by (intro c; unfold holds_allocs; rewrite AL; tauto).
  assert (K : forall dm objs' w', (forall c, holds_allocs dm c <-> holds_allocs d c) -> map strip objs' = map strip objs ->
     replace_all retry_fuel d dm objs' = Ok w' ->
     (forall c, ~ In c (map q_cons objs) -> (holds_allocs w' c <-> holds_allocs d c)) /\
     (forall c, In c (map q_cons objs) -> cgl (consumers w') c <> None -> holds_allocs w' c)).
  { intros dm objs' w' Hdm S' H'. apply replace_all_rows in H'. destruct H' as (w0 & l0 & S0 & _ & R0 & H0).
    destruct (sa_rows _ _ _ H0) as [Y1 Y2]. rewrite (strip_conss _ _ S0), (strip_conss _ _ S') in Y1, Y2.
    rewrite (strip_conss _ _ S') in R0. split; [|exact Y2].
    intros c Hc. rewrite (Y1 c Hc), (R0 c Hc). apply Hdm. }
  destruct (x_kind x); [exact (K _ _ _ HU eq_refl H)|exact (K _ _ _ HU eq_refl H)|].
  unfold reshape_txn_c in H.
  destruct (reshape_interim _ (x_ri x)) as [[d1 gens]|] eqn:E1; cbn [bind] in H; [|discriminate].
  destruct (replace_all retry_fuel d d1 _) as [d2|] eqn:E2; cbn [bind] in H; [|discriminate].
  pose proof (C12.reshape_interim_ac _ _ _ E1) as A1. cbn [fst] in A1. pose proof (C12.reshape_final_ac _ _ _ _ H) as A3.
  assert (H1 : forall c, holds_allocs d1 c <-> holds_allocs d c) by (intro c; rewrite (holds_ac _ _ c A1); apply HU).
  destruct (K d1 _ d2 H1 (strip_lookup gens objs) E2) as [Y1 Y2].
  split.
  - intros c Hc. rewrite (holds_ac _ _ c A3). apply Y1. exact Hc.
  - intros c Hc Hne. rewrite (holds_ac _ _ c A3). apply Y2; [exact Hc|].
    unfold C12.ac in A3. injection A3 as _ A3. rewrite cgen_cgl, A3 in Hne. exact Hne.
Qed.

(* ================================================================ what a thread owes, and what it knows about its own objects *)
Definition ewf (e : cons_in) : Prop := forall a, In a (ci_allocs e) -> exists y, In y (ai_res a) /\ 0 < snd y.
Definition posobj (objs : list areq) (k : cobj) : Prop := exists o, In o objs /\ q_cons o = co_uuid k /\ 0 < q_amt o.
Definition postodo (todo : list witem) (k : cobj) : Prop := exists a y, In (WRp k a) todo /\ In y (ai_res a) /\ 0 < snd y.
(* every consumer the request has created is either one it will remove after its write (an entry with empty allocations) or
   one for which it has, or will have, an allocation object with a positive amount *)
Definition cov (x : actx) (ks : list cobj) (todo : list witem) (objs : list areq) : Prop :=
  forall k, In k ks -> co_created k = true -> In k (empty_created ks (x_all x)) \/ posobj objs k \/ postodo todo k.
Definition t_tw (t : tstate) : Prop :=
  match t with
  | TRi x _ => Forall ewf (x_all x)
  | TCons x todo acc => (length acc + length todo = length (x_all x))%nat /\ Forall ewf (x_all x)
  | TCreate x e todo acc | TReload x e todo acc => (length acc + S (length todo) = length (x_all x))%nat /\ Forall ewf (x_all x)
  | TObjs x ks todo objs => cov x ks todo objs
  | TMain x ks objs => cov x ks [] objs
  | TDelRows c rows => forall b, In b rows -> a_cons b = c
  | _ => True
  end.
(* the consumer records the thread will still try to remove: those it has created (until its write gives them allocations),
   those on its clean-up list, the one of DELETE /allocations between its two transactions *)
Definition t_owes (t : tstate) (c : Z) : Prop :=
  match t with
  | TCons _ _ acc | TCreate _ _ _ acc | TReload _ _ _ acc => In c (created_uuids acc)
  | TObjs _ ks _ _ | TMain _ ks _ => In c (created_uuids ks)
  | TCleanup todo _ => In c todo
  | TDelCons c0 => c = c0
  | _ => False
  end.
Lemma t_owes_dec t c : {t_owes t c} + {~ t_owes t c}.
Proof. destruct t; cbn [t_owes]; try (right; tauto); try apply (in_dec Z.eq_dec). apply Z.eq_dec. Qed.

Lemma owes_cod us r c : t_owes (cleanup_or_done us r) c <-> In c us.
Proof. destruct us; cbn; tauto. Qed.
Lemma tw_cod us r : t_tw (cleanup_or_done us r).
Proof. destruct us; exact I. Qed.
Lemma owes_after_cons x ks c : t_owes (after_cons x ks) c <-> In c (created_uuids ks).
Proof. unfold after_cons. destruct (work_items ks (x_all x)); cbn [t_owes]; tauto. Qed.
Lemma created_rev l c : In c (created_uuids (rev l)) <-> In c (created_uuids l).
Proof.
  unfold created_uuids. rewrite !in_map_iff. split; intros (k & E & Hk); exists k; (split; [exact E|]);
    apply filter_In in Hk; apply filter_In; (split; [|apply Hk]); [apply in_rev|apply -> in_rev]; apply Hk.
Qed.

Lemma cov_init : forall ks l, (length ks <= length l)%nat -> Forall ewf l ->
  forall k, In k ks -> In k (empty_created ks l) \/ postodo (work_items ks l) k.
Proof.
  induction ks as [|k0 ks IH]; intros l Hl Hw k Hk; [destruct Hk|]. destruct l as [|e l]; [cbn in Hl; lia|].
  cbn [length] in Hl. inversion Hw as [|? ? He Hw']. subst. cbn [empty_created work_items].
  assert (Hrec : In k ks -> In k (empty_created ks l) \/ postodo (work_items ks l) k) by (apply IH; [lia|exact Hw']).
  destruct (ci_allocs e) as [|al als] eqn:Ea.
  - destruct Hk as [<-|Hk]; [left; left; reflexivity|]. destruct (Hrec Hk) as [H|(a & y & H1 & H2)]; [left; right; exact H|].
    right. exists a, y. split; [right; exact H1|exact H2].
  - destruct Hk as [<-|Hk].
    + right. destruct (He al) as (y & Hy & Hp); [rewrite Ea; left; reflexivity|]. exists al, y. split; [|auto].
      apply in_or_app. left. left. reflexivity.
    + destruct (Hrec Hk) as [H|(a & y & H1 & H2)]; [left; exact H|]. right. exists a, y. split; [|exact H2]. apply in_or_app. right. exact H1.
Qed.
Lemma tw_after_cons x ks : length ks = length (x_all x) -> Forall ewf (x_all x) -> t_tw (after_cons x ks).
Proof.
  intros Hl Hw. unfold after_cons. destruct (work_items ks (x_all x)) as [|w ws] eqn:E; cbn [t_tw]; intros k Hk _;
    (destruct (cov_init ks (x_all x) ltac:(lia) Hw k Hk) as [H|H]; [left; exact H|right; right; rewrite <- E; exact H]).
Qed.

Lemma stray_ac d d' c : C12.ac d' = C12.ac d -> (stray d' c <-> stray d c).
Proof.
  intro E. unfold stray. rewrite (holds_ac _ _ c E). unfold C12.ac in E. injection E as _ E. rewrite !cgen_cgl, E. tauto.
Qed.
Lemma aux_names_ac cf v d c : C12.ac (aux_names cf v d c) = C12.ac d.
Proof. unfold aux_names. cbv zeta. destruct (38 <=? v); reflexivity. Qed.

Definition tstep_ok (t t' : tstate) (d d' : db) : Prop :=
  t_tw t' /\ forall c, stray d' c -> ~ t_owes t' c -> stray d c /\ ~ t_owes t c.
Lemma ts_same t t' d d' : t_tw t' -> C12.ac d' = C12.ac d -> (forall c, t_owes t c -> t_owes t' c) -> tstep_ok t t' d d'.
Proof. intros Hw E Ho. split; [exact Hw|]. intros c Hs Hn. split; [apply (stray_ac _ _ c E); exact Hs|intro H; apply Hn, Ho, H]. Qed.

Lemma dcina_deletes d u : ~ holds_allocs d u -> cgen_of (delete_consumers_if_no_allocations d [u]) u = None.
Proof.
  intro Hn. rewrite cgen_cgl. unfold delete_consumers_if_no_allocations. cbn [consumers set_consumers].
  match goal with |- cgl (filter ?f _) _ = _ =>
    match f with (fun c => negb (memZ _ ?cs && negb (existsb _ ?al))) =>
      rewrite (cgl_filter (fun z => negb (memZ z cs && negb (existsb (fun a => a_cons a =? z) al)))) end end.
  assert (M : memZ u [u] = true) by (apply memZ_In; left; reflexivity). rewrite M.
  destruct (existsb (fun a => a_cons a =? u) (allocs d)) eqn:Ex; [|reflexivity].
  exfalso. apply Hn. apply existsb_exists in Ex. destruct Ex as (a & Ha & Ea). apply Z.eqb_eq in Ea. exists a. auto.
Qed.
Lemma dcina_step d u c : let d' := delete_consumers_if_no_allocations d [u] in stray d' c -> c <> u /\ stray d c.
Proof.
  cbv zeta. intros [H1 H2]. assert (Hh : ~ holds_allocs d c) by exact H2. split.
  - intros ->. apply H1. apply dcina_deletes. exact Hh.
  - split; [|exact Hh]. destruct (dcina_effect d [u] c) as [E|[g [E1 E2]]]; [rewrite <- E; exact H1|contradiction].
Qed.

Lemma prov_write_ac r g0 d0 d1 rs : prov_write r g0 d0 = (d1, rs) -> C12.ac d1 = C12.ac d0.
Proof.
  intro H. assert (K : forall u g, bumped u g d0 d1 -> C12.ac d1 = C12.ac d0).
  { intros u g Hb. apply bumped_spec in Hb. destruct Hb as (_ & _ & _ & A & B & _). unfold C12.ac. rewrite A, B. reflexivity. }
  unfold prov_write in H. destruct r; try (inv H; reflexivity); pw_split H E; try (pw_err H; reflexivity); inv H.
  - eapply K, set_inventory_bumped; eassumption.
  - eapply K, add_inventory_bumped; eassumption.
  - eapply K, update_inventory_bumped; eassumption.
  - eapply K, delete_inventory_bumped; eassumption.
  - eapply K, set_inventory_bumped; eassumption.
  - apply set_traits_c_spec in E. destruct E as (_ & [(_ & ->)|(_ & B)]); [reflexivity|eapply K; eassumption].
  - apply set_traits_c_spec in E. destruct E as (_ & [(_ & ->)|(_ & B)]); [reflexivity|eapply K; eassumption].
  - eapply C12.set_aggregates_txn_ac; eassumption.
Qed.

Lemma t_cstep t d : t_tw t -> tstep_ok t (snd (tstep t d)) d (fst (tstep t d)).
Proof.
  intro Hw.
  destruct t as [r|r|r g|x todo|x todo acc|x e todo acc|x e todo acc|x ks todo objs|x ks objs|todo r|c0|c0 rows|c0];
    cbn [t_tw] in Hw; cbn [tstep].
  - (* TDone *) apply ts_same; [exact I|reflexivity|auto].
  - (* TProvRead *)
    destruct (prov_target r) as [u0|]; [|apply ts_same; [exact I|reflexivity|auto]].
    destruct (find_rp d u0) as [me|]; [|apply ts_same; [exact I|reflexivity|auto]].
    destruct (prov_precheck r me d) as [e|]; apply ts_same; try exact I; try reflexivity; auto.
  - (* TProvWrite *)
    destruct (prov_write r g d) as [d' rs] eqn:Ew. cbn [fst snd]. apply ts_same; [exact I|eapply prov_write_ac; exact Ew|auto].
  - (* TRi *)
    assert (Hnext : forall d1, d1 = d -> tstep_ok (TRi x todo) (match x_all x with [] => after_cons x [] | c1 :: l1 => TCons x (c1 :: l1) [] end) d d1).
    { intros d1 ->. apply ts_same; [|reflexivity|cbn [t_owes]; tauto].
      destruct (x_all x) as [|e l] eqn:El; [apply tw_after_cons; [rewrite El; reflexivity|rewrite El; constructor]|].
      cbn [t_tw length]. rewrite El. split; [reflexivity|exact Hw]. }
    destruct todo as [|r rest]; cbn [fst snd]; [apply Hnext; reflexivity|].
    destruct (find_rp d (ri_rp r)) as [me|]; [|apply ts_same; [exact I|reflexivity|cbn [t_owes]; tauto]].
    destruct (negb (ri_gen r =? rp_gen me)); cbn [fst snd]; [apply ts_same; [exact I|reflexivity|cbn [t_owes]; tauto]|].
    destruct rest as [|r2 rest2]; [|apply ts_same; [exact Hw|reflexivity|cbn [t_owes]; tauto]].
    exact (Hnext d eq_refl).
  - (* TCons *)
    destruct Hw as [Hl Hw].
    destruct todo as [|e rest]; cbn [fst snd].
    { apply ts_same; [apply tw_after_cons; [rewrite rev_length; cbn [length] in Hl; lia|exact Hw]|reflexivity|].
      intros c Hc. apply owes_after_cons, created_rev. exact Hc. }
    cbv zeta. destruct (rq_attrs (x_cf x) (x_v x) e) as [[pj us] ty]. pose proof (aux_names_ac (x_cf x) (x_v x) d e) as Ea.
    cbn [length] in Hl.
    destruct (find_cons d (ci_uuid e)) as [k|] eqn:F.
    + destruct (_ && _); cbn [fst snd]; [apply ts_same; [apply tw_cod|exact Ea|intros c Hc; apply owes_cod; exact Hc]|].
      destruct rest as [|e2 rest2].
      * apply ts_same; [apply tw_after_cons; [rewrite rev_length; cbn [length] in *; lia|exact Hw]|exact Ea|].
        intros c Hc. apply owes_after_cons, created_rev. exact Hc.
      * apply ts_same; [cbn [t_tw length] in *; split; [lia|exact Hw]|exact Ea|auto].
    + destruct (_ && _); cbn [fst snd]; [apply ts_same; [apply tw_cod|exact Ea|intros c Hc; apply owes_cod; exact Hc]|].
      apply ts_same; [cbn [t_tw]; split; [lia|exact Hw]|exact Ea|auto].
  - (* TCreate *)
    destruct Hw as [Hl Hw]. destruct (rq_attrs (x_cf x) (x_v x) e) as [[pj us] ty].
    destruct (find_cons d (ci_uuid e)) as [k|] eqn:F; cbn [fst snd]; [apply ts_same; [split; assumption|reflexivity|auto]|].
    assert (Hn : cgen_of d (ci_uuid e) = None) by (unfold cgen_of; rewrite F; reflexivity).
    set (k' := mkCobj (ci_uuid e) 0 pj us ty true pj us ty).
    set (d' := set_consumers d (consumers d ++ [mkCons (ci_uuid e) pj us ty 0])).
    assert (Hst : forall c, stray d' c -> ~ In c (created_uuids (k' :: acc)) -> stray d c /\ ~ In c (created_uuids acc)).
    { intros c [S1 S2] Hni. assert (Hc : c <> ci_uuid e) by (intros ->; apply Hni; left; reflexivity).
      destruct (create_effect d (mkCons (ci_uuid e) pj us ty 0) c Hn eq_refl) as [_ C2]. cbn [c_uuid] in C2.
      split; [split; [rewrite <- (C2 Hc); exact S1|exact S2]|]. intro Hin. apply Hni. right. exact Hin. }
    split.
    + destruct todo as [|e2 rest2]; [apply tw_after_cons; [rewrite rev_length; cbn [length] in *; lia|exact Hw]|cbn [t_tw length] in *; split; [lia|exact Hw]].
    + intros c Hs Hno. apply Hst; [exact Hs|]. intro Hin. apply Hno.
      destruct todo as [|e2 rest2]; [apply owes_after_cons, created_rev; exact Hin|exact Hin].
  - (* TReload *)
    destruct Hw as [Hl Hw]. destruct (rq_attrs (x_cf x) (x_v x) e) as [[pj us] ty].
    destruct (find_cons d (ci_uuid e)) as [k|] eqn:F; cbn [fst snd]; [|apply ts_same; [apply tw_cod|reflexivity|intros c Hc; apply owes_cod; exact Hc]].
    destruct (28 <=? x_v x); cbn [fst snd]; [apply ts_same; [apply tw_cod|reflexivity|intros c Hc; apply owes_cod; exact Hc]|].
    destruct todo as [|e2 rest2].
    + apply ts_same; [apply tw_after_cons; [rewrite rev_length; cbn [length] in *; lia|exact Hw]|reflexivity|].
      intros c Hc. apply owes_after_cons, created_rev. exact Hc.
    + apply ts_same; [cbn [t_tw length] in *; split; [lia|exact Hw]|reflexivity|auto].
  - (* TObjs *)
    destruct todo as [|w rest]; cbn [fst snd]; [apply ts_same; [exact Hw|reflexivity|auto]|]. cbv zeta.
    assert (Hnext : forall objs', cov x ks rest objs' ->
              tstep_ok (TObjs x ks (w :: rest) objs) (match rest with [] => TMain x ks objs' | _ :: _ => TObjs x ks rest objs' end) d d).
    { intros objs' Hc. apply ts_same; [destruct rest; exact Hc|reflexivity|destruct rest; auto]. }
    destruct w as [k|k a].
    + cbn [fst snd]. apply Hnext. intros k1 Hk1 Hcr. destruct (Hw k1 Hk1 Hcr) as [H|[(o & Ho & H)|(a & y & [Hd|Ha] & H)]];
        [left; exact H|right; left; exists o; split; [apply in_or_app; left; exact Ho|exact H]|discriminate|right; right; exists a, y; auto].
    + destruct (find_rp d (ai_rp a)) as [rp0|]; cbn [fst snd]; [|apply ts_same; [apply tw_cod|reflexivity|intros c Hc; apply owes_cod; exact Hc]].
      apply Hnext. intros k1 Hk1 Hcr. destruct (Hw k1 Hk1 Hcr) as [H|[(o & Ho & H)|(a1 & y & [Hd|Ha] & Hy & Hp)]];
        [left; exact H|right; left; exists o; split; [apply in_or_app; left; exact Ho|exact H]| |right; right; exists a1, y; auto].
      injection Hd as <- <-. right. left. exists (mkAreq (co_uuid k) (co_gen k) (ai_rp a) (rp_gen rp0) (fst y) (snd y)).
      split; [apply in_or_app; right; apply in_map_iff; exists y; auto|cbn; auto].
  - (* TMain *)
    destruct (main_txn x ks objs d) as [d'|e0] eqn:Em; cbn [fst snd];
      [|apply ts_same; [apply tw_cod|reflexivity|intros c Hc; apply owes_cod; exact Hc]].
    split; [apply tw_cod|]. intros c [S1 S2] Hno. rewrite owes_cod in Hno.
    destruct (main_rows _ _ _ _ _ Em) as [R1 R2]. destruct (main_cons_exact _ _ _ _ _ Em) as (_ & X2 & _).
    assert (Hni : ~ In c (map q_cons objs)) by (intro Hin; apply S2; apply R2; assumption).
    split; [split; [rewrite <- (X2 c Hni); exact S1|rewrite <- (R1 c Hni); exact S2]|].
    cbn [t_owes]. intro Hin. unfold created_uuids in Hin. apply in_map_iff in Hin. destruct Hin as (k & Ek & Hk).
    apply filter_In in Hk. destruct Hk as [Hk Hcr]. destruct (Hw k Hk Hcr) as [H|[(o & Ho & Eo & _)|(a & y & [] & _)]].
    + apply Hno. unfold created_uuids. apply in_map_iff. exists k. split; [exact Ek|]. apply filter_In. auto.
    + apply Hni. apply in_map_iff. exists o. split; [congruence|exact Ho].
  - (* TCleanup *)
    destruct todo as [|u rest]; cbn [fst snd]; [apply ts_same; [exact I|reflexivity|cbn; tauto]|].
    split; [destruct rest; exact I|]. intros c Hs Hno. destruct (dcina_step d u c Hs) as [Hc Hs']. split; [exact Hs'|].
    cbn [t_owes]. intros [E|Hin]; [congruence|]. apply Hno. destruct rest; [destruct Hin|exact Hin].
  - (* TDelRead *)
    destruct (wipe_list d c0); cbn [fst snd]; (apply ts_same; [|reflexivity|cbn [t_owes]; tauto]); [exact I|].
    cbn [t_tw]. intros b Hb. apply filter_In in Hb. destruct Hb as [_ Hb]. apply andb_true_iff in Hb. apply Z.eqb_eq. apply Hb.
  - (* TDelRows *)
    cbn [fst snd]. split; [exact I|]. cbn [t_owes]. intros c [S1 S2] Hc. split; [|tauto]. split; [exact S1|].
    intros (a & Ha & Ea). apply S2. exists a. split; [|exact Ea]. cbn [allocs set_allocs]. apply filter_In. split; [exact Ha|].
    apply negb_true_iff. destruct (existsb _ rows) eqn:Ex; [|reflexivity]. exfalso. apply existsb_exists in Ex.
    destruct Ex as (b & Hb & Eb). repeat (apply andb_true_iff in Eb; destruct Eb as [Eb ?]). apply Z.eqb_eq in Eb.
    apply Hc. rewrite <- Ea, <- Eb. apply Hw. exact Hb.
  - (* TDelCons *)
    cbn [fst snd]. split; [exact I|]. intros c Hs _. destruct (dcina_step d c0 c Hs) as [Hc Hs']. split; [exact Hs'|cbn [t_owes]; exact Hc].
Qed.

Lemma main_ok x ks objs d0 d' : main_txn x ks objs d0 = Ok d' -> cov x ks [] objs ->
  forall c, stray d' c -> ~ In c (created_uuids (empty_created ks (x_all x))) -> stray d0 c /\ ~ In c (created_uuids ks).
Proof.
  intros Em Hw c [S1 S2] Hno.
  destruct (main_rows _ _ _ _ _ Em) as [R1 R2]. destruct (main_cons_exact _ _ _ _ _ Em) as (_ & X2 & _).
  assert (Hni : ~ In c (map q_cons objs)) by (intro Hin; apply S2; apply R2; assumption).
  split; [split; [rewrite <- (X2 c Hni); exact S1|rewrite <- (R1 c Hni); exact S2]|].
  intro Hin. unfold created_uuids in Hin. apply in_map_iff in Hin. destruct Hin as (k & Ek & Hk).
  apply filter_In in Hk. destruct Hk as [Hk Hcr]. destruct (Hw k Hk Hcr) as [H|[(o & Ho & Eo & _)|(a & y & [] & _)]].
  - apply Hno. unfold created_uuids. apply in_map_iff. exists k. split; [exact Ek|]. apply filter_In. auto.
  - apply Hni. apply in_map_iff. exists o. split; [congruence|exact Ho].
Qed.

Definition a_tw (t : athread) : Prop :=
  match t with ATree (TTOther t0) | ACached _ t0 | ACacheLoad t0 | ADelLoad t0 => t_tw t0 | _ => True end.
Definition a_owes (t : athread) (c : Z) : Prop :=
  match t with ATree (TTOther t0) | ACached _ t0 | ACacheLoad t0 | ADelLoad t0 => t_owes t0 c | _ => False end.
Lemma a_owes_dec t c : {a_owes t c} + {~ a_owes t c}.
Proof. destruct t as [[]| | | | | | | | | | | | | | | | | | | |]; cbn [a_owes]; try (right; tauto); apply t_owes_dec. Qed.
Lemma anote_tw gt gp t : a_tw (anote gt gp t) <-> a_tw t.
Proof. destruct t; cbn; tauto. Qed.
Lemma anote_owes gt gp t c : a_owes (anote gt gp t) c <-> a_owes t c.
Proof. destruct t; cbn; tauto. Qed.

Definition astep_ok (t t' : athread) (d d' : db) : Prop :=
  a_tw t' /\ forall c, stray d' c -> ~ a_owes t' c -> stray d c /\ ~ a_owes t c.
Lemma as_same t t' d d' : a_tw t' -> C12.ac d' = C12.ac d -> (forall c, a_owes t c -> a_owes t' c) -> astep_ok t t' d d'.
Proof. intros Hw E Ho. split; [exact Hw|]. intros c Hs Hn. split; [apply (stray_ac _ _ c E); exact Hs|intro H; apply Hn, Ho, H]. Qed.

Lemma a_cstep cf t d : a_tw t -> astep_ok t (fst (astep cf t d)) d (snd (astep cf t d)).
Proof.
  intro Hw.
  assert (Hno : forall t' d', C12.ac d' = C12.ac d -> a_tw t' -> (forall c, ~ a_owes t c) -> astep_ok t t' d d').
  { intros t' d' E H1 H2. apply as_same; [exact H1|exact E|]. intros c Hc. destruct (H2 c Hc). }
  destruct t as [t0|snap t0|t0|c0|t0|u0 g ts|u0 ts g|u0 ts g lost|v u0 g l|v u0 l g gone|n|n|n|old new|id new|n|id|t1|t1|t1|t1 stale].
  - (* ATree *)
    destruct t0 as [r|v u0 name parent|v u0 name parent|v u0 name np g|u0|u0|t0]; cbn [astep ttstep].
    + apply Hno; [reflexivity|exact I|cbn; tauto].
    + unfold h_rp_create. destruct (_ && _); [apply Hno; [reflexivity|exact I|cbn; tauto]|].
      destruct (rp_create d u0 name parent) as [d'|e] eqn:E; [|destruct e; apply Hno; try reflexivity; try exact I; cbn; tauto].
      apply Hno; [eapply C12.rp_create_ac; exact E|exact I|cbn; tauto].
    + destruct (find_rp d u0) as [me|]; [|apply Hno; [reflexivity|exact I|cbn; tauto]].
      destruct (_ && _); apply Hno; try reflexivity; try exact I; cbn; tauto.
    + destruct (find_rp d u0) as [me|]; [|apply Hno; [reflexivity|exact I|cbn; tauto]].
      destruct (rp_update d me name np (37 <=? v)) as [d'|e] eqn:E; cbn [rp_update_answer];
        [apply Hno; [eapply C12.rp_update_ac; exact E|exact I|cbn; tauto]|destruct e; apply Hno; try reflexivity; try exact I; cbn; tauto].
    + destruct (find_rp d u0); apply Hno; try reflexivity; try exact I; cbn; tauto.
    + destruct (rp_delete d u0) as [d'|e] eqn:E; cbn [rp_delete_answer];
        [apply Hno; [eapply C12.rp_delete_ac; exact E|exact I|cbn; tauto]|destruct e; apply Hno; try reflexivity; try exact I; cbn; tauto].
    + cbn [a_tw] in Hw. pose proof (t_cstep t0 d Hw) as H. destruct (tstep t0 d) as [d' t']. exact H.
  - (* ACached *)
    cbn [a_tw] in Hw.
    destruct t0 as [r|r|r g|x todo|x todo acc|x e todo acc|x e todo acc|x ks todo objs|x ks objs|todo r|c1|c1 rows|c1];
      try (rewrite acached_default by (intros; discriminate); cbn [fst snd];
           match goal with |- context [tstep ?tt d] => exact (t_cstep tt d Hw) end).
    + (* TObjs *)
      destruct todo as [|[k|k a] rest];
        try (rewrite acached_default by (intros; discriminate); cbn [fst snd];
             match goal with |- context [tstep ?tt d] => exact (t_cstep tt d Hw) end).
      pose proof (t_cstep (TObjs x ks (WWipe k :: rest) objs) d Hw) as H. cbn [astep].
      destruct (tstep (TObjs x ks (WWipe k :: rest) objs) d) as [d' t']. cbn [fst snd] in H.
      destruct (cache_misses snap (wipe_list d (co_uuid k))); exact H.
    + (* TMain *)
      cbn [astep t_tw] in *. unfold main_txn_cached.
      destruct (main_txn x ks objs (set_rcs d (rcs d ++ stale_rows d snap))) as [d'|e0] eqn:Em; cbn [fst snd].
      * split; [cbn [a_tw]; apply tw_cod|]. intros c Hs Hn. cbn [a_owes] in *. rewrite owes_cod in Hn.
        exact (main_ok _ _ _ _ _ Em Hw c Hs Hn).
      * apply as_same; [cbn [a_tw]; apply tw_cod|reflexivity|]. cbn [a_owes t_owes]. intros c Hc. apply owes_cod. exact Hc.
  - (* ACacheLoad *) cbn [astep fst snd]. apply as_same; [exact Hw|reflexivity|auto].
  - (* ADelRead *)
    cbn [astep]. pose proof (t_cstep (TDelRead c0) d I) as H. destruct (tstep (TDelRead c0) d) as [d' t']. cbn [fst snd] in *.
    destruct (tdone t'); exact H.
  - (* ADelLoad *) cbn [astep fst snd]. apply as_same; [exact Hw|reflexivity|auto].
  - (* ATraitsRead *)
    cbn [astep]. destruct (find_rp d u0) as [me|]; [|apply Hno; [reflexivity|exact I|cbn; tauto]].
    destruct (negb _); apply Hno; try reflexivity; try exact I; cbn; tauto.
  - (* ATraitsLook *) cbn [astep]. destruct (negb _); apply Hno; try reflexivity; try exact I; cbn; tauto.
  - (* ATraitsWrite *)
    cbn [astep]. destruct (existsb _ ts); [apply Hno; [reflexivity|exact I|cbn; tauto]|].
    unfold set_traits_chk. destruct (forallb _ _); [|apply Hno; [reflexivity|exact I|cbn; tauto]].
    destruct (set_traits_c d u0 g ts) as [d'|e] eqn:E; [|destruct e; apply Hno; try reflexivity; try exact I; cbn; tauto].
    apply Hno; [|exact I|cbn; tauto]. apply set_traits_c_spec in E. destruct E as (_ & [(_ & ->)|(_ & B)]); [reflexivity|].
    apply bumped_spec in B. destruct B as (_ & _ & _ & A & B & _). unfold C12.ac. cbn [fst snd]. rewrite A, B. reflexivity.
  - (* AAggsRead *)
    cbn [astep]. destruct (find_rp d u0) as [me|]; [|apply Hno; [reflexivity|exact I|cbn; tauto]].
    destruct (_ && _); apply Hno; try reflexivity; try exact I; cbn; tauto.
  - (* AAggsWrite *)
    cbn [astep]. destruct (if gone then None else find_rp d u0); [|apply Hno; [reflexivity|exact I|cbn; tauto]].
    destruct (set_aggregates_txn d u0 g (dedup l) (19 <=? v)) as [d'|e] eqn:E; [|apply Hno; [reflexivity|exact I|cbn; tauto]].
    apply Hno; [eapply C12.set_aggregates_txn_ac; exact E|exact I|cbn; tauto].
  - (* ARcCreate *)
    cbn [astep]. destruct (rc_create d n) as [d'|e] eqn:E; apply Hno; try exact I; try (cbn; tauto); eapply C12.rc_create_ac; exact E.
  - (* ARcPutLook *) cbn [astep]. destruct (rc_id_of_name d n); apply Hno; try reflexivity; try exact I; cbn; tauto.
  - (* ARcPutCreate *)
    cbn [astep]. destruct (rc_create d n) as [d'|e] eqn:E; apply Hno; try exact I; try (cbn; tauto); eapply C12.rc_create_ac; exact E.
  - (* ARcRenLook *)
    cbn [astep]. destruct (rc_id_of_name d old) as [id|]; [|apply Hno; [reflexivity|exact I|cbn; tauto]].
    destruct (id <? MIN_CUSTOM_RC_ID); apply Hno; try reflexivity; try exact I; cbn; tauto.
  - (* ARcRenSave *)
    cbn [astep]. destruct (negb _); [apply Hno; [reflexivity|exact I|cbn; tauto]|].
    destruct (_ || _); apply Hno; try reflexivity; try exact I; cbn; tauto.
  - (* ARcDelLook *)
    cbn [astep]. destruct (rc_id_of_name d n) as [id|]; [|apply Hno; [reflexivity|exact I|cbn; tauto]].
    destruct (id <? MIN_CUSTOM_RC_ID); apply Hno; try reflexivity; try exact I; cbn; tauto.
  - (* ARcDestroy *)
    cbn [astep]. destruct (existsb _ (invs d)); [apply Hno; [reflexivity|exact I|cbn; tauto]|].
    destruct (negb _); apply Hno; try reflexivity; try exact I; cbn; tauto.
  - (* ATraitPutLook *) cbn [astep]. destruct (trait_exists d t1); apply Hno; try reflexivity; try exact I; cbn; tauto.
  - (* ATraitCreate *)
    cbn [astep]. destruct (trait_create d t1) as [d'|e] eqn:E; apply Hno; try exact I; try (cbn; tauto); eapply C12.trait_create_ac; exact E.
  - (* ATraitDelLook *)
    cbn [astep]. destruct (negb _); [apply Hno; [reflexivity|exact I|cbn; tauto]|].
    destruct (is_std_trait t1); apply Hno; try reflexivity; try exact I; cbn; tauto.
  - (* ATraitDestroy *)
    cbn [astep]. destruct stale; [apply Hno; [reflexivity|exact I|cbn; tauto]|].
    destruct (existsb _ (rp_traits d)); [apply Hno; [reflexivity|exact I|cbn; tauto]|].
    destruct (negb _); apply Hno; try reflexivity; try exact I; cbn; tauto.
Qed.

(* ================================================================ the invariant of schedules *)
(* every thread knows what it has to know, and every consumer record without allocations is owed by some thread *)
Definition owed (ts : list athread) (d : db) : Prop :=
  Forall a_tw ts /\ forall c, stray d c -> exists j t, nth_error ts j = Some t /\ a_owes t c.

Lemma step_owed cf ts i d : owed ts d -> owed (fst (a_step_thread cf i ts d)) (snd (a_step_thread cf i ts d)).
Proof.
  intros [Hw Ho]. destruct (step_nth cf ts i d) as (gt & gp & S1 & S2). cbv zeta in S1, S2.
  set (ts' := fst (a_step_thread cf i ts d)) in *. set (d' := snd (a_step_thread cf i ts d)) in *.
  rewrite Forall_forall in Hw. split.
  - apply Forall_forall. intros t' Ht'. apply In_nth_error in Ht'. destruct Ht' as [j Hj].
    destruct (Nat.eq_dec j i) as [->|Hne].
    + destruct (nth_error ts i) as [t|] eqn:Hi.
      * destruct S1 as [S1 _]. rewrite S1 in Hj. injection Hj as <-. apply anote_tw. apply a_cstep. apply Hw. eapply nth_error_In; exact Hi.
      * rewrite (S2 i (or_intror eq_refl)), Hi in Hj. discriminate.
    + rewrite (S2 j (or_introl Hne)) in Hj. destruct (nth_error ts j) as [t|] eqn:Hj0; [|discriminate]. injection Hj as <-.
      apply anote_tw. apply Hw. eapply nth_error_In; exact Hj0.
  - intros c Hs. destruct (nth_error ts i) as [t|] eqn:Hi.
    + destruct S1 as [S1 Ed]. destruct (a_owes_dec (fst (astep cf t d)) c) as [Hy|Hn].
      * exists i, (anote gt gp (fst (astep cf t d))). split; [exact S1|apply anote_owes; exact Hy].
      * assert (Hwt : a_tw t) by (apply Hw; eapply nth_error_In; exact Hi).
        destruct (proj2 (a_cstep cf t d Hwt) c ltac:(rewrite <- Ed; exact Hs) Hn) as [Hs0 Hn0].
        destruct (Ho c Hs0) as (j & o & Hj & Hoo). assert (Hne : j <> i) by (intros ->; rewrite Hi in Hj; injection Hj as <-; contradiction).
        exists j, (anote gt gp o). split; [rewrite (S2 j (or_introl Hne)), Hj; reflexivity|apply anote_owes; exact Hoo].
    + rewrite S1 in Hs. destruct (Ho c Hs) as (j & o & Hj & Hoo).
      exists j, (anote gt gp o). split; [rewrite (S2 j (or_intror eq_refl)), Hj; reflexivity|apply anote_owes; exact Hoo].
Qed.
Lemma run_owed cf : forall s ts d, owed ts d -> owed (fst (a_run_sched cf s ts d)) (snd (a_run_sched cf s ts d)).
Proof.
  induction s as [|i s IH]; intros ts d H; cbn [a_run_sched]; [exact H|].
  pose proof (step_owed cf ts i d H) as H1. destruct (a_step_thread cf i ts d) as [ts1 d1]. apply IH. exact H1.
Qed.

(* the start: requests as they come in; no stray consumer *)
Lemma cgen_has d c : cgen_of d c <> None -> has_consumer d c.
Proof.
  unfold cgen_of, find_cons. destruct (find_cons_l (consumers d) c) as [k|] eqn:F; [|intro H; contradiction H; reflexivity].
  intros _. apply find_cons_l_uuid in F. exists k. tauto.
Qed.
Lemma has_cgen d c : has_consumer d c -> cgen_of d c <> None.
Proof.
  intros (k & Hk & Ek). unfold cgen_of, find_cons. destruct (find_cons_l (consumers d) c) as [k'|] eqn:F; [discriminate|].
  exfalso. apply (proj1 (find_cons_l_none _ _) F k Hk Ek).
Qed.
Lemma wf_ewf e : cons_in_wf e = true -> ewf e.
Proof.
  intros H a Ha. pose proof (cons_in_wf_ne e H a Ha) as Hne. destruct (ai_res a) as [|y ys] eqn:E; [contradiction|].
  exists y. split; [left; reflexivity|]. pose proof (C06.cons_in_wf_amt e a y H Ha ltac:(rewrite E; left; reflexivity)). lia.
Qed.
Lemma ainit_tw cf r : req_wf r = true -> a_tw (ainit cf r).
Proof.
  intro H. destruct (C06.req_wf_consumers r H) as [_ Hc].
  assert (Hf : Forall ewf (req_consumers r)) by (apply Forall_forall; intros e He; apply wf_ewf, Hc, He).
  destruct r; cbn [ainit ttinit tinit a_tw req_consumers] in *;
    repeat match goal with |- context [if ?b then _ else _] => destruct b end; cbn [a_tw ADone t_tw x_all length]; auto;
    try (destruct (prov_target _); [destruct (prov_version_gate _)|]; cbn [a_tw t_tw]; exact I).
  all: try (destruct (prov_version_gate _); exact I).
Qed.
Lemma owed_init cf reqs d : ConsIff d -> Forall (fun r => req_wf r = true) reqs -> owed (map (ainit cf) reqs) d.
Proof.
  intros Hc Hwf. split.
  - apply Forall_forall. intros t Ht. apply in_map_iff in Ht. destruct Ht as (r & <- & Hr). apply ainit_tw.
    rewrite Forall_forall in Hwf. apply Hwf. exact Hr.
  - intros c [S1 S2]. exfalso. apply S2. apply Hc. apply cgen_has. exact S1.
Qed.

Lemma classic_holds d c : holds_allocs d c \/ ~ holds_allocs d c.
Proof.
  destruct (existsb (fun a => a_cons a =? c) (allocs d)) eqn:E.
  - left. apply existsb_exists in E. destruct E as (a & Ha & Ea). apply Z.eqb_eq in Ea. exists a. auto.
  - right. intros (a & Ha & Ea). assert (X : existsb (fun a => a_cons a =? c) (allocs d) = true); [|congruence].
    apply existsb_exists. exists a. split; [exact Ha|apply Z.eqb_eq; exact Ea].
Qed.

Lemma owes_not_done t c : a_owes t c -> a_done t = None.
Proof.
  destruct t as [t|snap t|t|c0|t|? ? ?|? ? ?|? ? ? ?|? ? ? ?|? ? ? ? ?|?|?|?|? ?|? ?|?|?|?|?|?|? ?]; cbn [a_owes]; try contradiction; try reflexivity.
  - destruct t as [| | | | | |t]; try contradiction. cbn [a_done tt_done]. destruct t; cbn [t_owes]; try contradiction; reflexivity.
  - cbn [a_done]. destruct t; cbn [t_owes]; try contradiction; reflexivity.
Qed.

(* (a) at every point of every schedule: a consumer record without allocations is owed by a thread that is not finished - one
   that created the record (and has not yet written it or cleaned it up), or DELETE /allocations between its two transactions *)
Theorem c12a_stray_owed : forall cf reqs s d c,
  ConsIff d -> Forall (fun r => req_wf r = true) reqs ->
  stray (snd (a_exec cf reqs s d)) c ->
  exists j t, nth_error (fst (a_exec cf reqs s d)) j = Some t /\ a_owes t c /\ a_done t = None.
Proof.
  intros cf reqs s d c Hc Hwf Hs. destruct (run_owed cf s _ d (owed_init cf reqs d Hc Hwf)) as [_ Ho].
  destruct (Ho c Hs) as (j & t & Hj & Hoo). exists j, t. split; [exact Hj|]. split; [exact Hoo|].
  eapply owes_not_done; exact Hoo.
Qed.

(* ... so when every thread is answered, consumers exist exactly while they hold allocations *)
Theorem c12a_final_state : forall cf reqs s d,
  ConsIff d -> RI d -> Forall (fun r => req_wf r = true) reqs -> C08c.race_free reqs ->
  (forall t, In t (fst (a_exec cf reqs s d)) -> a_done t <> None) ->
  ConsIff (snd (a_exec cf reqs s d)).
Proof.
  intros cf reqs s d Hc Hri Hwf Hrf Hdone c. split.
  - intro Hh. destruct (classic_holds (snd (a_exec cf reqs s d)) c) as [H|H]; [exact H|].
    exfalso. destruct (c12a_stray_owed cf reqs s d c Hc Hwf (conj (has_cgen _ _ Hh) H)) as (j & t & Hj & _ & Hd).
    apply (Hdone t); [eapply nth_error_In; exact Hj|exact Hd].
  - intros (a & Ha & Ea). pose proof (C08c.C08c_ri_all_schedules_partial cf reqs s d Hri Hwf Hrf) as [HA _].
    destruct (HA a Ha) as (_ & _ & k & Hk). apply cgen_has. unfold cgen_of. rewrite <- Ea. unfold a_exec. rewrite Hk. discriminate.
Qed.

(* ================================================================ C04: projects, users and consumer types only grow *)
Definition aux_le (d d' : db) : Prop :=
  incl (projects d) (projects d') /\ incl (users d) (users d') /\ incl (ctypes d) (ctypes d').
Lemma aux_le_refl d : aux_le d d.
Proof. repeat split; apply incl_refl. Qed.
Lemma aux_le_eq d d' : projects d' = projects d -> users d' = users d -> ctypes d' = ctypes d -> aux_le d d'.
Proof. intros A B C. unfold aux_le. rewrite A, B, C. repeat split; apply incl_refl. Qed.
Lemma with_aux_self d : C07d.with_aux (C07d.with_aux d [] [] []) (projects d) (users d) (ctypes d) = d.
Proof. destruct d; reflexivity. Qed.
(* a transaction that commutes with replacing the auxiliary tables (Proofs/C07e.v) does not touch them *)
Lemma aux_commute (f : db -> result db) d d' :
  (forall d0 p u c, f (C07d.with_aux d0 p u c) = C07e.rmap (f d0) p u c) -> f d = Ok d' -> aux_le d d'.
Proof.
  intros Hc H. rewrite <- (with_aux_self d), Hc in H. unfold C07e.rmap in H.
  destruct (f (C07d.with_aux d [] [] [])) as [d1|]; [|discriminate]. injection H as <-. apply aux_le_eq; reflexivity.
Qed.
Lemma get_or_create_incl l x : incl l (get_or_create l x).
Proof. unfold get_or_create. destruct (memZ x l); [apply incl_refl|apply incl_appl, incl_refl]. Qed.
Lemma aux_names_le cf v d c : aux_le d (aux_names cf v d c).
Proof.
  unfold aux_names. cbv zeta. destruct (38 <=? v); repeat split; cbn; try apply get_or_create_incl; apply incl_refl.
Qed.
Lemma main_txn_aux_le x ks objs d d' : main_txn x ks objs d = Ok d' -> aux_le d d'.
Proof. apply (aux_commute (main_txn x ks objs)). intros d0 p u c. apply C07e.main_txn_aux. Qed.
Lemma prov_write_aux_le r g d : aux_le d (fst (prov_write r g d)).
Proof.
  pose proof (C07e.prov_write_aux r g (C07d.with_aux d [] [] []) (projects d) (users d) (ctypes d)) as H.
  rewrite with_aux_self in H. rewrite H. cbn [fst]. apply aux_le_eq; reflexivity.
Qed.
Lemma set_traits_c_aux_le d u g w d' : set_traits_c d u g w = Ok d' -> aux_le d d'.
Proof. apply (aux_commute (fun d0 => set_traits_c d0 u g w)). intros d0 p u0 c. apply C07e.set_traits_c_aux. Qed.
Lemma set_aggregates_txn_aux_le d u g w b d' : set_aggregates_txn d u g w b = Ok d' -> aux_le d d'.
Proof. apply (aux_commute (fun d0 => set_aggregates_txn d0 u g w b)). intros d0 p u0 c. apply C07e.set_aggregates_txn_aux. Qed.
Lemma rp_create_aux_le d u n p d' : rp_create d u n p = Ok d' -> aux_le d d'.
Proof. unfold rp_create, bind. intro H. C19.brk H. injection H as <-. apply aux_le_eq; reflexivity. Qed.
Lemma rp_update_aux_le d me n p b d' : rp_update d me n p b = Ok d' -> aux_le d d'.
Proof. unfold rp_update, bind. intro H. C19.brk H; injection H as <-; apply aux_le_eq; reflexivity. Qed.
Lemma rp_delete_aux_le d u d' : rp_delete d u = Ok d' -> aux_le d d'.
Proof. unfold rp_delete. intro H. C19.brk H. injection H as <-. apply aux_le_eq; reflexivity. Qed.

Lemma t_aux_le t d : aux_le d (fst (tstep t d)).
Proof.
  destruct t as [r|r|r g|x todo|x todo acc|x e todo acc|x e todo acc|x ks todo objs|x ks objs|todo r|c0|c0 rows|c0]; cbn [tstep];
    try apply aux_le_refl.
  - destruct (prov_target r); [|apply aux_le_refl]. destruct (find_rp d z); [|apply aux_le_refl]. destruct (prov_precheck r r0 d); apply aux_le_refl.
  - pose proof (prov_write_aux_le r g d) as H. destruct (prov_write r g d). exact H.
  - destruct todo as [|r rest]; [apply aux_le_refl|]. destruct (find_rp d (ri_rp r)); [|apply aux_le_refl]. destruct (negb _); apply aux_le_refl.
  - destruct todo as [|e rest]; [apply aux_le_refl|]. cbv zeta. destruct (rq_attrs (x_cf x) (x_v x) e) as [[pj us] ty].
    destruct (find_cons d (ci_uuid e)); destruct (_ && _); apply aux_names_le.
  - destruct (rq_attrs (x_cf x) (x_v x) e) as [[pj us] ty]. destruct (find_cons d (ci_uuid e)); cbn [fst]; [apply aux_le_refl|apply aux_le_eq; reflexivity].
  - destruct (rq_attrs (x_cf x) (x_v x) e) as [[pj us] ty]. destruct (find_cons d (ci_uuid e)); [|apply aux_le_refl]. destruct (28 <=? x_v x); apply aux_le_refl.
  - destruct todo as [|w rest]; [apply aux_le_refl|]. cbv zeta. destruct w; [apply aux_le_refl|]. destruct (find_rp d (ai_rp a)); apply aux_le_refl.
  - destruct (main_txn x ks objs d) as [d'|e0] eqn:Em; cbn [fst]; [eapply main_txn_aux_le; exact Em|apply aux_le_refl].
  - destruct todo as [|u rest]; [apply aux_le_refl|apply aux_le_eq; reflexivity].
  - destruct (wipe_list d c0); apply aux_le_refl.
  - apply aux_le_eq; reflexivity.
  - apply aux_le_eq; reflexivity.
Qed.

(* any thread, any transaction: rows of projects / users / consumer types are only added (by the consumer look-up of an
   allocation write, whatever the answer of the request will be) - never removed *)
Theorem c04a_aux_grow cf t d : aux_le d (snd (astep cf t d)).
Proof.
  destruct t as [t0|snap t0|t0|c0|t0|u0 g ts|u0 ts g|u0 ts g lost|v u0 g l|v u0 l g gone|n|n|n|old new|id new|n|id|t1|t1|t1|t1 stale];
    cbn [astep].
  - destruct t0 as [r|v u0 name parent|v u0 name parent|v u0 name np g|u0|u0|t0]; cbn [ttstep].
    + apply aux_le_refl.
    + unfold h_rp_create. destruct (_ && _); [apply aux_le_refl|].
      destruct (rp_create d u0 name parent) as [d'|e] eqn:E; [eapply rp_create_aux_le; exact E|destruct e; apply aux_le_refl].
    + destruct (find_rp d u0); [|apply aux_le_refl]. destruct (_ && _); apply aux_le_refl.
    + destruct (find_rp d u0) as [me|]; [|apply aux_le_refl].
      destruct (rp_update d me name np (37 <=? v)) as [d'|e] eqn:E; cbn [rp_update_answer snd]; [eapply rp_update_aux_le; exact E|destruct e; apply aux_le_refl].
    + destruct (find_rp d u0); apply aux_le_refl.
    + destruct (rp_delete d u0) as [d'|e] eqn:E; cbn [rp_delete_answer snd]; [eapply rp_delete_aux_le; exact E|destruct e; apply aux_le_refl].
    + pose proof (t_aux_le t0 d) as H. destruct (tstep t0 d). exact H.
  - destruct t0 as [r|r|r g|x todo|x todo acc|x e todo acc|x e todo acc|x ks todo objs|x ks objs|todo r|c1|c1 rows|c1];
      try (match goal with |- context [tstep ?tt d] => pose proof (t_aux_le tt d) as H; destruct (tstep tt d); exact H end).
    + destruct todo as [|[k|k a] rest];
        try (match goal with |- context [tstep ?tt d] => pose proof (t_aux_le tt d) as H; destruct (tstep tt d); exact H end).
      cbn [tstep]. destruct (cache_misses snap (wipe_list d (co_uuid k))); apply aux_le_refl.
    + unfold main_txn_cached. destruct (main_txn x ks objs (set_rcs d (rcs d ++ stale_rows d snap))) as [d'|e0] eqn:Em; cbn [snd]; [|apply aux_le_refl].
      apply main_txn_aux_le in Em. exact Em.
  - apply aux_le_refl.
  - cbn [tstep]. destruct (wipe_list d c0); apply aux_le_refl.
  - apply aux_le_refl.
  - destruct (find_rp d u0); [|apply aux_le_refl]. destruct (negb _); apply aux_le_refl.
  - destruct (negb _); apply aux_le_refl.
  - destruct (existsb _ ts); [apply aux_le_refl|]. unfold set_traits_chk. destruct (forallb _ _); [|apply aux_le_refl].
    destruct (set_traits_c d u0 g ts) as [d'|e] eqn:E; [eapply set_traits_c_aux_le; exact E|destruct e; apply aux_le_refl].
  - destruct (find_rp d u0); [|apply aux_le_refl]. destruct (_ && _); apply aux_le_refl.
  - destruct (if gone then None else find_rp d u0); [|apply aux_le_refl].
    destruct (set_aggregates_txn d u0 g (dedup l) (19 <=? v)) as [d'|e] eqn:E; [eapply set_aggregates_txn_aux_le; exact E|apply aux_le_refl].
  - unfold rc_create. destruct (rc_id_of_name d n); [apply aux_le_refl|apply aux_le_eq; reflexivity].
  - destruct (rc_id_of_name d n); apply aux_le_refl.
  - unfold rc_create. destruct (rc_id_of_name d n); [apply aux_le_refl|apply aux_le_eq; reflexivity].
  - destruct (rc_id_of_name d old) as [id|]; [|apply aux_le_refl]. destruct (id <? MIN_CUSTOM_RC_ID); apply aux_le_refl.
  - destruct (negb _); [apply aux_le_refl|]. destruct (_ || _); [apply aux_le_refl|apply aux_le_eq; reflexivity].
  - destruct (rc_id_of_name d n) as [id|]; [|apply aux_le_refl]. destruct (id <? MIN_CUSTOM_RC_ID); apply aux_le_refl.
  - destruct (existsb _ (invs d)); [apply aux_le_refl|]. destruct (negb _); [apply aux_le_refl|apply aux_le_eq; reflexivity].
  - destruct (trait_exists d t1); apply aux_le_refl.
  - unfold trait_create. destruct (trait_exists d t1); [apply aux_le_refl|apply aux_le_eq; reflexivity].
  - destruct (negb _); [apply aux_le_refl|]. destruct (is_std_trait t1); apply aux_le_refl.
  - destruct stale; [apply aux_le_refl|]. destruct (existsb _ (rp_traits d)); [apply aux_le_refl|]. destruct (negb _); [apply aux_le_refl|apply aux_le_eq; reflexivity].
Qed.
Lemma aux_le_trans a b c : aux_le a b -> aux_le b c -> aux_le a c.
Proof. intros (A1 & A2 & A3) (B1 & B2 & B3). repeat split; eapply incl_tran; eassumption. Qed.
Theorem c04a_aux_grow_sched cf : forall s ts d, aux_le d (snd (a_run_sched cf s ts d)).
Proof.
  assert (R : forall ts i d, aux_le d (snd (a_step_raw cf i ts d))).
  { induction ts as [|t ts IH]; intros i d; [destruct i; apply aux_le_refl|]. destruct i as [|i]; cbn [a_step_raw].
    - pose proof (c04a_aux_grow cf t d) as H. destruct (astep cf t d). exact H.
    - specialize (IH i d). destruct (a_step_raw cf i ts d). exact IH. }
  induction s as [|i s IH]; intros ts d; cbn [a_run_sched]; [apply aux_le_refl|].
  pose proof (R ts i d) as H. unfold a_step_thread. destruct (a_step_raw cf i ts d) as [ts1 d1]. cbn [snd] in H.
  eapply aux_le_trans; [exact H|apply IH].
Qed.

(* ================================================================ examples (start state = the set-up of harness/conc_extra.py) *)
Definition strays_of (d : db) : list Z :=
  filter (fun c => negb (existsb (fun a => a_cons a =? c) (allocs d))) (map c_uuid (consumers d)).
Definition cz_run (reqs : list req) (s : list nat) : list Z * list Z * list (Z * Z) * list Z :=
  let '(ts, d) := a_exec cx_cf reqs s cx_d0 in (map cx_status ts, strays_of d, map (fun a => (a_cons a, a_rp a)) (allocs d), projects d).

(* the known residue is a state DURING a schedule: after request 0 (null) has created consumer 5 in its own transaction, the record
   has no allocations; it is owed by request 0 (c12a_stray_owed), which is not finished; another request can observe or use it *)
Example c12a_residue_mid_schedule :
  cz_run [cy_n5a; cy_g5] [0; 0]%nat = ([-1; -1], [5], [(2, 2); (3, 1); (3, 4)], [1]).
Proof. timeout 120 vm_compute. reflexivity. Qed.

(* req_wf is needed in c12a_final_state: an allocation with an empty "resources" object (which the JSON schema refuses) for a new
   consumer is accepted without writing anything, and the record it created stays *)
Definition cz_bad := AllocPut 39 (mkConsIn 5 [mkAllocIn 1 []] (Some 1) (Some 1) None (Some 1)).
Example c12a_needs_wf : cz_run [cz_bad] [0; 0; 0; 0; 0; 0]%nat = ([204], [5], [(2, 2); (3, 1); (3, 4)], [1]) /\ req_wf cz_bad = false.
Proof. split; [timeout 120 vm_compute; reflexivity|reflexivity]. Qed.

(* "exactly one" is false in (c): DELETE /allocations/2 overtaken by a PUT between its read and its first writer transaction
   deletes the rows it read - which are gone - and answers 204 having changed nothing; consumer 2 holds the PUT's allocation *)
Example c04a_delete_without_effect :
  cz_run [AllocDelete 2; cy_pB] [0; 0; 1; 1; 1; 1; 0; 0; 0]%nat = ([204; 204], [], [(3, 1); (3, 4); (2, 2)], [1]).
Proof. timeout 120 vm_compute. reflexivity. Qed.

(* what a rejected request leaves: rows of projects / users / consumer types are never removed (here project 77 of a PUT
   answered 409 for lack of capacity; the consumer it created is removed by its clean-up) *)
Definition cz_rej := AllocPut 39 (mkConsIn 5 [mkAllocIn 6 [(0, 99)]] (Some 77) (Some 78) None (Some 1)).
Example c04a_rejected_leaves_project :
  cz_run [cz_rej] [0; 0; 0; 0; 0; 0; 0]%nat = ([409], [], [(2, 2); (3, 1); (3, 4)], [1; 77]) /\ projects cx_d0 = [1].
Proof. split; timeout 120 vm_compute; reflexivity. Qed.

Print Assumptions c04a_rejected_no_trace.
Print Assumptions c04a_one_commit.
Print Assumptions c04a_commit_is_success.
Print Assumptions c12a_stray_owed.
Print Assumptions c12a_final_state.
Print Assumptions c12a_needs_wf.
Print Assumptions c04a_delete_without_effect.
Print Assumptions c04a_aux_grow.
Print Assumptions c04a_aux_grow_sched.
