(* C13 - GET /resource_providers returns exactly the providers meeting every supplied filter: proofs. *)
From PV Require Import Spec.CandSpec.

(* ================================================================ list facts *)
Lemma memZ_In x l : memZ x l = true <-> In x l.
Proof.
  unfold memZ. rewrite existsb_exists. split.
  - intros [y [Hy E]]. apply Z.eqb_eq in E. subst. assumption.
  - intro H. exists x. split; [assumption|apply Z.eqb_refl].
Qed.

Lemma find_rp_l_Some l u r : find_rp_l l u = Some r -> In r l /\ rp_uuid r = u.
Proof.
  induction l as [|x l IH]; cbn [find_rp_l In]; [discriminate|].
  destruct (rp_uuid x =? u) eqn:E.
  - intros [= <-]. apply Z.eqb_eq in E. auto.
  - intro H. destruct (IH H). auto.
Qed.
Lemma find_rp_l_In l r : NoDup (map rp_uuid l) -> In r l -> find_rp_l l (rp_uuid r) = Some r.
Proof.
  induction l as [|x l IH]; cbn [find_rp_l In map]; [intros _ []|].
  intros Hnd [->|Hin]; [rewrite Z.eqb_refl; reflexivity|].
  inversion Hnd as [|? ? Hx Hnd']; subst.
  destruct (rp_uuid x =? rp_uuid r) eqn:E; [|auto].
  apply Z.eqb_eq in E. exfalso. apply Hx. rewrite E. apply in_map. assumption.
Qed.
Lemma find_rp_iff d u r : NoDup (map rp_uuid (rps d)) ->
  find_rp d u = Some r <-> In r (rps d) /\ rp_uuid r = u.
Proof.
  intro Hnd. unfold find_rp. split; [apply find_rp_l_Some|].
  intros [Hin <-]. apply find_rp_l_In; assumption.
Qed.

Lemma forallb_ext {A} (P Q : A -> bool) l : (forall x, P x = Q x) -> forallb P l = forallb Q l.
Proof. intro H. induction l as [|x l IH]; cbn [forallb]; [reflexivity|]. rewrite H, IH. reflexivity. Qed.
Lemma eq_true_iff_eq' (a b : bool) : (a = true <-> b = true) -> a = b.
Proof. destruct a, b; intuition congruence. Qed.

Lemma filter_nil_all {A} (P : A -> bool) l : (forall x, In x l -> P x = false) -> filter P l = [].
Proof.
  induction l as [|x l IH]; intro H; cbn [filter]; [reflexivity|].
  rewrite (H x (or_introl eq_refl)). apply IH. intros y Hy. apply H. right. assumption.
Qed.
Lemma NoDup_map_filter {A B} (g : A -> B) (P : A -> bool) l : NoDup (map g l) -> NoDup (map g (filter P l)).
Proof.
  induction l as [|x l IH]; cbn [map filter]; intro H; [constructor|].
  inversion H as [|? ? Hx Hnd]; subst. destruct (P x); cbn [map]; [|auto].
  constructor; [|auto]. intro Hin. apply Hx. apply in_map_iff in Hin. destruct Hin as [y [E Hy]].
  apply filter_In in Hy. rewrite <- E. apply in_map. tauto.
Qed.
Lemma nodup_first_In x seen l : In x (nodup_first seen l) <-> In x l /\ ~ In x seen.
Proof.
  revert seen. induction l as [|y l IH]; intro seen; cbn [nodup_first In]; [tauto|].
  destruct (memZ y seen) eqn:E.
  - apply memZ_In in E. rewrite IH. split; [tauto|]. intros [[->|H] Hn]; [contradiction|tauto].
  - assert (~ In y seen) by (rewrite <- memZ_In; congruence). cbn [In]. rewrite IH. cbn [In].
    split.
    + intros [->|[H1 H2]]; [tauto|]. split; [tauto|]. intro. apply H2. right. assumption.
    + intros [[->|H1] H2]; [left; reflexivity|]. destruct (Z.eq_dec y x); [left; assumption|right]. tauto.
Qed.

(* ================================================================ table views *)
Lemma in_some_agg_spec d u ags : in_some_agg d u ags = true <-> exists a, In a ags /\ has_agg d u a = true.
Proof.
  unfold in_some_agg, has_agg. rewrite existsb_exists. split.
  - intros [x [Hx H]]. apply andb_true_iff in H. destruct H as [H1 H2]. apply memZ_In in H2.
    exists (snd x). split; [assumption|]. apply existsb_exists. exists x. rewrite H1, Z.eqb_refl. auto.
  - intros [a [Ha H]]. apply existsb_exists in H. destruct H as [x [Hx H]]. apply andb_true_iff in H.
    destruct H as [H1 H2]. apply Z.eqb_eq in H2. exists x. split; [assumption|]. rewrite H1. cbn [andb].
    apply memZ_In. rewrite H2. assumption.
Qed.
Lemma in_some_agg_existsb d u ags : in_some_agg d u ags = existsb (has_agg d u) ags.
Proof.
  apply eq_true_iff_eq'. rewrite in_some_agg_spec, existsb_exists. reflexivity.
Qed.
Lemma has_some_trait_spec d u ts : has_some_trait d u ts = true <-> exists t, In t ts /\ has_trait d u t = true.
Proof.
  unfold has_some_trait, has_trait. rewrite existsb_exists. split.
  - intros [x [Hx H]]. apply andb_true_iff in H. destruct H as [H1 H2]. apply memZ_In in H2.
    exists (snd x). split; [assumption|]. apply existsb_exists. exists x. rewrite H1, Z.eqb_refl. auto.
  - intros [a [Ha H]]. apply existsb_exists in H. destruct H as [x [Hx H]]. apply andb_true_iff in H.
    destruct H as [H1 H2]. apply Z.eqb_eq in H2. exists x. split; [assumption|]. rewrite H1. cbn [andb].
    apply memZ_In. rewrite H2. assumption.
Qed.
Lemma has_some_trait_existsb d u ts : has_some_trait d u ts = existsb (has_trait d u) ts.
Proof.
  apply eq_true_iff_eq'. rewrite has_some_trait_spec, existsb_exists. reflexivity.
Qed.

Lemma matching_aggregates_In d m u :
  In u (provider_ids_matching_aggregates d m) <->
  exists r, In r (rps d) /\ rp_uuid r = u /\ forallb (in_some_agg d u) m = true.
Proof.
  unfold provider_ids_matching_aggregates. rewrite in_map_iff. split.
  - intros [r [E H]]. apply filter_In in H. destruct H as [Hin H]. exists r. subst u. repeat split; try assumption.
    erewrite forallb_ext; [exact H|]. intros. apply in_some_agg_existsb.
  - intros [r [Hin [E H]]]. exists r. split; [assumption|]. apply filter_In. split; [assumption|]. subst u.
    erewrite forallb_ext; [exact H|]. intros. symmetry. apply in_some_agg_existsb.
Qed.
Lemma matching_traits_In d m u :
  In u (provider_ids_matching_required_traits d m) <->
  exists r, In r (rps d) /\ rp_uuid r = u /\ forallb (has_some_trait d u) m = true.
Proof.
  unfold provider_ids_matching_required_traits. rewrite in_map_iff. split.
  - intros [r [E H]]. apply filter_In in H. destruct H as [Hin H]. exists r. subst u. repeat split; try assumption.
    erewrite forallb_ext; [exact H|]. intros. apply has_some_trait_existsb.
  - intros [r [Hin [E H]]]. exists r. split; [assumption|]. apply filter_In. split; [assumption|]. subst u.
    erewrite forallb_ext; [exact H|]. intros. symmetry. apply has_some_trait_existsb.
Qed.
Lemma having_any_trait_In d ts u :
  In u (get_provider_ids_having_any_trait d ts) <-> has_some_trait d u ts = true.
Proof.
  unfold get_provider_ids_having_any_trait, has_some_trait. rewrite nodup_first_In, in_map_iff, existsb_exists.
  split.
  - intros [[x [E H]] _]. apply filter_In in H. destruct H as [Hx H]. exists x. subst u.
    rewrite Z.eqb_refl, H. auto.
  - intros [x [Hx H]]. apply andb_true_iff in H. destruct H as [H1 H2]. apply Z.eqb_eq in H1.
    split; [|intros []]. exists x. split; [assumption|]. apply filter_In. auto.
Qed.

(* get_providers_with_resource yields the providers with room *)
Lemma with_resource_In d rc amount u :
  (exists r, In r (rps d) /\ rp_uuid r = u) ->
  NoDup (map rp_uuid (rps d)) ->
  In u (map fst (get_providers_with_resource d rc amount None)) <-> has_room d u rc amount = true.
Proof.
  intros [r0 [Hr0 Eu]] Hnd. unfold get_providers_with_resource, has_room.
  rewrite in_map_iff, existsb_exists. split.
  - intros [p [E H]]. apply in_flat_map in H. destruct H as [i [Hi H]].
    destruct ((i_rc i =? rc) && capacity_check_clause d i amount) eqn:C; [|destruct H].
    destruct (find_rp d (i_rp i)) as [r|] eqn:F; [|destruct H].
    destruct H as [<-|[]]. cbn [fst] in E. apply find_rp_l_Some in F. destruct F as [_ F].
    apply andb_true_iff in C. destruct C as [C1 C2]. exists i. split; [assumption|].
    assert (Eiu : i_rp i = u) by congruence. rewrite Eiu, Z.eqb_refl, C1. cbn [andb].
    apply Z.eqb_eq in C1. unfold capacity_check_clause in C2. rewrite Eiu, C1 in C2.
    rewrite !andb_true_iff in C2. destruct C2 as [[[-> ->] ->] ->]. reflexivity.
  - intros [i [Hi H]]. rewrite !andb_true_iff in H. destruct H as [[[[[H1 H2] H3] H4] H5] H6].
    apply Z.eqb_eq in H1. exists (u, rp_root r0). split; [reflexivity|]. apply in_flat_map. exists i.
    split; [assumption|]. rewrite H2. cbn [andb]. unfold capacity_check_clause.
    apply Z.eqb_eq in H2. rewrite H1, H2, H3, H4, H5, H6. cbn [andb].
    assert (F : find_rp d u = Some r0) by (apply find_rp_iff; auto). rewrite F. rewrite Eu. left. reflexivity.
Qed.

Lemma filter_filter {A} (P Q : A -> bool) l : filter Q (filter P l) = filter (fun x => P x && Q x) l.
Proof.
  induction l as [|x l IH]; cbn [filter]; [reflexivity|].
  destruct (P x); cbn [filter andb]; [destruct (Q x); rewrite IH; reflexivity | assumption].
Qed.
Lemma filter_true {A} (l : list A) : filter (fun _ => true) l = l.
Proof. induction l as [|x l IH]; cbn [filter]; [reflexivity|]. rewrite IH. reflexivity. Qed.

Lemma resources_filter_known d res l :
  forallb (fun x => rc_exists d (fst x)) res = true ->
  resources_filter d res l =
  Some (filter (fun r => forallb (fun x => memZ (rp_uuid r) (map fst (get_providers_with_resource d (fst x) (snd x) None))) res) l).
Proof.
  revert l. induction res as [|[rc amount] res IH]; intros l H; cbn [resources_filter forallb].
  - rewrite filter_true. reflexivity.
  - cbn [forallb fst] in H. apply andb_true_iff in H. destruct H as [H1 H2]. rewrite H1. cbn [negb].
    rewrite (IH _ H2), filter_filter. reflexivity.
Qed.

(* ================================================================ the row predicate *)
Definition row_ok (d : db) (f : rp_filters) (r : rp) : bool :=
  (match f_name f with NameIs n => rp_name r =? n | NameEmpty | NameAbsent => true end)
  && (match f_uuid f with Some w => rp_uuid r =? w | None => true end)
  && (match f_in_tree f with
      | Some t => match find_rp d t with Some tr => rp_root r =? rp_root tr | None => false end
      | None => true
      end)
  && forallb (in_some_agg d (rp_uuid r)) (f_member_of f)
  && negb (in_some_agg d (rp_uuid r) (f_forbidden_aggs f))
  && forallb (has_some_trait d (rp_uuid r)) (f_required f)
  && negb (has_some_trait d (rp_uuid r) (f_forbidden f))
  && forallb (fun x => has_room d (rp_uuid r) (fst x) (snd x)) (f_resources f).

Lemma rp_matches_row v f d u r : find_rp d u = Some r -> rp_matches v f d u = row_ok d f r.
Proof.
  intro F. unfold rp_matches, row_ok. rewrite F. apply find_rp_l_Some in F. destruct F as [_ <-]. reflexivity.
Qed.

Lemma forallb_false_nil {A} (P : A -> bool) : forallb P [] = true.
Proof. reflexivity. Qed.

(* _get_all_by_filters_from_db computes the rows satisfying row_ok *)
Lemma get_all_by_filters_rows d f :
  filters_known d f -> NoDup (map rp_uuid (rps d)) ->
  exists l, get_all_by_filters d f = Some (map rp_uuid l) /\
            NoDup (map rp_uuid l) /\
            forall r, In r l <-> In r (rps d) /\ row_ok d f r = true.
Proof.
  intros [K1 [K2 K3]] Hnd. unfold get_all_by_filters, names_known. rewrite K1, K2, K3. cbn [andb negb].
  set (by_name := match f_name f with NameIs n => filter (fun r => rp_name r =? n) (rps d) | _ => rps d end).
  set (by_uuid := match f_uuid f with Some u => filter (fun r => rp_uuid r =? u) by_name | None => by_name end).
  assert (Hname : forall r, In r by_name <-> In r (rps d) /\
            (match f_name f with NameIs n => rp_name r =? n | NameEmpty | NameAbsent => true end) = true).
  { intro r. unfold by_name. destruct (f_name f); try (rewrite filter_In); tauto. }
  assert (Huuid : forall r, In r by_uuid <-> In r by_name /\
            (match f_uuid f with Some w => rp_uuid r =? w | None => true end) = true).
  { intro r. unfold by_uuid. destruct (f_uuid f); try (rewrite filter_In); tauto. }
  assert (Nuuid : NoDup (map rp_uuid by_uuid)).
  { unfold by_uuid, by_name. destruct (f_uuid f), (f_name f); repeat apply NoDup_map_filter; assumption. }
  (* the empty answer *)
  assert (Hempty : (forall r, In r (rps d) -> row_ok d f r = false) ->
            exists l, Some (@nil Z) = Some (map rp_uuid l) /\ NoDup (map rp_uuid l) /\
                      forall r, In r l <-> In r (rps d) /\ row_ok d f r = true).
  { intro H. exists []. split; [reflexivity|]. split; [constructor|]. intro r. cbn [In]. split; [tauto|].
    intros [Hin Hok]. rewrite (H r Hin) in Hok. discriminate. }
  destruct (match f_in_tree f with
            | Some t => match find_rp d t with
                        | Some tr => Some (filter (fun r => rp_root r =? rp_root tr) by_uuid)
                        | None => None
                        end
            | None => Some by_uuid
            end) as [l1|] eqn:E1.
  2:{ apply Hempty. intros r _. unfold row_ok. destruct (f_in_tree f) as [t|]; [|discriminate].
      destruct (find_rp d t); [discriminate|]. rewrite !andb_false_r. reflexivity. }
  assert (H1 : forall r, In r l1 <-> In r by_uuid /\
            (match f_in_tree f with
             | Some t => match find_rp d t with Some tr => rp_root r =? rp_root tr | None => false end
             | None => true end) = true).
  { intro r. destruct (f_in_tree f) as [t|]; [|injection E1 as <-; tauto].
    destruct (find_rp d t); [|discriminate]. injection E1 as <-. rewrite filter_In. tauto. }
  assert (N1 : NoDup (map rp_uuid l1)).
  { destruct (f_in_tree f) as [t|]; [|injection E1 as <-; assumption].
    destruct (find_rp d t); [|discriminate]. injection E1 as <-. apply NoDup_map_filter. assumption. }
  (* required traits *)
  destruct (negb (is_nil (f_required f)) && is_nil (provider_ids_matching_required_traits d (f_required f))) eqn:E2.
  { apply Hempty. intros r Hin. apply andb_true_iff in E2. destruct E2 as [_ E2].
    destruct (provider_ids_matching_required_traits d (f_required f)) eqn:E; [|discriminate].
    unfold row_ok. destruct (forallb (has_some_trait d (rp_uuid r)) (f_required f)) eqn:F;
      [|rewrite !andb_false_r; reflexivity].
    exfalso. assert (In (rp_uuid r) (provider_ids_matching_required_traits d (f_required f)))
      by (apply matching_traits_In; eauto). rewrite E in H. destruct H. }
  set (l2 := if is_nil (f_required f) then l1
             else filter (fun r => memZ (rp_uuid r) (provider_ids_matching_required_traits d (f_required f))) l1).
  assert (H2 : forall r, In r l2 <-> In r l1 /\ forallb (has_some_trait d (rp_uuid r)) (f_required f) = true).
  { intro r. unfold l2. destruct (f_required f) eqn:Er; cbn [is_nil]; [cbn [forallb]; tauto|].
    rewrite filter_In, memZ_In, matching_traits_In. split.
    - intros [Hin [r' [_ [_ H]]]]. auto.
    - intros [Hin H]. split; [assumption|]. exists r. repeat split; try assumption.
      apply Hname. apply Huuid. apply H1. assumption. }
  assert (N2 : NoDup (map rp_uuid l2)) by (unfold l2; destruct (is_nil (f_required f)); [|apply NoDup_map_filter]; assumption).
  set (bad_traits := if is_nil (f_forbidden f) then [] else get_provider_ids_having_any_trait d (f_forbidden f)).
  assert (Hbt : forall u, In u bad_traits <-> has_some_trait d u (f_forbidden f) = true).
  { intro u. unfold bad_traits. destruct (f_forbidden f) eqn:Ef; cbn [is_nil]; [|apply having_any_trait_In].
    unfold has_some_trait. cbn [In]. split; [tauto|]. intro H. apply existsb_exists in H.
    destruct H as [x [_ H]]. rewrite andb_false_r in H. discriminate. }
  set (l3 := filter (fun r => negb (memZ (rp_uuid r) bad_traits)) l2).
  assert (H3 : forall r, In r l3 <-> In r l2 /\ negb (has_some_trait d (rp_uuid r) (f_forbidden f)) = true).
  { intro r. unfold l3. rewrite filter_In. destruct (memZ (rp_uuid r) bad_traits) eqn:M.
    - apply memZ_In, Hbt in M. rewrite M. tauto.
    - destruct (has_some_trait d (rp_uuid r) (f_forbidden f)) eqn:T; [|tauto].
      apply Hbt, memZ_In in T. congruence. }
  assert (N3 : NoDup (map rp_uuid l3)) by (apply NoDup_map_filter; assumption).
  (* member_of *)
  destruct (negb (is_nil (f_member_of f)) && is_nil (provider_ids_matching_aggregates d (f_member_of f))) eqn:E4.
  { apply Hempty. intros r Hin. apply andb_true_iff in E4. destruct E4 as [_ E4].
    destruct (provider_ids_matching_aggregates d (f_member_of f)) eqn:E; [|discriminate].
    unfold row_ok. destruct (forallb (in_some_agg d (rp_uuid r)) (f_member_of f)) eqn:F;
      [|rewrite !andb_false_r; reflexivity].
    exfalso. assert (In (rp_uuid r) (provider_ids_matching_aggregates d (f_member_of f)))
      by (apply matching_aggregates_In; eauto). rewrite E in H. destruct H. }
  set (l4 := if is_nil (f_member_of f) then l3
             else filter (fun r => memZ (rp_uuid r) (provider_ids_matching_aggregates d (f_member_of f))) l3).
  assert (H4 : forall r, In r l4 <-> In r l3 /\ forallb (in_some_agg d (rp_uuid r)) (f_member_of f) = true).
  { intro r. unfold l4. destruct (f_member_of f) eqn:Er; cbn [is_nil]; [cbn [forallb]; tauto|].
    rewrite filter_In, memZ_In, matching_aggregates_In. split.
    - intros [Hin [r' [_ [_ H]]]]. auto.
    - intros [Hin H]. split; [assumption|]. exists r. repeat split; try assumption.
      apply Hname. apply Huuid. apply H1. apply H2. apply H3. assumption. }
  assert (N4 : NoDup (map rp_uuid l4)) by (unfold l4; destruct (is_nil (f_member_of f)); [|apply NoDup_map_filter]; assumption).
  set (bad_aggs := if is_nil (f_forbidden_aggs f) then [] else provider_ids_matching_aggregates d [f_forbidden_aggs f]).
  set (l5 := filter (fun r => negb (memZ (rp_uuid r) bad_aggs)) l4).
  assert (H5 : forall r, In r l5 <-> In r l4 /\ negb (in_some_agg d (rp_uuid r) (f_forbidden_aggs f)) = true).
  { intro r. unfold l5. rewrite filter_In. split; intros [Hin H]; (split; [assumption|]).
    - destruct (in_some_agg d (rp_uuid r) (f_forbidden_aggs f)) eqn:T; [|reflexivity]. exfalso.
      assert (In (rp_uuid r) bad_aggs).
      { unfold bad_aggs. destruct (f_forbidden_aggs f) eqn:Ef; cbn [is_nil].
        - unfold in_some_agg in T. apply existsb_exists in T. destruct T as [x [_ T]].
          rewrite andb_false_r in T. discriminate.
        - apply matching_aggregates_In. exists r. repeat split.
          + apply Hname. apply Huuid. apply H1. apply H2. apply H3. apply H4. assumption.
          + cbn [forallb]. rewrite T. reflexivity. }
      apply memZ_In in H0. rewrite H0 in H. discriminate.
    - destruct (memZ (rp_uuid r) bad_aggs) eqn:M; [|reflexivity]. exfalso. apply memZ_In in M.
      unfold bad_aggs in M. destruct (f_forbidden_aggs f) eqn:Ef; cbn [is_nil] in M; [destruct M|].
      apply matching_aggregates_In in M. destruct M as [_ [_ [_ M]]]. cbn [forallb] in M.
      rewrite andb_true_r in M. rewrite M in H. discriminate. }
  assert (N5 : NoDup (map rp_uuid l5)) by (apply NoDup_map_filter; assumption).
  rewrite (resources_filter_known d (f_resources f) l5 K3).
  eexists. split; [reflexivity|]. split; [apply NoDup_map_filter; assumption|].
  intro r. rewrite filter_In, H5, H4, H3, H2, H1, Huuid, Hname. unfold row_ok.
  rewrite !andb_true_iff.
  assert (Hres : In r (rps d) ->
     forallb (fun x => memZ (rp_uuid r) (map fst (get_providers_with_resource d (fst x) (snd x) None))) (f_resources f)
     = forallb (fun x => has_room d (rp_uuid r) (fst x) (snd x)) (f_resources f)).
  { intro Hin. apply forallb_ext. intro x. apply eq_true_iff_eq'. rewrite memZ_In.
    apply with_resource_In; [eauto|assumption]. }
  split.
  - intros [[[[[[[[Hin ?] ?] ?] ?] ?] ?] ?] Hr]. rewrite (Hres Hin) in Hr. tauto.
  - intros [Hin [[[[[[[? ?] ?] ?] ?] ?] ?] Hr]]. rewrite <- (Hres Hin) in Hr. tauto.
Qed.

(* ================================================================ theorems *)
Theorem c13_exact : forall v f d,
  rp_filters_wf v f = true -> filters_known d f -> NoDup (map rp_uuid (rps d)) ->
  forall u, In u (list_rps v f d) <-> (exists r, find_rp d u = Some r) /\ rp_matches v f d u = true.
Proof.
  intros v f d Hwf Hk Hnd u. unfold list_rps, list_rps_result. rewrite Hwf. cbn [negb].
  destruct (get_all_by_filters_rows d f Hk Hnd) as [l [-> [_ Hl]]]. rewrite in_map_iff. split.
  - intros [r [E Hin]]. apply Hl in Hin. destruct Hin as [Hin Hok].
    assert (F : find_rp d u = Some r) by (apply find_rp_iff; auto).
    split; [eauto|]. rewrite (rp_matches_row v f d u r F). assumption.
  - intros [[r F] Hm]. rewrite (rp_matches_row v f d u r F) in Hm. exists r.
    apply find_rp_iff in F; [|assumption]. destruct F as [Hin E]. split; [assumption|]. apply Hl. auto.
Qed.

Theorem c13_nodup : forall v f d, NoDup (map rp_uuid (rps d)) -> filters_known d f -> NoDup (list_rps v f d).
Proof.
  intros v f d Hnd Hk. unfold list_rps, list_rps_result.
  destruct (negb (rp_filters_wf v f)); [constructor|].
  destruct (get_all_by_filters_rows d f Hk Hnd) as [l [-> [Hn _]]]. assumption.
Qed.

(* a filter naming something that does not exist: the empty list (no error) *)
Theorem c13_unknown_empty : forall v f d,
  filters_known d f -> NoDup (map rp_uuid (rps d)) ->
  (match f_in_tree f with Some t => find_rp d t = None | None => False end) \/
  (match f_uuid f with Some w => find_rp d w = None | None => False end) \/
  (exists ags, In ags (f_member_of f) /\ (forall a, In a ags -> ~ In a (aggs d)) /\
               (* referential integrity of resource_provider_aggregates (part of RI, C08) *)
               (forall x, In x (rp_aggs d) -> In (snd x) (aggs d))) ->
  list_rps v f d = [].
Proof.
  intros v f d Hk Hnd H. unfold list_rps, list_rps_result.
  destruct (negb (rp_filters_wf v f)); [reflexivity|].
  destruct (get_all_by_filters_rows d f Hk Hnd) as [l [-> [_ Hl]]].
  destruct l as [|r l]; [reflexivity|]. exfalso.
  destruct (proj1 (Hl r) (or_introl eq_refl)) as [Hin Hok]. unfold row_ok in Hok.
  rewrite !andb_true_iff in Hok. destruct Hok as [[[[[[[_ Hu] Ht] Hm] _] _] _] _].
  destruct H as [H|[H|[ags [Ha [H Hri]]]]].
  - destruct (f_in_tree f) as [t|]; [|destruct H]. rewrite H in Ht. discriminate.
  - destruct (f_uuid f) as [w|]; [|destruct H]. apply Z.eqb_eq in Hu. subst w.
    assert (find_rp d (rp_uuid r) = Some r) by (apply find_rp_iff; auto). congruence.
  - rewrite forallb_forall in Hm. specialize (Hm ags Ha). apply in_some_agg_spec in Hm.
    destruct Hm as [a [Hin' Hh]]. apply (H a Hin'). unfold has_agg in Hh. apply existsb_exists in Hh.
    destruct Hh as [x [Hx Hh]]. apply andb_true_iff in Hh. destruct Hh as [_ Hh]. apply Z.eqb_eq in Hh.
    rewrite <- Hh. apply Hri. assumption.
Qed.

(* ================================================================ 400, exactly *)
(* an unknown trait or resource class is a 400 whatever the other filters are *)
Theorem c13_unknown_400 : forall v f d,
  rp_filters_wf v f = true ->
  forallb (forallb (trait_exists d)) (f_required f) = false \/
  forallb (trait_exists d) (f_forbidden f) = false \/
  forallb (fun x => rc_exists d (fst x)) (f_resources f) = false ->
  list_rps_result v f d = None.
Proof.
  intros v f d Hwf H. unfold list_rps_result, get_all_by_filters, names_known. rewrite Hwf. cbn [negb].
  destruct H as [ -> | [ -> | -> ] ]; rewrite ?andb_false_r; reflexivity.
Qed.

(* filters ill-formed for the microversion are a 400 *)
Theorem c13_illformed_400 : forall v f d, rp_filters_wf v f = false -> list_rps_result v f d = None.
Proof. intros v f d H. unfold list_rps_result. rewrite H. reflexivity. Qed.

Lemma get_all_by_filters_some d f : filters_known d f -> exists l, get_all_by_filters d f = Some l.
Proof.
  intros [K1 [K2 K3]]. unfold get_all_by_filters, names_known. rewrite K1, K2, K3. cbn [andb negb].
  destruct (match f_in_tree f with None => _ | Some t => _ end); [|eauto].
  destruct (_ && _); [eauto|]. destruct (_ && _); [eauto|].
  rewrite (resources_filter_known d (f_resources f) _ K3). eauto.
Qed.

(* well-formed filters naming only existing traits and classes are answered with a list (200) *)
Theorem c13_known_200 : forall v f d,
  filters_known d f -> rp_filters_wf v f = true -> exists l, list_rps_result v f d = Some l.
Proof.
  intros v f d Hk Hwf. unfold list_rps_result. rewrite Hwf. cbn [negb]. apply get_all_by_filters_some. assumption.
Qed.

(* 400 iff ill-formed for the version or an unknown name *)
Theorem c13_400_iff : forall v f d,
  list_rps_result v f d = None <-> rp_filters_wf v f = false \/ names_known d f = false.
Proof.
  intros v f d. split.
  - intro H. destruct (rp_filters_wf v f) eqn:Hwf; [|left; reflexivity]. right.
    destruct (names_known d f) eqn:Hn; [|reflexivity]. exfalso. unfold names_known in Hn.
    rewrite !andb_true_iff in Hn. destruct Hn as [[K1 K2] K3].
    destruct (c13_known_200 v f d (conj K1 (conj K2 K3)) Hwf) as [l Hl]. congruence.
  - intros [H|H]; [apply c13_illformed_400; assumption|].
    unfold list_rps_result, get_all_by_filters. rewrite H. destruct (negb (rp_filters_wf v f)); reflexivity.
Qed.
