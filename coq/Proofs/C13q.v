(* C13q: from the query string of GET /resource_providers to the parsed filters of the listing model.

   Proofs/C13.v (Props/C13.v: C13_exact ...) ASSUMES  rp_filters_wf v f = true  about the parsed filters.  Here that
   hypothesis is DERIVED for every query string the handler accepts (Model/DecodeQ.v:decode_listing), from
     - the query schemas regenerated from placement/schemas/resource_provider.py (Gen/GenSchemas.v), through
       Spec/Fields.v:schema_of_get_rps: which parameter exists at which microversion, and
     - the version gates of the normalizers themselves (Model/Parse.v, theorems of Proofs/C15p.v).

   No theorem looks at the text of a generated schema: the schemas enter through `key_accepted` facts evaluated by
   vm_compute (the gate_ lemmas), and through the generic inversion lemmas of Proofs/C15s.v (validate_valid, valid_S). *)
From Coq Require Import ZArith List Bool Lia.
From PV Require Import Model.Candidates Model.Parse Model.Json Gen.GenConsts Gen.GenSchemas Spec.Fields Model.DecodeQ.
From PV Require Import Proofs.C15p Proofs.C15s.
Import ListNotations.
Open Scope Z_scope.

(* ================================================================== webob MultiDict *)
Lemma has_key_In k kv : has_key k kv = true <-> In k (map fst kv).
Proof.
  unfold has_key. rewrite existsb_exists. split.
  - intros [p [Hp He]]. apply str_eqb_eq in He. subst k. apply in_map. exact Hp.
  - intro H. apply in_map_iff in H. destruct H as [p [<- Hp]]. exists p. split; auto. apply str_eqb_refl.
Qed.

(* req.GET[k] is defined exactly when k in req.GET *)
Lemma get_last_has_key k kv : has_key k kv = true <-> exists x, get_last k kv = Some x.
Proof.
  induction kv as [| [k' x] kv IH]; simpl.
  - split. discriminate. intros [x H]. discriminate.
  - split.
    + intro H. destruct (get_last k kv) as [y |]. eauto.
      destruct (str_eqb k k'). eauto. simpl in H. apply IH in H. destruct H as [y H]. discriminate.
    + intros [y H]. destruct (get_last k kv) as [z |] eqn:G.
      * apply orb_true_iff. right. apply IH. eauto.
      * destruct (str_eqb k k'); [reflexivity | discriminate].
Qed.
Lemma get_last_none k kv : has_key k kv = false -> get_last k kv = None.
Proof.
  intro H. destruct (get_last k kv) as [x |] eqn:G; auto.
  assert (has_key k kv = true) by (apply get_last_has_key; eauto). congruence.
Qed.

(* the value req.GET[k] returns is the last element of req.GET.getall(k) *)
Lemma get_last_getall k kv : get_last k kv = match rev (getall k kv) with x :: _ => Some x | [] => None end.
Proof.
  unfold getall. induction kv as [| [k' x] kv IH]; simpl; auto.
  rewrite IH. destruct (str_eqb k k'); simpl.
  - destruct (rev (map snd (filter (fun p => str_eqb k (fst p)) kv))); reflexivity.
  - destruct (rev (map snd (filter (fun p => str_eqb k (fst p)) kv))); reflexivity.
Qed.
Lemma getall_has_key k kv : has_key k kv = false -> getall k kv = [].
Proof.
  unfold has_key, getall. induction kv as [| p kv IH]; simpl; auto.
  intro H. apply orb_false_iff in H. destruct H as [H1 H2]. rewrite H1. auto.
Qed.

(* dict(req.GET) *)
Lemma assoc_jset k k' x d : assoc k (jset k' x d) = if str_eqb k k' then Some x else assoc k d.
Proof.
  induction d as [| [k2 y] d IH]; simpl.
  - reflexivity.
  - destruct (str_eqb k' k2) eqn:E2.
    + apply str_eqb_eq in E2. subst k2. simpl. destruct (str_eqb k k'); reflexivity.
    + simpl. destruct (str_eqb k k2) eqn:E3.
      * apply str_eqb_eq in E3. subst k2. destruct (str_eqb k k') eqn:E4; auto.
        apply str_eqb_eq in E4. subst k'. rewrite str_eqb_refl in E2. discriminate.
      * exact IH.
Qed.
Lemma assoc_fold k kv : forall acc,
  assoc k (fold_left (fun d p => jset (fst p) (JStr (snd p)) d) kv acc)
  = match get_last k kv with Some x => Some (JStr x) | None => assoc k acc end.
Proof.
  induction kv as [| [k' x] kv IH]; intro acc; simpl. reflexivity.
  rewrite IH. destruct (get_last k kv); auto. rewrite assoc_jset. destruct (str_eqb k k'); reflexivity.
Qed.
(* one value per key: the LAST one *)
Theorem qdict_assoc k kv : assoc k (qitems kv) = option_map JStr (get_last k kv).
Proof. unfold qitems. rewrite assoc_fold. destruct (get_last k kv); reflexivity. Qed.

Lemma jset_keys k x d : Decode.sdistinct (map fst d) = true -> Decode.sdistinct (map fst (jset k x d)) = true.
Proof.
  induction d as [| [k2 y] d IH]; simpl; auto. intro H. apply andb_true_iff in H. destruct H as [H1 H2].
  destruct (str_eqb k k2) eqn:E; simpl.
  - rewrite H1, H2. reflexivity.
  - rewrite (IH H2), andb_true_r. apply negb_true_iff. apply negb_true_iff in H1.
    destruct (existsb (str_eqb k2) (map fst (jset k x d))) eqn:X; auto.
    apply existsb_exists in X. destruct X as [k3 [H3 E3]]. apply str_eqb_eq in E3. subst k3.
    assert (In k2 (map fst d)) as Hin.
    { clear - H3 E. induction d as [| [k4 z] d IHd]; simpl in *.
      - destruct H3 as [-> | []]. rewrite str_eqb_refl in E. discriminate.
      - destruct (str_eqb k k4); simpl in *; destruct H3; auto. }
    assert (existsb (str_eqb k2) (map fst d) = true).
    { apply existsb_exists. exists k2. split; auto. apply str_eqb_refl. }
    congruence.
Qed.
(* dict(req.GET) is a document in the sense of Decode.json_wfb: its keys are distinct *)
Theorem qdict_keys_distinct kv : Decode.sdistinct (map fst (qitems kv)) = true.
Proof.
  unfold qitems. assert (forall acc, Decode.sdistinct (map fst acc) = true ->
    Decode.sdistinct (map fst (fold_left (fun d p => jset (fst p) (JStr (snd p)) d) kv acc)) = true) as G.
  { induction kv as [| p kv IH]; simpl; auto. intros acc H. apply IH. apply jset_keys. exact H. }
  apply G. reflexivity.
Qed.

(* ================================================================== what the schema says about a key *)
(* a key of the query string is a key of the validated dict, so the schema must accept it *)
Lemma validate_key_accepted s kv k :
  validate s (qdict kv) = true -> has_key k kv = true -> key_accepted s k = true.
Proof.
  intros Hv Hk. apply validate_valid in Hv. destruct s as [kws]. unfold FUEL in Hv. rewrite valid_S in Hv.
  apply andb_true_iff in Hv. destruct Hv as [_ Hp]. unfold qdict, props_ok in Hp. rewrite forallb_forall in Hp.
  apply get_last_has_key in Hk. destruct Hk as [x Hx].
  assert (In (k, JStr x) (qitems kv)) as Hin.
  { apply assoc_In. rewrite qdict_assoc, Hx. reflexivity. }
  specialize (Hp _ Hin). simpl in Hp. unfold key_accepted, kws_of.
  destruct (prop_schemas kws k); auto.
Qed.

(* which parameter exists from which microversion: read off the regenerated schemas by vm_compute *)
Ltac gate :=
  let H := fresh "H" in
  intro H; unfold schema_of_get_rps in H;
  repeat match type of H with
         | context [if ?a <=? ?b then _ else _] => destruct (Z.leb_spec a b)
         end; try lia; vm_compute in H; discriminate.
Lemma gate_member_of v : key_accepted (schema_of_get_rps v) qk_member_of = true -> 3 <= v.
Proof. gate. Qed.
Lemma gate_resources v : key_accepted (schema_of_get_rps v) qk_resources = true -> 4 <= v.
Proof. gate. Qed.
Lemma gate_in_tree v : key_accepted (schema_of_get_rps v) qk_in_tree = true -> 14 <= v.
Proof. gate. Qed.
Lemma gate_required v : key_accepted (schema_of_get_rps v) qk_required = true -> 18 <= v.
Proof. gate. Qed.

(* ================================================================== the normalizers: what C15p does not state *)
(* one any-of list per member_of value at most *)
Lemma member_of_loop_len : forall af values req forb req' forb',
  member_of_loop af values req forb = Ret (req', forb') -> (length req' <= length req + length values)%nat.
Proof.
  induction values as [| x values IH]; intros req forb req' forb'; simpl.
  - intro H. inversion H; subst. lia.
  - destruct (normalize_member_of_qs_param x) as [[r f] |]; [| discriminate]. cbn [Parse.bind].
    assert (length (if nonempty r then req ++ [r] else req) <= length req + 1)%nat as Hl.
    { destruct (nonempty r); [rewrite app_length; simpl |]; lia. }
    destruct (nonempty f).
    + destruct (negb af); [discriminate |]. intro H. apply IH in H. lia.
    + intro H. apply IH in H. lia.
Qed.
Lemma member_of_params_len : forall minor values req forb,
  normalize_member_of_qs_params minor values = Ret (req, forb) -> (length req <= length values)%nat.
Proof.
  intros minor values req forb. unfold normalize_member_of_qs_params.
  destruct (negb (24 <=? minor) && (1 <? Z.of_nat (length values))); [discriminate |].
  intro H. apply member_of_loop_len in H. simpl in H. exact H.
Qed.

Lemma to_pres_400 {A} (r : R A) : to_pres r = P400 <-> r = Raise HTTPBadRequest.
Proof.
  destruct r as [a | e]; simpl; split; intro H; try discriminate.
  - destruct e; try discriminate. reflexivity.
  - inversion H. reflexivity.
Qed.
Lemma to_pres_ok {A} (r : R A) a : to_pres r = POk a <-> r = Ret a.
Proof.
  destruct r as [b | e]; simpl; split; intro H; try discriminate.
  - inversion H. reflexivity.
  - inversion H. reflexivity.
  - destruct e; discriminate.
Qed.

(* ================================================================== the decoder *)
Section C13q.
Variables tok_rp tok_agg tok_trait tok_rc tok_name : str -> Z.
Notation listing := (listing_filters tok_rp tok_agg tok_trait tok_rc tok_name).
Notation decode := (decode_listing tok_rp tok_agg tok_trait tok_rc tok_name).

(* the three stages that can fail *)
Definition stage_member_of (v : Z) (kv : qs) : R (list (list str) * list str) :=
  if has_key qk_member_of kv then normalize_member_of_qs_params v (getall qk_member_of kv) else Ret ([], []).
Definition stage_required (v : Z) (kv : qs) : R (list (list str) * list str) :=
  if has_key qk_required kv then normalize_traits_qs_params v (getall qk_required kv) else Ret ([], []).
Definition stage_resources (kv : qs) : R (list (str * Z)) :=
  if has_key qk_resources kv then Parse.bind (getitem qk_resources kv) normalize_resources_qs_param else Ret [].

(* `if attr in req.GET: req.GET[attr]` never raises: None when absent, else the last value *)
Lemma opt_item_eq k kv : opt_item k kv = Ret (get_last k kv).
Proof.
  unfold opt_item, getitem. destruct (has_key k kv) eqn:H.
  - apply get_last_has_key in H. destruct H as [x ->]. reflexivity.
  - rewrite (get_last_none _ _ H). reflexivity.
Qed.

Lemma stage_member_of_only400 v kv : only400 (stage_member_of v kv).
Proof.
  unfold stage_member_of. destruct (has_key qk_member_of kv); [| exact I].
  apply only400_no_escape. apply member_of_params_no_escape.
Qed.
Lemma stage_required_only400 v kv : only400 (stage_required v kv).
Proof.
  unfold stage_required. destruct (has_key qk_required kv); [| exact I].
  apply only400_no_escape. apply traits_params_no_escape.
Qed.
Lemma stage_resources_eq kv :
  stage_resources kv = match get_last qk_resources kv with Some x => normalize_resources_qs_param x | None => Ret [] end.
Proof.
  unfold stage_resources, getitem. destruct (has_key qk_resources kv) eqn:H.
  - apply get_last_has_key in H. destruct H as [x ->]. reflexivity.
  - rewrite (get_last_none _ _ H). reflexivity.
Qed.
Lemma stage_resources_only400 kv : only400 (stage_resources kv).
Proof.
  rewrite stage_resources_eq. destruct (get_last qk_resources kv); [| exact I].
  apply only400_no_escape. apply resources_no_escape.
Qed.

(* the handler, with the reads that cannot fail resolved *)
Lemma listing_eq v kv :
  listing v kv =
  Parse.bind (stage_member_of v kv) (fun mo =>
  Parse.bind (stage_required v kv) (fun rq =>
  Parse.bind (stage_resources kv) (fun res =>
  Ret (mkRpFilters (name_of tok_name (get_last qk_name kv)) (truthy_tok tok_rp (get_last qk_uuid kv))
                   (truthy_tok tok_rp (get_last qk_in_tree kv))
                   (map (map tok_agg) (fst mo)) (map tok_agg (snd mo))
                   (map (map tok_trait) (fst rq)) (map tok_trait (snd rq))
                   (map (fun p => (tok_rc (fst p), snd p)) res))))).
Proof.
  unfold listing_filters. rewrite !opt_item_eq. reflexivity.
Qed.

Lemma listing_only400 v kv : only400 (listing v kv).
Proof.
  rewrite listing_eq.
  apply bind_only400. apply stage_member_of_only400. intros mo _.
  apply bind_only400. apply stage_required_only400. intros rq _.
  apply bind_only400. apply stage_resources_only400. intros res _. exact I.
Qed.

(* 1. whatever the query string and the version, the only exception that leaves the decoding is HTTPBadRequest *)
Theorem c13q_never_escapes : forall v kv, decode v kv <> PEscape.
Proof.
  intros v kv. unfold decode_listing. destruct (validate (schema_of_get_rps v) (qdict kv)); [| discriminate].
  apply only400_no_escape. apply listing_only400.
Qed.

(* an accepted query string: the schema validated dict(req.GET) and the three stages returned *)
Lemma decode_ok_inv v kv f : decode v kv = POk f ->
  validate (schema_of_get_rps v) (qdict kv) = true /\
  exists mo rq res,
    stage_member_of v kv = Ret mo /\ stage_required v kv = Ret rq /\ stage_resources kv = Ret res /\
    f = mkRpFilters (name_of tok_name (get_last qk_name kv)) (truthy_tok tok_rp (get_last qk_uuid kv))
                    (truthy_tok tok_rp (get_last qk_in_tree kv))
                    (map (map tok_agg) (fst mo)) (map tok_agg (snd mo))
                    (map (map tok_trait) (fst rq)) (map tok_trait (snd rq))
                    (map (fun p => (tok_rc (fst p), snd p)) res).
Proof.
  unfold decode_listing. destruct (validate (schema_of_get_rps v) (qdict kv)); [| discriminate].
  intro H. apply to_pres_ok in H. rewrite listing_eq in H. split; [reflexivity |].
  destruct (stage_member_of v kv) as [mo |]; [| discriminate]. cbn [Parse.bind] in H.
  destruct (stage_required v kv) as [rq |]; [| discriminate]. cbn [Parse.bind] in H.
  destruct (stage_resources kv) as [res |]; [| discriminate]. cbn [Parse.bind] in H.
  inversion H. exists mo, rq, res. auto.
Qed.
Lemma decode_ok_intro v kv mo rq res :
  validate (schema_of_get_rps v) (qdict kv) = true ->
  stage_member_of v kv = Ret mo -> stage_required v kv = Ret rq -> stage_resources kv = Ret res ->
  exists f, decode v kv = POk f.
Proof.
  intros V M T Rs. unfold decode_listing. rewrite V, listing_eq, M, T, Rs. cbn [Parse.bind to_pres]. eauto.
Qed.

(* ------------------------------------------------------------------ the version gates, stage by stage *)
Section Gates.
Variables (v : Z) (kv : qs).
Hypothesis V : validate (schema_of_get_rps v) (qdict kv) = true.

Lemma key_gate k lo : (key_accepted (schema_of_get_rps v) k = true -> lo <= v) -> has_key k kv = true -> lo <= v.
Proof. intros G H. apply G. eapply validate_key_accepted; eauto. Qed.

(* member_of: a parameter of the schemas from 1.3; repeated from 1.24, forbidden aggregates from 1.32 (normalizer) *)
Lemma member_of_gates req forb : stage_member_of v kv = Ret (req, forb) ->
  ((req = [] /\ forb = []) \/ 3 <= v) /\ ((length req <= 1)%nat \/ 24 <= v) /\ (forb = [] \/ 32 <= v).
Proof.
  unfold stage_member_of. destruct (has_key qk_member_of kv) eqn:K.
  - intro H. pose proof (key_gate _ _ (gate_member_of v) K) as G3.
    pose proof (member_of_params_len _ _ _ _ H) as Hl.
    destruct (member_of_params_accepted_wf _ _ _ _ H) as (_ & _ & H32 & H24).
    split; [right; exact G3 |]. split.
    + destruct (le_lt_dec (length (getall qk_member_of kv)) 1) as [L | L]; [left; lia | right; auto].
    + destruct forb as [| a forb]; [left; reflexivity | right; apply H32; discriminate].
  - intro H. inversion H. subst. split; [left; auto |]. split; left; simpl; auto.
Qed.

(* required: a parameter of the schemas from 1.18; forbidden traits from 1.22, any-of lists from 1.39 (normalizer) *)
Lemma required_gates rq fb : stage_required v kv = Ret (rq, fb) ->
  ((rq = [] /\ fb = []) \/ 18 <= v) /\ (fb = [] \/ 22 <= v) /\ (Forall (fun s => length s = 1%nat) rq \/ 39 <= v).
Proof.
  unfold stage_required. destruct (has_key qk_required kv) eqn:K.
  - intro H. pose proof (key_gate _ _ (gate_required v) K) as G18.
    destruct (traits_params_accepted_wf _ _ _ _ H) as (H22 & H39).
    split; [right; exact G18 |]. split.
    + destruct fb as [| a fb]; [left; reflexivity | right; apply H22; discriminate].
    + destruct (Z_lt_le_dec v 39) as [L | L]; [left; auto | right; exact L].
  - intro H. inversion H. subst. split; [left; auto |]. split; left; auto.
Qed.

(* resources: a parameter of the schemas from 1.4; amounts are positive (normalizer) *)
Lemma resources_gates res : stage_resources kv = Ret res ->
  (res = [] \/ 4 <= v) /\ forall k a, In (k, a) res -> 1 <= a.
Proof.
  unfold stage_resources. destruct (has_key qk_resources kv) eqn:K.
  - intro H. pose proof (key_gate _ _ (gate_resources v) K) as G4. split; [right; exact G4 |].
    unfold getitem in H. destruct (get_last qk_resources kv) as [x |]; [| discriminate]. cbn [Parse.bind] in H.
    destruct (resources_accepted_wf _ _ H) as (_ & _ & Hw). intros k a Hin. destruct (Hw k a Hin). lia.
  - intro H. inversion H. split; [left; reflexivity |]. intros k a [].
Qed.

(* in_tree: a parameter of the schemas from 1.14 *)
Lemma in_tree_gate x : get_last qk_in_tree kv = Some x -> 14 <= v.
Proof.
  intro H. apply (key_gate _ _ (gate_in_tree v)). apply get_last_has_key. eauto.
Qed.
End Gates.

Lemma leb_r a b c : a <= b -> (c || (a <=? b)) = true.
Proof. intro H. apply orb_true_iff. right. apply Z.leb_le. exact H. Qed.

(* 2. the hypothesis of C13_exact, derived: a query string accepted at minor version v decodes to filters that are
      well formed at v.  (No bound on v is needed; the statement asked for, with 0 <= v <= 39, follows.) *)
Theorem c13q_accepted_wf_any : forall v kv f, decode v kv = POk f -> rp_filters_wf v f = true.
Proof.
  intros v kv f H. apply decode_ok_inv in H. destruct H as (V & [req forb] & [rq fb] & res & M & T & Rs & ->).
  destruct (member_of_gates v kv V _ _ M) as (M3 & M24 & M32).
  destruct (required_gates v kv V _ _ T) as (T18 & T22 & T39).
  destruct (resources_gates v kv V _ Rs) as (R4 & R1).
  unfold rp_filters_wf.
  cbn [f_name f_uuid f_in_tree f_member_of f_forbidden_aggs f_required f_forbidden f_resources fst snd].
  repeat (apply andb_true_iff; split).
  - destruct M3 as [[-> ->] | G]; [reflexivity | apply leb_r; exact G].
  - destruct R4 as [-> | G]; [reflexivity | apply leb_r; exact G].
  - destruct (get_last qk_in_tree kv) as [[| c r] |] eqn:I; simpl; auto.
    apply Z.leb_le. eapply in_tree_gate; eauto.
  - destruct T18 as [[-> ->] | G]; [reflexivity | apply leb_r; exact G].
  - destruct T22 as [-> | G]; [reflexivity | apply leb_r; exact G].
  - destruct M24 as [L | G]; [| apply leb_r; exact G].
    apply orb_true_iff. left. unfold lenZ. rewrite map_length. apply Z.leb_le. lia.
  - destruct M32 as [-> | G]; [reflexivity | apply leb_r; exact G].
  - destruct T39 as [L | G]; [| apply leb_r; exact G].
    apply orb_true_iff. left. apply forallb_forall. intros any Hin. apply in_map_iff in Hin.
    destruct Hin as [s [<- Hs]]. rewrite Forall_forall in L. unfold lenZ. rewrite map_length, (L s Hs). reflexivity.
  - apply forallb_forall. intros x Hin. apply in_map_iff in Hin. destruct Hin as [[k a] [<- Hp]]. simpl.
    apply Z.leb_le. eapply R1; eauto.
Qed.

Theorem c13q_accepted_wf : forall v kv f, 0 <= v <= 39 -> decode v kv = POk f -> rp_filters_wf v f = true.
Proof. intros v kv f _. apply c13q_accepted_wf_any. Qed.

(* ------------------------------------------------------------------ 3. the rejected query strings *)
Lemma stage_member_of_400 v kv : stage_member_of v kv = Raise HTTPBadRequest <->
  has_key qk_member_of kv = true /\ normalize_member_of_qs_params v (getall qk_member_of kv) = Raise HTTPBadRequest.
Proof.
  unfold stage_member_of. destruct (has_key qk_member_of kv); split; intro H; auto; try discriminate.
  - destruct H; assumption.
  - destruct H; discriminate.
Qed.
Lemma stage_required_400 v kv : stage_required v kv = Raise HTTPBadRequest <->
  has_key qk_required kv = true /\ normalize_traits_qs_params v (getall qk_required kv) = Raise HTTPBadRequest.
Proof.
  unfold stage_required. destruct (has_key qk_required kv); split; intro H; auto; try discriminate.
  - destruct H; assumption.
  - destruct H; discriminate.
Qed.
Lemma stage_resources_400 kv : stage_resources kv = Raise HTTPBadRequest <->
  exists x, get_last qk_resources kv = Some x /\ normalize_resources_qs_param x = Raise HTTPBadRequest.
Proof.
  rewrite stage_resources_eq. destruct (get_last qk_resources kv) as [x |]; split; intro H.
  - eauto.
  - destruct H as [y [Hy H]]. inversion Hy. subst. exact H.
  - discriminate.
  - destruct H as [y [Hy _]]. discriminate.
Qed.
Lemma only400_raise {A} (r : R A) e : only400 r -> r = Raise e -> e = HTTPBadRequest.
Proof. intros H E. rewrite E in H. exact H. Qed.

(* 400 exactly when the schema rejects dict(req.GET) (an unknown parameter for the version, a uuid / in_tree whose
   LAST value is not uuid-like) or one of the three value parsers rejects: member_of (over ALL its values), required
   (all values from 1.39, the last one before) or resources (its last value) *)
Theorem c13q_rejected_iff : forall v kv,
  decode v kv = P400 <->
  validate (schema_of_get_rps v) (qdict kv) = false
  \/ (has_key qk_member_of kv = true /\
      normalize_member_of_qs_params v (getall qk_member_of kv) = Raise HTTPBadRequest)
  \/ (has_key qk_required kv = true /\
      normalize_traits_qs_params v (getall qk_required kv) = Raise HTTPBadRequest)
  \/ (exists x, get_last qk_resources kv = Some x /\ normalize_resources_qs_param x = Raise HTTPBadRequest).
Proof.
  intros v kv. rewrite <- stage_member_of_400, <- stage_required_400, <- stage_resources_400.
  unfold decode_listing. destruct (validate (schema_of_get_rps v) (qdict kv)).
  - rewrite to_pres_400, listing_eq. split.
    + intro H. right.
      destruct (stage_member_of v kv) as [mo | e]; [| left; cbn [Parse.bind] in H; inversion H; reflexivity]. cbn [Parse.bind] in H.
      destruct (stage_required v kv) as [rq | e]; [| right; left; cbn [Parse.bind] in H; inversion H; reflexivity]. cbn [Parse.bind] in H.
      destruct (stage_resources kv) as [res | e]; [discriminate | right; right; cbn [Parse.bind] in H; inversion H; reflexivity].
    + intros [H | H]; [discriminate |].
      destruct (stage_member_of v kv) as [mo | e] eqn:M.
      2:{ rewrite (only400_raise _ _ (stage_member_of_only400 v kv) M). reflexivity. }
      cbn [Parse.bind]. destruct H as [H | H]; [discriminate |].
      destruct (stage_required v kv) as [rq | e] eqn:T.
      2:{ rewrite (only400_raise _ _ (stage_required_only400 v kv) T). reflexivity. }
      cbn [Parse.bind]. destruct H as [H | H]; [discriminate |].
      rewrite H. reflexivity.
  - split; auto.
Qed.

(* the accepted ones, for completeness *)
Theorem c13q_accepted_iff : forall v kv,
  (exists f, decode v kv = POk f) <->
  validate (schema_of_get_rps v) (qdict kv) = true /\
  (exists mo, stage_member_of v kv = Ret mo) /\ (exists rq, stage_required v kv = Ret rq) /\
  (exists res, stage_resources kv = Ret res).
Proof.
  intros v kv. split.
  - intros [f H]. apply decode_ok_inv in H. destruct H as (V & mo & rq & res & M & T & Rs & _). eauto 8.
  - intros (V & [mo M] & [rq T] & [res Rs]). eapply decode_ok_intro; eauto.
Qed.
End C13q.

(* ================================================================== composition with C13 *)
From PV Require Spec.CandSpec Proofs.C13.

(* C13_exact without its well-formedness hypothesis, for the filters of an accepted query string *)
Theorem c13q_listing_exact : forall tok_rp tok_agg tok_trait tok_rc tok_name v kv f d,
  decode_listing tok_rp tok_agg tok_trait tok_rc tok_name v kv = POk f ->
  CandSpec.filters_known d f -> NoDup (map rp_uuid (rps d)) ->
  forall u, In u (list_rps v f d) <-> (exists r, find_rp d u = Some r) /\ CandSpec.rp_matches v f d u = true.
Proof.
  intros until d. intros H K N. apply C13.c13_exact; auto. eapply c13q_accepted_wf_any; eauto.
Qed.

(* after an accepted decoding the listing answers 400 only for an unknown trait / resource class name *)
Theorem c13q_listing_400_iff : forall tok_rp tok_agg tok_trait tok_rc tok_name v kv f d,
  decode_listing tok_rp tok_agg tok_trait tok_rc tok_name v kv = POk f ->
  (list_rps_result v f d = None <-> names_known d f = false).
Proof.
  intros until d. intro H. rewrite C13.c13_400_iff. apply c13q_accepted_wf_any in H. rewrite H.
  split; [intros [X | X]; [discriminate | exact X] | auto].
Qed.

(* ================================================================== the answer does not depend on set order *)
Lemma lenZ_is_nil {A B} (a : list A) (b : list B) : lenZ a = lenZ b -> Candidates.is_nil a = Candidates.is_nil b.
Proof. unfold lenZ. destruct a, b; simpl; intro H; auto; lia. Qed.

Lemma same_set_spec a b : same_set a b = true -> lenZ a = lenZ b /\ forall x, memZ x a = memZ x b.
Proof.
  unfold same_set, set_eqZ, subsetZ. intro H. apply andb_true_iff in H. destruct H as [L H].
  apply andb_true_iff in H. destruct H as [H1 H2]. apply Z.eqb_eq in L. split; auto.
  rewrite forallb_forall in H1, H2. intro x.
  destruct (memZ x a) eqn:Ea; destruct (memZ x b) eqn:Eb; auto.
  - apply C15s.memZ_In in Ea. rewrite (H1 x Ea) in Eb. discriminate.
  - apply C15s.memZ_In in Eb. rewrite (H2 x Eb) in Ea. discriminate.
Qed.
Lemma mem_existsb (P : Z -> bool) a b : (forall x, memZ x a = memZ x b) -> existsb P a = existsb P b.
Proof.
  intro H. assert (forall a b, (forall x, memZ x a = memZ x b) -> existsb P a = true -> existsb P b = true) as G.
  { clear. intros a b H E. apply existsb_exists in E. destruct E as [x [Hx Px]]. apply existsb_exists. exists x. split; auto.
    apply C15s.memZ_In. rewrite <- H. apply C15s.memZ_In. exact Hx. }
  destruct (existsb P a) eqn:Ea.
  - symmetry. eapply G; eauto.
  - destruct (existsb P b) eqn:Eb; auto. rewrite (G b a) in Ea; auto.
Qed.
Lemma mem_forallb (P : Z -> bool) a b : (forall x, memZ x a = memZ x b) -> forallb P a = forallb P b.
Proof.
  intro H. assert (forall a b, (forall x, memZ x a = memZ x b) -> forallb P a = true -> forallb P b = true) as G.
  { clear. intros a b H E. rewrite forallb_forall in E. apply forallb_forall. intros x Hx. apply E.
    apply C15s.memZ_In. rewrite H. apply C15s.memZ_In. exact Hx. }
  destruct (forallb P a) eqn:Ea.
  - symmetry. eapply G; eauto.
  - destruct (forallb P b) eqn:Eb; auto. rewrite (G b a) in Ea; auto.
Qed.

(* a property of any-of lists that only depends on the list as a set (and its length) *)
Definition respects (Q : list Z -> bool) : Prop := forall x y, same_set x y = true -> Q x = Q y.
Lemma same_sets_spec a b : same_sets a b = true ->
  lenZ a = lenZ b /\ forall Q, respects Q -> forallb Q a = forallb Q b.
Proof.
  unfold same_sets. intro H. apply andb_true_iff in H. destruct H as [H H2].
  apply andb_true_iff in H. destruct H as [L H1]. apply Z.eqb_eq in L. split; auto.
  intros Q HQ. rewrite forallb_forall in H1, H2.
  assert (forall a b, (forall x, In x b -> existsb (same_set x) a = true) -> forallb Q a = true -> forallb Q b = true) as G.
  { clear - HQ. intros a b H E. rewrite forallb_forall in E. apply forallb_forall. intros y Hy.
    specialize (H y Hy). apply existsb_exists in H. destruct H as [x [Hx S]]. rewrite (HQ _ _ S). auto. }
  destruct (forallb Q a) eqn:Ea.
  - symmetry. eapply G; eauto.
  - destruct (forallb Q b) eqn:Eb; auto. rewrite (G b a) in Ea; auto.
Qed.

Lemma respects_forallb P : respects (forallb P).
Proof. intros x y S. apply mem_forallb. apply same_set_spec. exact S. Qed.
Lemma respects_existsb P : respects (existsb P).
Proof. intros x y S. apply mem_existsb. apply same_set_spec. exact S. Qed.
Lemma respects_len1 : respects (fun any => lenZ any =? 1).
Proof. intros x y S. apply same_set_spec in S. destruct S as [L _]. rewrite L. reflexivity. Qed.

Lemma name_eqb_eq a b : name_eqb a b = true -> a = b.
Proof. destruct a, b; simpl; intro H; try discriminate; auto. apply Z.eqb_eq in H. congruence. Qed.
Lemma oeqb_eq a b : oeqb a b = true -> a = b.
Proof. destruct a, b; simpl; intro H; try discriminate; auto. apply Z.eqb_eq in H. congruence. Qed.
Lemma res_eqb_eq (a b : list (Z * Z)) :
  Parse.list_eqb (fun x y => (fst x =? fst y) && (snd x =? snd y)) a b = true -> a = b.
Proof.
  revert b. induction a as [| [x1 x2] a IH]; destruct b as [| [y1 y2] b]; simpl; intro H; try discriminate; auto.
  apply andb_true_iff in H. destruct H as [H1 H2]. apply andb_true_iff in H1. destruct H1 as [E1 E2].
  apply Z.eqb_eq in E1, E2. rewrite (IH b H2). congruence.
Qed.

Lemma matching_traits_ext d a b : same_sets a b = true ->
  provider_ids_matching_required_traits d a = provider_ids_matching_required_traits d b.
Proof.
  intro S. apply same_sets_spec in S. destruct S as [_ S]. unfold provider_ids_matching_required_traits.
  f_equal. apply filter_ext. intro r. apply S. apply respects_existsb.
Qed.
Lemma matching_aggs_ext d a b : same_sets a b = true ->
  provider_ids_matching_aggregates d a = provider_ids_matching_aggregates d b.
Proof.
  intro S. apply same_sets_spec in S. destruct S as [_ S]. unfold provider_ids_matching_aggregates.
  f_equal. apply filter_ext. intro r. apply S. apply respects_existsb.
Qed.
Lemma matching_aggs1_ext d a b : same_set a b = true ->
  provider_ids_matching_aggregates d [a] = provider_ids_matching_aggregates d [b].
Proof.
  intro S. unfold provider_ids_matching_aggregates. f_equal. apply filter_ext. intro r. simpl.
  rewrite (respects_existsb _ _ _ S). reflexivity.
Qed.
Lemma having_any_trait_ext d a b : same_set a b = true ->
  get_provider_ids_having_any_trait d a = get_provider_ids_having_any_trait d b.
Proof.
  intro S. apply same_set_spec in S. destruct S as [_ S]. unfold get_provider_ids_having_any_trait.
  f_equal. f_equal. apply filter_ext. intro x. apply S.
Qed.

(* filters that differ only in the order inside a set, or in the order of the ANDed any-of lists, get the same
   answer from the listing model (status and list, element for element) at every version and in every state *)
Theorem filters_same_result : forall a b, filters_same a b = true ->
  forall v d, list_rps_result v a d = list_rps_result v b d.
Proof.
  intros [na ua ta ma fa ra ba sa] [nb ub tb mb fb rb bb sb]. unfold filters_same.
  cbn [f_name f_uuid f_in_tree f_member_of f_forbidden_aggs f_required f_forbidden f_resources].
  intro H. repeat (apply andb_true_iff in H; let X := fresh "E" in destruct H as [H X]).
  apply name_eqb_eq in H. apply oeqb_eq in E5, E4. apply res_eqb_eq in E. subst nb ub tb sb.
  rename E3 into Sm, E2 into Sf, E1 into Sr, E0 into Sb.
  destruct (same_sets_spec _ _ Sm) as [Lm Qm]. destruct (same_sets_spec _ _ Sr) as [Lr Qr].
  destruct (same_set_spec _ _ Sf) as [Lf Mf]. destruct (same_set_spec _ _ Sb) as [Lb Mb].
  intros v d. unfold list_rps_result.
  assert (rp_filters_wf v (mkRpFilters na ua ta ma fa ra ba sa) = rp_filters_wf v (mkRpFilters na ua ta mb fb rb bb sa)) as ->.
  { unfold rp_filters_wf.
    cbn [f_name f_uuid f_in_tree f_member_of f_forbidden_aggs f_required f_forbidden f_resources].
    rewrite (lenZ_is_nil ma mb Lm), (lenZ_is_nil fa fb Lf), (lenZ_is_nil ra rb Lr), (lenZ_is_nil ba bb Lb), Lm.
    rewrite (Qr _ respects_len1). reflexivity. }
  destruct (negb (rp_filters_wf v (mkRpFilters na ua ta mb fb rb bb sa))); [reflexivity |].
  unfold get_all_by_filters, names_known.
  cbn [f_name f_uuid f_in_tree f_member_of f_forbidden_aggs f_required f_forbidden f_resources].
  rewrite (Qr _ (respects_forallb (trait_exists d))), (mem_forallb (trait_exists d) _ _ Mb).
  rewrite (matching_traits_ext d _ _ Sr), (matching_aggs_ext d _ _ Sm), (matching_aggs1_ext d _ _ Sf),
          (having_any_trait_ext d _ _ Sb).
  rewrite (lenZ_is_nil ma mb Lm), (lenZ_is_nil fa fb Lf), (lenZ_is_nil ra rb Lr), (lenZ_is_nil ba bb Lb).
  reflexivity.
Qed.

(* ================================================================== 4. non-vacuity *)
From Coq Require Import String Ascii.
Module Ex.
(* the harness's naming (ops.uuid_of(n, kind), rp_name, rc_name, trait_name), inverted as finite tables *)
Definition RP (n : string) : str := st (String.append "00000000-0000-0000-0000-abcdef00000"%string n).   (* uuid_of(n - 1) *)
Definition AG (n : string) : str := st (String.append "00000000-0000-0002-0000-abcdef00000"%string n).   (* uuid_of(n - 1, K_AGG) *)
Definition tok_rp := tok_table [(RP "2", 1); (RP "3", 2); (RP "4", 3)] (-2).
Definition tok_agg := tok_table [(AG "2", 1); (AG "3", 2); (AG "4", 3); (AG "5", 4)] (-2).
Definition tok_trait := tok_table [(st "HW_CPU_X86_AVX", 178); (st "STORAGE_DISK_SSD", 376); (st "CUSTOM_T1", 100001);
                                   (st "MISC_SHARES_VIA_AGGREGATE", 372)] (-2).
Definition tok_rc := tok_table [(st "VCPU", 0); (st "MEMORY_MB", 1); (st "DISK_GB", 2)] (-1).
Definition tok_name := tok_table [(st "rp1", 1); (st "rp2", 2); (st "rp3", 3)] (-2).
Definition dec := decode_listing tok_rp tok_agg tok_trait tok_rc tok_name.
Definition cat (l : list str) : str := List.concat l.

(* ?name=rp1&in_tree=<rp 2>&member_of=in:<agg 1>,<agg 2>&member_of=!<agg 3>
    &required=HW_CPU_X86_AVX,!CUSTOM_T1&required=in:STORAGE_DISK_SSD,MISC_SHARES_VIA_AGGREGATE
    &resources=VCPU:2,MEMORY_MB:512 *)
Definition q_full : qs :=
  [(st "name", st "rp1"); (st "in_tree", RP "3");
   (st "member_of", cat [st "in:"; AG "2"; st ","; AG "3"]); (st "member_of", cat [st "!"; AG "4"]);
   (st "required", st "HW_CPU_X86_AVX,!CUSTOM_T1");
   (st "required", st "in:STORAGE_DISK_SSD,MISC_SHARES_VIA_AGGREGATE");
   (st "resources", st "VCPU:2,MEMORY_MB:512")].

(* every filter at once, at 1.39 (the real handler hands get_all_by_filters exactly this dict: member_of
   [{agg1, agg2}], forbidden_aggs {agg3}, required_traits [{AVX}, {MISC.., SSD}], forbidden_traits {CUSTOM_T1},
   name rp1, in_tree rp 2, resources {VCPU: 2, MEMORY_MB: 512}); any-of lists are Python sets, here sorted by name *)
Example ex_full_1_39 :
  dec 39 q_full = POk (mkRpFilters (NameIs 1) None (Some 2) [[1; 2]] [3] [[178]; [372; 376]] [100001] [(0, 2); (1, 512)]).
Proof. vm_compute. reflexivity. Qed.
(* ... and it is well formed at 1.39, by the theorem *)
Example ex_full_wf :
  rp_filters_wf 39 (mkRpFilters (NameIs 1) None (Some 2) [[1; 2]] [3] [[178]; [372; 376]] [100001] [(0, 2); (1, 512)]) = true.
Proof. eapply c13q_accepted_wf_any. exact ex_full_1_39. Qed.
(* one version earlier the `in:` value of required is refused by the normalizer *)
Example ex_full_1_38 : dec 38 q_full = P400.
Proof. vm_compute. reflexivity. Qed.

(* repeated parameters.  uuid: the schema and the handler both look at the LAST value *)
Example ex_uuid_last :
  dec 0 [(st "uuid", st "not-a-uuid"); (st "uuid", RP "2"); (st "name", st "")]
  = POk (mkRpFilters NameEmpty (Some 1) None [] [] [] [] [])
  /\ dec 0 [(st "uuid", RP "2"); (st "uuid", st "not-a-uuid")] = P400.
Proof. vm_compute. split; reflexivity. Qed.
(* member_of: the normalizer looks at ALL values (a bad first value is a 400 although the schema never saw it);
   two values need 1.24, a forbidden aggregate 1.32 *)
Example ex_member_of :
  dec 24 [(st "member_of", st "x"); (st "member_of", AG "2")] = P400
  /\ dec 23 [(st "member_of", AG "2"); (st "member_of", AG "3")] = P400
  /\ dec 24 [(st "member_of", AG "2"); (st "member_of", AG "3")] = POk (mkRpFilters NameAbsent None None [[1]; [2]] [] [] [] [])
  /\ dec 31 [(st "member_of", cat [st "!"; AG "2"])] = P400
  /\ dec 32 [(st "member_of", cat [st "!in:"; AG "2"; st ","; AG "5"])] = POk (mkRpFilters NameAbsent None None [] [1; 4] [] [] [])
  /\ dec 2 [(st "member_of", AG "2")] = P400.
Proof. vm_compute. repeat split; reflexivity. Qed.
(* required: before 1.39 only the LAST value counts (a forbidden trait in an earlier value is not even looked at
   at 1.21); from 1.39 all values are read *)
Example ex_required :
  dec 21 [(st "required", st "!CUSTOM_T1"); (st "required", st "HW_CPU_X86_AVX")]
  = POk (mkRpFilters NameAbsent None None [] [] [[178]] [] [])
  /\ dec 21 [(st "required", st "HW_CPU_X86_AVX"); (st "required", st "!CUSTOM_T1")] = P400
  /\ dec 39 [(st "required", st "!CUSTOM_T1"); (st "required", st "HW_CPU_X86_AVX")]
     = POk (mkRpFilters NameAbsent None None [] [] [[178]] [100001] [])
  /\ dec 17 [(st "required", st "HW_CPU_X86_AVX")] = P400.
Proof. vm_compute. repeat split; reflexivity. Qed.
(* resources: the last value; an unknown class name is not an error of this layer (token -1: the model answers 400);
   in_tree needs 1.14 *)
Example ex_resources :
  dec 4 [(st "resources", st "VCPU:0"); (st "resources", st "VCPU:1,VCPU:5,CUSTOM_N7:3")]
  = POk (mkRpFilters NameAbsent None None [] [] [] [] [(0, 5); (-1, 3)])
  /\ dec 4 [(st "resources", st "VCPU:1"); (st "resources", st "VCPU:0")] = P400
  /\ dec 3 [(st "resources", st "VCPU:1")] = P400
  /\ dec 13 [(st "in_tree", RP "2")] = P400
  /\ dec 14 [(st "in_tree", RP "2")] = POk (mkRpFilters NameAbsent None (Some 1) [] [] [] [] [])
  /\ dec 39 [(st "limit", st "5")] = P400
  /\ dec 39 [] = POk (mkRpFilters NameAbsent None None [] [] [] [] []).
Proof. vm_compute. repeat split; reflexivity. Qed.
(* dict(req.GET): one value per key, the last one, keys in order of first appearance *)
Example ex_qdict :
  qdict [(st "a", st "1"); (st "b", st "x"); (st "a", st "2"); (st "a", st "3")]
  = JObj [(st "a", JStr (st "3")); (st "b", JStr (st "x"))]
  /\ getall (st "a") [(st "a", st "1"); (st "b", st "x"); (st "a", st "2"); (st "a", st "3")] = [st "1"; st "2"; st "3"]
  /\ getitem (st "a") [(st "a", st "1"); (st "b", st "x"); (st "a", st "2"); (st "a", st "3")] = Ret (st "3")
  /\ getone (st "a") [(st "a", st "1"); (st "b", st "x"); (st "a", st "2"); (st "a", st "3")] = Raise KeyError
  /\ getone (st "b") [(st "a", st "1"); (st "b", st "x"); (st "a", st "2"); (st "a", st "3")] = Ret (st "x").
Proof. vm_compute. repeat split; reflexivity. Qed.
(* the harness renders the same abstract query with the any-of lists in its own order and sets sorted by token:
   not the same term, the same filters (filters_same), hence the same answer in every state (filters_same_result) *)
Example ex_same_modulo_order :
  decoded_same (dec 39 q_full)
               (POk (mkRpFilters (NameIs 1) None (Some 2) [[2; 1]] [3] [[376; 372]; [178]] [100001] [(0, 2); (1, 512)])) = true
  /\ decoded_same (dec 39 q_full)
                  (POk (mkRpFilters (NameIs 1) None (Some 2) [[2; 1]] [3] [[376; 372]; [178]] [100001] [(1, 512); (0, 2)])) = false.
Proof. vm_compute. split; reflexivity. Qed.
End Ex.

Print Assumptions qdict_assoc.
Print Assumptions qdict_keys_distinct.
Print Assumptions c13q_never_escapes.
Print Assumptions c13q_accepted_wf_any.
Print Assumptions c13q_accepted_wf.
Print Assumptions c13q_rejected_iff.
Print Assumptions c13q_accepted_iff.
Print Assumptions c13q_listing_exact.
Print Assumptions c13q_listing_400_iff.
Print Assumptions filters_same_result.
Print Assumptions Ex.ex_full_1_39.
Print Assumptions Ex.ex_full_wf.
