(* C14: proofs over the generated routing tables and the documented surface. *)
From Coq Require Import ZArith List Bool Lia.
From PV Require Import Gen.GenConsts Gen.GenRoutes Gen.GenSurfaceSpec Spec.Surface.
Import ListNotations.
Open Scope Z_scope.

Lemma availability_ok_true : availability_ok = true. Proof. vm_compute. reflexivity. Qed.
Lemma change_points_ok_true : change_points_ok = true. Proof. vm_compute. reflexivity. Qed.

Lemma c14_availability : forall v r m, In v all_versions -> In r all_routes -> In m all_methods ->
  route_status v r m = doc_status v r m.
Proof.
  intros v r m Hv Hr Hm. pose proof availability_ok_true as A. unfold availability_ok in A.
  rewrite forallb_forall in A. specialize (A v Hv). rewrite forallb_forall in A. specialize (A r Hr).
  rewrite forallb_forall in A. specialize (A m Hm). apply Z.eqb_eq in A. exact A.
Qed.

Lemma in_zrange : forall n from x, from <= x < from + Z.of_nat n -> In x (zrange n from).
Proof.
  induction n as [|n IH]; intros from x H; [lia|]. cbn [zrange].
  destruct (Z.eq_dec x from) as [->|Hne]; [left; reflexivity|]. right. apply IH. lia.
Qed.

(* the unbounded form: every microversion 1.0 .. 1.max, every route id, every method id *)
Lemma c14_availability_all : forall v r m, 0 <= v <= max_version -> 0 <= r < 20 -> 0 <= m < 6 ->
  route_status v r m = doc_status v r m.
Proof.
  intros v r m Hv Hr Hm. apply c14_availability; apply in_zrange; cbn; unfold max_version in Hv; lia.
Qed.

Lemma c14_versions_agree : max_version = doc_max_version. Proof. reflexivity. Qed.

Lemma c14_negotiation : forall h,
  match negotiate h with
  | Accepted n => 0 <= n <= doc_max_version /\ (h = VAbsent -> n = 0) /\ (h = VLatest -> n = doc_max_version) /\
                  (forall mj mn, h = VVersion mj mn -> mj = 1 /\ n = mn)
  | NotAcceptable => exists mj mn, h = VVersion mj mn /\ (mj <> 1 \/ mn < 0 \/ doc_max_version < mn)
  end.
Proof.
  intros [| |mj mn]; cbn [negotiate].
  - split; [vm_compute; split; congruence|]. split; [reflexivity|]. split; [discriminate|]. intros; discriminate.
  - split; [vm_compute; split; congruence|]. split; [discriminate|]. split; [reflexivity|]. intros; discriminate.
  - destruct ((mj =? 1) && (0 <=? mn) && (mn <=? max_version)) eqn:E.
    + apply andb_true_iff in E. destruct E as [E E3]. apply andb_true_iff in E. destruct E as [E1 E2].
      apply Z.eqb_eq in E1. apply Z.leb_le in E2. apply Z.leb_le in E3. change doc_max_version with max_version.
      split; [lia|]. split; [discriminate|]. split; [discriminate|].
      intros a b H. injection H as <- <-. split; [exact E1|reflexivity].
    + exists mj, mn. split; [reflexivity|]. change doc_max_version with max_version.
      apply andb_false_iff in E. destruct E as [E|E]; [apply andb_false_iff in E; destruct E as [E|E]|].
      * left. apply Z.eqb_neq in E. exact E.
      * right. left. apply Z.leb_gt in E. exact E.
      * right. right. apply Z.leb_gt in E. exact E.
Qed.
