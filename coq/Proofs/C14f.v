(* C14, request members and query parameters per version: complete evaluation over the regenerated schemas *)
From Coq Require Import ZArith List Bool Lia.
From PV Require Import Gen.GenSurfaceSpec Spec.Fields.
Import ListNotations.
Open Scope Z_scope.

Lemma fields_ok_true : fields_ok = true.
Proof. vm_compute. reflexivity. Qed.

Lemma c14_fields : forall f v, In f doc_fields -> In v (field_versions f) -> field_ok v f = true.
Proof.
  intros f v Hf Hv. pose proof fields_ok_true as H. unfold fields_ok in H.
  rewrite forallb_forall in H. specialize (H f Hf). rewrite forallb_forall in H. exact (H v Hv).
Qed.

(* the versions quantified over are all the versions at which the operation exists *)
Lemma versions_from_spec : forall n lo v, In v (versions_from n lo) <-> lo <= v < lo + Z.of_nat n.
Proof.
  induction n as [|n IH]; intros lo v; cbn [versions_from In].
  - lia.
  - rewrite IH. lia.
Qed.
