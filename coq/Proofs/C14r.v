(* C14, response members per version: complete evaluation of the code's serialiser model (Spec/RespFields.v) against the
   documented table (Gen/GenSurfaceSpec.v:doc_resp_fields) *)
From Coq Require Import ZArith List Bool Lia.
From PV Require Import Model.Parse Gen.GenSurfaceSpec Spec.Fields Spec.RespFields Proofs.C14f.
Import ListNotations.
Open Scope Z_scope.

(* The four evaluated facts.  They are stated on the unfolded bodies of resp_fields_ok / resp_no_undocumented_ok /
   resp_extras_real (Spec/RespFields.v) so that the lemmas below apply to them syntactically: converting the folded constant
   with its body makes the kernel evaluate the whole table with its lazy machine (30 s instead of 3). *)
Lemma resp_fields_ok_true :
  forallb (fun d => forallb (fun v => rf_ok v d) (rf_versions d)) doc_resp_fields = true.
Proof. vm_cast_no_check (@eq_refl bool true). Qed.
Lemma resp_no_undocumented_ok_true :
  forallb (fun op : Z * Z => let '(r, m) := op in
    forallb (fun v => forallb (fun x => documented_at r m v x || extra_at r m v x) (resp_members r m v)) (resp_versions r m))
  resp_ops = true.
Proof. vm_cast_no_check (@eq_refl bool true). Qed.
Lemma resp_extras_real_true :
  forallb (fun e : Z * Z * rmem * Z => let '(r, m, x, from) := e in
    forallb (fun v => Bool.eqb (rmem_in x (resp_members r m v)) (from <=? v) && negb (documented_at r m v x)) (resp_versions r m))
  resp_known_extra = true.
Proof. vm_cast_no_check (@eq_refl bool true). Qed.
Lemma resp_table_faithful_true : resp_table_faithful = true.
Proof. vm_cast_no_check (@eq_refl bool true). Qed.

(* ------------------------------------------------------------------ boolean equalities decide equality *)
Lemma str_eqb_eq : forall a b : str, str_eqb a b = true <-> a = b.
Proof.
  induction a as [|x a IH]; intros [|y b]; cbn [str_eqb]; try (split; intro Hc; [discriminate Hc | discriminate Hc]).
  - split; intros _; reflexivity.
  - rewrite andb_true_iff, Z.eqb_eq, IH. split.
    + intros [Hx Ha]. subst. reflexivity.
    + intro He. injection He as Hx Ha. split; assumption.
Qed.
Lemma seg_eqb_eq : forall a b : option str, seg_eqb a b = true <-> a = b.
Proof.
  intros [x|] [y|]; cbn [seg_eqb].
  - rewrite str_eqb_eq. split; intro He; [subst; reflexivity | injection He as He; exact He].
  - split; intro Hc; discriminate Hc.
  - split; intro Hc; discriminate Hc.
  - split; intros _; reflexivity.
Qed.
Lemma rpath_eqb_eq : forall a b : rpath, rpath_eqb a b = true <-> a = b.
Proof.
  induction a as [|x a IH]; intros [|y b]; cbn [rpath_eqb]; try (split; intro Hc; [discriminate Hc | discriminate Hc]).
  - split; intros _; reflexivity.
  - rewrite andb_true_iff, seg_eqb_eq, IH. split.
    + intros [Hx Ha]. subst. reflexivity.
    + intro He. injection He as Hx Ha. split; assumption.
Qed.
Lemma rmem_eqb_eq : forall a b : rmem, rmem_eqb a b = true <-> a = b.
Proof.
  intros [[la pa] na] [[lb pb] nb]. cbn [rmem_eqb].
  rewrite !andb_true_iff, Z.eqb_eq, rpath_eqb_eq, str_eqb_eq. split.
  - intros [[Hl Hp] Hn]. subst. reflexivity.
  - intro He. injection He as Hl Hp Hn. repeat split; assumption.
Qed.
Lemma rmem_in_In : forall x l, rmem_in x l = true <-> In x l.
Proof.
  intros x l. unfold rmem_in. rewrite existsb_exists. split.
  - intros [y [Hy He]]. apply rmem_eqb_eq in He. subst. exact Hy.
  - intro Hi. exists x. split; [exact Hi | apply rmem_eqb_eq; reflexivity].
Qed.
Lemma in_window_spec : forall intro removed v, in_window intro removed v = true <-> intro <= v /\ (removed < 0 \/ v < removed).
Proof.
  intros intro removed v. unfold in_window. rewrite andb_true_iff, orb_true_iff, Z.leb_le, !Z.ltb_lt. reflexivity.
Qed.

(* ------------------------------------------------------------------ documented member <-> emitted, in Prop.
   The lemmas about one entry are proved for arbitrary entries (nothing to compute); the tables enter only through the four
   evaluated facts above. *)
Lemma forallb2_In : forall (A B : Type) (f : B -> A -> bool) (g : A -> list B) (l : list A),
  forallb (fun d => forallb (fun v => f v d) (g d)) l = true -> forall d v, In d l -> In v (g d) -> f v d = true.
Proof.
  intros A B f g l H d v Hd Hv. rewrite forallb_forall in H. specialize (H d Hd). cbv beta in H.
  rewrite forallb_forall in H. exact (H v Hv).
Qed.

Lemma rf_ok_spec : forall route method loc path name intro removed v,
  rf_ok v (route, method, loc, path, name, intro, removed) = true ->
  (In (loc, path, name) (resp_members route method v) <-> intro <= v /\ (removed < 0 \/ v < removed)).
Proof.
  intros route method loc path name intro removed v H. unfold rf_ok, rf_member in H. apply eqb_prop in H.
  rewrite <- rmem_in_In, <- in_window_spec, H. reflexivity.
Qed.

Lemma c14_response_fields : forall route method loc path name intro removed v,
  In (route, method, loc, path, name, intro, removed) doc_resp_fields ->
  In v (resp_versions route method) ->
  (In (loc, path, name) (resp_members route method v) <-> intro <= v /\ (removed < 0 \/ v < removed)).
Proof.
  intros route method loc path name intro removed v Hd Hv. apply rf_ok_spec.
  exact (forallb2_In docrf Z rf_ok rf_versions doc_resp_fields resp_fields_ok_true
                     (route, method, loc, path, name, intro, removed) v Hd Hv).
Qed.

Lemma resp_versions_spec : forall route method v,
  In v (resp_versions route method) <-> resp_op_intro route method <= v <= doc_max_version.
Proof.
  intros route method v. unfold resp_versions. rewrite versions_from_spec.
  destruct (Z_le_gt_dec (resp_op_intro route method) (doc_max_version + 1)) as [Hle|Hgt].
  - rewrite Z2Nat.id by lia. lia.
  - replace (Z.to_nat (doc_max_version - resp_op_intro route method + 1)) with 0%nat by lia. cbn. lia.
Qed.

Lemma documented_at_spec : forall route method v x, documented_at route method v x = true ->
  exists intro removed, In (route, method, fst (fst x), snd (fst x), snd x, intro, removed) doc_resp_fields /\
                        intro <= v /\ (removed < 0 \/ v < removed).
Proof.
  intros route method v x H. unfold documented_at in H. apply existsb_exists in H. destruct H as [d [Hd Hm]].
  destruct d as [[[[[[r m] loc] path] name] intro] removed]. cbn [rf_member] in Hm.
  destruct (Z.eqb_spec r route) as [Hr|Hr]; [|discriminate Hm].
  destruct (Z.eqb_spec m method) as [Hm'|Hm']; [|discriminate Hm].
  rewrite andb_true_iff, rmem_eqb_eq, in_window_spec in Hm. destruct Hm as [He Hw].
  subst r m x. cbn [fst snd]. exists intro, removed. split; [exact Hd | exact Hw].
Qed.
Lemma extra_at_spec : forall route method v x, extra_at route method v x = true ->
  exists from, In (route, method, x, from) resp_known_extra /\ from <= v.
Proof.
  intros route method v x H. unfold extra_at in H. apply existsb_exists in H. destruct H as [e [He Hm]].
  destruct e as [[[r m] y] from].
  destruct (Z.eqb_spec r route) as [Hr|Hr]; [|discriminate Hm].
  destruct (Z.eqb_spec m method) as [Hm'|Hm']; [|discriminate Hm].
  rewrite andb_true_iff, rmem_eqb_eq, Z.leb_le in Hm. destruct Hm as [Hy Hf]. subst r m y. exists from. split; [exact He | exact Hf].
Qed.

Lemma forallb3_In : forall (f : Z -> Z -> Z -> rmem -> bool) (g : Z -> Z -> list Z) (h : Z -> Z -> Z -> list rmem) (l : list (Z * Z)),
  forallb (fun op : Z * Z => let '(r, m) := op in forallb (fun v => forallb (fun x => f r m v x) (h r m v)) (g r m)) l = true ->
  forall r m v x, In (r, m) l -> In v (g r m) -> In x (h r m v) -> f r m v x = true.
Proof.
  intros f g h l H r m v x Hop Hv Hx. rewrite forallb_forall in H. specialize (H (r, m) Hop). cbv beta iota in H.
  rewrite forallb_forall in H. specialize (H v Hv). rewrite forallb_forall in H. exact (H x Hx).
Qed.

Lemma c14_no_undocumented : forall route method v x,
  In (route, method) resp_ops -> In v (resp_versions route method) -> In x (resp_members route method v) ->
  (exists intro removed, In (route, method, fst (fst x), snd (fst x), snd x, intro, removed) doc_resp_fields /\
                         intro <= v /\ (removed < 0 \/ v < removed)) \/
  (exists from, In (route, method, x, from) resp_known_extra /\ from <= v).
Proof.
  intros route method v x Hop Hv Hx.
  pose proof (forallb3_In (fun r m v x => documented_at r m v x || extra_at r m v x)
                          resp_versions resp_members resp_ops resp_no_undocumented_ok_true route method v x Hop Hv Hx) as H.
  cbv beta in H. apply orb_true_iff in H. destruct H as [H|H].
  - left. exact (documented_at_spec _ _ _ _ H).
  - right. exact (extra_at_spec _ _ _ _ H).
Qed.

(* each listed disagreement is real: emitted from its version on, and not documented for the operation at any version *)
Lemma extras_entry_spec : forall route method x from v,
  Bool.eqb (rmem_in x (resp_members route method v)) (from <=? v) && negb (documented_at route method v x) = true ->
  (In x (resp_members route method v) <-> from <= v) /\ documented_at route method v x = false.
Proof.
  intros route method x from v H. apply andb_true_iff in H. destruct H as [H1 H2]. apply eqb_prop in H1. split.
  - rewrite <- rmem_in_In, H1, Z.leb_le. reflexivity.
  - apply negb_true_iff in H2. exact H2.
Qed.
Lemma c14_extras_real : forall route method x from v,
  In (route, method, x, from) resp_known_extra -> In v (resp_versions route method) ->
  (In x (resp_members route method v) <-> from <= v) /\ documented_at route method v x = false.
Proof.
  intros route method x from v He Hv. apply extras_entry_spec.
  pose proof resp_extras_real_true as H. rewrite forallb_forall in H.
  specialize (H (route, method, x, from) He). cbv beta iota in H. rewrite forallb_forall in H. exact (H v Hv).
Qed.
