(* C15: no request of the model is answered with a 5xx; rejected requests leave no trace. *)
From PV Require Import Proofs.Defs Proofs.C04.

Definition alloc_exn (e : exn) : Prop :=
  e = ERcNotFound \/ e = EInvalidInventory \/ e = ERpConcurrent \/ e = EConcurrent.
Definition inv_exn (e : exn) : Prop :=
  e = ERcNotFound \/ e = EInventoryInUse \/ e = EInvRcNotFound \/ e = ERpConcurrent.

Lemma check_loop_exn : forall d l seen e, check_loop d seen l = Err e -> e = EInvalidInventory.
Proof.
  intros d l. induction l as [|a l IH]; intros seen e H; cbn [check_loop] in H; [discriminate|].
  destruct (q_amt a =? 0); [eapply IH; exact H|].
  destruct (find_inv d (q_rp a) (q_rc a)); [|congruence].
  destruct (_ || _ || _); [congruence|]. destruct (_ || _); [congruence|]. eapply IH; exact H.
Qed.
Lemma check_capacity_exn : forall d l e, check_capacity d l = Err e -> e = ERcNotFound \/ e = EInvalidInventory.
Proof.
  intros d l e H. unfold check_capacity in H. destruct (negb _); [left; congruence|].
  destruct (existsb _ l); [right; congruence|]. right. eapply check_loop_exn; exact H.
Qed.
Lemma cas_rps_exn : forall l d e, cas_rps d l = Err e -> e = ERpConcurrent.
Proof.
  induction l as [|[u g] l IH]; intros d e H; cbn [cas_rps] in H; [discriminate|].
  unfold bind in H. destruct (incr_rp_gen d u g) as [d1|e1] eqn:E.
  - eapply IH; exact H.
  - unfold incr_rp_gen in E. destruct (cas_rp_l (rps d) u g); congruence.
Qed.
Lemma cas_conss_exn : forall l d e, cas_conss d l = Err e -> e = EConcurrent.
Proof.
  induction l as [|[u g] l IH]; intros d e H; cbn [cas_conss] in H; [discriminate|].
  unfold bind in H. destruct (incr_cons_gen d u g) as [d1|e1] eqn:E.
  - eapply IH; exact H.
  - unfold incr_cons_gen in E. destruct (cas_cons_l (consumers d) u g); congruence.
Qed.
Lemma set_allocations_exn : forall d l e, set_allocations d l = Err e -> alloc_exn e.
Proof.
  intros d l e H. unfold set_allocations, bind in H.
  destruct (check_capacity _ l) as [u|e1] eqn:E1.
  - destruct (cas_rps _ _) as [d3|e3] eqn:E3.
    + destruct (cas_conss _ _) as [d4|e4] eqn:E4; [discriminate|].
      injection H as <-. apply cas_conss_exn in E4. unfold alloc_exn. tauto.
    + injection H as <-. apply cas_rps_exn in E3. unfold alloc_exn. tauto.
  - injection H as <-. apply check_capacity_exn in E1. unfold alloc_exn. tauto.
Qed.

Lemma incr_rp_gen_exn : forall d u g e, incr_rp_gen d u g = Err e -> e = ERpConcurrent.
Proof. intros d u g e H. unfold incr_rp_gen in H. destruct (cas_rp_l _ _ _); congruence. Qed.
Lemma update_inv_exn : forall l d u e, update_inventory_for_provider d u l = Err e -> e = EInvRcNotFound.
Proof.
  induction l as [|x l IH]; intros d u e H; cbn [update_inventory_for_provider] in H; [discriminate|].
  destruct (find_inv d u (ii_rc x)); [eapply IH; exact H|congruence].
Qed.
Lemma set_inventory_exn : forall d u g l e, set_inventory d u g l = Err e -> inv_exn e.
Proof.
  intros d u g l e H. unfold set_inventory, bind in H. unfold inv_exn.
  destruct (negb _); [left; congruence|].
  destruct (delete_inventory_from_provider _ _ _) as [d1|e1] eqn:E1.
  - destruct (update_inventory_for_provider _ _ _) as [d3|e3] eqn:E3.
    + apply incr_rp_gen_exn in H. tauto.
    + injection H as <-. apply update_inv_exn in E3. tauto.
  - injection H as <-. unfold delete_inventory_from_provider in E1. destruct (existsb _ _); [|discriminate].
    injection E1 as <-. tauto.
Qed.
Lemma reshape_interim_exn : forall l d e, reshape_interim d l = Err e -> inv_exn e.
Proof.
  induction l as [|r l IH]; intros d e H; cbn [reshape_interim] in H; [discriminate|].
  destruct (ri_invs r).
  - unfold bind in H. destruct (reshape_interim d l) eqn:E; [discriminate|]. injection H as <-. eapply IH; exact E.
  - unfold bind in H. destruct (set_inventory _ _ _ _) as [d1|e1] eqn:E1.
    + destruct (reshape_interim d1 l) eqn:E; [discriminate|]. injection H as <-. eapply IH; exact E.
    + injection H as <-. eapply set_inventory_exn; exact E1.
Qed.
Lemma reshape_final_exn : forall l gens d e, reshape_final d l gens = Err e -> inv_exn e.
Proof.
  induction l as [|r l IH]; intros gens d e H; cbn [reshape_final] in H; [discriminate|].
  destruct gens as [|[u g] gens]; [discriminate|]. unfold bind in H.
  destruct (set_inventory _ _ _ _) as [d1|e1] eqn:E1; [eapply IH; exact H|].
  injection H as <-. eapply set_inventory_exn; exact E1.
Qed.
Lemma reshape_txn_exn : forall d ri objs e, reshape_txn d ri objs = Err e -> inv_exn e \/ alloc_exn e.
Proof.
  intros d ri objs e H. unfold reshape_txn, bind in H.
  destruct (reshape_interim d ri) as [[d1 gens]|e1] eqn:E1.
  - destruct (set_allocations d1 _) as [d2|e2] eqn:E2.
    + left. eapply reshape_final_exn; exact H.
    + injection H as <-. right. eapply set_allocations_exn; exact E2.
  - injection H as <-. left. eapply reshape_interim_exn; exact E1.
Qed.

Lemma status_ok : forall s, status (ok s) = s. Proof. reflexivity. Qed.

(* every response of the model is below 500 *)
Lemma c15_model_no_5xx : forall cf d r, status (snd (step cf d r)) < 500.
Proof.
  intros cf d r. destruct r; cbn [step].
  - unfold h_rp_create. destruct (_ && _); [cbn; lia|]. destruct (rp_create _ _ _ _) as [?|[]]; cbn; try lia.
    destruct (20 <=? v); cbn; lia.
  - unfold h_rp_update. destruct (find_rp d u); [|cbn; lia]. destruct (_ && _); [cbn; lia|].
    destruct (rp_update _ _ _ _ _) as [?|[]]; cbn; lia.
  - unfold h_rp_delete. destruct (find_rp d u); [|cbn; lia]. destruct (rp_delete d u) as [?|[]]; cbn; lia.
  - unfold h_inv_set. destruct (find_rp d u); [|cbn; lia]. destruct (negb _); [cbn; lia|].
    destruct (existsb _ l); [cbn; lia|]. destruct (set_inventory _ _ _ _) as [?|[]]; cbn; lia.
  - unfold h_inv_post. destruct (find_rp d u); [|cbn; lia]. destruct (bad_capacity v x); [cbn; lia|].
    destruct (add_inventory _ _ _ _) as [?|[]]; cbn; lia.
  - unfold h_inv_put. destruct (find_rp d u); [|cbn; lia]. destruct (negb _); [cbn; lia|].
    destruct (bad_capacity v x); [cbn; lia|]. destruct (update_inventory _ _ _ _) as [?|[]]; cbn; lia.
  - unfold h_inv_delete. destruct (find_rp d u); [|cbn; lia]. destruct (delete_inventory _ _ _ _) as [?|[]]; cbn; lia.
  - unfold h_inv_delete_all. destruct (v <? 5); [cbn; lia|]. destruct (find_rp d u); [|cbn; lia].
    destruct (set_inventory _ _ _ _) as [?|[]]; cbn; lia.
  - unfold h_traits_set. destruct (v <? 6); [cbn; lia|]. destruct (find_rp d u); [|cbn; lia].
    destruct (negb _); [cbn; lia|]. destruct (negb _); [cbn; lia|]. destruct (set_traits_txn _ _ _ _); cbn; lia.
  - unfold h_traits_delete. destruct (v <? 6); [cbn; lia|]. destruct (find_rp d u); [|cbn; lia].
    destruct (set_traits_txn _ _ _ _); cbn; lia.
  - unfold h_aggs_set. destruct (v <? 1); [cbn; lia|]. destruct (find_rp d u); [|cbn; lia].
    destruct (_ && _); [cbn; lia|]. destruct (set_aggregates_txn _ _ _ _ _); [destruct (19 <=? v)|]; cbn; lia.
  - unfold h_alloc_put. destruct (ensure_consumer cf v d c) as [d1 [k|]]; [|cbn; lia].
    destruct (alloc_objs d1 k (ci_allocs c)); [|cbn; lia].
    destruct (set_allocations _ _) as [?|e] eqn:E; [cbn; lia|]. cbn [snd].
    apply set_allocations_exn in E. destruct E as [->|[->|[->| ->]]]; cbn; lia.
  - unfold h_alloc_post. destruct (v <? 13); [cbn; lia|].
    destruct (inspect_consumers cf v d [] l) as [d1 [ks|]]; [|cbn; lia].
    destruct (alloc_list d1 ks l); [|cbn; lia].
    destruct (set_allocations _ _) as [?|e] eqn:E; [cbn; lia|]. cbn [snd].
    apply set_allocations_exn in E. destruct E as [->|[->|[->| ->]]]; cbn; lia.
  - unfold h_alloc_delete. destruct (wipe_list d c); cbn; lia.
  - unfold h_reshape. destruct (v <? 30); [cbn; lia|].
    destruct (reshape_precheck d ri) as [r0|] eqn:Ep.
    + cbn [snd]. revert r0 Ep. induction ri as [|x ri IH]; intros r0 Ep; cbn [reshape_precheck] in Ep; [discriminate|].
      destruct (find_rp d (ri_rp x)); [|injection Ep as <-; cbn; lia].
      destruct (negb _); [injection Ep as <-; cbn; lia|]. eapply IH; exact Ep.
    + destruct (inspect_consumers cf v d [] al) as [d1 [ks|]]; [|cbn; lia].
      destruct (alloc_list d1 ks al); [|cbn; lia].
      destruct (reshape_txn _ _ _) as [?|e] eqn:E; [cbn; lia|]. cbn [snd].
      apply reshape_txn_exn in E. destruct E as [[->|[->|[->| ->]]]|[->|[->|[->| ->]]]]; cbn; lia.
  - unfold h_rc_create. destruct (v <? 2); [cbn; lia|]. destruct (is_std_rc_name n); [cbn; lia|].
    destruct (rc_create d n); cbn; lia.
  - unfold h_rc_put. destruct (v <? 2); [cbn; lia|]. destruct (v <? 7); [cbn; lia|]. destruct (is_std_rc_name n); [cbn; lia|].
    destruct (rc_id_of_name d n); [cbn; lia|]. destruct (rc_create d n); cbn; lia.
  - unfold h_rc_rename. destruct (v <? 2); [cbn; lia|]. destruct (6 <? v).
    + unfold h_rc_put. destruct (v <? 2); [cbn; lia|]. destruct (v <? 7); [cbn; lia|]. destruct (is_std_rc_name old); [cbn; lia|].
      destruct (rc_id_of_name d old); [cbn; lia|]. destruct (rc_create d old); cbn; lia.
    + destruct (is_std_rc_name new); [cbn; lia|]. destruct (rc_rename d old new) as [?|[]]; cbn; lia.
  - unfold h_rc_delete. destruct (v <? 2); [cbn; lia|]. destruct (rc_destroy d n) as [?|[]]; cbn; lia.
  - unfold h_trait_put. destruct (v <? 6); [cbn; lia|]. destruct (is_std_trait t); [cbn; lia|].
    destruct (trait_create d t); cbn; lia.
  - unfold h_trait_delete. destruct (v <? 6); [cbn; lia|]. destruct (trait_destroy d t) as [?|[]]; cbn; lia.
Qed.

(* a request rejected as malformed / not found / not allowed changes no stored state but auxiliary names *)
Lemma c15_rejected_no_effect : forall cf d r d' rs,
  req_wf r = true -> step cf d r = (d', rs) -> 400 <= status rs -> core_eq d d'.
Proof. intros cf d r d' rs Hw Hs He. eapply c04_rejected_no_trace; eauto. Qed.

(* the front pipeline (authentication, routing, decorators, policy) in front of any handler body that stays
   below 500 stays below 500; and when it answers with a front status the stored state is untouched *)
From PV Require Import Gen.GenConsts Gen.GenRoutes Gen.GenSurfaceSpec Spec.Surface Spec.Pipeline Proofs.C16.

Lemma c15_pipeline : forall (db : Type) (p : policy) w q (body : db -> db * Z) d,
  (forall d0, snd (body d0) < 500) ->
  snd (serve p w q body d) < 500 /\
  (serve p w q body d = body d \/ fst (serve p w q body d) = d).
Proof.
  intros db p w q body d Hb. unfold serve.
  destruct (negb (is_root q) && negb (has_token w)); [cbn; split; [lia|tauto]|].
  destruct (find (fun r => fst r =? q_route q) routes) as [[r targets]|] eqn:Er; [|cbn; split; [lia|tauto]].
  destruct (find (fun t => fst t =? q_method q) targets) as [[m hid]|] eqn:Et; [|cbn; split; [lia|tauto]].
  destruct (find_handler hid) as [h|] eqn:Eh.
  - destruct (decorators q h) as [s|] eqn:Ed.
    + cbn. pose proof (decorators_status q hid h s Eh Ed). split; [lia|tauto].
    + destruct (h_rule h =? -1) eqn:Erule; [split; [apply Hb|tauto]|].
      destruct (handler_wf hid h Eh) as [W _]. rewrite Erule in W. cbn in W. rewrite W.
      destruct (eval_chk (p (h_rule h)) w); [split; [apply Hb|tauto]|cbn; split; [lia|tauto]].
  - exfalso. pose proof routes_resolved_true as R. unfold routes_resolved in R. rewrite forallb_forall in R.
    apply find_some in Er. destruct Er as [Hin _]. specialize (R _ Hin). cbn [snd] in R.
    rewrite forallb_forall in R. apply find_some in Et. destruct Et as [Hin2 _]. specialize (R _ Hin2).
    cbn [snd] in R. rewrite Eh in R. discriminate.
Qed.

(* writes composed with the pipeline: any caller, any policy, any routed write request *)
Lemma c15_served_write : forall (p : policy) w q cf r d,
  let out := serve p w q (fun d0 => let (d1, rs) := step cf d0 r in (d1, status rs)) d in
  snd out < 500.
Proof.
  intros p w q cf r d. cbn zeta.
  apply (c15_pipeline db p w q (fun d0 => let (d1, rs) := step cf d0 r in (d1, status rs)) d).
  intro d0. pose proof (c15_model_no_5xx cf d0 r) as H. destruct (step cf d0 r). exact H.
Qed.
