(* C15, query-string value parsers (Model/Parse.v): no parser ends in an exception other than
   webob.exc.HTTPBadRequest, accepted values are well formed, and each Python builtin model is pinned
   down by a characteristic lemma.  The model is tied to placement/util.py and placement/lib.py by
   harness/parse.py (differential execution on generated strings). *)
From Coq Require Import ZArith List Bool Lia.
From PV Require Import Gen.GenConsts Model.Parse.
Import ListNotations.
Open Scope Z_scope.

(* ================================================================== exception discipline *)
Definition only400 {A} (r : R A) : Prop :=
  match r with Raise e => e = HTTPBadRequest | Ret _ => True end.
Definition raises_only {A} (E : exn) (r : R A) : Prop := forall e, r = Raise e -> e = E.

Lemma only400_no_escape : forall A (r : R A), only400 r <-> to_pres r <> PEscape.
Proof.
  intros A [a | e]; simpl; split; intro H; try discriminate; auto.
  - subst e. discriminate.
  - destruct e; auto; exfalso; apply H; reflexivity.
Qed.

Lemma bind_only400 : forall A B (x : R A) (f : A -> R B),
  only400 x -> (forall a, x = Ret a -> only400 (f a)) -> only400 (bind x f).
Proof. intros A B [a | e] f Hx Hf; simpl; auto. Qed.

Lemma try_except_only400 : forall A (body h : R A) E,
  raises_only E body -> only400 h -> only400 (try_except body E h).
Proof.
  intros A [a | e] h E Hb Hh; simpl; auto.
  rewrite (Hb e eq_refl). destruct E; simpl; exact Hh.
Qed.

Lemma try_except_ret : forall A (body : R A) E a,
  try_except body E (Raise HTTPBadRequest) = Ret a -> body = Ret a.
Proof.
  intros A [b | e] E a; simpl; auto. destruct (exn_eqb e E); discriminate.
Qed.

Lemma unpack2_raises : forall A (l : list A), raises_only ValueError (unpack2 l).
Proof.
  intros A l e. unfold unpack2. destruct l as [| a [| b [| c l]]]; intro H; inversion H; reflexivity.
Qed.

Lemma int_of_raises : forall s, raises_only ValueError (int_of s).
Proof.
  intros s e. unfold int_of.
  destruct (match drop_while int_space s with
            | 43 :: r => (false, r) | 45 :: r => (true, r) | _ => (false, drop_while int_space s) end) as [neg s2].
  destruct (scan_digits true 0 0 s2) as [[[v cnt] rest] |].
  - destruct (INT_MAX_STR_DIGITS <? cnt). { intro H; inversion H; reflexivity. }
    destruct (nonempty (drop_while int_space rest)); intro H; inversion H; reflexivity.
  - intro H; inversion H; reflexivity.
Qed.

(* the statement is not vacuous: an exception of a builtin that no handler names does escape *)
Example uncaught_value_error_escapes :
  to_pres (bind (int_of [120]) (fun n => Ret n)) = PEscape /\
  to_pres (try_except (int_of [120]) KeyError (Raise HTTPBadRequest)) = PEscape /\
  to_pres (try_except (int_of [120]) ValueError (Raise HTTPBadRequest)) = P400.
Proof. repeat split; reflexivity. Qed.

(* ================================================================== builtins *)
(* ---- str equality and ordering *)
Lemma str_eqb_eq : forall a b, str_eqb a b = true <-> a = b.
Proof.
  induction a as [| x a IH]; destruct b as [| y b]; simpl; split; intro H; try discriminate; auto.
  - apply andb_true_iff in H. destruct H as [H1 H2]. apply Z.eqb_eq in H1. apply IH in H2. congruence.
  - inversion H; subst. apply andb_true_iff. split. apply Z.eqb_refl. apply IH. reflexivity.
Qed.

Lemma str_cmp_eq : forall a b, str_cmp a b = Eq <-> a = b.
Proof.
  induction a as [| x a IH]; destruct b as [| y b]; simpl; split; intro H; try discriminate; auto.
  - destruct (x ?= y) eqn:C; try discriminate. apply Z.compare_eq in C. apply IH in H. congruence.
  - inversion H; subst. rewrite Z.compare_refl. apply IH. reflexivity.
Qed.

Lemma str_cmp_antisym : forall a b, str_cmp b a = CompOpp (str_cmp a b).
Proof.
  induction a as [| x a IH]; destruct b as [| y b]; simpl; auto.
  rewrite (Z.compare_antisym x y). destruct (x ?= y); simpl; auto.
Qed.

Lemma str_cmp_lt_trans : forall a b c, str_cmp a b = Lt -> str_cmp b c = Lt -> str_cmp a c = Lt.
Proof.
  induction a as [| x a IH]; destruct b as [| y b]; destruct c as [| z c]; simpl; intros H1 H2;
    try discriminate; auto.
  destruct (x ?= y) eqn:C1; try discriminate; destruct (y ?= z) eqn:C2; try discriminate.
  - apply Z.compare_eq in C1. apply Z.compare_eq in C2. subst. rewrite Z.compare_refl. eapply IH; eauto.
  - apply Z.compare_eq in C1. subst. rewrite C2. reflexivity.
  - apply Z.compare_eq in C2. subst. rewrite C1. reflexivity.
  - assert (x ?= z = Lt) as ->; auto.
    pose proof (proj1 (Z.compare_lt_iff x y) C1). pose proof (proj1 (Z.compare_lt_iff y z) C2).
    apply Z.compare_lt_iff. lia.
Qed.

(* ---- startswith *)
Lemma starts_with_iff : forall p s, starts_with p s = true <-> exists r, s = p ++ r.
Proof.
  induction p as [| x p IH]; intros s; simpl.
  - split; eauto.
  - destruct s as [| y s]; split; intro H; try discriminate.
    + destruct H as [r H]. discriminate.
    + apply andb_true_iff in H. destruct H as [H1 H2]. apply Z.eqb_eq in H1. apply IH in H2.
      destruct H2 as [r ->]. exists r. subst. reflexivity.
    + destruct H as [r H]. inversion H; subst. apply andb_true_iff. split. apply Z.eqb_refl.
      apply IH. eauto.
Qed.

(* ---- split / join *)
Lemma split_char_nonempty : forall c s, split_char c s <> [].
Proof.
  intros c s. destruct s as [| x s]; simpl. discriminate.
  destruct (x =? c). discriminate. destruct (split_char c s); discriminate.
Qed.

Lemma split_join : forall c s, join_char c (split_char c s) = s.
Proof.
  intros c. induction s as [| x s IH]; simpl; auto.
  destruct (x =? c) eqn:E.
  - apply Z.eqb_eq in E. subst x.
    destruct (split_char c s) as [| p ps] eqn:S. { exfalso. eapply split_char_nonempty; eauto. }
    simpl. simpl in IH. rewrite IH. reflexivity.
  - destruct (split_char c s) as [| p ps] eqn:S. { exfalso. eapply split_char_nonempty; eauto. }
    simpl. simpl in IH. destruct ps; simpl in *; rewrite IH; reflexivity.
Qed.

Lemma split_char_pieces : forall c s p, In p (split_char c s) -> forall x, In x p -> In x s /\ x <> c.
Proof.
  intros c. induction s as [| y s IH]; simpl; intros p Hp x Hx.
  - destruct Hp as [<- | []]. destruct Hx.
  - destruct (y =? c) eqn:E.
    + destruct Hp as [<- | Hp]. destruct Hx. destruct (IH p Hp x Hx). auto.
    + apply Z.eqb_neq in E.
      destruct (split_char c s) as [| q qs] eqn:S. { exfalso. eapply split_char_nonempty; eauto. }
      destruct Hp as [<- | Hp].
      * destruct Hx as [<- | Hx]. auto. destruct (IH q (or_introl eq_refl) x Hx). auto.
      * destruct (IH p (or_intror Hp) x Hx). auto.
Qed.

Lemma split_char_no_sep : forall c s p, In p (split_char c s) -> ~ In c p.
Proof. intros c s p Hp Hc. destruct (split_char_pieces c s p Hp c Hc) as [_ H]. apply H. reflexivity. Qed.

(* the number of pieces is the number of separators plus one *)
Lemma split_char_length : forall c s,
  length (split_char c s) = S (length (filter (Z.eqb c) s)).
Proof.
  intros c. induction s as [| x s IH]; simpl; auto.
  rewrite (Z.eqb_sym c x). destruct (x =? c); simpl.
  - rewrite IH. reflexivity.
  - destruct (split_char c s) eqn:S. { exfalso. eapply split_char_nonempty; eauto. } simpl in *. exact IH.
Qed.

(* ---- strip family *)
Lemma drop_while_split : forall f s, exists a, s = a ++ drop_while f s /\ forallb f a = true.
Proof.
  intros f. induction s as [| c s IH]; simpl. exists []. auto.
  destruct (f c) eqn:E.
  - destruct IH as [a [H1 H2]]. exists (c :: a). simpl. rewrite E, H2. split; [f_equal; exact H1 | reflexivity].
  - exists []. auto.
Qed.

Lemma drop_while_head : forall f s c r, drop_while f s = c :: r -> f c = false.
Proof.
  intros f. induction s as [| x s IH]; simpl; intros c r H. discriminate.
  destruct (f x) eqn:E. eauto. inversion H; subst. exact E.
Qed.

Lemma drop_while_id : forall f s, forallb (fun c => negb (f c)) s = true -> drop_while f s = s.
Proof.
  intros f [| c s]; simpl; auto. intro H. apply andb_true_iff in H. destruct H as [H _].
  destruct (f c); auto; discriminate.
Qed.

(* s.strip(...) is the middle of s: only strippable characters are cut off on both sides ... *)
Theorem strip_by_middle : forall f s, exists a b,
  s = a ++ strip_by f s ++ b /\ forallb f a = true /\ forallb f b = true.
Proof.
  intros f s. unfold strip_by, rstrip_by, lstrip_by.
  destruct (drop_while_split f s) as [a [Ha Fa]].
  destruct (drop_while_split f (rev (drop_while f s))) as [b [Hb Fb]].
  exists a, (rev b). split; [| split]; auto.
  - rewrite Ha at 1. f_equal. rewrite <- rev_app_distr, <- Hb, rev_involutive. reflexivity.
  - rewrite forallb_forall in *. intros x Hx. apply Fb. apply in_rev. exact Hx.
Qed.

(* ... and what remains neither starts nor ends with one *)
Theorem strip_by_ends : forall f s,
  (forall c r, strip_by f s = c :: r -> f c = false) /\
  (forall c r, strip_by f s = r ++ [c] -> f c = false).
Proof.
  intros f s. unfold strip_by, rstrip_by, lstrip_by. split; intros c r H.
  - destruct (drop_while f (rev (drop_while f s))) as [| y t] eqn:D. discriminate.
    destruct (drop_while_split f (rev (drop_while f s))) as [b [Hb Fb]]. rewrite D in Hb.
    assert (drop_while f s = rev (y :: t) ++ rev b) as Hs.
    { rewrite <- rev_app_distr, <- Hb, rev_involutive. reflexivity. }
    rewrite H in Hs. destruct (drop_while f s) as [| z u] eqn:D2. discriminate.
    inversion Hs; subst. eapply drop_while_head. exact D2.
  - apply (f_equal (@rev Z)) in H. rewrite rev_involutive, rev_app_distr in H. simpl in H.
    eapply drop_while_head. exact H.
Qed.

Lemma strip_by_id : forall f s, forallb (fun c => negb (f c)) s = true -> strip_by f s = s.
Proof.
  intros f s H. unfold strip_by, rstrip_by, lstrip_by. rewrite (drop_while_id f s H).
  rewrite drop_while_id. apply rev_involutive.
  rewrite forallb_forall in *. intros x Hx. apply H. apply in_rev. exact Hx.
Qed.

Lemma strip_nil_iff : forall s, strip s = [] <-> forallb is_space s = true.
Proof.
  intros s. split; intro H.
  - destruct (strip_by_middle is_space s) as [a [b [Hs [Fa Fb]]]]. unfold strip in H. rewrite H in Hs.
    rewrite Hs. simpl. rewrite forallb_app, Fa, Fb. reflexivity.
  - unfold strip. destruct (strip_by is_space s) as [| c r] eqn:E; auto. exfalso.
    destruct (strip_by_ends is_space s) as [Hh _]. specialize (Hh c r E).
    destruct (strip_by_middle is_space s) as [a [b [Hs _]]]. rewrite E in Hs.
    rewrite forallb_forall in H. rewrite H in Hh. discriminate.
    rewrite Hs. apply in_or_app. right. left. reflexivity.
Qed.

Lemma lstrip_char_spec : forall c s, exists n,
  s = repeat c n ++ lstrip_char c s /\ starts_with [c] (lstrip_char c s) = false.
Proof.
  intros c s. unfold lstrip_char, lstrip_by.
  destruct (drop_while_split (Z.eqb c) s) as [a [Ha Fa]]. exists (length a). split.
  - rewrite Ha at 1. f_equal. clear Ha. induction a as [| x a IH]; simpl in *; auto.
    apply andb_true_iff in Fa. destruct Fa as [F1 F2]. apply Z.eqb_eq in F1. subst x. f_equal. auto.
  - destruct (drop_while (Z.eqb c) s) as [| y r] eqn:D; simpl; auto.
    apply drop_while_head in D. rewrite D. reflexivity.
Qed.

(* ---- replace(sub, '') *)
Lemma starts_with_head : forall u sub s, starts_with (u :: sub) s = true -> In u s.
Proof. intros u sub [| y s]; simpl; intro H. discriminate. apply andb_true_iff in H. destruct H as [H _].
  apply Z.eqb_eq in H. auto. Qed.

Lemma remove_sub_absent : forall u sub s, ~ In u s -> remove_sub (u :: sub) s = s.
Proof.
  intros u sub. unfold remove_sub. induction s as [| c s IH]; intro H; auto.
  unfold remove_sub_aux; fold remove_sub_aux.
  destruct (starts_with (u :: sub) (c :: s)) eqn:E.
  - exfalso. apply H. eapply starts_with_head. exact E.
  - f_equal. apply IH. intro Hu. apply H. right. exact Hu.
Qed.

Example remove_sub_no_rescan :   (* 'ururn:n:'.replace('urn:', '') == 'urn:' *)
  remove_sub s_urn [117; 114; 117; 114; 110; 58; 110; 58] = s_urn.
Proof. reflexivity. Qed.

(* ---- int() *)
Lemma digit_val_ascii : forall d, 0 <= d <= 9 -> digit_val (48 + d) = Some d.
Proof.
  intros d H.
  assert (d = 0 \/ d = 1 \/ d = 2 \/ d = 3 \/ d = 4 \/ d = 5 \/ d = 6 \/ d = 7 \/ d = 8 \/ d = 9) as C by lia.
  repeat (destruct C as [-> | C]; [reflexivity |]). subst. reflexivity.
Qed.

Definition dec_value (ds : list Z) (acc : Z) : Z := fold_left (fun a d => a * 10 + d) ds acc.
Definition ascii_digits (ds : list Z) : str := map (Z.add 48) ds.
Definition are_digits (ds : list Z) : Prop := Forall (fun d => 0 <= d <= 9) ds.

Lemma scan_ascii_digits : forall ds us acc cnt, are_digits ds -> (us = true -> ds <> []) ->
  scan_digits us acc cnt (ascii_digits ds) = Some (dec_value ds acc, cnt + Z.of_nat (length ds), []).
Proof.
  induction ds as [| d ds IH]; intros us acc cnt Hd Hus.
  - destruct us. exfalso. apply Hus; reflexivity. simpl. f_equal. f_equal. f_equal. lia.
  - inversion Hd; subst. unfold ascii_digits. cbn [map]. unfold scan_digits; fold scan_digits.
    rewrite (digit_val_ascii d H1). fold (ascii_digits ds). rewrite IH; auto; try discriminate.
    unfold dec_value. simpl. f_equal. f_equal. f_equal. lia.
Qed.

Lemma int_space_digit : forall d, 0 <= d <= 9 -> int_space (48 + d) = false.
Proof.
  intros d H.
  assert (d = 0 \/ d = 1 \/ d = 2 \/ d = 3 \/ d = 4 \/ d = 5 \/ d = 6 \/ d = 7 \/ d = 8 \/ d = 9) as C by lia.
  repeat (destruct C as [-> | C]; [reflexivity |]). subst. reflexivity.
Qed.

(* int() is correct on every ASCII decimal string (leading zeros included) up to the digit limit *)
Theorem int_of_ascii_digits : forall ds, are_digits ds -> ds <> [] -> Z.of_nat (length ds) <= INT_MAX_STR_DIGITS ->
  int_of (ascii_digits ds) = Ret (dec_value ds 0).
Proof.
  intros ds Hd Hne Hlen. destruct ds as [| d ds]. congruence.
  unfold int_of. inversion Hd; subst.
  assert (drop_while int_space (ascii_digits (d :: ds)) = ascii_digits (d :: ds)) as ->.
  { unfold ascii_digits. cbn [map drop_while]. rewrite (int_space_digit d H1). reflexivity. }
  assert ((match ascii_digits (d :: ds) with
           | 43 :: r => (false, r) | 45 :: r => (true, r) | _ => (false, ascii_digits (d :: ds)) end)
          = (false, ascii_digits (d :: ds))) as ->.
  { unfold ascii_digits. simpl.
    assert (d = 0 \/ d = 1 \/ d = 2 \/ d = 3 \/ d = 4 \/ d = 5 \/ d = 6 \/ d = 7 \/ d = 8 \/ d = 9) as C by lia.
    repeat (destruct C as [-> | C]; [reflexivity |]). subst. reflexivity. }
  rewrite scan_ascii_digits; auto.
  assert (INT_MAX_STR_DIGITS <? 0 + Z.of_nat (length (d :: ds)) = false) as -> by (apply Z.ltb_ge; lia).
  reflexivity.
Qed.

(* ... a '-' negates, a '+' does nothing *)
Theorem int_of_signed_ascii_digits : forall ds, are_digits ds -> ds <> [] -> Z.of_nat (length ds) <= INT_MAX_STR_DIGITS ->
  int_of (45 :: ascii_digits ds) = Ret (- dec_value ds 0) /\ int_of (43 :: ascii_digits ds) = Ret (dec_value ds 0).
Proof.
  intros ds Hd Hne Hlen. unfold int_of. simpl drop_while. cbv iota beta.
  rewrite scan_ascii_digits; auto.
  assert (INT_MAX_STR_DIGITS <? 0 + Z.of_nat (length ds) = false) as -> by (apply Z.ltb_ge; lia).
  split; reflexivity.
Qed.

(* more digits than sys.get_int_max_str_digits(): ValueError, not a huge integer *)
Theorem int_of_too_many_digits : forall ds, are_digits ds -> INT_MAX_STR_DIGITS < Z.of_nat (length ds) ->
  int_of (ascii_digits ds) = Raise ValueError.
Proof.
  intros ds Hd Hlen. destruct ds as [| d ds]. simpl in Hlen. unfold INT_MAX_STR_DIGITS in Hlen. lia.
  unfold int_of. inversion Hd; subst.
  assert (drop_while int_space (ascii_digits (d :: ds)) = ascii_digits (d :: ds)) as ->.
  { unfold ascii_digits. cbn [map drop_while]. rewrite (int_space_digit d H1). reflexivity. }
  assert ((match ascii_digits (d :: ds) with
           | 43 :: r => (false, r) | 45 :: r => (true, r) | _ => (false, ascii_digits (d :: ds)) end)
          = (false, ascii_digits (d :: ds))) as ->.
  { unfold ascii_digits. simpl.
    assert (d = 0 \/ d = 1 \/ d = 2 \/ d = 3 \/ d = 4 \/ d = 5 \/ d = 6 \/ d = 7 \/ d = 8 \/ d = 9) as C by lia.
    repeat (destruct C as [-> | C]; [reflexivity |]). subst. reflexivity. }
  rewrite scan_ascii_digits; auto; try discriminate.
  assert (INT_MAX_STR_DIGITS <? 0 + Z.of_nat (length (d :: ds)) = true) as -> by (apply Z.ltb_lt; lia).
  reflexivity.
Qed.

(* behaviours of int() observed on CPython 3.12 that the model reproduces *)
Example int_of_examples :
  int_of [1633; 1634] = Ret 12 /\                      (* Arabic-Indic digits *)
  int_of [65297; 48] = Ret 10 /\                       (* fullwidth one, ASCII zero: blocks may mix *)
  int_of [32; 43; 49; 95; 48; 160] = Ret 10 /\         (* " +1_0\xa0" *)
  int_of [45; 48] = Ret 0 /\
  int_of [49; 95] = Raise ValueError /\                (* "1_" *)
  int_of [95; 49] = Raise ValueError /\                (* "_1" *)
  int_of [49; 95; 95; 48] = Raise ValueError /\        (* "1__0" *)
  int_of [43; 32; 49] = Raise ValueError /\            (* "+ 1" *)
  int_of [28; 49] = Raise ValueError /\                (* "\x1c1": isspace() but not skipped by int() *)
  int_of [178] = Raise ValueError /\                   (* superscript two: isdigit() but not decimal *)
  int_of [] = Raise ValueError /\
  int_of [49; 0] = Raise ValueError.
Proof. repeat split; reflexivity. Qed.

(* ---- sets *)
Lemma set_insert_In : forall x l y, In y (set_insert x l) <-> y = x \/ In y l.
Proof.
  intros x. induction l as [| z l IH]; intros y; simpl.
  - intuition.
  - destruct (str_cmp x z) eqn:C; simpl.
    + apply str_cmp_eq in C. subst z. intuition.
    + intuition.
    + rewrite IH. intuition.
Qed.

Lemma mkset_In : forall l y, In y (mkset l) <-> In y l.
Proof.
  induction l as [| x l IH]; intros y; simpl. reflexivity.
  rewrite set_insert_In, IH. intuition.
Qed.

Lemma set_union_In : forall a b y, In y (set_union a b) <-> In y a \/ In y b.
Proof.
  induction a as [| x a IH]; intros b y; simpl.
  - intuition.
  - rewrite set_insert_In, IH. intuition.
Qed.

Definition str_lt (a b : str) : Prop := str_cmp a b = Lt.
Inductive sorted_set : list str -> Prop :=
| ss_nil : sorted_set []
| ss_cons : forall x l, sorted_set l -> (forall y, In y l -> str_lt x y) -> sorted_set (x :: l).

Lemma set_insert_sorted : forall x l, sorted_set l -> sorted_set (set_insert x l).
Proof.
  intros x. induction l as [| z l IH]; intro H; simpl.
  - constructor. constructor. intros y [].
  - inversion H; subst. destruct (str_cmp x z) eqn:C.
    + exact H.
    + constructor. exact H. intros y [<- | Hy]. exact C.
      eapply str_cmp_lt_trans. exact C. apply H3. exact Hy.
    + constructor. apply IH. exact H2. intros y Hy. apply set_insert_In in Hy. destruct Hy as [-> | Hy].
      * unfold str_lt. rewrite str_cmp_antisym, C. reflexivity.
      * apply H3. exact Hy.
Qed.

(* a set is sorted by code points without duplicates: the canonical form the harness compares with *)
Theorem mkset_sorted : forall l, sorted_set (mkset l).
Proof. induction l; simpl. constructor. apply set_insert_sorted. exact IHl. Qed.

Lemma set_union_sorted : forall a b, sorted_set b -> sorted_set (set_union a b).
Proof. induction a; simpl; intros b H. exact H. apply set_insert_sorted. apply IHa. exact H. Qed.

Lemma sorted_set_NoDup : forall l, sorted_set l -> NoDup l.
Proof.
  induction 1; constructor; auto. intro Hx. specialize (H0 x Hx). unfold str_lt in H0.
  assert (str_cmp x x = Eq) by (apply str_cmp_eq; reflexivity). congruence.
Qed.

Lemma mkset_nonempty : forall l, l <> [] -> mkset l <> [].
Proof.
  intros [| x l] H. congruence. intro E. assert (In x (mkset (x :: l))) as Hx by (apply mkset_In; left; reflexivity).
  rewrite E in Hx. destruct Hx.
Qed.

(* ---- dict *)
Lemma dict_set_In : forall k v d k' v', In (k', v') (dict_set k v d) -> (k' = k /\ v' = v) \/ In (k', v') d.
Proof.
  intros k v. induction d as [| [k0 v0] d IH]; simpl; intros k' v' H.
  - destruct H as [H | []]. inversion H. auto.
  - destruct (str_eqb k k0) eqn:E.
    + apply str_eqb_eq in E. subst k0. destruct H as [H | H]. inversion H; auto. auto.
    + destruct H as [H | H]. auto. destruct (IH _ _ H); auto.
Qed.

Lemma dict_set_keys : forall k v d, NoDup (map fst d) -> NoDup (map fst (dict_set k v d)).
Proof.
  intros k v. induction d as [| [k0 v0] d IH]; simpl; intro H.
  - constructor. intros []. constructor.
  - destruct (str_eqb k k0) eqn:E; simpl. exact H.
    inversion H; subst. constructor; auto.
    intro Hin. apply in_map_iff in Hin. destruct Hin as [[k1 v1] [Hk Hin]]. simpl in Hk. subst k1.
    apply dict_set_In in Hin. destruct Hin as [[-> _] | Hin].
    + assert (str_eqb k k = true) by (apply str_eqb_eq; reflexivity). congruence.
    + apply H2. apply in_map_iff. exists (k0, v1). auto.
Qed.

Lemma dict_set_last_wins : forall k v d, In (k, v) (dict_set k v d).
Proof.
  intros k v. induction d as [| [k0 v0] d IH]; simpl. auto.
  destruct (str_eqb k k0) eqn:E. apply str_eqb_eq in E. subst. left; reflexivity. right; exact IH.
Qed.

(* ---- is_uuid_like *)
Theorem is_uuid_like_spec : forall v,
  is_uuid_like v = true <-> length (uuid_normal v) = 32%nat /\ Forall (fun c => is_hex c = true) (uuid_normal v).
Proof.
  intros v. unfold is_uuid_like. rewrite andb_true_iff, Z.eqb_eq, forallb_forall, Forall_forall.
  split; intros [H1 H2]; split; auto; lia.
Qed.

Definition hexs (s : str) : Prop := forallb is_hex s = true.

Lemma filter_dash_hex : forall s, hexs s -> filter (fun c => negb (c =? 45)) s = s.
Proof.
  unfold hexs. induction s as [| c s IH]; simpl; intro H; auto.
  apply andb_true_iff in H. destruct H as [H1 H2].
  destruct (Z.eqb_spec c 45) as [-> | _]. discriminate. simpl. f_equal. auto.
Qed.

(* the canonical 8-4-4-4-12 form, upper or lower case, is accepted *)
Theorem is_uuid_like_canonical : forall a b c d e,
  hexs a -> hexs b -> hexs c -> hexs d -> hexs e ->
  length a = 8%nat -> length b = 4%nat -> length c = 4%nat -> length d = 4%nat -> length e = 12%nat ->
  is_uuid_like (a ++ 45 :: b ++ 45 :: c ++ 45 :: d ++ 45 :: e) = true.
Proof.
  intros a b c d e Ha Hb Hc Hd He La Lb Lc Ld Le.
  set (v := a ++ 45 :: b ++ 45 :: c ++ 45 :: d ++ 45 :: e).
  assert (forall x, In x v -> is_hex x = true \/ x = 45) as Hv.
  { unfold v. unfold hexs in *. rewrite forallb_forall in *. intros x Hx.
    repeat (apply in_app_or in Hx; destruct Hx as [Hx | [<- | Hx]]; auto). }
  assert (~ In 117 v) as Hu. { intro H. destruct (Hv _ H) as [H1 | H1]; discriminate. }
  unfold is_uuid_like, uuid_normal, s_urn, s_uuid.
  rewrite (remove_sub_absent 117 _ v Hu). rewrite (remove_sub_absent 117 _ v Hu).
  unfold strip_chars. rewrite strip_by_id.
  2:{ rewrite forallb_forall. intros x Hx. destruct (Hv _ Hx) as [H1 | ->]; [| reflexivity].
      simpl. destruct (Z.eqb_spec x 123) as [-> | _]. discriminate.
      destruct (Z.eqb_spec x 125) as [-> | _]. discriminate. reflexivity. }
  unfold v. repeat (rewrite filter_app; simpl). repeat rewrite filter_dash_hex by assumption.
  repeat rewrite app_length. rewrite La, Lb, Lc, Ld, Le. simpl.
  repeat rewrite forallb_app. unfold hexs in *. rewrite Ha, Hb, Hc, Hd, He. reflexivity.
Qed.

(* ================================================================== the parsers *)
Ltac break_if :=
  match goal with |- context [if ?c then _ else _] => let E := fresh "E" in destruct c eqn:E end.

Lemma nonempty_true : forall A (l : list A), nonempty l = true <-> l <> [].
Proof. intros A [| x l]; simpl; split; intro H; try discriminate; auto; try congruence. Qed.
Lemma nonempty_false : forall A (l : list A), nonempty l = false <-> l = [].
Proof. intros A [| x l]; simpl; split; intro H; try discriminate; auto. Qed.

Lemma nonempty_cons : forall A (x : A) l, nonempty (x :: l) = true.
Proof. reflexivity. Qed.
Lemma nonempty_nil : forall A, nonempty (@nil A) = false.
Proof. reflexivity. Qed.

Lemma map_nonempty : forall A B (f : A -> B) l, l <> [] -> map f l <> [].
Proof. intros A B f [| x l] H. congruence. discriminate. Qed.

Lemma forallb_nonempty : forall (l : list str), forallb nonempty l = true -> Forall (fun t => t <> []) l.
Proof.
  intros l H. rewrite forallb_forall in H. apply Forall_forall. intros x Hx. apply nonempty_true. auto.
Qed.

Lemma set_union_nil : forall a b, set_union a b = [] -> a = [] /\ b = [].
Proof.
  intros a b H. split.
  - destruct a as [| x a]; auto. assert (In x (set_union (x :: a) b)) as Hx by (apply set_union_In; left; left; reflexivity).
    rewrite H in Hx. destruct Hx.
  - destruct b as [| x b]; auto. assert (In x (set_union a (x :: b))) as Hx by (apply set_union_In; right; left; reflexivity).
    rewrite H in Hx. destruct Hx.
Qed.

(* ------------------------------------------------------------------ resources *)
Definition rc_wf (d : list (str * Z)) : Prop :=
  NoDup (map fst d) /\
  forall k v, In (k, v) d -> 1 <= v <= MAX_INT /\ ~ In 58 k /\ ~ In 44 k.

Lemma resources_step_only400 : forall rt d, only400 (resources_step rt d).
Proof.
  intros rt d. unfold resources_step.
  apply bind_only400. { apply try_except_only400. apply unpack2_raises. reflexivity. }
  intros [n a] _. cbv beta iota.
  apply bind_only400. { apply try_except_only400. apply int_of_raises. reflexivity. }
  intros amt _. cbv beta. repeat break_if; simpl; auto.
Qed.

Lemma resources_loop_only400 : forall rts d, only400 (resources_loop rts d).
Proof.
  induction rts as [| rt rts IH]; intros d; simpl. exact I.
  apply bind_only400. apply resources_step_only400. intros d' _. apply IH.
Qed.

Theorem resources_no_escape : forall qs, to_pres (normalize_resources_qs_param qs) <> PEscape.
Proof.
  intros qs. apply only400_no_escape. unfold normalize_resources_qs_param.
  break_if. reflexivity. apply resources_loop_only400.
Qed.

Lemma unpack2_ret : forall A (l : list A) a b, unpack2 l = Ret (a, b) -> l = [a; b].
Proof. intros A [| x [| y [| z l]]] a b H; simpl in H; inversion H; reflexivity. Qed.

Lemma resources_step_wf : forall rt d d',
  ~ In 44 rt -> rc_wf d -> resources_step rt d = Ret d' -> rc_wf d' /\ d' <> [].
Proof.
  intros rt d d' Hrt [Hk Hd]. unfold resources_step.
  destruct (try_except (unpack2 (split_char 58 rt)) ValueError (Raise HTTPBadRequest)) as [[n a] | e] eqn:U;
    [| discriminate].
  apply try_except_ret in U. apply unpack2_ret in U. cbn [bind].
  destruct (try_except (int_of a) ValueError (Raise HTTPBadRequest)) as [amt | e] eqn:I; [| discriminate].
  cbn [bind]. destruct (amt <? 1) eqn:E1; [discriminate |]. destruct (MAX_INT <? amt) eqn:E2; [discriminate |].
  intro H. inversion H; subst d'. clear H. apply Z.ltb_ge in E1. apply Z.ltb_ge in E2.
  assert (In n (split_char 58 rt)) as Hn by (rewrite U; left; reflexivity).
  split; [split |].
  - apply dict_set_keys. exact Hk.
  - intros k v Hin. apply dict_set_In in Hin. destruct Hin as [[-> ->] | Hin]; [| apply Hd; exact Hin].
    split. lia. split.
    + eapply split_char_no_sep. exact Hn.
    + intro H44. apply Hrt. eapply split_char_pieces; eauto.
  - intro E. pose proof (dict_set_last_wins n amt d) as Hl. rewrite E in Hl. destruct Hl.
Qed.

Lemma resources_loop_wf : forall rts d d',
  Forall (fun rt => ~ In 44 rt) rts -> rc_wf d -> resources_loop rts d = Ret d' ->
  rc_wf d' /\ (rts <> [] -> d' <> []).
Proof.
  induction rts as [| rt rts IH]; intros d d' Hs Hd; simpl.
  - intro H. inversion H; subst. split. exact Hd. congruence.
  - inversion Hs; subst. destruct (resources_step rt d) as [d1 |] eqn:S; [| discriminate]. cbn [bind].
    destruct (resources_step_wf rt d d1 H1 Hd S) as [Hd1 Hne]. intro H.
    destruct (IH d1 d' H2 Hd1 H) as [Hd' Hne']. split. exact Hd'. intros _.
    destruct rts as [| rt2 rts]. simpl in H. inversion H; subst. exact Hne. apply Hne'. discriminate.
Qed.

(* an accepted value is a non-empty dict; every amount is in 1..MAX_INT, no name holds a separator *)
Theorem resources_accepted_wf : forall qs d,
  normalize_resources_qs_param qs = Ret d ->
  d <> [] /\ NoDup (map fst d) /\
  forall k v, In (k, v) d -> 1 <= v <= MAX_INT /\ ~ In 58 k /\ ~ In 44 k.
Proof.
  intros qs d. unfold normalize_resources_qs_param. break_if. discriminate. intro H.
  destruct (resources_loop_wf (split_char 44 qs) [] d) as [[Hk Hd] Hne]; auto.
  - apply Forall_forall. intros p Hp. eapply split_char_no_sep. exact Hp.
  - split. constructor. intros k v [].
  - split. apply Hne. apply split_char_nonempty. split; assumption.
Qed.

(* "names are non-empty" does NOT hold: ':1' is accepted with the empty class name (the handlers then
   answer 400 because no resource class has that name) *)
Theorem resources_empty_name_accepted : normalize_resources_qs_param [58; 49] = Ret [([], 1)].
Proof. reflexivity. Qed.

Example resources_examples :
  (* VCPU:2,MEMORY_MB:1024 *)
  to_pres (normalize_resources_qs_param [86;67;80;85;58;50;44;77;69;77;79;82;89;95;77;66;58;49;48;50;52])
  = POk [([86;67;80;85], 2); ([77;69;77;79;82;89;95;77;66], 1024)] /\
  (* VCPU:2147483647 and VCPU:2147483648 *)
  to_pres (normalize_resources_qs_param [86;67;80;85;58;50;49;52;55;52;56;51;54;52;55]) = POk [([86;67;80;85], MAX_INT)] /\
  to_pres (normalize_resources_qs_param [86;67;80;85;58;50;49;52;55;52;56;51;54;52;56]) = P400 /\
  (* VCPU:99999999999999999999 (finding 4 of the read-path list: used to reach the database driver) *)
  to_pres (normalize_resources_qs_param [86;67;80;85;58;57;57;57;57;57;57;57;57;57;57;57;57;57;57;57;57;57;57;57;57]) = P400 /\
  (* VCPU:1,VCPU:2 : the later amount wins *)
  to_pres (normalize_resources_qs_param [86;67;80;85;58;49;44;86;67;80;85;58;50]) = POk [([86;67;80;85], 2)] /\
  (* VCPU:0, VCPU:-1, VCPU:x, VCPU, VCPU:1:2, "" *)
  to_pres (normalize_resources_qs_param [86;67;80;85;58;48]) = P400 /\
  to_pres (normalize_resources_qs_param [86;67;80;85;58;45;49]) = P400 /\
  to_pres (normalize_resources_qs_param [86;67;80;85;58;120]) = P400 /\
  to_pres (normalize_resources_qs_param [86;67;80;85]) = P400 /\
  to_pres (normalize_resources_qs_param [86;67;80;85;58;49;58;50]) = P400 /\
  to_pres (normalize_resources_qs_param []) = P400.
Proof. repeat split; reflexivity. Qed.

(* ------------------------------------------------------------------ required / traits *)
Theorem traits_only400 : forall val af aa, only400 (normalize_traits_qs_param val af aa).
Proof. intros val af aa. unfold normalize_traits_qs_param. repeat break_if; simpl; auto. Qed.

Theorem traits_no_escape : forall val af aa, to_pres (normalize_traits_qs_param val af aa) <> PEscape.
Proof. intros. apply only400_no_escape. apply traits_only400. Qed.

Theorem traits_accepted_wf : forall val af aa req forb,
  normalize_traits_qs_param val af aa = Ret (req, forb) ->
  (forb <> [] -> af = true) /\
  (starts_with s_in val = true -> aa = true /\ forb = []) /\
  Forall (fun s => s <> [] /\ Forall (fun t => t <> []) s) req /\
  Forall (fun t => t <> []) forb /\
  (aa = false -> Forall (fun s => length s = 1%nat) req).
Proof.
  intros val af aa req forb. unfold normalize_traits_qs_param.
  destruct (starts_with s_in val) eqn:P.
  - destruct (negb aa) eqn:A; [discriminate |]. apply negb_false_iff in A.
    destruct (negb (forallb nonempty (mkset (map strip (split_char 44 (skipn 3 val)))))) eqn:N; [discriminate |].
    break_if; [discriminate |]. intro H. inversion H; subst. clear H. apply negb_false_iff in N.
    split. congruence. split. auto. split.
    + constructor; [| constructor]. split.
      * apply mkset_nonempty. apply map_nonempty. apply split_char_nonempty.
      * apply forallb_nonempty. exact N.
    + split. constructor. intro. congruence.
  - set (all := map strip (split_char 44 val)).
    set (fb := mkset (map (lstrip_char 33) (filter (starts_with s_bang) all))).
    destruct (negb (forallb nonempty (fb ++ all))) eqn:N; [discriminate |]. apply negb_false_iff in N.
    destruct (nonempty fb && negb af) eqn:F; [discriminate |].
    intro H. inversion H; subst. clear H.
    apply forallb_nonempty in N. apply Forall_app in N. destruct N as [Nf Na].
    split; [| split; [| split; [| split]]].
    + intro Hne. apply nonempty_true in Hne. rewrite Hne in F. simpl in F. apply negb_false_iff in F. exact F.
    + discriminate.
    + apply Forall_forall. intros s Hs. apply in_map_iff in Hs. destruct Hs as [t [<- Ht]].
      apply filter_In in Ht. destruct Ht as [Ht _]. rewrite Forall_forall in Na. specialize (Na t Ht).
      split. discriminate. constructor; auto.
    + exact Nf.
    + intros _. apply Forall_forall. intros s Hs. apply in_map_iff in Hs. destruct Hs as [t [<- _]]. reflexivity.
Qed.

Lemma mapM_singletons : forall req, Forall (fun s : list str => length s = 1%nat) req ->
  exists l, mapM (fun any_traits => bind (py_assert (Nat.eqb (length any_traits) 1)) (fun _ => index0 any_traits)) req
            = Ret l.
Proof.
  induction req as [| s req IH]; intro H. exists []. reflexivity.
  inversion H; subst. destruct (IH H3) as [l Hl].
  destruct s as [| t [| u s]]; simpl in H2; try discriminate.
  exists (t :: l). cbn [mapM length Nat.eqb py_assert bind index0]. rewrite Hl. reflexivity.
Qed.

(* the legacy reformatting asserts one-element sets and indexes them: neither can fail *)
Theorem legacy_only400 : forall val af, only400 (normalize_traits_qs_param_to_legacy_value val af).
Proof.
  intros val af. unfold normalize_traits_qs_param_to_legacy_value.
  apply bind_only400. apply traits_only400. intros [req forb] H. cbv beta iota.
  destruct (traits_accepted_wf _ _ _ _ _ H) as (_ & _ & _ & _ & Hs).
  destruct (mapM_singletons req (Hs eq_refl)) as [l ->]. exact I.
Qed.

Theorem legacy_no_escape : forall val af, to_pres (normalize_traits_qs_param_to_legacy_value val af) <> PEscape.
Proof. intros. apply only400_no_escape. apply legacy_only400. Qed.

Lemma traits_params_loop_only400 : forall af aa values req forb,
  only400 (traits_params_loop af aa values req forb).
Proof.
  induction values as [| v values IH]; intros req forb; simpl. exact I.
  apply bind_only400. apply traits_only400. intros rf _. apply IH.
Qed.

Theorem traits_params_no_escape : forall minor values, to_pres (normalize_traits_qs_params minor values) <> PEscape.
Proof. intros. apply only400_no_escape. apply traits_params_loop_only400. Qed.

Lemma traits_params_loop_wf : forall af aa values req forb req' forb',
  traits_params_loop af aa values req forb = Ret (req', forb') ->
  (forb <> [] -> af = true) -> (aa = false -> Forall (fun s => length s = 1%nat) req) ->
  (forb' <> [] -> af = true) /\ (aa = false -> Forall (fun s => length s = 1%nat) req').
Proof.
  induction values as [| v values IH]; intros req forb req' forb'; simpl.
  - intro H. inversion H; subst. auto.
  - destruct (normalize_traits_qs_param v af aa) as [[r f] |] eqn:N; [| discriminate]. cbn [bind fst snd].
    intros H Hf Hr. destruct (traits_accepted_wf _ _ _ _ _ N) as (Hf1 & _ & _ & _ & Hs).
    eapply IH. exact H.
    + intro Hne. destruct f as [| x f]. simpl in Hne. auto. apply Hf1. discriminate.
    + intro Ha. apply Forall_app. auto.
Qed.

(* forbidden traits are accepted from 1.22 only; any-of sets ("in:") from 1.39 only *)
Theorem traits_params_accepted_wf : forall minor values req forb,
  normalize_traits_qs_params minor values = Ret (req, forb) ->
  (forb <> [] -> 22 <= minor) /\ (minor < 39 -> Forall (fun s => length s = 1%nat) req).
Proof.
  intros minor values req forb H. unfold normalize_traits_qs_params in H.
  apply traits_params_loop_wf in H.
  - destruct H as [H1 H2]. split.
    + intro Hne. apply Z.leb_le. auto.
    + intro Hm. apply H2. apply Z.leb_gt. lia.
  - congruence.
  - intros _. constructor.
Qed.

(* ------------------------------------------------------------------ member_of *)
Theorem member_of_only400 : forall v, only400 (normalize_member_of_qs_param v).
Proof.
  intros v. unfold normalize_member_of_qs_param. break_if. reflexivity.
  destruct (if starts_with s_nin v then _ else _) as [r f]. break_if; simpl; auto.
Qed.

Theorem member_of_no_escape : forall v, to_pres (normalize_member_of_qs_param v) <> PEscape.
Proof. intros. apply only400_no_escape. apply member_of_only400. Qed.

Definition uuids (l : list str) : Prop := Forall (fun u => is_uuid_like u = true) l.

Theorem member_of_accepted_wf : forall v r f,
  normalize_member_of_qs_param v = Ret (r, f) ->
  uuids r /\ uuids f /\ (r = [] \/ f = []) /\ (r <> [] \/ f <> []).
Proof.
  intros v r f. unfold normalize_member_of_qs_param. break_if. discriminate.
  destruct (if starts_with s_nin v then _ else _) as [r0 f0] eqn:P.
  destruct (forallb is_uuid_like (set_union r0 f0)) eqn:U; [| discriminate].
  intro H. inversion H; subst. clear H. rewrite forallb_forall in U.
  split; [| split; [| split]].
  - apply Forall_forall. intros x Hx. apply U. apply set_union_In. auto.
  - apply Forall_forall. intros x Hx. apply U. apply set_union_In. auto.
  - destruct (starts_with s_nin v); [inversion P; auto |].
    destruct (starts_with s_bang v); [inversion P; auto |].
    destruct (starts_with s_in v); inversion P; auto.
  - assert (forall l : list str, l <> [] -> mkset l <> []) as M by apply mkset_nonempty.
    destruct (starts_with s_nin v); [inversion P; right; apply M; apply split_char_nonempty |].
    destruct (starts_with s_bang v); [inversion P; right; first [discriminate | apply M; discriminate] |].
    destruct (starts_with s_in v); inversion P; left;
      first [apply M; apply split_char_nonempty | discriminate | apply M; discriminate].
Qed.

Lemma member_of_loop_only400 : forall af values req forb, only400 (member_of_loop af values req forb).
Proof.
  induction values as [| v values IH]; intros req forb; simpl. exact I.
  apply bind_only400. apply member_of_only400. intros [r f] _. cbv beta iota.
  repeat break_if; simpl; auto.
Qed.

Theorem member_of_params_no_escape : forall minor values,
  to_pres (normalize_member_of_qs_params minor values) <> PEscape.
Proof.
  intros. apply only400_no_escape. unfold normalize_member_of_qs_params. break_if. reflexivity.
  apply member_of_loop_only400.
Qed.

Lemma member_of_loop_wf : forall af values req forb req' forb',
  member_of_loop af values req forb = Ret (req', forb') ->
  (forb <> [] -> af = true) -> Forall uuids req -> uuids forb ->
  (forb' <> [] -> af = true) /\ Forall uuids req' /\ uuids forb'.
Proof.
  induction values as [| v values IH]; intros req forb req' forb'; simpl.
  - intro H. inversion H; subst. auto.
  - destruct (normalize_member_of_qs_param v) as [[r f] |] eqn:N; [| discriminate]. cbn [bind].
    destruct (member_of_accepted_wf _ _ _ N) as (Ur & Uf & _ & _).
    intros H Hf Hreq Hforb.
    assert (Forall uuids (if nonempty r then req ++ [r] else req)) as Hreq'.
    { break_if; auto. apply Forall_app. split; auto. }
    destruct (nonempty f) eqn:Nf.
    + destruct (negb af) eqn:A; [discriminate |]. apply negb_false_iff in A.
      eapply IH; eauto. unfold uuids. apply Forall_forall. intros x Hx. apply set_union_In in Hx.
      unfold uuids in *. rewrite Forall_forall in Uf, Hforb. destruct Hx; auto.
    + eapply IH; eauto.
Qed.

(* every accepted aggregate is a uuid; forbidden aggregates from 1.32 only; repeats from 1.24 only *)
Theorem member_of_params_accepted_wf : forall minor values req forb,
  normalize_member_of_qs_params minor values = Ret (req, forb) ->
  Forall uuids req /\ uuids forb /\ (forb <> [] -> 32 <= minor) /\ ((1 < length values)%nat -> 24 <= minor).
Proof.
  intros minor values req forb. unfold normalize_member_of_qs_params.
  destruct (negb (24 <=? minor) && (1 <? Z.of_nat (length values))) eqn:M; [discriminate |].
  intro H. apply member_of_loop_wf in H; try (constructor; fail); try congruence.
  destruct H as (H1 & H2 & H3). split; [| split; [| split]]; auto.
  - intro Hne. apply Z.leb_le. auto.
  - intro Hl. apply andb_false_iff in M. destruct M as [M | M].
    + apply negb_false_iff in M. apply Z.leb_le. exact M.
    + apply Z.ltb_ge in M. lia.
Qed.

(* ------------------------------------------------------------------ in_tree *)
Theorem in_tree_no_escape : forall v, to_pres (normalize_in_tree_qs_params v) <> PEscape.
Proof. intros v. unfold normalize_in_tree_qs_params. break_if; simpl; discriminate. Qed.

Theorem in_tree_accepted_wf : forall v r,
  normalize_in_tree_qs_params v = Ret r -> r = strip v /\ is_uuid_like r = true.
Proof.
  intros v r. unfold normalize_in_tree_qs_params. break_if; [| discriminate].
  intro H. inversion H; subst. auto.
Qed.

(* ------------------------------------------------------------------ RequestWideParams.from_request *)
Lemma rwp_limit_only400 : forall limit, only400 (rwp_limit limit).
Proof.
  intros [| l0 rest]; unfold rwp_limit; rewrite ?nonempty_cons, ?nonempty_nil. exact I.
  apply try_except_only400; [| reflexivity]. cbn [index0 bind].
  intros e H. destruct (int_of l0) as [n |] eqn:I; cbn [bind] in H.
  - destruct (n <? 1); inversion H; reflexivity.
  - inversion H; subst. eapply int_of_raises. exact I.
Qed.

(* the limit that is used is the FIRST value, and it is a positive integer *)
Theorem rwp_limit_accepted_wf : forall limit,
  (rwp_limit limit = Ret None -> limit = []) /\
  (forall n, rwp_limit limit = Ret (Some n) -> 1 <= n /\ exists l0 rest, limit = l0 :: rest /\ int_of l0 = Ret n).
Proof.
  intros [| l0 rest]; unfold rwp_limit; rewrite ?nonempty_cons, ?nonempty_nil.
  - split; auto. intros n H. discriminate.
  - cbn [index0 bind]. destruct (int_of l0) as [m |] eqn:I; cbn [bind].
    + destruct (m <? 1) eqn:E; simpl; split; intros; try discriminate.
      inversion H; subst. apply Z.ltb_ge in E. split. lia. eauto.
    + rewrite (int_of_raises l0 e I). simpl. split; intros; discriminate.
Qed.

Lemma rwp_root_required_only400 : forall rr, only400 (rwp_root_required rr).
Proof.
  intros [| r0 rest]; unfold rwp_root_required; rewrite ?nonempty_cons, ?nonempty_nil. exact I.
  break_if. reflexivity. cbn [index0 bind].
  apply bind_only400. apply legacy_only400. intros legacy _.
  destruct (fix_one_forbidden legacy) as [[a b] c]. break_if; simpl; auto.
Qed.

Lemma rwp_same_subtree_only400 : forall ss, only400 (rwp_same_subtree ss).
Proof.
  induction ss as [| v ss IH]; simpl. exact I.
  break_if. reflexivity. apply bind_only400. exact IH. intros; exact I.
Qed.

Theorem rwp_no_escape : forall limit gp rr ss, to_pres (rwp_from_request limit gp rr ss) <> PEscape.
Proof.
  intros. apply only400_no_escape. unfold rwp_from_request.
  apply bind_only400. apply rwp_limit_only400. intros l _.
  apply bind_only400. { unfold rwp_group_policy. destruct gp; simpl; exact I. } intros g _.
  apply bind_only400. apply rwp_root_required_only400. intros a _.
  apply bind_only400. apply rwp_same_subtree_only400. intros t _. exact I.
Qed.

Lemma rwp_same_subtree_wf : forall ss l, rwp_same_subtree ss = Ret l ->
  length l = length ss /\ Forall (fun s => s <> [] /\ ~ In [] s) l.
Proof.
  induction ss as [| v ss IH]; intros l; simpl.
  - intro H. inversion H; subst. split. reflexivity. constructor.
  - destruct (set_mem [] (mkset (map strip (split_char 44 v)))) eqn:M; [discriminate |].
    destruct (rwp_same_subtree ss) as [l' |]; [| discriminate]. cbn [bind].
    intro H. inversion H; subst. destruct (IH l' eq_refl) as [Hl Hf]. split. simpl. congruence.
    constructor; auto. split.
    + apply mkset_nonempty. apply map_nonempty. apply split_char_nonempty.
    + intro Hin. unfold set_mem in M.
      assert (existsb (str_eqb []) (mkset (map strip (split_char 44 v))) = true) as C.
      { apply existsb_exists. exists []. split. exact Hin. reflexivity. }
      congruence.
Qed.

Lemma filter_nil_forall : forall A (f : A -> bool) l, filter f l = [] -> forall x, In x l -> f x = false.
Proof.
  intros A f. induction l as [| y l IH]; simpl; intros H x Hx. destruct Hx.
  destruct (f y) eqn:E. discriminate. destruct Hx as [<- | Hx]; auto.
Qed.

(* accepted request-wide values: limit >= 1 read from the first value; one root_required whose required
   and forbidden traits do not overlap; every same_subtree names at least one group, never the unsuffixed one *)
Theorem rwp_accepted_wf : forall limit gp rr ss l g a t,
  rwp_from_request limit gp rr ss = Ret (l, g, a, t) ->
  (forall n, l = Some n -> 1 <= n /\ exists l0 rest, limit = l0 :: rest /\ int_of l0 = Ret n) /\
  (l = None -> limit = []) /\
  (g = match gp with [] => None | g0 :: _ => Some g0 end) /\
  (forall rq fb, a = Some (rq, fb) -> length rr = 1%nat /\ forall x, In x fb -> set_mem x rq = false) /\
  (a = None -> rr = []) /\
  length t = length ss /\ Forall (fun s => s <> [] /\ ~ In [] s) t.
Proof.
  intros limit gp rr ss l g a t. unfold rwp_from_request.
  destruct (rwp_limit limit) as [l1 |] eqn:L; [| discriminate]. cbn [bind].
  destruct (rwp_group_policy gp) as [g1 |] eqn:G; [| discriminate]. cbn [bind].
  destruct (rwp_root_required rr) as [a1 |] eqn:A; [| discriminate]. cbn [bind].
  destruct (rwp_same_subtree ss) as [t1 |] eqn:T; [| discriminate]. cbn [bind].
  intro H. inversion H; subst. clear H.
  destruct (rwp_limit_accepted_wf limit) as [L0 L1].
  destruct (rwp_same_subtree_wf ss t T) as [T0 T1].
  split; [| split; [| split; [| split; [| split; [| split]]]]]; auto.
  - intros n ->. apply L1. exact L.
  - intros ->. apply L0. exact L.
  - unfold rwp_group_policy in G. destruct gp; simpl in G; inversion G; reflexivity.
  - intros rq fb ->. unfold rwp_root_required in A. destruct rr as [| r0 [| r1 rr]]; rewrite ?nonempty_cons, ?nonempty_nil in A.
    + discriminate.
    + change (1 <? Z.of_nat (length [r0])) with false in A. cbv iota in A. cbn [index0 bind] in A.
      destruct (normalize_traits_qs_param_to_legacy_value r0 true) as [legacy |]; [| discriminate].
      cbn [bind] in A. destruct (fix_one_forbidden legacy) as [[rq' fb'] c] eqn:F. cbv beta iota in A.
      destruct (nonempty c) eqn:C; [discriminate |]. inversion A; subst. split. reflexivity.
      apply nonempty_false in C. subst c. unfold fix_one_forbidden in F. inversion F; subst.
      intros x Hx. eapply filter_nil_forall in H2. exact H2. exact Hx.
    + exfalso. destruct (1 <? Z.of_nat (length (r0 :: r1 :: rr))) eqn:E. discriminate.
      apply Z.ltb_ge in E. simpl length in E. lia.
  - intros ->. unfold rwp_root_required in A. destruct rr as [| r0 rest]; auto. exfalso.
    rewrite nonempty_cons in A. destruct (1 <? Z.of_nat (length (r0 :: rest))); [discriminate |]. cbn [index0 bind] in A.
    destruct (normalize_traits_qs_param_to_legacy_value r0 true); [| discriminate]. cbn [bind] in A.
    destruct (fix_one_forbidden a) as [[x y] z]. cbv beta iota in A. destruct (nonempty z); discriminate.
Qed.

(* ------------------------------------------------------------------ request group keys *)
Lemma span_spec : forall f s a b, span f s = (a, b) -> s = a ++ b /\ forallb f a = true.
Proof.
  intros f. induction s as [| c s IH]; simpl; intros a b H.
  - inversion H; subst. auto.
  - destruct (f c) eqn:E.
    + destruct (span f s) as [a' b'] eqn:S. inversion H; subst. destruct (IH a' b eq_refl) as [-> F].
      simpl. rewrite E, F. auto.
    + inversion H; subst. auto.
Qed.

Definition numeric_suffix (suf : str) : Prop :=
  suf = [] \/ exists c ds, suf = c :: ds /\ 49 <= c <= 57 /\ forallb is_ascii_digit ds = true.
Definition verbose_suffix (suf : str) : Prop :=
  (length suf <= 64)%nat /\ forallb is_suffix_char suf = true.

Lemma at_end_spec : forall s, at_end s = true -> s = [] \/ s = [10].
Proof.
  intros s H. destruct s as [| c l]; auto. right. simpl in H.
  destruct c as [| p | p]; try discriminate.
  destruct p as [p | p |]; try discriminate. destruct p as [p | p |]; try discriminate.
  destruct p as [p | p |]; try discriminate. destruct p as [p | p |]; try discriminate.
  destruct l; [reflexivity | discriminate].
Qed.

Lemma suffix_numeric_spec : forall rest suf, suffix_numeric rest = Some suf ->
  numeric_suffix suf /\ (rest = suf \/ rest = suf ++ [10]).
Proof.
  intros rest suf. unfold suffix_numeric. destruct (at_end rest) eqn:E.
  - intro H. inversion H; subst. split. left; reflexivity.
    destruct (at_end_spec _ E) as [-> | ->]; auto.
  - destruct rest as [| c r]. discriminate.
    destruct ((49 <=? c) && (c <=? 57)) eqn:D; [| discriminate].
    destruct (span is_ascii_digit r) as [ds tl] eqn:S. destruct (at_end tl) eqn:T; [| discriminate].
    intro H. inversion H; subst. apply span_spec in S. destruct S as [-> F].
    apply andb_true_iff in D. destruct D as [D1 D2]. apply Z.leb_le in D1. apply Z.leb_le in D2.
    split. right. exists c, ds. auto.
    destruct (at_end_spec _ T) as [-> | ->].
    + left. rewrite app_nil_r. reflexivity.
    + right. reflexivity.
Qed.

Lemma suffix_verbose_spec : forall rest suf, suffix_verbose rest = Some suf ->
  verbose_suffix suf /\ (rest = suf \/ rest = suf ++ [10]).
Proof.
  intros rest suf. unfold suffix_verbose. destruct (span is_suffix_char rest) as [cs tl] eqn:S.
  destruct (at_end tl && (Z.of_nat (length cs) <=? 64)) eqn:E; [| discriminate].
  intro H. inversion H; subst. apply span_spec in S. destruct S as [-> F].
  apply andb_true_iff in E. destruct E as [T L]. apply Z.leb_le in L.
  split. split. lia. exact F.
  destruct (at_end_spec _ T) as [-> | ->].
  - left. rewrite app_nil_r. reflexivity.
  - right. reflexivity.
Qed.

Lemma key_match_from_spec : forall verbose ps i key j suf,
  key_match_from verbose i ps key = Some (j, suf) ->
  exists p, nth_error ps (Z.to_nat (j - i)) = Some p /\ i <= j /\
            (key = p ++ suf \/ key = p ++ suf ++ [10]) /\
            (if verbose then verbose_suffix suf else numeric_suffix suf).
Proof.
  intros verbose. induction ps as [| p ps IH]; intros i key j suf; simpl. discriminate.
  assert (key_match_from verbose (i + 1) ps key = Some (j, suf) ->
          exists p0, nth_error (p :: ps) (Z.to_nat (j - i)) = Some p0 /\ i <= j /\
                     (key = p0 ++ suf \/ key = p0 ++ suf ++ [10]) /\
                     (if verbose then verbose_suffix suf else numeric_suffix suf)) as Next.
  { intros H. destruct (IH _ _ _ _ H) as [p0 (N & Hij & K & Sf)]. exists p0. split; [| split; [lia | auto]].
    replace (Z.to_nat (j - i)) with (S (Z.to_nat (j - (i + 1)))) by lia. exact N. }
  destruct (starts_with p key) eqn:P; [| exact Next].
  destruct ((if verbose then suffix_verbose else suffix_numeric) (skipn (length p) key)) as [s0 |] eqn:Sx;
    [| exact Next].
  intro H. inversion H; subst. exists p. replace (j - j) with 0 by lia. split. reflexivity. split. lia.
  apply starts_with_iff in P. destruct P as [r ->].
  assert (skipn (length p) (p ++ r) = r) as Sk.
  { clear. induction p; simpl; auto. }
  rewrite Sk in Sx. destruct verbose.
  - apply suffix_verbose_spec in Sx. destruct Sx as [V [-> | ->]]; auto.
  - apply suffix_numeric_spec in Sx. destruct Sx as [V [-> | ->]]; auto.
Qed.

(* a matched key is one of the four names followed by a well-formed suffix (and possibly one final
   newline, which Python's "$" lets through) *)
Theorem qs_key_match_spec : forall verbose key j suf,
  qs_key_match verbose key = Some (j, suf) ->
  exists p, nth_error qs_prefixes (Z.to_nat j) = Some p /\ 0 <= j < 4 /\
            (key = p ++ suf \/ key = p ++ suf ++ [10]) /\
            (if verbose then verbose_suffix suf else numeric_suffix suf).
Proof.
  intros verbose key j suf H. unfold qs_key_match in H. apply key_match_from_spec in H.
  destruct H as [p (N & Hj & K & S)]. rewrite Z.sub_0_r in N. exists p. split; [exact N |].
  split; [| auto]. split. exact Hj.
  assert (Z.to_nat j < length qs_prefixes)%nat as L. { apply nth_error_Some. congruence. }
  simpl in L. lia.
Qed.

Example qs_key_newline :   (* "resources1\n" is read as the group "1" *)
  qs_key_match false [114; 101; 115; 111; 117; 114; 99; 101; 115; 49; 10] = Some (0, [49]).
Proof. reflexivity. Qed.

(* ================================================================== summary *)
Theorem c15_value_parsers_never_escape :
  (forall qs, to_pres (normalize_resources_qs_param qs) <> PEscape) /\
  (forall val af aa, to_pres (normalize_traits_qs_param val af aa) <> PEscape) /\
  (forall val af, to_pres (normalize_traits_qs_param_to_legacy_value val af) <> PEscape) /\
  (forall minor values, to_pres (normalize_traits_qs_params minor values) <> PEscape) /\
  (forall v, to_pres (normalize_member_of_qs_param v) <> PEscape) /\
  (forall minor values, to_pres (normalize_member_of_qs_params minor values) <> PEscape) /\
  (forall v, to_pres (normalize_in_tree_qs_params v) <> PEscape) /\
  (forall limit gp rr ss, to_pres (rwp_from_request limit gp rr ss) <> PEscape).
Proof.
  repeat split.
  - apply resources_no_escape.
  - apply traits_no_escape.
  - apply legacy_no_escape.
  - apply traits_params_no_escape.
  - apply member_of_no_escape.
  - apply member_of_params_no_escape.
  - apply in_tree_no_escape.
  - apply rwp_no_escape.
Qed.

Print Assumptions c15_value_parsers_never_escape.
Print Assumptions resources_accepted_wf.
Print Assumptions resources_empty_name_accepted.
Print Assumptions traits_accepted_wf.
Print Assumptions traits_params_accepted_wf.
Print Assumptions member_of_accepted_wf.
Print Assumptions member_of_params_accepted_wf.
Print Assumptions in_tree_accepted_wf.
Print Assumptions rwp_accepted_wf.
Print Assumptions qs_key_match_spec.
Print Assumptions split_join.
Print Assumptions split_char_pieces.
Print Assumptions strip_by_middle.
Print Assumptions strip_by_ends.
Print Assumptions lstrip_char_spec.
Print Assumptions starts_with_iff.
Print Assumptions remove_sub_absent.
Print Assumptions int_of_ascii_digits.
Print Assumptions int_of_signed_ascii_digits.
Print Assumptions int_of_too_many_digits.
Print Assumptions int_of_raises.
Print Assumptions mkset_sorted.
Print Assumptions mkset_In.
Print Assumptions dict_set_keys.
Print Assumptions is_uuid_like_canonical.
