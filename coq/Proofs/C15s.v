(* C15s: a schema-valid JSON body decodes to a well-formed request.

   `req_wf` (Proofs/Defs.v) is what ~60 theorems assume about parsed requests.  Here it is DERIVED from the JSON
   schemas regenerated from placement/schemas/*.py (Gen/GenSchemas.v) and the decoders of Model/Decode.v.

   Robustness against regeneration: no theorem looks at the text of a generated schema.  Each theorem is proved for
   every schema satisfying a boolean SHAPE predicate (inv_rec_shape, res_shape, cons_shape ...: "there is a type
   keyword allowing only objects", "the schema under property total has minimum >= 1", ...), and the generated
   schemas are checked against the shapes by vm_compute. *)
From Coq Require Import ZArith List Bool Lia.
From PV Require Import Model.Parse Model.Json Gen.GenConsts Gen.GenSchemas Model.Handlers Model.Decode Proofs.Defs.
Import ListNotations.
Open Scope Z_scope.

(* ================================================================== strings, lists *)
Lemma str_eqb_eq : forall a b, str_eqb a b = true <-> a = b.
Proof.
  induction a as [|x a IH]; destruct b as [|y b]; simpl; split; intro H; try discriminate; auto.
  - apply andb_true_iff in H. destruct H as [H1 H2]. apply Z.eqb_eq in H1. apply IH in H2. congruence.
  - inversion H; subst. rewrite Z.eqb_refl. simpl. apply IH. reflexivity.
Qed.
Lemma str_eqb_refl a : str_eqb a a = true.
Proof. apply str_eqb_eq. reflexivity. Qed.

Lemma memZ_In x l : memZ x l = true <-> In x l.
Proof.
  unfold memZ. rewrite existsb_exists. split.
  - intros [y [Hy He]]. apply Z.eqb_eq in He. subst. exact Hy.
  - intro H. exists x. split; auto. apply Z.eqb_refl.
Qed.

Lemma assoc_In k o x : assoc k o = Some x -> In (k, x) o.
Proof.
  induction o as [|[k' v] o IH]; simpl; intro H; [discriminate|].
  destruct (str_eqb k k') eqn:E.
  - apply str_eqb_eq in E. inversion H; subst. left. reflexivity.
  - right. auto.
Qed.

Definition tok_inj_on (tok : str -> Z) (l : list str) : Prop :=
  forall a b, In a l -> In b l -> tok a = tok b -> a = b.
Lemma tok_inj_on_incl tok l l' : incl l l' -> tok_inj_on tok l' -> tok_inj_on tok l.
Proof. intros Hi H a b Ha Hb. apply H; apply Hi; assumption. Qed.

Lemma sdistinct_nodupb tok l : sdistinct l = true -> tok_inj_on tok l -> nodupb (map tok l) = true.
Proof.
  induction l as [|x l IH]; simpl; intros Hd Hi; [reflexivity|].
  apply andb_true_iff in Hd. destruct Hd as [Hx Hd].
  apply andb_true_iff. split.
  - apply negb_true_iff. destruct (memZ (tok x) (map tok l)) eqn:E; [|reflexivity].
    apply memZ_In in E. apply in_map_iff in E. destruct E as [y [Hy Hin]].
    assert (y = x) by (apply Hi; simpl; auto). subst y.
    apply negb_true_iff in Hx. assert (existsb (str_eqb x) l = true).
    { apply existsb_exists. exists x. split; auto. apply str_eqb_refl. }
    congruence.
  - apply IH; auto. eapply tok_inj_on_incl; [|exact Hi]. intros a Ha. simpl. auto.
Qed.

Lemma omap_ok {A B} (f : A -> option B) (P : A -> B -> Prop) l :
  (forall x, In x l -> exists y, f x = Some y /\ P x y) ->
  exists ys, omap f l = Some ys /\ Forall2 P l ys.
Proof.
  induction l as [|x l IH]; simpl; intro H.
  - exists []. split; auto.
  - destruct (H x (or_introl eq_refl)) as [y [Hy Py]]. rewrite Hy.
    destruct IH as [ys [Hys Pys]]; [intros; apply H; auto|]. rewrite Hys.
    exists (y :: ys). split; auto.
Qed.
Lemma Forall2_map_eq {A B C} (f : A -> C) (g : B -> C) l ys :
  Forall2 (fun x y => g y = f x) l ys -> map g ys = map f l.
Proof. induction 1; simpl; congruence. Qed.
Lemma Forall2_forallb {A B} (P : A -> B -> Prop) (p : B -> bool) l ys :
  Forall2 P l ys -> (forall x y, P x y -> p y = true) -> forallb p ys = true.
Proof. induction 1; simpl; intro H'; auto. rewrite (H' _ _ H). simpl. auto. Qed.
Lemma Forall2_impl {A B} (P Q : A -> B -> Prop) l ys :
  Forall2 P l ys -> (forall x y, P x y -> Q x y) -> Forall2 Q l ys.
Proof. induction 1; intro; constructor; auto. Qed.
Lemma Forall2_length {A B} (P : A -> B -> Prop) l ys : Forall2 P l ys -> length l = length ys.
Proof. induction 1; simpl; congruence. Qed.

(* ================================================================== well-formed / finite documents *)
Definition json_wf (j : json) : Prop := json_wfb j = true.
Definition json_finite (j : json) : Prop := json_finiteb j = true.

Lemma json_wf_obj o : json_wf (JObj o) -> sdistinct (map fst o) = true /\ forall k x, In (k, x) o -> json_wf x.
Proof.
  unfold json_wf. simpl. intro H. apply andb_true_iff in H. destruct H as [H1 H2]. split; auto.
  intros k x Hin. rewrite forallb_forall in H2. apply (H2 (k, x) Hin).
Qed.
Lemma json_wf_arr l : json_wf (JArr l) -> forall x, In x l -> json_wf x.
Proof. unfold json_wf. simpl. intros H x Hin. rewrite forallb_forall in H. auto. Qed.
Lemma json_finite_obj o : json_finite (JObj o) -> forall k x, In (k, x) o -> json_finite x.
Proof.
  unfold json_finite. simpl. intros H k x Hin. rewrite forallb_forall in H. specialize (H (k, x) Hin).
  apply andb_true_iff in H. exact (proj1 H).
Qed.
Lemma json_finite_ratio o : json_finite (JObj o) -> forall x, In (f_allocation_ratio, x) o -> ratio_storable x = true.
Proof.
  unfold json_finite. simpl. intros H x Hin. rewrite forallb_forall in H. specialize (H (f_allocation_ratio, x) Hin).
  apply andb_true_iff in H. destruct H as [_ H]. cbn [fst snd] in H. rewrite str_eqb_refl in H. exact H.
Qed.
Lemma json_finite_arr l : json_finite (JArr l) -> forall x, In x l -> json_finite x.
Proof. unfold json_finite. simpl. intros H x Hin. rewrite forallb_forall in H. auto. Qed.
Lemma json_wf_member k j : json_wf j -> json_wf (member k j).
Proof.
  destruct j; simpl; try (intros; reflexivity). intro H. destruct (assoc k l) eqn:E; [|reflexivity].
  apply assoc_In in E. eapply json_wf_obj; eauto.
Qed.

(* ================================================================== one level of `valid` *)
Definition kw_ok (f : nat) (j : json) (w : kw) : bool :=
  match w with
  | KType ts => existsb (fun t => has_type t j) ts
  | KProps _ | KPatProps _ | KNoAdditional => true
  | KRequired l => match j with JObj o => forallb (fun k => match assoc k o with Some _ => true | None => false end) l
                              | _ => true end
  | KMinProps n => match j with JObj o => n <=? Z.of_nat (length o) | _ => true end
  | KMinLen n => match j with JStr x => n <=? Z.of_nat (length x) | _ => true end
  | KMaxLen n => match j with JStr x => Z.of_nat (length x) <=? n | _ => true end
  | KMin z => match j with JBool _ => true | _ => match num_lt j z with Some true => false | _ => true end end
  | KMax z => match j with JBool _ => true | _ => match num_gt j z with Some true => false | _ => true end end
  | KPattern p => match j with JStr x => jpmatch p x | _ => true end
  | KFormatUuid => match j with JStr x => is_uuid_like x | _ => true end
  | KItems s' => match j with JArr l => forallb (valid f s') l | _ => true end
  | KMinItems n => match j with JArr l => n <=? Z.of_nat (length l) | _ => true end
  | KEnum l => match j with JStr x => existsb (str_eqb x) l | _ => false end
  | KUnique => match j with JArr l => uniqueb (jdepth j) l | _ => true end
  | KAnyOf l => existsb (fun s' => valid f s' j) l
  end.
Definition props_ok (f : nat) (kws : list kw) (j : json) : bool :=
  match j with
  | JObj o =>
      forallb (fun kv =>
        match prop_schemas kws (fst kv) with
        | [] => negb (no_additional kws)
        | ss => forallb (fun s' => valid f s' (snd kv)) ss
        end) o
  | _ => true
  end.
Lemma valid_S f kws j : valid (S f) (Sch kws) j = forallb (kw_ok f j) kws && props_ok f kws j.
Proof. reflexivity. Qed.
(* stated for an abstract schema, and `validate` is unfolded first (Strategy): converting  validate s j  with
   valid FUEL s j  by unfolding `valid` sixteen levels deep does not terminate in practice *)
Local Strategy expand [validate].
Lemma validate_valid s j : validate s j = true -> valid FUEL s j = true.
Proof. intro H. exact H. Qed.
Lemma valid_O s j : valid O s j = false.
Proof. reflexivity. Qed.

(* a valid document was validated with some fuel S f against some Sch kws *)
Lemma valid_inv f s j : valid f s j = true ->
  exists f' kws, f = S f' /\ s = Sch kws /\ forallb (kw_ok f' j) kws = true /\ props_ok f' kws j = true.
Proof.
  destruct f as [|f']; [discriminate|]. destruct s as [kws]. rewrite valid_S. intro H.
  apply andb_true_iff in H. destruct H. exists f', kws. auto.
Qed.
Lemma valid_kw f kws j w : valid (S f) (Sch kws) j = true -> In w kws -> kw_ok f j w = true.
Proof.
  rewrite valid_S. intros H Hin. apply andb_true_iff in H. destruct H as [H _].
  rewrite forallb_forall in H. auto.
Qed.

(* a member of a validated object validates against every schema that applies to its key *)
Lemma valid_member f kws o k x s :
  valid (S f) (Sch kws) (JObj o) = true -> In (k, x) o -> In s (prop_schemas kws k) -> valid f s x = true.
Proof.
  rewrite valid_S. intros H Hin Hs. apply andb_true_iff in H. destruct H as [_ H].
  unfold props_ok in H. rewrite forallb_forall in H. specialize (H (k, x) Hin). simpl in H.
  destruct (prop_schemas kws k) as [|s0 ss] eqn:E; [destruct Hs|].
  change (forallb (fun s' => valid f s' x) (s0 :: ss) = true) in H.
  rewrite forallb_forall in H. auto.
Qed.
(* with additionalProperties: false every member has at least one *)
Lemma valid_no_additional f kws o k x :
  valid (S f) (Sch kws) (JObj o) = true -> no_additional kws = true -> In (k, x) o ->
  exists s, In s (prop_schemas kws k).
Proof.
  rewrite valid_S. intros H Hna Hin. apply andb_true_iff in H. destruct H as [_ H].
  unfold props_ok in H. rewrite forallb_forall in H. specialize (H (k, x) Hin). simpl in H.
  destruct (prop_schemas kws k) as [|s0 ss] eqn:E.
  - rewrite Hna in H. discriminate.
  - exists s0. left. reflexivity.
Qed.

(* every schema that can apply to a member *)
Definition all_prop_schemas (kws : list kw) : list schema :=
  flat_map (fun w => match w with
                     | KProps ps => map snd ps
                     | KPatProps ps => map snd ps
                     | _ => []
                     end) kws.
Lemma sassoc_In k ps s : sassoc k ps = Some s -> In s (map snd ps).
Proof.
  induction ps as [|[k' v] ps IH]; simpl; intro H; [discriminate|].
  destruct (str_eqb k k'); [inversion H; auto | auto].
Qed.
Lemma prop_schemas_incl kws k : incl (prop_schemas kws k) (all_prop_schemas kws).
Proof.
  intros s Hs. unfold prop_schemas in Hs. unfold all_prop_schemas.
  apply in_flat_map in Hs. destruct Hs as [w [Hw Hs]]. apply in_flat_map. exists w. split; auto.
  destruct w; try (destruct Hs).
  - destruct (sassoc k ps) eqn:E; [|destruct Hs]. destruct Hs as [Hs|[]]. subst. eapply sassoc_In; eauto.
  - apply in_map_iff in Hs. destruct Hs as [p [Hp Hin]]. apply filter_In in Hin. destruct Hin as [Hin _].
    apply in_map_iff. exists p. auto.
Qed.

(* ================================================================== keyword tests on a schema (shapes) *)
Definition jtype_eqb (a b : jtype) : bool :=
  match a, b with
  | TObject, TObject | TString, TString | TInteger, TInteger | TNumber, TNumber | TArray, TArray | TNull, TNull
  | TBoolean, TBoolean => true
  | _, _ => false
  end.
Lemma jtype_eqb_eq a b : jtype_eqb a b = true -> a = b.
Proof. destruct a, b; simpl; intro; try discriminate; reflexivity. Qed.

(* there is a "type" keyword allowing only types of ts0 *)
Definition k_type_in (ts0 : list jtype) (kws : list kw) : bool :=
  existsb (fun w => match w with KType ts => forallb (fun t => existsb (jtype_eqb t) ts0) ts | _ => false end) kws.
Definition k_min_ge (lo : Z) (kws : list kw) : bool :=
  existsb (fun w => match w with KMin z => lo <=? z | _ => false end) kws.
Definition k_required (k : str) (kws : list kw) : bool :=
  existsb (fun w => match w with KRequired l => existsb (str_eqb k) l | _ => false end) kws.
Definition k_minprops_ge (n : Z) (kws : list kw) : bool :=
  existsb (fun w => match w with KMinProps z => n <=? z | _ => false end) kws.
Definition k_items (p : schema -> bool) (kws : list kw) : bool :=
  existsb (fun w => match w with KItems s => p s | _ => false end) kws.
Definition k_unique (kws : list kw) : bool :=
  existsb (fun w => match w with KUnique => true | _ => false end) kws.
Definition k_anyof (p : schema -> bool) (kws : list kw) : bool :=
  existsb (fun w => match w with KAnyOf l => forallb p l | _ => false end) kws.
(* some schema applying to the property k has shape p *)
Definition mem_shape (k : str) (p : schema -> bool) (kws : list kw) : bool := existsb p (prop_schemas kws k).

Lemma k_type_in_valid ts0 f kws j :
  k_type_in ts0 kws = true -> valid (S f) (Sch kws) j = true -> exists t, In t ts0 /\ has_type t j = true.
Proof.
  unfold k_type_in. intros Hk Hv. apply existsb_exists in Hk. destruct Hk as [w [Hw Hp]].
  destruct w; try discriminate. pose proof (valid_kw _ _ _ _ Hv Hw) as H. simpl in H.
  apply existsb_exists in H. destruct H as [t [Ht Hty]]. rewrite forallb_forall in Hp.
  specialize (Hp t Ht). apply existsb_exists in Hp. destruct Hp as [t0 [Ht0 He]].
  apply jtype_eqb_eq in He. subst. exists t0. auto.
Qed.
Lemma type_obj f kws j : k_type_in [TObject] kws = true -> valid (S f) (Sch kws) j = true -> exists o, j = JObj o.
Proof.
  intros Hk Hv. destruct (k_type_in_valid _ _ _ _ Hk Hv) as [t [[Ht|[]] Hty]]. subst t.
  destruct j; try discriminate. eauto.
Qed.
Lemma type_arr f kws j : k_type_in [TArray] kws = true -> valid (S f) (Sch kws) j = true -> exists l, j = JArr l.
Proof.
  intros Hk Hv. destruct (k_type_in_valid _ _ _ _ Hk Hv) as [t [[Ht|[]] Hty]]. subst t.
  destruct j; try discriminate. eauto.
Qed.
Lemma type_str f kws j : k_type_in [TString] kws = true -> valid (S f) (Sch kws) j = true -> exists s, j = JStr s.
Proof.
  intros Hk Hv. destruct (k_type_in_valid _ _ _ _ Hk Hv) as [t [[Ht|[]] Hty]]. subst t.
  destruct j; try discriminate. eauto.
Qed.
Lemma is_integral_num_int j : is_integral j = true -> exists n, num_int j = Some n.
Proof.
  destruct j; simpl; try discriminate; eauto. intro H.
  destruct (m =? 0); eauto. simpl in H. rewrite H. eauto.
Qed.
Lemma type_int f kws j : k_type_in [TInteger] kws = true -> valid (S f) (Sch kws) j = true -> exists n, num_int j = Some n.
Proof.
  intros Hk Hv. destruct (k_type_in_valid _ _ _ _ Hk Hv) as [t [[Ht|[]] Hty]]. subst t.
  apply is_integral_num_int. destruct j; exact Hty.
Qed.

Lemma k_required_valid k f kws o :
  k_required k kws = true -> valid (S f) (Sch kws) (JObj o) = true -> exists x, assoc k o = Some x.
Proof.
  unfold k_required. intros Hk Hv. apply existsb_exists in Hk. destruct Hk as [w [Hw Hp]].
  destruct w; try discriminate. pose proof (valid_kw _ _ _ _ Hv Hw) as H. simpl in H.
  apply existsb_exists in Hp. destruct Hp as [k' [Hk' He]]. apply str_eqb_eq in He. subst k'.
  rewrite forallb_forall in H. specialize (H k Hk'). destruct (assoc k o); [eauto | discriminate].
Qed.
Lemma mem_shape_valid k p f kws o x :
  mem_shape k p kws = true -> valid (S f) (Sch kws) (JObj o) = true -> assoc k o = Some x ->
  exists s, p s = true /\ valid f s x = true.
Proof.
  unfold mem_shape. intros Hm Hv Ha. apply existsb_exists in Hm. destruct Hm as [s [Hs Hp]].
  exists s. split; auto. eapply valid_member; eauto. apply assoc_In. exact Ha.
Qed.
(* pattern-keyed objects: additionalProperties false and every property schema has shape p *)
Lemma all_shape_valid p f kws o k x :
  no_additional kws = true -> forallb p (all_prop_schemas kws) = true ->
  valid (S f) (Sch kws) (JObj o) = true -> In (k, x) o -> exists s, p s = true /\ valid f s x = true.
Proof.
  intros Hna Hall Hv Hin. destruct (valid_no_additional _ _ _ _ _ Hv Hna Hin) as [s Hs].
  exists s. split.
  - rewrite forallb_forall in Hall. apply Hall. eapply prop_schemas_incl; eauto.
  - eapply valid_member; eauto.
Qed.
Lemma k_minprops_valid n f kws o :
  k_minprops_ge n kws = true -> valid (S f) (Sch kws) (JObj o) = true -> n <= Z.of_nat (length o).
Proof.
  unfold k_minprops_ge. intros Hk Hv. apply existsb_exists in Hk. destruct Hk as [w [Hw Hp]].
  destruct w; try discriminate. pose proof (valid_kw _ _ _ _ Hv Hw) as H. simpl in H. lia.
Qed.
Lemma k_items_valid p f kws l :
  k_items p kws = true -> valid (S f) (Sch kws) (JArr l) = true ->
  exists s, p s = true /\ forall x, In x l -> valid f s x = true.
Proof.
  unfold k_items. intros Hk Hv. apply existsb_exists in Hk. destruct Hk as [w [Hw Hp]].
  destruct w; try discriminate. pose proof (valid_kw _ _ _ _ Hv Hw) as H. simpl in H.
  exists s. split; auto. rewrite forallb_forall in H. exact H.
Qed.
Lemma k_unique_valid f kws l :
  k_unique kws = true -> valid (S f) (Sch kws) (JArr l) = true -> uniqueb (jdepth (JArr l)) l = true.
Proof.
  unfold k_unique. intros Hk Hv. apply existsb_exists in Hk. destruct Hk as [w [Hw Hp]].
  destruct w; try discriminate. exact (valid_kw _ _ _ _ Hv Hw).
Qed.
Lemma k_anyof_valid p f kws j :
  k_anyof p kws = true -> valid (S f) (Sch kws) j = true -> exists s, p s = true /\ valid f s j = true.
Proof.
  unfold k_anyof. intros Hk Hv. apply existsb_exists in Hk. destruct Hk as [w [Hw Hp]].
  destruct w; try discriminate. pose proof (valid_kw _ _ _ _ Hv Hw) as H. simpl in H.
  apply existsb_exists in H. destruct H as [s [Hs Hvs]]. exists s. split; auto.
  rewrite forallb_forall in Hp. auto.
Qed.

(* "minimum": a lower bound on the decoded integer *)
Lemma pow2_pos e : 0 <= e -> 0 < 2 ^ e.
Proof. intro. apply Z.pow_pos_nonneg; lia. Qed.
Lemma k_min_valid lo f kws j n :
  k_min_ge lo kws = true -> valid (S f) (Sch kws) j = true -> num_int j = Some n -> lo <= n.
Proof.
  unfold k_min_ge. intros Hk Hv Hn. apply existsb_exists in Hk. destruct Hk as [w [Hw Hp]].
  destruct w; try discriminate. pose proof (valid_kw _ _ _ _ Hv Hw) as H. simpl in H.
  apply Z.leb_le in Hp.
  destruct j; simpl in Hn; try discriminate.
  - inversion Hn; subst. simpl in H. destruct (n <? z) eqn:E; [discriminate|]. apply Z.ltb_ge in E. lia.
  - simpl in H. destruct (m =? 0) eqn:Em.
    + inversion Hn; subst. apply Z.eqb_eq in Em. subst m.
      destruct (0 <=? e) eqn:Ee.
      * rewrite Z.mul_0_l in H. destruct (0 <? z) eqn:E; [discriminate|]. apply Z.ltb_ge in E. lia.
      * destruct (0 <? z * 2 ^ (- e)) eqn:E; [discriminate|]. apply Z.ltb_ge in E.
        apply Z.leb_gt in Ee. assert (0 < 2 ^ (- e)) by (apply pow2_pos; lia). nia.
    + destruct (0 <=? e) eqn:Ee; [|discriminate]. inversion Hn; subst.
      destruct (m * 2 ^ e <? z) eqn:E; [discriminate|]. apply Z.ltb_ge in E. lia.
Qed.

(* ================================================================== leaf shapes *)
Definition int_shape (s : schema) : bool := let '(Sch k) := s in k_type_in [TInteger] k.
Definition int_min (lo : Z) (s : schema) : bool := let '(Sch k) := s in k_type_in [TInteger] k && k_min_ge lo k.
Definition intnull_shape (s : schema) : bool := let '(Sch k) := s in k_type_in [TInteger; TNull] k.
Definition num_shape (s : schema) : bool := let '(Sch k) := s in k_type_in [TNumber; TInteger] k.
Definition str_shape (s : schema) : bool := let '(Sch k) := s in k_type_in [TString] k.
Definition strnull_shape (s : schema) : bool := let '(Sch k) := s in k_type_in [TString; TNull] k.

Lemma int_shape_valid s f x : int_shape s = true -> valid f s x = true -> exists n, num_int x = Some n.
Proof. destruct f; [discriminate|]. destruct s as [k]. simpl. intros. eapply type_int; eauto. Qed.
Lemma int_min_valid lo s f x :
  int_min lo s = true -> valid f s x = true -> exists n, num_int x = Some n /\ lo <= n.
Proof.
  destruct f; [discriminate|]. destruct s as [k]. simpl. intros H Hv. apply andb_true_iff in H. destruct H as [H1 H2].
  destruct (type_int _ _ _ H1 Hv) as [n Hn]. exists n. split; auto. eapply k_min_valid; eauto.
Qed.
Lemma str_shape_valid s f x : str_shape s = true -> valid f s x = true -> exists t, x = JStr t.
Proof. destruct f; [discriminate|]. destruct s as [k]. simpl. intros. eapply type_str; eauto. Qed.
Lemma num_ratio_int z : ratio_storable (JInt z) = true -> exists r, num_ratio (JInt z) = Some r.
Proof. intro Hs. unfold num_ratio. rewrite Hs. cbn [negb]. destruct z; eauto. destruct (strip2 p 0). eauto. Qed.
Lemma num_shape_valid s f x :
  num_shape s = true -> valid f s x = true -> json_finite x -> ratio_storable x = true ->
  exists r, num_ratio x = Some r.
Proof.
  destruct f; [discriminate|]. destruct s as [k]. simpl. intros H Hv Hf Hs.
  destruct (k_type_in_valid _ _ _ _ H Hv) as [t [Ht Hty]].
  destruct x; try (destruct Ht as [Ht|[Ht|[]]]; subst t; discriminate).
  - apply num_ratio_int. exact Hs.
  - unfold num_ratio. rewrite Hs. cbn [negb]. eauto.
Qed.
Lemma intnull_shape_valid s f x :
  intnull_shape s = true -> valid f s x = true -> x = JNull \/ exists n, num_int x = Some n.
Proof.
  destruct f; [discriminate|]. destruct s as [k]. simpl. intros H Hv.
  destruct (k_type_in_valid _ _ _ _ H Hv) as [t [[Ht|[Ht|[]]] Hty]]; subst t.
  - right. apply is_integral_num_int. destruct x; exact Hty.
  - left. destruct x; try discriminate. reflexivity.
Qed.
Lemma strnull_shape_valid s f x :
  strnull_shape s = true -> valid f s x = true -> x = JNull \/ exists t, x = JStr t.
Proof.
  destruct f; [discriminate|]. destruct s as [k]. simpl. intros H Hv.
  destruct (k_type_in_valid _ _ _ _ H Hv) as [t [[Ht|[Ht|[]]] Hty]]; subst t.
  - right. destruct x; try discriminate. eauto.
  - left. destruct x; try discriminate. reflexivity.
Qed.

(* ================================================================== inventory records *)
Definition inv_rec_shape (s : schema) : bool :=
  let '(Sch k) := s in
  k_type_in [TObject] k && k_required f_total k && mem_shape f_total (int_min 1) k &&
  mem_shape f_reserved (int_min 0) k && mem_shape f_min_unit (int_min 1) k && mem_shape f_max_unit (int_min 1) k &&
  mem_shape f_step_size (int_min 1) k && mem_shape f_allocation_ratio num_shape k.

Lemma opt_int_ok key lo d f k o :
  valid (S f) (Sch k) (JObj o) = true -> mem_shape key (int_min lo) k = true -> lo <= d ->
  exists n, opt_int key o d = Some n /\ lo <= n.
Proof.
  intros Hv Hm Hd. unfold opt_int. destruct (assoc key o) as [x|] eqn:E; [|eauto].
  destruct (mem_shape_valid _ _ _ _ _ _ Hm Hv E) as [s [Hs Hvs]]. eapply int_min_valid; eauto.
Qed.
Lemma req_int_ok key f k o :
  valid (S f) (Sch k) (JObj o) = true -> k_required key k = true -> mem_shape key int_shape k = true ->
  exists n, req_int key o = Some n.
Proof.
  intros Hv Hr Hm. unfold req_int. destruct (k_required_valid _ _ _ _ Hr Hv) as [x E]. rewrite E. simpl.
  destruct (mem_shape_valid _ _ _ _ _ _ Hm Hv E) as [s [Hs Hvs]]. eapply int_shape_valid; eauto.
Qed.

Lemma dec_inv_ok rc s f j :
  inv_rec_shape s = true -> valid f s j = true -> json_finite j ->
  exists x, dec_inv rc j = Some x /\ inv_in_wf x = true /\ ii_rc x = rc.
Proof.
  destruct f; [discriminate|]. destruct s as [k]. unfold inv_rec_shape. intros Hs Hv Hf.
  repeat (apply andb_true_iff in Hs; destruct Hs as [Hs ?]).
  destruct (type_obj _ _ _ Hs Hv) as [o ->].
  destruct (k_required_valid _ _ _ _ H5 Hv) as [t Et].
  destruct (mem_shape_valid _ _ _ _ _ _ H4 Hv Et) as [st [Hst Hvt]].
  destruct (int_min_valid _ _ _ _ Hst Hvt) as [total [Htot Htot1]].
  destruct (opt_int_ok f_reserved 0 default_reserved _ _ _ Hv H3) as [rs [Ers Hrs]]; [vm_compute; discriminate|].
  destruct (opt_int_ok f_min_unit 1 default_min_unit _ _ _ Hv H2) as [mn [Emn Hmn]]; [vm_compute; discriminate|].
  destruct (opt_int_ok f_max_unit 1 default_max_unit _ _ _ Hv H1) as [mx [Emx Hmx]]; [vm_compute; discriminate|].
  destruct (opt_int_ok f_step_size 1 default_step_size _ _ _ Hv H0) as [st' [Est Hst']]; [vm_compute; discriminate|].
  assert (exists r, opt_ratio o = Some r) as [r Er].
  { unfold opt_ratio. destruct (assoc f_allocation_ratio o) as [x|] eqn:E; [|eauto].
    destruct (mem_shape_valid _ _ _ _ _ _ H Hv E) as [sr [Hsr Hvr]].
    eapply num_shape_valid; eauto.
    - eapply json_finite_obj; eauto. apply assoc_In. exact E.
    - eapply json_finite_ratio; eauto. apply assoc_In. exact E. }
  unfold dec_inv, req_int. rewrite Et. cbn [obind]. rewrite Htot. cbn [obind].
  rewrite Ers. cbn [obind]. rewrite Emn. cbn [obind]. rewrite Emx. cbn [obind]. rewrite Est. cbn [obind].
  rewrite Er. cbn [obind]. eexists. split; [reflexivity|]. split; [|reflexivity].
  unfold inv_in_wf. cbn [ii_total ii_reserved ii_min ii_max ii_step].
  repeat (apply andb_true_iff; split); apply Z.leb_le; assumption.
Qed.

Section WF.
Variables tok_rp tok_cons tok_agg tok_rc tok_trait tok_name tok_proj tok_user tok_type : str -> Z.

(* ================================================================== {"CLASS": record} *)
Definition inv_dict_shape (s : schema) : bool :=
  let '(Sch k) := s in
  k_type_in [TObject] k && no_additional k && forallb inv_rec_shape (all_prop_schemas k).

Lemma dec_inv_dict_ok s f j :
  inv_dict_shape s = true -> valid f s j = true -> json_wf j -> json_finite j -> tok_inj_on tok_rc (okeys j) ->
  exists l, dec_inv_dict tok_rc j = Some l /\ inv_list_wf l = true.
Proof.
  destruct f; [discriminate|]. destruct s as [k]. unfold inv_dict_shape. intros Hs Hv Hw Hf Hi.
  repeat (apply andb_true_iff in Hs; destruct Hs as [Hs ?]).
  destruct (type_obj _ _ _ Hs Hv) as [o ->]. simpl in Hi. unfold dec_inv_dict.
  destruct (omap_ok (fun kv => dec_inv (tok_rc (fst kv)) (snd kv))
                    (fun kv x => inv_in_wf x = true /\ ii_rc x = tok_rc (fst kv)) o) as [l [Hl HP]].
  { intros [key x] Hin. simpl.
    destruct (all_shape_valid _ _ _ _ _ _ H0 H Hv Hin) as [sr [Hsr Hvr]].
    eapply dec_inv_ok; eauto. eapply json_finite_obj; eauto. }
  exists l. split; auto. unfold inv_list_wf. apply andb_true_iff. split.
  - eapply Forall2_forallb; eauto. simpl. tauto.
  - assert (map ii_rc l = map tok_rc (map fst o)) as ->.
    { rewrite map_map. apply Forall2_map_eq. eapply Forall2_impl; eauto. simpl. tauto. }
    apply sdistinct_nodupb; auto. apply json_wf_obj in Hw. tauto.
Qed.

(* ================================================================== PUT .../inventories *)
Definition inv_set_shape (s : schema) : bool :=
  let '(Sch k) := s in
  k_type_in [TObject] k && k_required f_rpg k && k_required f_inventories k && mem_shape f_rpg int_shape k &&
  mem_shape f_inventories inv_dict_shape k.

Lemma dec_inv_set_ok s f j :
  inv_set_shape s = true -> valid f s j = true -> json_wf j -> json_finite j ->
  tok_inj_on tok_rc (okeys (member f_inventories j)) ->
  exists g l, dec_inv_set tok_rc j = Some (g, l) /\ inv_list_wf l = true.
Proof.
  destruct f; [discriminate|]. destruct s as [k]. unfold inv_set_shape. intros Hs Hv Hw Hf Hi.
  repeat (apply andb_true_iff in Hs; destruct Hs as [Hs ?]).
  destruct (type_obj _ _ _ Hs Hv) as [o ->].
  destruct (req_int_ok _ _ _ _ Hv H2 H0) as [g Hg].
  destruct (k_required_valid _ _ _ _ H1 Hv) as [iv Eiv].
  destruct (mem_shape_valid _ _ _ _ _ _ H Hv Eiv) as [si [Hsi Hvi]].
  simpl in Hi. rewrite Eiv in Hi.
  destruct (dec_inv_dict_ok si f iv Hsi Hvi) as [l [Hl Hwf]]; auto.
  { apply json_wf_obj in Hw. destruct Hw as [_ Hw]. eapply Hw. apply assoc_In. eauto. }
  { eapply json_finite_obj; eauto. apply assoc_In. eauto. }
  exists g, l. split; auto. unfold dec_inv_set. rewrite Hg, Eiv. cbn [obind]. rewrite Hl. reflexivity.
Qed.

(* ================================================================== POST .../inventories, PUT .../inventories/{rc} *)
Definition inv_post_shape (s : schema) : bool :=
  let '(Sch k) := s in
  inv_rec_shape s && k_required f_resource_class k && mem_shape f_resource_class str_shape k.
Definition inv_put_shape (s : schema) : bool :=
  let '(Sch k) := s in
  inv_rec_shape s && k_required f_rpg k && mem_shape f_rpg int_shape k.

Lemma dec_inv_post_ok s f j :
  inv_post_shape s = true -> valid f s j = true -> json_finite j ->
  exists x, dec_inv_post tok_rc j = Some x /\ inv_in_wf x = true.
Proof.
  destruct f; [discriminate|]. destruct s as [k]. unfold inv_post_shape. intros Hs Hv Hf.
  apply andb_true_iff in Hs. destruct Hs as [Hs H]. apply andb_true_iff in Hs. destruct Hs as [Hs H0].
  assert (Hs' := Hs). unfold inv_rec_shape in Hs'. repeat (apply andb_true_iff in Hs'; destruct Hs' as [Hs' _]).
  destruct (type_obj _ _ _ Hs' Hv) as [o ->].
  destruct (k_required_valid _ _ _ _ H0 Hv) as [c Ec].
  destruct (mem_shape_valid _ _ _ _ _ _ H Hv Ec) as [sc [Hsc Hvc]].
  destruct (str_shape_valid _ _ _ Hsc Hvc) as [cn ->].
  destruct (dec_inv_ok (tok_rc cn) _ _ _ Hs Hv Hf) as [x [Hx [Hwf _]]].
  exists x. split; auto. unfold dec_inv_post. rewrite Ec. cbn [obind str_of]. exact Hx.
Qed.
Lemma dec_inv_put_ok rc s f j :
  inv_put_shape s = true -> valid f s j = true -> json_finite j ->
  exists g x, dec_inv_put rc j = Some (g, x) /\ inv_in_wf x = true /\ ii_rc x = rc.
Proof.
  destruct f; [discriminate|]. destruct s as [k]. unfold inv_put_shape. intros Hs Hv Hf.
  apply andb_true_iff in Hs. destruct Hs as [Hs H]. apply andb_true_iff in Hs. destruct Hs as [Hs H0].
  assert (Hs' := Hs). unfold inv_rec_shape in Hs'. repeat (apply andb_true_iff in Hs'; destruct Hs' as [Hs' _]).
  destruct (type_obj _ _ _ Hs' Hv) as [o ->].
  destruct (req_int_ok _ _ _ _ Hv H0 H) as [g Hg].
  destruct (dec_inv_ok rc _ _ _ Hs Hv Hf) as [x [Hx [Hwf Hrc]]].
  exists g, x. split; auto. unfold dec_inv_put. rewrite Hg. cbn [obind]. rewrite Hx. reflexivity.
Qed.

(* the generated schemas have the shapes *)
Lemma shape_PUT_INVENTORY_SCHEMA : inv_set_shape S_inventory__PUT_INVENTORY_SCHEMA = true.
Proof. vm_compute. reflexivity. Qed.
Lemma shape_POST_INVENTORY_SCHEMA : inv_post_shape S_inventory__POST_INVENTORY_SCHEMA = true.
Proof. vm_compute. reflexivity. Qed.
Lemma shape_BASE_INVENTORY_SCHEMA : inv_put_shape S_inventory__BASE_INVENTORY_SCHEMA = true.
Proof. vm_compute. reflexivity. Qed.

(* Injectivity hypothesis: the class-name tokenizer does not identify two DIFFERENT keys of the "inventories" object.
   With tok_rc = "class name -> id in the current state" this excludes a document naming two different classes that
   are both unknown (both map to -1); for uuid tokenizers it excludes two spellings of one uuid in one document. *)
Theorem C15s_inv_set : forall j, json_wf j -> json_finite j ->
  validate S_inventory__PUT_INVENTORY_SCHEMA j = true ->
  tok_inj_on tok_rc (okeys (member f_inventories j)) ->
  exists g l, dec_inv_set tok_rc j = Some (g, l) /\ inv_list_wf l = true.
Proof. intros j Hw Hf Hv Hi. apply validate_valid in Hv. exact (dec_inv_set_ok _ FUEL j shape_PUT_INVENTORY_SCHEMA Hv Hw Hf Hi). Qed.

Theorem C15s_inv_post : forall j, json_finite j ->
  validate S_inventory__POST_INVENTORY_SCHEMA j = true ->
  exists x, dec_inv_post tok_rc j = Some x /\ inv_in_wf x = true.
Proof. intros j Hf Hv. apply validate_valid in Hv. exact (dec_inv_post_ok _ FUEL j shape_POST_INVENTORY_SCHEMA Hv Hf). Qed.

Theorem C15s_inv_put : forall rc j, json_finite j ->
  validate S_inventory__BASE_INVENTORY_SCHEMA j = true ->
  exists g x, dec_inv_put rc j = Some (g, x) /\ inv_in_wf x = true /\ ii_rc x = rc.
Proof. intros rc j Hf Hv. apply validate_valid in Hv. exact (dec_inv_put_ok rc _ FUEL j shape_BASE_INVENTORY_SCHEMA Hv Hf). Qed.

(* ================================================================== arrays of strings: traits, aggregates *)
Definition jstrs (j : json) : list str := map jstr (aitems j).
Definition strs_shape (s : schema) : bool := let '(Sch k) := s in k_type_in [TArray] k && k_items str_shape k.
Definition ustrs_shape (s : schema) : bool := let '(Sch k) := s in strs_shape s && k_unique k.

Lemma omap_strs (tok : str -> Z) l :
  (forall x, In x l -> exists t, x = JStr t) ->
  omap (fun x => match x with JStr s => Some (tok s) | _ => None end) l = Some (map tok (map jstr l)).
Proof.
  induction l as [|x l IH]; simpl; intro H; [reflexivity|].
  destruct (H x (or_introl eq_refl)) as [t ->]. rewrite IH; [reflexivity|]. intros; apply H; auto.
Qed.
Lemma dec_strs_ok (tok : str -> Z) s f j :
  strs_shape s = true -> valid f s j = true ->
  dec_strs tok j = Some (map tok (jstrs j)) /\ (forall x, In x (aitems j) -> exists t, x = JStr t).
Proof.
  destruct f; [discriminate|]. destruct s as [k]. unfold strs_shape. intros Hs Hv.
  apply andb_true_iff in Hs. destruct Hs as [Ht Hi].
  destruct (type_arr _ _ _ Ht Hv) as [l ->].
  destruct (k_items_valid _ _ _ _ Hi Hv) as [si [Hsi Hvi]].
  assert (forall x, In x l -> exists t, x = JStr t) as Hall.
  { intros x Hx. eapply str_shape_valid; eauto. }
  split; auto. unfold dec_strs, jstrs. simpl. apply omap_strs. exact Hall.
Qed.
Lemma uniqueb_strs n l :
  (forall x, In x l -> exists t, x = JStr t) -> uniqueb (S n) l = true -> sdistinct (map jstr l) = true.
Proof.
  induction l as [|x l IH]; intros Hall Hu; [reflexivity|].
  change (negb (existsb (json_eqb (S n) x) l) && uniqueb (S n) l = true) in Hu.
  apply andb_true_iff in Hu. destruct Hu as [Hx Hu].
  change (negb (existsb (str_eqb (jstr x)) (map jstr l)) && sdistinct (map jstr l) = true).
  apply andb_true_iff. split; [|apply IH; auto; intros; apply Hall; right; auto].
  apply negb_true_iff. apply negb_true_iff in Hx.
  destruct (existsb (str_eqb (jstr x)) (map jstr l)) eqn:E; [|reflexivity].
  apply existsb_exists in E. destruct E as [t [Ht He]]. apply in_map_iff in Ht. destruct Ht as [y [Hy Hin]].
  destruct (Hall x (or_introl eq_refl)) as [tx ->]. destruct (Hall y (or_intror Hin)) as [ty ->].
  simpl in Hy. subst t. simpl in He.
  assert (existsb (json_eqb (S n) (JStr tx)) l = true).
  { apply existsb_exists. exists (JStr ty). split; auto. }
  congruence.
Qed.
Lemma ustrs_distinct s f j : ustrs_shape s = true -> valid f s j = true -> sdistinct (jstrs j) = true.
Proof.
  destruct f; [discriminate|]. destruct s as [k]. unfold ustrs_shape. intros Hs Hv.
  apply andb_true_iff in Hs. destruct Hs as [Hs Hu].
  destruct (dec_strs_ok (fun _ => 0) _ _ _ Hs Hv) as [_ Hall].
  unfold strs_shape in Hs. apply andb_true_iff in Hs. destruct Hs as [Ht _].
  destruct (type_arr _ _ _ Ht Hv) as [l ->].
  pose proof (k_unique_valid _ _ _ Hu Hv) as H. unfold jstrs. simpl aitems.
  simpl jdepth in H. eapply uniqueb_strs; eauto.
Qed.

Definition traits_set_shape (s : schema) : bool :=
  let '(Sch k) := s in
  k_type_in [TObject] k && k_required f_rpg k && k_required f_traits k && mem_shape f_rpg int_shape k &&
  mem_shape f_traits strs_shape k.
(* dedupZ (Model/Decode.v): no repetition, same members, the identity on lists without repetition *)
Lemma filter_nodupb (p : Z -> bool) l : nodupb l = true -> nodupb (filter p l) = true.
Proof.
  induction l as [|x l IH]; simpl; intro H; [reflexivity|].
  apply andb_true_iff in H. destruct H as [Hx Hl]. destruct (p x); [|auto].
  simpl. apply andb_true_iff. split; [|auto].
  apply negb_true_iff. apply negb_true_iff in Hx. destruct (memZ x (filter p l)) eqn:E; [|reflexivity].
  apply memZ_In in E. apply filter_In in E. destruct E as [E _]. apply memZ_In in E. congruence.
Qed.
Lemma dedupZ_nodupb l : nodupb (dedupZ l) = true.
Proof.
  induction l as [|x l IH]; [reflexivity|].
  change (negb (memZ x (filter (fun y => negb (y =? x)) (dedupZ l))) &&
          nodupb (filter (fun y => negb (y =? x)) (dedupZ l)) = true).
  apply andb_true_iff. split; [|apply filter_nodupb; exact IH].
  apply negb_true_iff. destruct (memZ x (filter (fun y => negb (y =? x)) (dedupZ l))) eqn:E; [|reflexivity].
  apply memZ_In in E. apply filter_In in E. destruct E as [_ E]. rewrite Z.eqb_refl in E. discriminate.
Qed.
Lemma dedupZ_In x l : In x (dedupZ l) <-> In x l.
Proof.
  induction l as [|y l IH]; [simpl; tauto|].
  change (In x (y :: filter (fun z => negb (z =? y)) (dedupZ l)) <-> In x (y :: l)).
  simpl. rewrite filter_In, IH. split.
  - tauto.
  - intros [H|H]; [auto|]. destruct (Z.eq_dec y x) as [e|n]; [auto|]. right. split; auto.
    apply negb_true_iff. apply Z.eqb_neq. congruence.
Qed.
Lemma dedupZ_id l : nodupb l = true -> dedupZ l = l.
Proof.
  induction l as [|x l IH]; intro H; [reflexivity|].
  change (negb (memZ x l) && nodupb l = true) in H. apply andb_true_iff in H. destruct H as [Hx Hl].
  change (x :: filter (fun y => negb (y =? x)) (dedupZ l) = x :: l). f_equal. rewrite (IH Hl).
  apply negb_true_iff in Hx. clear IH Hl. induction l as [|y l IHl]; [reflexivity|].
  change (memZ x (y :: l)) with ((x =? y) || memZ x l) in Hx. apply orb_false_iff in Hx. destruct Hx as [Hxy Hx].
  simpl. rewrite Z.eqb_sym, Hxy. simpl. f_equal. auto.
Qed.

Lemma dec_traits_set_ok s f j :
  traits_set_shape s = true -> valid f s j = true ->
  exists g, dec_traits_set tok_trait j = Some (g, dedupZ (map tok_trait (jstrs (member f_traits j)))).
Proof.
  destruct f; [discriminate|]. destruct s as [k]. unfold traits_set_shape. intros Hs Hv.
  repeat (apply andb_true_iff in Hs; destruct Hs as [Hs ?]).
  destruct (type_obj _ _ _ Hs Hv) as [o ->].
  destruct (req_int_ok _ _ _ _ Hv H2 H0) as [g Hg].
  destruct (k_required_valid _ _ _ _ H1 Hv) as [ts Ets].
  destruct (mem_shape_valid _ _ _ _ _ _ H Hv Ets) as [st [Hst Hvt]].
  destruct (dec_strs_ok tok_trait _ _ _ Hst Hvt) as [Hd _].
  exists g. unfold dec_traits_set. rewrite Hg, Ets. cbn [obind]. rewrite Hd. simpl. rewrite Ets. reflexivity.
Qed.
Lemma shape_SET_TRAITS : traits_set_shape S_trait__SET_TRAITS_FOR_RP_SCHEMA = true.
Proof. vm_compute. reflexivity. Qed.

(* PUT /resource_providers/{u}/traits.  The generated schema has NO uniqueItems on "traits", but the handler acts on
   the de-duplicated names (trait_obj.get_all(context, filters={'name_in': traits}) returns each named trait once and
   set_traits works on that set - handlers/trait.py:update_traits_for_resource_provider), and so does the decoder:
   the body decodes to the tokens of the strings, first occurrences in document order, and `nodupb` holds
   UNCONDITIONALLY - no distinctness, no injectivity hypothesis (two names with one token collapse too). *)
Theorem C15s_traits_set : forall j,
  validate S_trait__SET_TRAITS_FOR_RP_SCHEMA j = true ->
  exists g ts, dec_traits_set tok_trait j = Some (g, ts) /\
               ts = dedupZ (map tok_trait (jstrs (member f_traits j))) /\ nodupb ts = true.
Proof.
  intros j Hv. apply validate_valid in Hv.
  destruct (dec_traits_set_ok _ FUEL j shape_SET_TRAITS Hv) as [g Hg].
  exists g. eexists. split; [exact Hg|]. split; [reflexivity|]. apply dedupZ_nodupb.
Qed.
(* The schema ADMITS repeated names (no uniqueItems): {"resource_provider_generation": 0, "traits": ["A", "A"]} is
   valid, and the raw token list has a repetition although the tokenizer is injective on the names that occur.  The
   request the handler acts on - and the one dec_traits_set returns - is the de-duplicated list. *)
Definition traits_dup_doc : json :=
  JObj [(f_rpg, JInt 0); (f_traits, JArr [JStr [65]; JStr [65]])].
Theorem C15s_traits_set_refuted :
  exists j, json_wf j /\ json_finite j /\ validate S_trait__SET_TRAITS_FOR_RP_SCHEMA j = true /\
            tok_inj_on tok_trait (jstrs (member f_traits j)) /\
            nodupb (map tok_trait (jstrs (member f_traits j))) = false /\
            dec_traits_set tok_trait j = Some (0, [tok_trait [65]]).
Proof.
  exists traits_dup_doc. split; [vm_compute; reflexivity|]. split; [vm_compute; reflexivity|].
  split; [vm_compute; reflexivity|]. split; [|split].
  - intros a b Ha Hb _. simpl in Ha, Hb. destruct Ha as [<-|[<-|[]]]; destruct Hb as [<-|[<-|[]]]; reflexivity.
  - unfold nodupb, memZ. simpl. rewrite Z.eqb_refl. reflexivity.
  - cbv [dec_traits_set traits_dup_doc req_int]. simpl. rewrite Z.eqb_refl. reflexivity.
Qed.

(* PUT /resource_providers/{u}/aggregates: uniqueItems is there *)
Definition aggs19_shape (s : schema) : bool :=
  let '(Sch k) := s in
  k_type_in [TObject] k && k_required f_rpg k && k_required f_aggregates k && mem_shape f_rpg int_shape k &&
  mem_shape f_aggregates ustrs_shape k.
Definition aggs_shape (v : Z) (s : schema) : bool := if v <? 19 then ustrs_shape s else aggs19_shape s.
Definition agg_strs (v : Z) (j : json) : list str := jstrs (if v <? 19 then j else member f_aggregates j).

Lemma ustrs_strs s : ustrs_shape s = true -> strs_shape s = true.
Proof. destruct s as [k]. unfold ustrs_shape. intro H. apply andb_true_iff in H. tauto. Qed.
Lemma dec_aggs_set_ok v s f j :
  aggs_shape v s = true -> valid f s j = true -> tok_inj_on tok_agg (agg_strs v j) ->
  exists g l, dec_aggs_set tok_agg v j = Some (g, l) /\ nodupb l = true /\ l = map tok_agg (agg_strs v j) /\
              (g = None <-> v < 19).
Proof.
  unfold aggs_shape, agg_strs, dec_aggs_set. destruct (v <? 19) eqn:Ev; intros Hs Hv Hi.
  - destruct (dec_strs_ok tok_agg _ _ _ (ustrs_strs _ Hs) Hv) as [Hd _]. rewrite Hd. cbn [obind].
    eexists. eexists. split; [reflexivity|]. split; [|split; [reflexivity|]].
    + apply sdistinct_nodupb; auto. eapply ustrs_distinct; eauto.
    + apply Z.ltb_lt in Ev. tauto.
  - destruct f; [discriminate|]. destruct s as [k]. unfold aggs19_shape in Hs.
    repeat (apply andb_true_iff in Hs; destruct Hs as [Hs ?]).
    destruct (type_obj _ _ _ Hs Hv) as [o ->].
    destruct (req_int_ok _ _ _ _ Hv H2 H0) as [g Hg].
    destruct (k_required_valid _ _ _ _ H1 Hv) as [ags Ea].
    destruct (mem_shape_valid _ _ _ _ _ _ H Hv Ea) as [sa [Hsa Hva]].
    destruct (dec_strs_ok tok_agg _ _ _ (ustrs_strs _ Hsa) Hva) as [Hd _].
    simpl in Hi. rewrite Ea in Hi.
    rewrite Hg, Ea. cbn [obind]. rewrite Hd. cbn [obind]. simpl member. rewrite Ea.
    eexists. eexists. split; [reflexivity|]. split; [|split; [reflexivity|]].
    + apply sdistinct_nodupb; auto. eapply ustrs_distinct; eauto.
    + apply Z.ltb_ge in Ev. split; [discriminate | lia].
Qed.
Lemma shape_aggs v : aggs_shape v (schema_of_aggs v) = true.
Proof. unfold aggs_shape, schema_of_aggs. destruct (v <? 19); vm_compute; reflexivity. Qed.

(* Injectivity: no two different spellings of one aggregate uuid in the array *)
Theorem C15s_aggs_set : forall v j,
  validate (schema_of_aggs v) j = true -> tok_inj_on tok_agg (agg_strs v j) ->
  exists g l, dec_aggs_set tok_agg v j = Some (g, l) /\ nodupb l = true /\ l = map tok_agg (agg_strs v j) /\
              (g = None <-> v < 19).
Proof. intros v j Hv Hi. apply validate_valid in Hv. exact (dec_aggs_set_ok v _ FUEL j (shape_aggs v) Hv Hi). Qed.

(* ================================================================== allocations: {"CLASS": amount} *)
Lemma Forall2_in_r {A B} (P : A -> B -> Prop) l ys y : Forall2 P l ys -> In y ys -> exists x, In x l /\ P x y.
Proof.
  induction 1; intro Hin; [destruct Hin|]. destruct Hin as [<-|Hin].
  - exists x. split; [left; reflexivity | assumption].
  - destruct (IHForall2 Hin) as [x' [Hx' Px']]. exists x'. split; [right|]; assumption.
Qed.

Definition res_shape (s : schema) : bool :=
  let '(Sch k) := s in
  k_type_in [TObject] k && no_additional k && k_minprops_ge 1 k && forallb (int_min 1) (all_prop_schemas k).
(* a "resources" object: valid, unique keys, class tokenizer injective on its keys *)
Definition res_ok (r : json) : Prop :=
  exists f s, res_shape s = true /\ valid f s r = true /\ json_wf r /\ tok_inj_on tok_rc (okeys r).

Lemma dec_resources_ok rp r :
  res_ok r -> exists l, dec_resources tok_rc r = Some l /\ alloc_in_wf (mkAllocIn rp l) = true.
Proof.
  intros [f [s [Hs [Hv [Hw Hi]]]]]. destruct f; [discriminate|]. destruct s as [k]. unfold res_shape in Hs.
  repeat (apply andb_true_iff in Hs; destruct Hs as [Hs ?]).
  destruct (type_obj _ _ _ Hs Hv) as [o ->]. simpl in Hi. unfold dec_resources.
  destruct (omap_ok (fun kv => obind (num_int (snd kv)) (fun a => Some (tok_rc (fst kv), a)))
                    (fun kv (y : Z * Z) => fst y = tok_rc (fst kv) /\ 1 <= snd y) o) as [l [Hl HP]].
  { intros [key x] Hin. simpl.
    destruct (all_shape_valid _ _ _ _ _ _ H1 H Hv Hin) as [sx [Hsx Hvx]].
    destruct (int_min_valid _ _ _ _ Hsx Hvx) as [n [Hn Hn1]]. rewrite Hn. simpl. eauto. }
  exists l. split; auto. unfold alloc_in_wf. cbn [ai_res].
  apply andb_true_iff. split; [apply andb_true_iff; split|].
  - eapply Forall2_forallb; eauto. simpl. intros x y [_ Hy]. apply Z.leb_le. exact Hy.
  - assert (map fst l = map tok_rc (map fst o)) as ->.
    { rewrite map_map. apply Forall2_map_eq. eapply Forall2_impl; eauto. simpl. tauto. }
    apply sdistinct_nodupb; auto. apply json_wf_obj in Hw. tauto.
  - pose proof (k_minprops_valid _ _ _ _ H0 Hv) as Hlen. apply Forall2_length in HP.
    destruct l; [|reflexivity]. simpl in HP. rewrite HP in Hlen. simpl in Hlen. lia.
Qed.

(* [(provider uuid, resources)] with distinct uuids *)
Lemma dec_pairs_ok ps :
  sdistinct (map fst ps) = true -> tok_inj_on tok_rp (map fst ps) -> (forall k r, In (k, r) ps -> res_ok r) ->
  exists l, dec_pairs tok_rp tok_rc ps = Some l /\ forallb alloc_in_wf l = true /\ nodupb (map ai_rp l) = true.
Proof.
  intros Hd Hi Hall. unfold dec_pairs.
  destruct (omap_ok (fun kv => obind (dec_resources tok_rc (snd kv)) (fun r => Some (mkAllocIn (tok_rp (fst kv)) r)))
                    (fun kv a => alloc_in_wf a = true /\ ai_rp a = tok_rp (fst kv)) ps) as [l [Hl HP]].
  { intros [key r] Hin. simpl.
    destruct (dec_resources_ok (tok_rp key) r (Hall _ _ Hin)) as [res [Hres Hwf]]. rewrite Hres. simpl. eauto. }
  exists l. split; auto. split.
  - eapply Forall2_forallb; eauto. simpl. tauto.
  - assert (map ai_rp l = map tok_rp (map fst ps)) as ->.
    { rewrite map_map. apply Forall2_map_eq. eapply Forall2_impl; eauto. simpl. tauto. }
    apply sdistinct_nodupb; auto.
Qed.

(* ------------------------------------------------------------------ the 1.12+ dict form *)
Definition alloc_entry_shape (s : schema) : bool :=
  let '(Sch k) := s in k_type_in [TObject] k && k_required f_resources k && mem_shape f_resources res_shape k.
Definition allocs_dict_shape (s : schema) : bool :=
  let '(Sch k) := s in k_type_in [TObject] k && no_additional k && forallb alloc_entry_shape (all_prop_schemas k).

Lemma dict_pairs_ok s f j :
  allocs_dict_shape s = true -> valid f s j = true -> json_wf j ->
  (forall e, In e (ovals j) -> tok_inj_on tok_rc (okeys (member f_resources e))) ->
  exists ps, dict_pairs j = Some ps /\ map fst ps = okeys j /\ (forall k r, In (k, r) ps -> res_ok r).
Proof.
  destruct f; [discriminate|]. destruct s as [k]. unfold allocs_dict_shape. intros Hs Hv Hw Hi.
  repeat (apply andb_true_iff in Hs; destruct Hs as [Hs ?]).
  destruct (type_obj _ _ _ Hs Hv) as [o ->]. simpl in Hi. unfold dict_pairs.
  destruct (omap_ok (fun kv : str * json => match snd kv with
                              | JObj ao => obind (assoc f_resources ao) (fun r => Some (fst kv, r))
                              | _ => None
                              end)
                    (fun kv (y : str * json) => fst y = fst kv /\ res_ok (snd y)) o) as [ps [Hps HP]].
  { intros [key e] Hin. simpl.
    destruct (all_shape_valid _ _ _ _ _ _ H0 H Hv Hin) as [se [Hse Hve]].
    destruct f; [discriminate|]. destruct se as [ke]. unfold alloc_entry_shape in Hse.
    repeat (apply andb_true_iff in Hse; destruct Hse as [Hse ?]).
    destruct (type_obj _ _ _ Hse Hve) as [ao ->].
    destruct (k_required_valid _ _ _ _ H2 Hve) as [r Er]. rewrite Er. simpl.
    destruct (mem_shape_valid _ _ _ _ _ _ H1 Hve Er) as [sr [Hsr Hvr]].
    eexists. split; [reflexivity|]. split; [reflexivity|]. simpl.
    exists f, sr. split; auto. split; auto. split.
    - apply json_wf_obj in Hw. destruct Hw as [_ Hw]. specialize (Hw _ _ Hin).
      apply json_wf_obj in Hw. destruct Hw as [_ Hw]. eapply Hw. apply assoc_In. eauto.
    - assert (In (JObj ao) (map snd o)) as Hin' by (apply in_map_iff; exists (key, JObj ao); auto).
      specialize (Hi _ Hin'). simpl in Hi. rewrite Er in Hi. exact Hi. }
  exists ps. split; auto. split.
  - simpl. apply Forall2_map_eq. eapply Forall2_impl; eauto. simpl. tauto.
  - intros key r Hin. destruct (Forall2_in_r _ _ _ _ HP Hin) as [x [_ [_ Hr]]]. exact Hr.
Qed.
Lemma dec_allocs_dict_ok s f j :
  allocs_dict_shape s = true -> valid f s j = true -> json_wf j -> tok_inj_on tok_rp (okeys j) ->
  (forall e, In e (ovals j) -> tok_inj_on tok_rc (okeys (member f_resources e))) ->
  exists l, dec_allocs_dict tok_rp tok_rc j = Some l /\ forallb alloc_in_wf l = true /\ nodupb (map ai_rp l) = true.
Proof.
  intros Hs Hv Hw Hi Hr. destruct (dict_pairs_ok _ _ _ Hs Hv Hw Hr) as [ps [Hps [Hk Hall]]].
  unfold dec_allocs_dict. rewrite Hps. cbn [obind]. apply dec_pairs_ok; auto.
  - rewrite Hk. destruct f; [discriminate|]. destruct s as [k]. unfold allocs_dict_shape in Hs.
    repeat (apply andb_true_iff in Hs; destruct Hs as [Hs ?]).
    destruct (type_obj _ _ _ Hs Hv) as [o ->]. simpl. apply json_wf_obj in Hw. tauto.
  - rewrite Hk. exact Hi.
Qed.

(* ------------------------------------------------------------------ the 1.0 - 1.11 list form *)
Lemma str_eqb_sym a b : str_eqb a b = str_eqb b a.
Proof.
  destruct (str_eqb a b) eqn:E.
  - apply str_eqb_eq in E. subst. symmetry. apply str_eqb_refl.
  - destruct (str_eqb b a) eqn:E'; [|reflexivity]. apply str_eqb_eq in E'. subst. rewrite str_eqb_refl in E. discriminate.
Qed.
Lemma jdict_set_keys k v d :
  map fst (jdict_set k v d) = if existsb (str_eqb k) (map fst d) then map fst d else map fst d ++ [k].
Proof.
  induction d as [|[k' v'] d IH]; simpl; [reflexivity|].
  destruct (str_eqb k k') eqn:E; simpl; [reflexivity|]. rewrite IH.
  destruct (existsb (str_eqb k) (map fst d)); reflexivity.
Qed.
Lemma sdistinct_app_one l k : sdistinct l = true -> existsb (str_eqb k) l = false -> sdistinct (l ++ [k]) = true.
Proof.
  induction l as [|x l IH]; simpl; intros Hd Hk; [reflexivity|].
  apply andb_true_iff in Hd. destruct Hd as [Hx Hd]. apply orb_false_iff in Hk. destruct Hk as [Hkx Hk].
  apply andb_true_iff. split; [|auto].
  rewrite existsb_app. simpl. apply negb_true_iff in Hx. rewrite Hx. simpl.
  rewrite str_eqb_sym, Hkx. reflexivity.
Qed.
Lemma jdict_set_distinct k v d : sdistinct (map fst d) = true -> sdistinct (map fst (jdict_set k v d)) = true.
Proof.
  intro H. rewrite jdict_set_keys. destruct (existsb (str_eqb k) (map fst d)) eqn:E; auto.
  apply sdistinct_app_one; auto.
Qed.
Lemma jdict_set_in k v d k' v' : In (k', v') (jdict_set k v d) -> In (k', v') d \/ v' = v.
Proof.
  induction d as [|[k0 v0] d IH]; simpl.
  - intros [H|[]]. inversion H. auto.
  - destruct (str_eqb k k0); simpl; intros [H|H].
    + inversion H. auto.
    + auto.
    + auto.
    + destruct (IH H); auto.
Qed.
Lemma jdict_set_keys_incl k v d : incl (map fst (jdict_set k v d)) (map fst d ++ [k]).
Proof.
  rewrite jdict_set_keys. destruct (existsb (str_eqb k) (map fst d)); intros a Ha; [apply in_or_app; auto | exact Ha].
Qed.

Definition item_uuid (a : json) : str := jstr (member f_uuid (member f_resource_provider a)).
Definition item_ok (x : json) : Prop :=
  exists xo ro u r, x = JObj xo /\ assoc f_resource_provider xo = Some (JObj ro) /\ assoc f_uuid ro = Some (JStr u) /\
                    assoc f_resources xo = Some r /\ res_ok r.
Lemma list_pairs_ok l : (forall x, In x l -> item_ok x) -> forall acc,
  sdistinct (map fst acc) = true -> (forall k r, In (k, r) acc -> res_ok r) ->
  exists ps, list_pairs l acc = Some ps /\ sdistinct (map fst ps) = true /\ (forall k r, In (k, r) ps -> res_ok r) /\
             incl (map fst ps) (map fst acc ++ map item_uuid l).
Proof.
  induction l as [|x l IH]; intros Hall acc Hd Hacc.
  - exists acc. simpl. split; auto. split; auto. split; auto. rewrite app_nil_r. apply incl_refl.
  - destruct (Hall x (or_introl eq_refl)) as [xo [ro [u [r [-> [Erp [Eu [Er Hr]]]]]]]].
    simpl. rewrite Erp, Er, Eu.
    destruct (IH (fun y Hy => Hall y (or_intror Hy)) (jdict_set u r acc)) as [ps [Hps [Hdp [Hallp Hincl]]]].
    + apply jdict_set_distinct. exact Hd.
    + intros k' r' Hin. destruct (jdict_set_in _ _ _ _ _ Hin) as [H| ->]; eauto.
    + exists ps. split; auto. split; auto. split; auto.
      intros a Ha. apply Hincl in Ha. apply in_app_or in Ha. destruct Ha as [Ha|Ha].
      * apply jdict_set_keys_incl in Ha. apply in_app_or in Ha. destruct Ha as [Ha|[<-|[]]].
        -- apply in_or_app. auto.
        -- apply in_or_app. right. left. unfold item_uuid. simpl. rewrite Erp. simpl. rewrite Eu. reflexivity.
      * apply in_or_app. right. right. exact Ha.
Qed.

Definition rpref_shape (s : schema) : bool :=
  let '(Sch k) := s in k_type_in [TObject] k && k_required f_uuid k && mem_shape f_uuid str_shape k.
Definition alloc_item_shape (s : schema) : bool :=
  let '(Sch k) := s in
  k_type_in [TObject] k && k_required f_resource_provider k && k_required f_resources k &&
  mem_shape f_resource_provider rpref_shape k && mem_shape f_resources res_shape k.
Definition allocs_list_shape (s : schema) : bool :=
  let '(Sch k) := s in k_type_in [TArray] k && k_items alloc_item_shape k.

Lemma item_ok_valid s f x :
  alloc_item_shape s = true -> valid f s x = true -> json_wf x ->
  tok_inj_on tok_rc (okeys (member f_resources x)) -> item_ok x.
Proof.
  destruct f; [discriminate|]. destruct s as [k]. unfold alloc_item_shape. intros Hs Hv Hw Hi.
  repeat (apply andb_true_iff in Hs; destruct Hs as [Hs ?]).
  destruct (type_obj _ _ _ Hs Hv) as [xo ->].
  destruct (k_required_valid _ _ _ _ H2 Hv) as [p Ep].
  destruct (k_required_valid _ _ _ _ H1 Hv) as [r Er].
  destruct (mem_shape_valid _ _ _ _ _ _ H0 Hv Ep) as [sp [Hsp Hvp]].
  destruct (mem_shape_valid _ _ _ _ _ _ H Hv Er) as [sr [Hsr Hvr]].
  destruct f; [discriminate|]. destruct sp as [kp]. unfold rpref_shape in Hsp.
  repeat (apply andb_true_iff in Hsp; destruct Hsp as [Hsp ?]).
  destruct (type_obj _ _ _ Hsp Hvp) as [ro ->].
  destruct (k_required_valid _ _ _ _ H4 Hvp) as [uj Eu].
  destruct (mem_shape_valid _ _ _ _ _ _ H3 Hvp Eu) as [su [Hsu Hvu]].
  destruct (str_shape_valid _ _ _ Hsu Hvu) as [u ->].
  exists xo, ro, u, r. repeat (split; auto).
  exists (S f), sr. split; auto. split; auto. split.
  - apply json_wf_obj in Hw. destruct Hw as [_ Hw]. eapply Hw. apply assoc_In. eauto.
  - simpl in Hi. rewrite Er in Hi. exact Hi.
Qed.
Lemma dec_allocs_list_ok s f j :
  allocs_list_shape s = true -> valid f s j = true -> json_wf j ->
  tok_inj_on tok_rp (map item_uuid (aitems j)) ->
  (forall e, In e (aitems j) -> tok_inj_on tok_rc (okeys (member f_resources e))) ->
  exists l, dec_allocs_list tok_rp tok_rc j = Some l /\ forallb alloc_in_wf l = true /\ nodupb (map ai_rp l) = true.
Proof.
  destruct f; [discriminate|]. destruct s as [k]. unfold allocs_list_shape. intros Hs Hv Hw Hi Hr.
  apply andb_true_iff in Hs. destruct Hs as [Ht Hit].
  destruct (type_arr _ _ _ Ht Hv) as [l ->]. simpl in Hi, Hr.
  destruct (k_items_valid _ _ _ _ Hit Hv) as [si [Hsi Hvi]].
  destruct (list_pairs_ok l) with (acc := @nil (str * json)) as [ps [Hps [Hd [Hall Hincl]]]].
  - intros x Hx. eapply item_ok_valid; eauto. eapply json_wf_arr; eauto.
  - reflexivity.
  - intros k' r' [].
  - unfold dec_allocs_list. rewrite Hps. cbn [obind]. apply dec_pairs_ok; auto.
    eapply tok_inj_on_incl; [|exact Hi]. exact Hincl.
Qed.

(* ================================================================== one consumer: PUT /allocations/{c}, entries of POST *)
Definition cons_shape' (lf pu gen ty : bool) (s : schema) : bool :=
  let '(Sch k) := s in
  k_type_in [TObject] k && k_required f_allocations k &&
  mem_shape f_allocations (if lf then allocs_list_shape else allocs_dict_shape) k &&
  (if pu then k_required f_project_id k && mem_shape f_project_id str_shape k else true) &&
  (if pu then k_required f_user_id k && mem_shape f_user_id str_shape k else true) &&
  (if gen then k_required f_consumer_generation k && mem_shape f_consumer_generation intnull_shape k else true) &&
  (if ty then k_required f_consumer_type k && mem_shape f_consumer_type str_shape k else true).
Definition cons_shape (v : Z) (s : schema) : bool := cons_shape' (v <? 12) (8 <=? v) (28 <=? v) (38 <=? v) s.

(* Injectivity hypotheses of one consumer body at version v: the provider tokenizer does not identify two different
   provider uuid STRINGS of the body (excluded: two spellings - upper case, undashed ... - of one uuid), and in each
   "resources" object the class tokenizer does not identify two different class names (excluded: two different
   unknown classes, both -1 under the harness's name -> id map). *)
Definition alloc_inj (v : Z) (j : json) : Prop :=
  tok_inj_on tok_rp (alloc_rps v j) /\ Forall (fun r => tok_inj_on tok_rc (okeys r)) (alloc_ress v j).

Lemma opt_str_ok (b : bool) key (tok : str -> Z) f k o :
  (if b then k_required key k && mem_shape key str_shape k else true) = true ->
  valid (S f) (Sch k) (JObj o) = true ->
  exists r, (if b then obind (obind (assoc key o) str_of) (fun s => Some (Some (tok s))) else Some None) = Some r.
Proof.
  destruct b; [|eauto]. intros H Hv. apply andb_true_iff in H. destruct H as [Hr Hm].
  destruct (k_required_valid _ _ _ _ Hr Hv) as [x Ex]. rewrite Ex.
  destruct (mem_shape_valid _ _ _ _ _ _ Hm Hv Ex) as [s [Hs Hvs]].
  destruct (str_shape_valid _ _ _ Hs Hvs) as [t ->]. simpl. eauto.
Qed.
Lemma opt_gen_ok (b : bool) f k o :
  (if b then k_required f_consumer_generation k && mem_shape f_consumer_generation intnull_shape k else true) = true ->
  valid (S f) (Sch k) (JObj o) = true ->
  exists r, (if b then
               match assoc f_consumer_generation o with
               | Some JNull => Some None
               | Some x => obind (num_int x) (fun g => Some (Some g))
               | None => None
               end
             else Some None) = Some r.
Proof.
  destruct b; [|eauto]. intros H Hv. apply andb_true_iff in H. destruct H as [Hr Hm].
  destruct (k_required_valid _ _ _ _ Hr Hv) as [x Ex]. rewrite Ex.
  destruct (mem_shape_valid _ _ _ _ _ _ Hm Hv Ex) as [s [Hs Hvs]].
  destruct (intnull_shape_valid _ _ _ Hs Hvs) as [-> | [n Hn]]; [eauto|].
  rewrite Hn. destruct x; simpl; eauto.
Qed.

Lemma dec_cons_ok v c s f j :
  cons_shape v s = true -> valid f s j = true -> json_wf j -> alloc_inj v j ->
  exists x, dec_cons tok_rp tok_rc tok_proj tok_user tok_type v c j = Some x /\ cons_in_wf x = true /\ ci_uuid x = c.
Proof.
  destruct f; [discriminate|]. destruct s as [k]. unfold cons_shape, cons_shape'. intros Hs Hv Hw [Hirp Hirc].
  repeat (apply andb_true_iff in Hs; destruct Hs as [Hs ?]).
  destruct (type_obj _ _ _ Hs Hv) as [o ->].
  destruct (k_required_valid _ _ _ _ H4 Hv) as [a Ea].
  destruct (mem_shape_valid _ _ _ _ _ _ H3 Hv Ea) as [sa [Hsa Hva]].
  assert (json_wf a) as Hwa.
  { apply json_wf_obj in Hw. destruct Hw as [_ Hw]. eapply Hw. apply assoc_In. eauto. }
  unfold alloc_rps, alloc_ress, alloc_entries in Hirp, Hirc. simpl member in Hirp, Hirc. rewrite Ea in Hirp, Hirc.
  rewrite Forall_forall in Hirc.
  assert (exists al, (if v <? 12 then dec_allocs_list tok_rp tok_rc else dec_allocs_dict tok_rp tok_rc) a = Some al /\
                     forallb alloc_in_wf al = true /\ nodupb (map ai_rp al) = true) as [al [Hal [Hwf Hnd]]].
  { destruct (v <? 12).
    - eapply dec_allocs_list_ok; eauto. intros e He. apply Hirc. apply in_map. exact He.
    - eapply dec_allocs_dict_ok; eauto. intros e He. apply Hirc. apply in_map. exact He. }
  destruct (opt_str_ok _ _ tok_proj _ _ _ H2 Hv) as [proj Hproj].
  destruct (opt_str_ok _ _ tok_user _ _ _ H1 Hv) as [user Huser].
  destruct (opt_gen_ok _ _ _ _ H0 Hv) as [gen Hgen].
  destruct (opt_str_ok _ _ tok_type _ _ _ H Hv) as [ty Hty].
  unfold dec_cons. rewrite Ea. cbn [obind]. rewrite Hal. cbn [obind].
  rewrite Hproj. cbn [obind]. rewrite Huser. cbn [obind]. rewrite Hgen. cbn [obind]. rewrite Hty. cbn [obind].
  eexists. split; [reflexivity|]. split; [|reflexivity].
  unfold cons_in_wf. cbn [ci_allocs]. rewrite Hwf, Hnd. reflexivity.
Qed.

(* ================================================================== POST /allocations *)
Definition post_shape' (lf pu gen ty : bool) (s : schema) : bool :=
  let '(Sch k) := s in
  k_type_in [TObject] k && no_additional k && forallb (cons_shape' lf pu gen ty) (all_prop_schemas k).
Definition post_shape (v : Z) (s : schema) : bool :=
  post_shape' (Z.max v 12 <? 12) (8 <=? Z.max v 12) (28 <=? Z.max v 12) (38 <=? Z.max v 12) s.
(* no two spellings of one consumer uuid among the keys; alloc_inj for every entry *)
Definition post_inj (v : Z) (j : json) : Prop :=
  tok_inj_on tok_cons (okeys j) /\ Forall (alloc_inj (Z.max v 12)) (ovals j).

Lemma dec_alloc_post_ok v s f j :
  post_shape v s = true -> valid f s j = true -> json_wf j -> post_inj v j ->
  exists l, dec_alloc_post tok_rp tok_cons tok_rc tok_proj tok_user tok_type v j = Some l /\ cons_list_wf l = true.
Proof.
  destruct f; [discriminate|]. destruct s as [k]. unfold post_shape, post_shape'. intros Hs Hv Hw [Hic Hie].
  repeat (apply andb_true_iff in Hs; destruct Hs as [Hs ?]).
  destruct (type_obj _ _ _ Hs Hv) as [o ->]. simpl in Hic, Hie. rewrite Forall_forall in Hie.
  unfold dec_alloc_post.
  destruct (omap_ok (fun kv => dec_cons tok_rp tok_rc tok_proj tok_user tok_type (Z.max v 12) (tok_cons (fst kv)) (snd kv))
                    (fun kv x => cons_in_wf x = true /\ ci_uuid x = tok_cons (fst kv)) o) as [l [Hl HP]].
  { intros [key e] Hin. simpl.
    destruct (all_shape_valid _ _ _ _ _ _ H0 H Hv Hin) as [se [Hse Hve]].
    eapply dec_cons_ok; eauto.
    - apply json_wf_obj in Hw. destruct Hw as [_ Hw]. eapply Hw; eauto.
    - apply Hie. apply in_map_iff. exists (key, e). auto. }
  exists l. split; auto. unfold cons_list_wf. apply andb_true_iff. split.
  - eapply Forall2_forallb; eauto. simpl. tauto.
  - assert (map ci_uuid l = map tok_cons (map fst o)) as ->.
    { rewrite map_map. apply Forall2_map_eq. eapply Forall2_impl; eauto. simpl. tauto. }
    apply sdistinct_nodupb; auto. apply json_wf_obj in Hw. tauto.
Qed.

(* ================================================================== POST /reshaper *)
Definition rinvs_shape (s : schema) : bool :=
  let '(Sch k) := s in k_type_in [TObject] k && no_additional k && forallb inv_set_shape (all_prop_schemas k).
Definition reshape_shape (v : Z) (s : schema) : bool :=
  let '(Sch k) := s in
  k_type_in [TObject] k && k_required f_inventories k && k_required f_allocations k &&
  mem_shape f_inventories rinvs_shape k && mem_shape f_allocations (post_shape v) k.
(* no two spellings of one provider uuid among the keys of "inventories"; in each provider's "inventories" no two
   class names identified; post_inj for "allocations" *)
Definition reshape_inj (v : Z) (j : json) : Prop :=
  tok_inj_on tok_rp (okeys (member f_inventories j)) /\
  Forall (fun e => tok_inj_on tok_rc (okeys (member f_inventories e))) (ovals (member f_inventories j)) /\
  post_inj v (member f_allocations j).

Lemma dec_rinvs_ok s f j :
  rinvs_shape s = true -> valid f s j = true -> json_wf j -> json_finite j -> tok_inj_on tok_rp (okeys j) ->
  Forall (fun e => tok_inj_on tok_rc (okeys (member f_inventories e))) (ovals j) ->
  exists ri, dec_rinvs tok_rp tok_rc j = Some ri /\
             forallb (fun r => inv_list_wf (ri_invs r)) ri = true /\ nodupb (map ri_rp ri) = true.
Proof.
  destruct f; [discriminate|]. destruct s as [k]. unfold rinvs_shape. intros Hs Hv Hw Hf Hirp Hirc.
  repeat (apply andb_true_iff in Hs; destruct Hs as [Hs ?]).
  destruct (type_obj _ _ _ Hs Hv) as [o ->]. simpl in Hirp, Hirc. rewrite Forall_forall in Hirc.
  unfold dec_rinvs.
  destruct (omap_ok (fun kv => obind (dec_inv_set tok_rc (snd kv))
                                 (fun gl => Some (mkRinvIn (tok_rp (fst kv)) (fst gl) (snd gl))))
                    (fun kv r => inv_list_wf (ri_invs r) = true /\ ri_rp r = tok_rp (fst kv)) o) as [l [Hl HP]].
  { intros [key e] Hin. simpl.
    destruct (all_shape_valid _ _ _ _ _ _ H0 H Hv Hin) as [se [Hse Hve]].
    destruct (dec_inv_set_ok se f e Hse Hve) as [g [il [Hd Hwf]]].
    - apply json_wf_obj in Hw. destruct Hw as [_ Hw]. eapply Hw; eauto.
    - eapply json_finite_obj; eauto.
    - apply Hirc. apply in_map_iff. exists (key, e). auto.
    - rewrite Hd. simpl. eauto. }
  exists l. split; auto. split.
  - eapply Forall2_forallb; eauto. simpl. tauto.
  - assert (map ri_rp l = map tok_rp (map fst o)) as ->.
    { rewrite map_map. apply Forall2_map_eq. eapply Forall2_impl; eauto. simpl. tauto. }
    apply sdistinct_nodupb; auto. apply json_wf_obj in Hw. tauto.
Qed.
Lemma dec_reshape_ok v s f j :
  reshape_shape v s = true -> valid f s j = true -> json_wf j -> json_finite j -> reshape_inj v j ->
  exists ri al, dec_reshape tok_rp tok_cons tok_rc tok_proj tok_user tok_type v j = Some (ri, al) /\
                req_wf (Reshape v ri al) = true.
Proof.
  destruct f; [discriminate|]. destruct s as [k]. unfold reshape_shape. intros Hs Hv Hw Hf [Hi1 [Hi2 Hi3]].
  repeat (apply andb_true_iff in Hs; destruct Hs as [Hs ?]).
  destruct (type_obj _ _ _ Hs Hv) as [o ->].
  destruct (k_required_valid _ _ _ _ H2 Hv) as [iv Eiv].
  destruct (k_required_valid _ _ _ _ H1 Hv) as [al Eal].
  destruct (mem_shape_valid _ _ _ _ _ _ H0 Hv Eiv) as [si [Hsi Hvi]].
  destruct (mem_shape_valid _ _ _ _ _ _ H Hv Eal) as [sa [Hsa Hva]].
  simpl member in Hi1, Hi2, Hi3. rewrite Eiv in Hi1, Hi2. rewrite Eal in Hi3.
  pose proof (json_wf_obj _ Hw) as [_ Hwm].
  destruct (dec_rinvs_ok si f iv Hsi Hvi) as [ri [Hri [Hriw Hrin]]]; auto.
  { eapply Hwm. apply assoc_In. eauto. }
  { eapply json_finite_obj; eauto. apply assoc_In. eauto. }
  destruct (dec_alloc_post_ok v sa f al Hsa Hva) as [cl [Hcl Hclw]]; auto.
  { eapply Hwm. apply assoc_In. eauto. }
  exists ri, cl. split.
  - unfold dec_reshape. rewrite Eiv, Eal. cbn [obind]. rewrite Hri. cbn [obind]. rewrite Hcl. reflexivity.
  - cbn [req_wf]. rewrite Hriw, Hrin, Hclw. reflexivity.
Qed.

(* ================================================================== the generated schemas have the shapes, at every v *)
Ltac zb := repeat match goal with
  | H : (_ <? _) = true |- _ => apply Z.ltb_lt in H
  | H : (_ <? _) = false |- _ => apply Z.ltb_ge in H
  | H : (_ <=? _) = true |- _ => apply Z.leb_le in H
  | H : (_ <=? _) = false |- _ => apply Z.leb_gt in H
  end.
Ltac decide_test e := let E := fresh "E" in destruct e eqn:E; zb; try (exfalso; lia).

Lemma shape_put_alloc v : cons_shape v (schema_of_put_alloc v) = true.
Proof.
  unfold cons_shape, schema_of_put_alloc.
  decide_test (v <? 8); decide_test (v <? 12); decide_test (v <? 28); decide_test (v <? 34); decide_test (v <? 38);
  decide_test (8 <=? v); decide_test (28 <=? v); decide_test (38 <=? v); vm_compute; reflexivity.
Qed.
Lemma shape_post_alloc v : post_shape v (schema_of_post_alloc v) = true.
Proof.
  unfold post_shape, schema_of_post_alloc.
  decide_test (v <? 28); decide_test (v <? 34); decide_test (v <? 38);
  decide_test (Z.max v 12 <? 12); decide_test (8 <=? Z.max v 12); decide_test (28 <=? Z.max v 12);
  decide_test (38 <=? Z.max v 12); vm_compute; reflexivity.
Qed.
Lemma shape_reshape v : reshape_shape v (schema_of_reshape v) = true.
Proof.
  unfold schema_of_reshape.
  decide_test (v <? 34); decide_test (v <? 38);
  unfold reshape_shape, post_shape;
  decide_test (Z.max v 12 <? 12); decide_test (8 <=? Z.max v 12); decide_test (28 <=? Z.max v 12);
  decide_test (38 <=? Z.max v 12); vm_compute; reflexivity.
Qed.

(* PUT /allocations/{c} at every minor version (stated for all v : Z, in particular 0 .. 39) *)
Theorem C15s_alloc_put : forall v c j, json_wf j ->
  validate (schema_of_put_alloc v) j = true -> alloc_inj v j ->
  exists x, dec_alloc_put tok_rp tok_rc tok_proj tok_user tok_type v c j = Some x /\ cons_in_wf x = true /\ ci_uuid x = c.
Proof.
  intros v c j Hw Hv Hi. apply validate_valid in Hv.
  exact (dec_cons_ok v c _ FUEL j (shape_put_alloc v) Hv Hw Hi).
Qed.
(* POST /allocations at every minor version *)
Theorem C15s_alloc_post : forall v j, json_wf j ->
  validate (schema_of_post_alloc v) j = true -> post_inj v j ->
  exists l, dec_alloc_post tok_rp tok_cons tok_rc tok_proj tok_user tok_type v j = Some l /\ cons_list_wf l = true.
Proof.
  intros v j Hw Hv Hi. apply validate_valid in Hv.
  exact (dec_alloc_post_ok v _ FUEL j (shape_post_alloc v) Hv Hw Hi).
Qed.
(* POST /reshaper at every minor version (the route exists from 1.30) *)
Theorem C15s_reshape : forall v j, json_wf j -> json_finite j ->
  validate (schema_of_reshape v) j = true -> reshape_inj v j ->
  exists ri al, dec_reshape tok_rp tok_cons tok_rc tok_proj tok_user tok_type v j = Some (ri, al) /\
                req_wf (Reshape v ri al) = true.
Proof.
  intros v j Hw Hf Hv Hi. apply validate_valid in Hv.
  exact (dec_reshape_ok v _ FUEL j (shape_reshape v) Hv Hw Hf Hi).
Qed.

(* ================================================================== resource providers, resource classes *)
Definition null_shape (s : schema) : bool := let '(Sch k) := s in k_type_in [TNull] k.
Definition parent_shape (s : schema) : bool :=
  let '(Sch k) := s in k_anyof (fun s' => str_shape s' || null_shape s') k.
(* either "parent_provider_uuid" is string-or-null, or the member cannot occur at all *)
Definition parent_ok (k : list kw) : bool :=
  mem_shape f_parent_provider_uuid parent_shape k ||
  (no_additional k && is_nil (prop_schemas k f_parent_provider_uuid)).
Definition parent_absent (k : list kw) : bool := no_additional k && is_nil (prop_schemas k f_parent_provider_uuid).
Definition rp_body_shape (s : schema) : bool :=
  let '(Sch k) := s in
  k_type_in [TObject] k && k_required f_name k && mem_shape f_name str_shape k && parent_ok k.
Definition rp_create_shape (s : schema) : bool :=
  let '(Sch k) := s in rp_body_shape s && mem_shape f_uuid str_shape k.
Definition schema_parent_absent (s : schema) : bool := let '(Sch k) := s in parent_absent k.

Lemma null_shape_valid s f x : null_shape s = true -> valid f s x = true -> x = JNull.
Proof.
  destruct f; [discriminate|]. destruct s as [k]. simpl. intros H Hv.
  destruct (k_type_in_valid _ _ _ _ H Hv) as [t [[Ht|[]] Hty]]; subst t. destruct x; try discriminate. reflexivity.
Qed.
Lemma parent_absent_valid f k o :
  parent_absent k = true -> valid (S f) (Sch k) (JObj o) = true -> assoc f_parent_provider_uuid o = None.
Proof.
  unfold parent_absent. intros H Hv. apply andb_true_iff in H. destruct H as [Hna Hnil].
  destruct (assoc f_parent_provider_uuid o) as [x|] eqn:E; [|reflexivity].
  apply assoc_In in E. destruct (valid_no_additional _ _ _ _ _ Hv Hna E) as [s Hs].
  destruct (prop_schemas k f_parent_provider_uuid); [destruct Hs | discriminate].
Qed.
Lemma parent_cases f k o :
  parent_ok k = true -> valid (S f) (Sch k) (JObj o) = true ->
  assoc f_parent_provider_uuid o = None \/ assoc f_parent_provider_uuid o = Some JNull \/
  exists p, assoc f_parent_provider_uuid o = Some (JStr p).
Proof.
  unfold parent_ok. intros H Hv. apply orb_true_iff in H. destruct H as [H|H].
  - destruct (assoc f_parent_provider_uuid o) as [x|] eqn:E; [|auto]. right.
    destruct (mem_shape_valid _ _ _ _ _ _ H Hv E) as [s [Hs Hvs]].
    destruct f; [discriminate|]. destruct s as [kp]. unfold parent_shape in Hs.
    destruct (k_anyof_valid _ _ _ _ Hs Hvs) as [s' [Hs' Hvs']].
    apply orb_true_iff in Hs'. destruct Hs' as [Hs'|Hs'].
    + destruct (str_shape_valid _ _ _ Hs' Hvs') as [t ->]. eauto.
    + rewrite (null_shape_valid _ _ _ Hs' Hvs'). auto.
  - left. eapply parent_absent_valid; eauto.
Qed.
Lemma assoc_key_in k o : In k (map fst o) -> exists x, assoc k o = Some x.
Proof.
  induction o as [|[k' v] o IH]; simpl; intros H; [destruct H|].
  destruct (str_eqb k k') eqn:E; [eauto|]. destruct H as [H|H]; [|auto].
  subst. rewrite str_eqb_refl in E. discriminate.
Qed.

Lemma dec_rp_create_ok v s f j :
  rp_create_shape s = true -> valid f s j = true -> In f_uuid (okeys j) ->
  exists u n p, dec_rp_create tok_rp tok_name v j = Some (u, n, p) /\ (schema_parent_absent s = true -> p = None).
Proof.
  destruct f; [discriminate|]. destruct s as [k]. unfold rp_create_shape, rp_body_shape. intros Hs Hv Hu.
  repeat (apply andb_true_iff in Hs; destruct Hs as [Hs ?]).
  destruct (type_obj _ _ _ Hs Hv) as [o ->]. simpl in Hu.
  destruct (assoc_key_in _ _ Hu) as [uj Eu].
  destruct (mem_shape_valid _ _ _ _ _ _ H Hv Eu) as [su [Hsu Hvu]].
  destruct (str_shape_valid _ _ _ Hsu Hvu) as [u ->].
  destruct (k_required_valid _ _ _ _ H2 Hv) as [nj En].
  destruct (mem_shape_valid _ _ _ _ _ _ H1 Hv En) as [sn [Hsn Hvn]].
  destruct (str_shape_valid _ _ _ Hsn Hvn) as [n ->].
  unfold dec_rp_create. rewrite Eu, En. cbn [obind str_of].
  destruct (parent_cases _ _ _ H0 Hv) as [E|[E|[p E]]]; rewrite E; cbn [obind].
  - eexists _, _, _. split; [reflexivity|]. reflexivity.
  - eexists _, _, _. split; [reflexivity|]. reflexivity.
  - eexists _, _, _. split; [reflexivity|]. intro Hab. simpl in Hab.
    rewrite (parent_absent_valid _ _ _ Hab Hv) in E. discriminate.
Qed.
Lemma dec_rp_update_ok v s f j :
  rp_body_shape s = true -> valid f s j = true ->
  exists n p, dec_rp_update tok_rp tok_name v j = Some (n, p) /\ (schema_parent_absent s = true -> p = None).
Proof.
  destruct f; [discriminate|]. destruct s as [k]. unfold rp_body_shape. intros Hs Hv.
  repeat (apply andb_true_iff in Hs; destruct Hs as [Hs ?]).
  destruct (type_obj _ _ _ Hs Hv) as [o ->].
  destruct (k_required_valid _ _ _ _ H1 Hv) as [nj En].
  destruct (mem_shape_valid _ _ _ _ _ _ H0 Hv En) as [sn [Hsn Hvn]].
  destruct (str_shape_valid _ _ _ Hsn Hvn) as [n ->].
  unfold dec_rp_update. rewrite En. cbn [obind str_of].
  destruct (parent_cases _ _ _ H Hv) as [E|[E|[p E]]]; rewrite E; cbn [obind].
  - eexists _, _. split; reflexivity.
  - eexists _, _. split; [reflexivity|]. intro Hab. simpl in Hab.
    rewrite (parent_absent_valid _ _ _ Hab Hv) in E. discriminate.
  - eexists _, _. split; [reflexivity|]. intro Hab. simpl in Hab.
    rewrite (parent_absent_valid _ _ _ Hab Hv) in E. discriminate.
Qed.
Lemma shape_rp_create v : rp_create_shape (schema_of_rp_create v) = true.
Proof. unfold schema_of_rp_create. destruct (v <? 14); vm_compute; reflexivity. Qed.
Lemma shape_rp_update v : rp_body_shape (schema_of_rp_update v) = true.
Proof. unfold schema_of_rp_update. destruct (v <? 14); vm_compute; reflexivity. Qed.
Lemma absent_rp_create v : v < 14 -> schema_parent_absent (schema_of_rp_create v) = true.
Proof. intro H. unfold schema_of_rp_create. decide_test (v <? 14). vm_compute. reflexivity. Qed.
Lemma absent_rp_update v : v < 14 -> schema_parent_absent (schema_of_rp_update v) = true.
Proof. intro H. unfold schema_of_rp_update. decide_test (v <? 14). vm_compute. reflexivity. Qed.

(* POST /resource_providers (bodies that carry "uuid", as the harness builds them).  Below 1.14 a valid body has no
   parent: the 400 of the model for `v < 14 /\ parent = Some _` is never reached by a schema-valid body. *)
Theorem C15s_rp_create : forall v j,
  validate (schema_of_rp_create v) j = true -> In f_uuid (okeys j) ->
  exists u n p, dec_rp_create tok_rp tok_name v j = Some (u, n, p) /\ (v < 14 -> p = None).
Proof.
  intros v j Hv Hu. apply validate_valid in Hv.
  destruct (dec_rp_create_ok v _ FUEL j (shape_rp_create v) Hv Hu) as [u [n [p [Hd Hp]]]].
  exists u, n, p. split; auto. intro H. apply Hp. apply absent_rp_create. exact H.
Qed.
Theorem C15s_rp_update : forall v j,
  validate (schema_of_rp_update v) j = true ->
  exists n p, dec_rp_update tok_rp tok_name v j = Some (n, p) /\ (v < 14 -> p = None).
Proof.
  intros v j Hv. apply validate_valid in Hv.
  destruct (dec_rp_update_ok v _ FUEL j (shape_rp_update v) Hv) as [n [p [Hd Hp]]].
  exists n, p. split; auto. intro H. apply Hp. apply absent_rp_update. exact H.
Qed.

Definition rc_name_shape (s : schema) : bool :=
  let '(Sch k) := s in k_type_in [TObject] k && k_required f_name k && mem_shape f_name str_shape k.
Lemma dec_rc_name_ok s f j :
  rc_name_shape s = true -> valid f s j = true -> exists n, dec_rc_name tok_rc j = Some n.
Proof.
  destruct f; [discriminate|]. destruct s as [k]. unfold rc_name_shape. intros Hs Hv.
  repeat (apply andb_true_iff in Hs; destruct Hs as [Hs ?]).
  destruct (type_obj _ _ _ Hs Hv) as [o ->].
  destruct (k_required_valid _ _ _ _ H0 Hv) as [nj En].
  destruct (mem_shape_valid _ _ _ _ _ _ H Hv En) as [sn [Hsn Hvn]].
  destruct (str_shape_valid _ _ _ Hsn Hvn) as [n ->].
  unfold dec_rc_name. rewrite En. simpl. eauto.
Qed.
Lemma shape_POST_RC : rc_name_shape S_resource_class__POST_RC_SCHEMA_V1_2 = true.
Proof. vm_compute. reflexivity. Qed.
Lemma shape_PUT_RC : rc_name_shape S_resource_class__PUT_RC_SCHEMA_V1_2 = true.
Proof. vm_compute. reflexivity. Qed.
(* POST /resource_classes and PUT /resource_classes/{name} *)
Theorem C15s_rc_name : forall j,
  (validate S_resource_class__POST_RC_SCHEMA_V1_2 j = true \/ validate S_resource_class__PUT_RC_SCHEMA_V1_2 j = true) ->
  exists n, dec_rc_name tok_rc j = Some n.
Proof.
  intros j [Hv|Hv]; apply validate_valid in Hv.
  - exact (dec_rc_name_ok _ FUEL j shape_POST_RC Hv).
  - exact (dec_rc_name_ok _ FUEL j shape_PUT_RC Hv).
Qed.

(* ================================================================== nan / -inf as allocation_ratio *)
(* The schemas bound allocation_ratio only from above ("maximum"), and nan > x is False in Python: a body with
   allocation_ratio NaN (or -Infinity) - which json.loads accepts - is schema-valid.  It is rejected by
   handlers/inventory.py:make_inventory_object with 400 since df933f2 (before that: ValueError / OverflowError in
   Inventory.capacity, a 500 - confirmed on the service); dec_* = None models that rejection.  Such a ratio has no
   (m, e) and the record no inv_in: the theorems above need `json_finite` (computable: Decode.body_finite).
   Schema-valid => decodable is REFUTED without it: *)
Definition inv_nan_doc : json :=
  JObj [(f_resource_class, JStr [86; 67; 80; 85]); (f_total, JInt 4); (f_allocation_ratio, JSpec 0)].
Theorem C15s_inv_post_nan_refuted :
  exists j, json_wf j /\ validate S_inventory__POST_INVENTORY_SCHEMA j = true /\ dec_inv_post tok_rc j = None.
Proof. exists inv_nan_doc. split; [vm_compute; reflexivity|]. split; [vm_compute; reflexivity|]. reflexivity. Qed.

(* ... and so is a FINITE ratio below the negative of the maximum (-1e308 = -156575653125701 * 2^976): no "minimum".
   Found by the boundary stream (OverflowError in Inventory.capacity, 500) and rejected since fix 7fca050. *)
Definition inv_neg_doc : json :=
  JObj [(f_resource_class, JStr [86; 67; 80; 85]); (f_total, JInt 4);
        (f_allocation_ratio, JFlt (-156575653125701) 976)].
Theorem C15s_inv_post_huge_negative_refuted :
  exists j, json_wf j /\ json_nospecb j = true /\ validate S_inventory__POST_INVENTORY_SCHEMA j = true /\ dec_inv_post tok_rc j = None.
Proof.
  exists inv_neg_doc. split; [vm_compute; reflexivity|]. split; [vm_compute; reflexivity|].
  split; [vm_compute; reflexivity|]. vm_compute. reflexivity.
Qed.

(* ================================================================== summary *)
(* Every write body: schema-valid (+ unique keys, finite numbers, tokenizers injective on the identifiers that occur)
   => the request the decode layer builds satisfies req_wf.  For PUT traits the schema lacks uniqueItems
   (C15s_traits_set_refuted); the decoder de-duplicates as the handler does, so req_wf holds unconditionally there.
   A non-finite allocation_ratio is schema-valid and answered 400 by make_inventory_object (df933f2): json_finite. *)
Theorem C15s_valid_body_wf :
  (forall v u j, json_wf j -> json_finite j -> validate S_inventory__PUT_INVENTORY_SCHEMA j = true ->
     tok_inj_on tok_rc (okeys (member f_inventories j)) ->
     exists r, to_req_inv_set tok_rc v u j = Some r /\ req_wf r = true) /\
  (forall v u j, json_finite j -> validate S_inventory__POST_INVENTORY_SCHEMA j = true ->
     exists r, to_req_inv_post tok_rc v u j = Some r /\ req_wf r = true) /\
  (forall v u rc j, json_finite j -> validate S_inventory__BASE_INVENTORY_SCHEMA j = true ->
     exists r, to_req_inv_put v u rc j = Some r /\ req_wf r = true) /\
  (forall v u j, validate S_trait__SET_TRAITS_FOR_RP_SCHEMA j = true ->
     exists g ts, to_req_traits_set tok_trait v u j = Some (TraitsSet v u g ts) /\ req_wf (TraitsSet v u g ts) = true) /\
  (forall v u g0 j, validate (schema_of_aggs v) j = true -> tok_inj_on tok_agg (agg_strs v j) ->
     exists g l, to_req_aggs_set tok_agg v u g0 j = Some (AggsSet v u g l) /\ nodupb l = true) /\
  (forall v c j, json_wf j -> validate (schema_of_put_alloc v) j = true -> alloc_inj v j ->
     exists r, to_req_alloc_put tok_rp tok_rc tok_proj tok_user tok_type v c j = Some r /\ req_wf r = true) /\
  (forall v j, json_wf j -> validate (schema_of_post_alloc v) j = true -> post_inj v j ->
     exists r, to_req_alloc_post tok_rp tok_cons tok_rc tok_proj tok_user tok_type v j = Some r /\ req_wf r = true) /\
  (forall v j, json_wf j -> json_finite j -> validate (schema_of_reshape v) j = true -> reshape_inj v j ->
     exists r, to_req_reshape tok_rp tok_cons tok_rc tok_proj tok_user tok_type v j = Some r /\ req_wf r = true) /\
  (forall v j, validate (schema_of_rp_create v) j = true -> In f_uuid (okeys j) ->
     exists u n p, to_req_rp_create tok_rp tok_name v j = Some (RpCreate v u n p) /\ (v < 14 -> p = None)) /\
  (forall v u j, validate (schema_of_rp_update v) j = true ->
     exists n p, to_req_rp_update tok_rp tok_name v u j = Some (RpUpdate v u n p) /\ (v < 14 -> p = None)) /\
  (forall v old j, (validate S_resource_class__POST_RC_SCHEMA_V1_2 j = true \/
                    validate S_resource_class__PUT_RC_SCHEMA_V1_2 j = true) ->
     exists n, to_req_rc_create tok_rc v j = Some (RcCreate v n) /\ to_req_rc_rename tok_rc v old j = Some (RcRename v old n)).
Proof.
  repeat split.
  - intros v u j Hw Hf Hv Hi. destruct (C15s_inv_set j Hw Hf Hv Hi) as [g [l [Hd Hwf]]].
    unfold to_req_inv_set. rewrite Hd. simpl. eauto.
  - intros v u j Hf Hv. destruct (C15s_inv_post j Hf Hv) as [x [Hd Hwf]].
    unfold to_req_inv_post. rewrite Hd. simpl. eauto.
  - intros v u rc j Hf Hv. destruct (C15s_inv_put rc j Hf Hv) as [g [x [Hd [Hwf _]]]].
    unfold to_req_inv_put. rewrite Hd. simpl. eauto.
  - intros v u j Hv. destruct (C15s_traits_set j Hv) as [g [ts [Hdec [_ Hwf]]]].
    unfold to_req_traits_set. rewrite Hdec. simpl. eauto.
  - intros v u g0 j Hv Hi. destruct (C15s_aggs_set v j Hv Hi) as [g [l [Hd [Hnd _]]]].
    unfold to_req_aggs_set. rewrite Hd. simpl. eauto.
  - intros v c j Hw Hv Hi. destruct (C15s_alloc_put v c j Hw Hv Hi) as [x [Hd [Hwf _]]].
    unfold to_req_alloc_put. rewrite Hd. simpl. eauto.
  - intros v j Hw Hv Hi. destruct (C15s_alloc_post v j Hw Hv Hi) as [l [Hd Hwf]].
    unfold to_req_alloc_post. rewrite Hd. simpl. eauto.
  - intros v j Hw Hf Hv Hi. destruct (C15s_reshape v j Hw Hf Hv Hi) as [ri [al [Hd Hwf]]].
    unfold to_req_reshape. rewrite Hd. simpl obind. eauto.
  - intros v j Hv Hu. destruct (C15s_rp_create v j Hv Hu) as [u [n [p [Hd Hp]]]].
    unfold to_req_rp_create. rewrite Hd. simpl. eauto.
  - intros v u j Hv. destruct (C15s_rp_update v j Hv) as [n [p [Hd Hp]]].
    unfold to_req_rp_update. rewrite Hd. simpl. eauto.
  - intros v old j Hv. destruct (C15s_rc_name j Hv) as [n Hd].
    unfold to_req_rc_create, to_req_rc_rename. rewrite Hd. simpl. eauto.
Qed.

End WF.

(* ================================================================== req_eqb is sound *)
Lemma Zeqb_true x y : (x =? y) = true -> x = y.
Proof. apply Z.eqb_eq. Qed.
Lemma opt_eqb_eq {A} (e : A -> A -> bool) : (forall x y, e x y = true -> x = y) ->
  forall a b, opt_eqb e a b = true -> a = b.
Proof. intros He [x|] [y|]; simpl; intro H; try discriminate; auto. f_equal. auto. Qed.
Lemma list_eqb_eq {A} (e : A -> A -> bool) : (forall x y, e x y = true -> x = y) ->
  forall a b, list_eqb e a b = true -> a = b.
Proof.
  intros He. induction a as [|x a IH]; destruct b as [|y b]; simpl; intro H; try discriminate; auto.
  apply andb_true_iff in H. destruct H as [H1 H2]. f_equal; auto.
Qed.
Ltac eqb_split := repeat match goal with
  | H : _ && _ = true |- _ => apply andb_true_iff in H; destruct H
  | H : (_ =? _) = true |- _ => apply Z.eqb_eq in H
  end.
Lemma zz_eqb_eq a b : zz_eqb a b = true -> a = b.
Proof. destruct a, b. unfold zz_eqb. simpl. intro H. eqb_split. subst. reflexivity. Qed.
Lemma inv_in_eqb_eq a b : inv_in_eqb a b = true -> a = b.
Proof. destruct a, b. unfold inv_in_eqb. simpl. intro H. eqb_split. subst. reflexivity. Qed.
Lemma alloc_in_eqb_eq a b : alloc_in_eqb a b = true -> a = b.
Proof.
  destruct a, b. unfold alloc_in_eqb. simpl. intro H. eqb_split. subst. f_equal. apply (list_eqb_eq _ zz_eqb_eq). assumption.
Qed.
Lemma cons_in_eqb_eq a b : cons_in_eqb a b = true -> a = b.
Proof.
  destruct a, b. unfold cons_in_eqb. simpl. intro H. eqb_split. subst. f_equal;
  first [apply (list_eqb_eq _ alloc_in_eqb_eq); assumption | apply (opt_eqb_eq _ Zeqb_true); assumption].
Qed.
Lemma rinv_in_eqb_eq a b : rinv_in_eqb a b = true -> a = b.
Proof.
  destruct a, b. unfold rinv_in_eqb. simpl. intro H. eqb_split. subst. f_equal. apply (list_eqb_eq _ inv_in_eqb_eq). assumption.
Qed.
Theorem req_eqb_eq : forall a b, req_eqb a b = true -> a = b.
Proof.
  destruct a, b; simpl; intro H; try discriminate; eqb_split; subst; f_equal;
  first [ assumption
        | apply (opt_eqb_eq _ Zeqb_true); assumption
        | apply (opt_eqb_eq _ (opt_eqb_eq _ Zeqb_true)); assumption
        | apply (list_eqb_eq _ Zeqb_true); assumption
        | apply (list_eqb_eq _ inv_in_eqb_eq); assumption
        | apply (list_eqb_eq _ cons_in_eqb_eq); assumption
        | apply (list_eqb_eq _ rinv_in_eqb_eq); assumption
        | apply inv_in_eqb_eq; assumption
        | apply cons_in_eqb_eq; assumption
        | reflexivity ].
Qed.

(* ================================================================== non-vacuity: a valid document per decoder *)
From Coq Require Import String Ascii.
Definition st (x : string) : str := map (fun a => Z.of_N (N_of_ascii a)) (list_ascii_of_string x).
(* example tokenizer: the last character, digits as their value ("...0001" -> 1, "VCPU" -> 37, "DISK_GB" -> 18) *)
Definition xt (s : str) : Z := match rev s with c :: _ => c - 48 | [] => -1 end.
Definition U (n : string) : str := st (String.append "00000000-0000-0000-0000-00000000000"%string n).

Definition x_inv1 : json :=
  JObj [(st "total", JInt 8); (st "reserved", JFlt 1 1); (st "allocation_ratio", JFlt 3 (-1))].
Definition x_inv2 : json :=
  JObj [(st "total", JInt 1024); (st "min_unit", JInt 2); (st "max_unit", JInt 64); (st "step_size", JInt 2);
        (st "allocation_ratio", JInt 12)].
Definition x_inv_set : json :=
  JObj [(st "resource_provider_generation", JInt 3);
        (st "inventories", JObj [(st "VCPU", x_inv1); (st "MEMORY_MB", x_inv2)])].
Example ex_inv_set :
  validate S_inventory__PUT_INVENTORY_SCHEMA x_inv_set = true /\
  to_req_inv_set xt 39 1 x_inv_set =
    Some (InvSet 39 1 3 [mkInvIn 37 8 2 1 2147483647 1 3 (-1); mkInvIn 18 1024 0 2 64 2 3 2]).
Proof. split; vm_compute; reflexivity. Qed.

Definition x_inv_post : json := JObj [(st "resource_class", JStr (st "VCPU")); (st "total", JInt 8)].
Example ex_inv_post :
  validate S_inventory__POST_INVENTORY_SCHEMA x_inv_post = true /\
  to_req_inv_post xt 39 1 x_inv_post = Some (InvPost 39 1 (mkInvIn 37 8 0 1 2147483647 1 1 0)).
Proof. split; vm_compute; reflexivity. Qed.

(* total 4.0 (a float with integral value), ratio -6 *)
Definition x_inv_put : json :=
  JObj [(st "resource_provider_generation", JInt 0); (st "total", JFlt 1 2); (st "allocation_ratio", JInt (-6))].
Example ex_inv_put :
  validate S_inventory__BASE_INVENTORY_SCHEMA x_inv_put = true /\
  to_req_inv_put 39 1 5 x_inv_put = Some (InvPut 39 1 0 (mkInvIn 5 4 0 1 2147483647 1 (-3) 1)).
Proof. split; vm_compute; reflexivity. Qed.

(* a repeated name: decoded once, at its first position *)
Definition x_traits : json :=
  JObj [(st "resource_provider_generation", JInt 0);
        (st "traits", JArr [JStr (st "HW_CPU_X86_AVX2"); JStr (st "CUSTOM_T1"); JStr (st "HW_CPU_X86_AVX2")])].
Example ex_traits_set :
  validate S_trait__SET_TRAITS_FOR_RP_SCHEMA x_traits = true /\
  to_req_traits_set xt 39 1 x_traits = Some (TraitsSet 39 1 0 [2; 1]).
Proof. split; vm_compute; reflexivity. Qed.

Definition x_aggs1 : json := JArr [JStr (U "1"); JStr (U "2")].
Definition x_aggs19 : json :=
  JObj [(st "resource_provider_generation", JInt 7); (st "aggregates", JArr [JStr (U "1"); JStr (U "2")])].
Example ex_aggs_set :
  validate (schema_of_aggs 1) x_aggs1 = true /\ to_req_aggs_set xt 1 1 (-1) x_aggs1 = Some (AggsSet 1 1 (-1) [1; 2]) /\
  validate (schema_of_aggs 19) x_aggs19 = true /\ to_req_aggs_set xt 19 1 (-1) x_aggs19 = Some (AggsSet 19 1 7 [1; 2]).
Proof. repeat split; vm_compute; reflexivity. Qed.

Definition x_res : json := JObj [(st "VCPU", JInt 2); (st "DISK_GB", JFlt 5 2)].
(* the list form; provider 1 is named twice: first position, last resources *)
Definition x_put1 : json :=
  JObj [(st "allocations", JArr [
    JObj [(st "resource_provider", JObj [(st "uuid", JStr (U "1"))]); (st "resources", x_res)];
    JObj [(st "resource_provider", JObj [(st "uuid", JStr (U "2"))]); (st "resources", JObj [(st "VCPU", JInt 1)])];
    JObj [(st "resource_provider", JObj [(st "uuid", JStr (U "1"))]); (st "resources", JObj [(st "VCPU", JInt 9)])]])].
Example ex_alloc_put_list :
  validate (schema_of_put_alloc 1) x_put1 = true /\
  to_req_alloc_put xt xt xt xt xt 1 4 x_put1 =
    Some (AllocPut 1 (mkConsIn 4 [mkAllocIn 1 [(37, 9)]; mkAllocIn 2 [(37, 1)]] None None None None)).
Proof. split; vm_compute; reflexivity. Qed.

Definition x_put38 : json :=
  JObj [(st "allocations", JObj [(U "1", JObj [(st "resources", x_res)])]); (st "project_id", JStr (st "proj3"));
        (st "user_id", JStr (st "user4")); (st "consumer_generation", JNull); (st "consumer_type", JStr (st "TYPE2"))].
Example ex_alloc_put_dict :
  validate (schema_of_put_alloc 38) x_put38 = true /\
  to_req_alloc_put xt xt xt xt xt 38 4 x_put38 =
    Some (AllocPut 38 (mkConsIn 4 [mkAllocIn 1 [(37, 2); (18, 20)]] (Some 3) (Some 4) None (Some 2))).
Proof. split; vm_compute; reflexivity. Qed.

Definition x_post : json :=
  JObj [(U "7", x_put38);
        (U "8", JObj [(st "allocations", JObj []); (st "project_id", JStr (st "proj3")); (st "user_id", JStr (st "user4"));
                      (st "consumer_generation", JInt 1); (st "consumer_type", JStr (st "TYPE2"))])].
Example ex_alloc_post :
  validate (schema_of_post_alloc 39) x_post = true /\
  to_req_alloc_post xt xt xt xt xt xt 39 x_post =
    Some (AllocPost 39 [mkConsIn 7 [mkAllocIn 1 [(37, 2); (18, 20)]] (Some 3) (Some 4) None (Some 2);
                        mkConsIn 8 [] (Some 3) (Some 4) (Some 1) (Some 2)]).
Proof. split; vm_compute; reflexivity. Qed.

Definition x_reshape : json := JObj [(st "inventories", JObj [(U "1", x_inv_set)]); (st "allocations", x_post)].
Example ex_reshape :
  json_wf x_reshape /\ json_finite x_reshape /\ validate (schema_of_reshape 39) x_reshape = true /\
  to_req_reshape xt xt xt xt xt xt 39 x_reshape =
    Some (Reshape 39
            [mkRinvIn 1 3 [mkInvIn 37 8 2 1 2147483647 1 3 (-1); mkInvIn 18 1024 0 2 64 2 3 2]]
            [mkConsIn 7 [mkAllocIn 1 [(37, 2); (18, 20)]] (Some 3) (Some 4) None (Some 2);
             mkConsIn 8 [] (Some 3) (Some 4) (Some 1) (Some 2)]).
Proof. repeat split; vm_compute; reflexivity. Qed.

Definition x_rp_create : json :=
  JObj [(st "name", JStr (st "rp5")); (st "uuid", JStr (U "5")); (st "parent_provider_uuid", JStr (U "1"))].
Example ex_rp_create :
  validate (schema_of_rp_create 14) x_rp_create = true /\
  to_req_rp_create xt xt 14 x_rp_create = Some (RpCreate 14 5 5 (Some 1)).
Proof. split; vm_compute; reflexivity. Qed.
Definition x_rp_update : json := JObj [(st "name", JStr (st "rp6")); (st "parent_provider_uuid", JNull)].
Example ex_rp_update :
  validate (schema_of_rp_update 37) x_rp_update = true /\
  to_req_rp_update xt xt 37 5 x_rp_update = Some (RpUpdate 37 5 6 (Some None)).
Proof. split; vm_compute; reflexivity. Qed.
Definition x_rc : json := JObj [(st "name", JStr (st "CUSTOM_N3"))].
Example ex_rc_name :
  validate S_resource_class__POST_RC_SCHEMA_V1_2 x_rc = true /\
  to_req_rc_create xt 39 x_rc = Some (RcCreate 39 3) /\ to_req_rc_rename xt 39 1001 x_rc = Some (RcRename 39 1001 3).
Proof. repeat split; vm_compute; reflexivity. Qed.

(* ================================================================== assumptions *)
Print Assumptions C15s_inv_set.
Print Assumptions C15s_inv_post.
Print Assumptions C15s_inv_put.
Print Assumptions C15s_inv_post_nan_refuted.
Print Assumptions C15s_inv_post_huge_negative_refuted.
Print Assumptions C15s_traits_set.
Print Assumptions dedupZ_nodupb.
Print Assumptions C15s_traits_set_refuted.
Print Assumptions C15s_aggs_set.
Print Assumptions C15s_alloc_put.
Print Assumptions C15s_alloc_post.
Print Assumptions C15s_reshape.
Print Assumptions C15s_rp_create.
Print Assumptions C15s_rp_update.
Print Assumptions C15s_rc_name.
Print Assumptions C15s_valid_body_wf.
Print Assumptions req_eqb_eq.
Print Assumptions ex_reshape.
