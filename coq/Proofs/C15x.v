(* C15 (and the error-mapping part of C04/C05/C06): the error answers of the model's handlers are the ones the
   `try` statements of placement/handlers/*.py produce (Gen/GenExc.v, regenerated on every build), for every
   exception the modelled object-layer call can raise there. *)
From PV Require Import Proofs.Defs Proofs.C15 Gen.GenExc Spec.ExcSpec.

(* ---------------------------------------------------------------- allocation writes and the reshaper: every exception *)
Lemma exc_alloc_put_all : forall e, exc_resp S_allocation__set_allocations_for_consumer__replace_all e = Some (alloc_err e).
Proof. intro e. destruct e; vm_compute; reflexivity. Qed.
Lemma exc_alloc_post_all : forall e, exc_resp S_allocation__set_allocations__replace_all e = Some (alloc_err e).
Proof. intro e. destruct e; vm_compute; reflexivity. Qed.
Lemma exc_reshape_all : forall e, exc_resp S_reshaper__reshape__reshape e = Some (reshape_err e).
Proof. intro e. destruct e; vm_compute; reflexivity. Qed.

(* ---------------------------------------------------------------- inventories: the exceptions the call can raise *)
Lemma add_inventory_exn : forall d u g x e, add_inventory d u g x = Err e ->
  e = ERcNotFound \/ e = EDuplicate \/ e = ERpConcurrent.
Proof.
  intros d u g x e H. unfold add_inventory in H. destruct (negb _); [left; congruence|].
  destruct (find_inv d u (ii_rc x)); [right; left; congruence|]. apply incr_rp_gen_exn in H. tauto.
Qed.
Lemma update_inventory_exn : forall d u g x e, update_inventory d u g x = Err e ->
  e = ERcNotFound \/ e = EInvRcNotFound \/ e = ERpConcurrent.
Proof.
  intros d u g x e H. unfold update_inventory, bind in H. destruct (negb _); [left; congruence|].
  destruct (update_inventory_for_provider d u [x]) as [d1|e1] eqn:E.
  - apply incr_rp_gen_exn in H. tauto.
  - injection H as <-. apply update_inv_exn in E. tauto.
Qed.
Lemma delete_inventory_exn : forall d u g rc e, delete_inventory d u g rc = Err e ->
  e = ERcNotFound \/ e = EInventoryInUse \/ e = ENotFound \/ e = ERpConcurrent.
Proof.
  intros d u g rc e H. unfold delete_inventory, bind in H. destruct (negb _); [left; congruence|].
  destruct (delete_inventory_from_provider d u [rc]) as [d1|e1] eqn:E.
  - destruct (find_inv d u rc); [apply incr_rp_gen_exn in H; tauto|right; right; left; congruence].
  - injection H as <-. unfold delete_inventory_from_provider in E. destruct (existsb _ _); [|discriminate].
    injection E as <-. tauto.
Qed.

Lemma exc_inv_set : forall e, inv_exn e -> exc_resp S_inventory__set_inventories__set_inventory e = Some (inv_set_err e).
Proof. intros e [->|[->|[->| ->]]]; vm_compute; reflexivity. Qed.
Lemma exc_inv_delete_all : forall e, e = EInventoryInUse \/ e = ERpConcurrent ->
  exc_resp S_inventory__delete_inventories__set_inventory e =
  Some (match e with EInventoryInUse => err 409 C_INUSE | _ => err 409 C_CONCURRENT end).
Proof. intros e [->| ->]; vm_compute; reflexivity. Qed.
Lemma exc_inv_post : forall e, e = ERcNotFound \/ e = EDuplicate \/ e = ERpConcurrent ->
  exc_resp S_inventory__create_inventory__add_inventory e = Some (inv_post_err e).
Proof. intros e [->|[->| ->]]; vm_compute; reflexivity. Qed.
Lemma exc_inv_put : forall e, e = EInvRcNotFound \/ e = ERpConcurrent ->
  exc_resp S_inventory__update_inventory__update_inventory e = Some (inv_put_err e).
Proof. intros e [->| ->]; vm_compute; reflexivity. Qed.
Lemma exc_inv_delete : forall e, e = ERcNotFound \/ e = EInventoryInUse \/ e = ENotFound \/ e = ERpConcurrent ->
  exc_resp S_inventory__delete_inventory__delete_inventory e = Some (inv_delete_err e).
Proof. intros e [->|[->|[->| ->]]]; vm_compute; reflexivity. Qed.
Lemma exc_rp_delete : forall e, e = EHasChildren \/ e = ERpInUse \/ e = ENotFound ->
  exc_resp S_resource_provider__delete_resource_provider__destroy e = Some (rp_delete_err e).
Proof. intros e [->|[->| ->]]; vm_compute; reflexivity. Qed.
Lemma exc_traits_set : exc_resp S_trait__update_traits_for_resource_provider__set_traits ERpConcurrent = Some (err 409 C_CONCURRENT)
  /\ exc_resp S_trait__delete_traits_for_resource_provider__set_traits ERpConcurrent = Some (err 409 C_CONCURRENT)
  /\ exc_resp S_aggregate__set_aggregates__set_aggregates ERpConcurrent = Some (err 409 C_CONCURRENT).
Proof. repeat split; vm_compute; reflexivity. Qed.
Lemma exc_names :
  exc_resp S_trait__delete_trait__destroy ETraitNotFound = Some (err 404 C_DEFAULT) /\
  exc_resp S_trait__delete_trait__destroy ETraitStandard = Some (err 400 C_DEFAULT) /\
  exc_resp S_trait__delete_trait__destroy ETraitInUse = Some (err 409 C_DEFAULT) /\
  exc_resp S_resource_class__delete_resource_class__destroy ERcStandard = Some (err 400 C_DEFAULT) /\
  exc_resp S_resource_class__delete_resource_class__destroy ERcInUse = Some (err 409 C_DEFAULT) /\
  exc_resp S_resource_class__create_resource_class__create ERcExists = Some (err 409 C_DEFAULT) /\
  exc_resp S_resource_provider__create_resource_provider__create EDuplicate = Some (err 409 C_DUPNAME) /\
  exc_resp S_resource_provider__create_resource_provider__create EObjAction = Some (err 400 C_DEFAULT) /\
  exc_resp S_resource_provider__update_resource_provider__save EDuplicate = Some (err 409 C_DUPNAME) /\
  exc_resp S_resource_provider__update_resource_provider__save EObjAction = Some (err 400 C_DEFAULT).
Proof. repeat split; vm_compute; reflexivity. Qed.

(* ---------------------------------------------------------------- the handlers answer with the table's entry *)
Lemma h_inv_set_fail : forall d v u g l me e,
  find_rp d u = Some me -> g = rp_gen me -> existsb (bad_capacity v) l = false ->
  set_inventory d u (rp_gen me) l = Err e ->
  Some (snd (h_inv_set d v u g l)) = exc_resp S_inventory__set_inventories__set_inventory e.
Proof.
  intros d v u g l me e Hf -> Hb He. unfold h_inv_set. rewrite Hf, Z.eqb_refl, Hb, He. cbn [negb].
  rewrite (exc_inv_set e (set_inventory_exn _ _ _ _ _ He)).
  destruct (set_inventory_exn _ _ _ _ _ He) as [->|[->|[->| ->]]]; reflexivity.
Qed.
Lemma h_inv_post_fail : forall d v u x me e,
  find_rp d u = Some me -> bad_capacity v x = false -> add_inventory d u (rp_gen me) x = Err e ->
  Some (snd (h_inv_post d v u x)) = exc_resp S_inventory__create_inventory__add_inventory e.
Proof.
  intros d v u x me e Hf Hb He. unfold h_inv_post. rewrite Hf, Hb, He.
  rewrite (exc_inv_post e (add_inventory_exn _ _ _ _ _ He)).
  destruct (add_inventory_exn _ _ _ _ _ He) as [->|[->| ->]]; reflexivity.
Qed.
Lemma h_inv_delete_fail : forall d u rc me e,
  find_rp d u = Some me -> delete_inventory d u (rp_gen me) rc = Err e ->
  Some (snd (h_inv_delete d u rc)) = exc_resp S_inventory__delete_inventory__delete_inventory e.
Proof.
  intros d u rc me e Hf He. unfold h_inv_delete. rewrite Hf, He.
  rewrite (exc_inv_delete e (delete_inventory_exn _ _ _ _ _ He)).
  destruct (delete_inventory_exn _ _ _ _ _ He) as [->|[->|[->| ->]]]; reflexivity.
Qed.
