(* C16: proofs over the pipeline model and the generated routing / policy tables. *)
From Coq Require Import ZArith List Bool Lia.
From PV Require Import Gen.GenConsts Gen.GenRoutes Gen.GenSurfaceSpec Spec.Surface Spec.Pipeline.
Import ListNotations.
Open Scope Z_scope.

(* finite facts about the generated tables, decided by complete evaluation *)
Definition handlers_wellformed : bool :=
  forallb (fun h => ((h_rule h =? -1) || h_check_first h) &&
                    forallb (fun o => forallb (fun d => match d with
                                                        | DVersion _ _ st => (st =? 404) || (st =? 405)
                                                        | _ => true end) o) (h_overloads h)) handlers.
Definition routes_resolved : bool :=
  forallb (fun r => forallb (fun t => match find_handler (snd t) with Some _ => true | None => false end) (snd r)) routes.

Lemma handlers_wellformed_true : handlers_wellformed = true. Proof. vm_compute. reflexivity. Qed.
Lemma routes_resolved_true : routes_resolved = true. Proof. vm_compute. reflexivity. Qed.
Lemma authz_ok_true : authz_ok = true. Proof. vm_compute. reflexivity. Qed.
Lemma rules_routed_ok_true : rules_routed_ok = true. Proof. vm_compute. reflexivity. Qed.
Lemma defaults_ok_true : defaults_ok = true. Proof. vm_compute. reflexivity. Qed.

Lemma find_handler_in : forall id h, find_handler id = Some h -> In h handlers.
Proof. intros id h H. unfold find_handler in H. apply find_some in H. tauto. Qed.

Lemma handler_wf : forall id h, find_handler id = Some h ->
  ((h_rule h =? -1) || h_check_first h = true) /\
  forall o d, In o (h_overloads h) -> In d o ->
    match d with DVersion _ _ st => st = 404 \/ st = 405 | _ => True end.
Proof.
  intros id h H. apply find_handler_in in H.
  pose proof handlers_wellformed_true as W. unfold handlers_wellformed in W.
  rewrite forallb_forall in W. specialize (W h H). apply andb_true_iff in W. destruct W as [W1 W2].
  split; [exact W1|]. intros o d Ho Hd. rewrite forallb_forall in W2. specialize (W2 o Ho).
  rewrite forallb_forall in W2. specialize (W2 d Hd). destruct d; auto.
  apply orb_true_iff in W2. destruct W2 as [E|E]; apply Z.eqb_eq in E; auto.
Qed.

Lemma run_decos_status : forall q l s, run_decos q l = Some s -> s = 406 \/ s = 415.
Proof.
  induction l as [|d l IH]; intros s H; cbn [run_decos] in H; [discriminate|].
  destruct d.
  - auto.
  - destruct (q_content_ok q); [auto|]. injection H as <-. auto.
  - destruct (q_accept_ok q); [auto|]. injection H as <-. auto.
Qed.

Lemma version_deco_in : forall o d, version_deco o = Some d -> In d o.
Proof. intros o d H. unfold version_deco in H. apply find_some in H. tauto. Qed.

Lemma last_in : forall (A : Type) (l : list A) d, l <> [] -> In (last l d) l.
Proof.
  induction l as [|x l IH]; intros d Hn; [congruence|]. destruct l as [|y l]; [left; reflexivity|].
  right. change (last (x :: y :: l) d) with (last (y :: l) d). apply IH. discriminate.
Qed.

Lemma decorators_status : forall q id h s, find_handler id = Some h -> decorators q h = Some s ->
  s = 404 \/ s = 405 \/ s = 406 \/ s = 415.
Proof.
  intros q id h s Hf H. unfold decorators in H.
  destruct (run_decos q (before_version (last (h_overloads h) []))) as [s0|] eqn:E1.
  - injection H as <-. apply run_decos_status in E1. tauto.
  - destruct (version_deco (last (h_overloads h) [])) as [d|] eqn:E2; [|discriminate].
    destruct d as [mn mx st| |]; try discriminate.
    destruct (select_overload (q_version q) h) as [o|] eqn:E3.
    + apply run_decos_status in H. tauto.
    + injection H as <-.
      destruct (handler_wf id h Hf) as [_ W].
      assert (Hne : h_overloads h <> []).
      { intro Hnil. rewrite Hnil in E2. cbn in E2. discriminate. }
      specialize (W (last (h_overloads h) []) (DVersion mn mx st) (last_in _ _ _ Hne) (version_deco_in _ _ E2)).
      cbn in W. tauto.
Qed.

Section WithDb.
Variable db : Type.

(* no credentials: 401 and nothing happens, for every route but the version document *)
Lemma c16_unauth : forall (p : policy) w q (body : db -> db * Z) d,
  has_token w = false -> is_root q = false -> serve p w q body d = (d, 401).
Proof. intros p w q body d Ht Hr. unfold serve. rewrite Ht, Hr. reflexivity. Qed.

(* a caller the policy does not allow never reaches the handler body: state unchanged, and the status is
   403 unless the request is rejected as 401/404/405/406/415 *)
Lemma c16_denied : forall (p : policy) w q (body : db -> db * Z) d,
  allowed p w q = false ->
  fst (serve p w q body d) = d /\
  let s := snd (serve p w q body d) in s = 401 \/ s = 403 \/ s = 404 \/ s = 405 \/ s = 406 \/ s = 415.
Proof.
  intros p w q body d Ha. unfold serve. unfold allowed, op_rule in Ha.
  destruct (negb (is_root q) && negb (has_token w)); [cbn; tauto|].
  destruct (find (fun r => fst r =? q_route q) routes) as [[r targets]|] eqn:Er; [|cbn; tauto].
  destruct (find (fun t => fst t =? q_method q) targets) as [[m hid]|] eqn:Et; [|cbn; tauto].
  destruct (find_handler hid) as [h|] eqn:Eh.
  - destruct (decorators q h) as [s|] eqn:Ed.
    + cbn. split; [reflexivity|]. pose proof (decorators_status q hid h s Eh Ed). tauto.
    + destruct (h_rule h =? -1) eqn:Erule; [discriminate|].
      destruct (handler_wf hid h Eh) as [W _]. rewrite Erule in W. cbn in W. rewrite W.
      rewrite Ha. cbn. tauto.
  - exfalso. pose proof routes_resolved_true as R. unfold routes_resolved in R. rewrite forallb_forall in R.
    apply find_some in Er. destruct Er as [Hin _]. specialize (R _ Hin). cbn [snd] in R.
    rewrite forallb_forall in R. apply find_some in Et. destruct Et as [Hin2 _]. specialize (R _ Hin2).
    cbn [snd] in R. rewrite Eh in R. discriminate.
Qed.

(* ... and a rejection other than 401/403 does not depend on who is calling *)
Lemma c16_reject_caller_independent : forall (p : policy) w w' q (body : db -> db * Z) d,
  allowed p w q = false -> has_token w = true -> has_token w' = true ->
  snd (serve p w q body d) <> 403 ->
  serve p w' q body d = serve p w q body d.
Proof.
  intros p w w' q body d Ha Ht Ht' Hs. unfold serve in *. unfold allowed, op_rule in Ha.
  rewrite Ht, Ht' in *. rewrite !andb_false_r in *.
  destruct (find (fun r => fst r =? q_route q) routes) as [[r targets]|] eqn:Er; [|reflexivity].
  destruct (find (fun t => fst t =? q_method q) targets) as [[m hid]|] eqn:Et; [|reflexivity].
  destruct (find_handler hid) as [h|] eqn:Eh; [|reflexivity].
  destruct (decorators q h) as [s|] eqn:Ed; [reflexivity|].
  destruct (h_rule h =? -1) eqn:Erule; [discriminate|].
  destruct (handler_wf hid h Eh) as [W _]. rewrite Erule in W. cbn in W. rewrite W in *.
  rewrite Ha in Hs. cbn in Hs. congruence.
Qed.

(* an allowed caller whose request passes routing and decorators gets the handler body *)
Lemma c16_allowed_runs_body : forall (p : policy) w q (body : db -> db * Z) d hid h r targets,
  has_token w = true -> allowed p w q = true ->
  find (fun r => fst r =? q_route q) routes = Some (r, targets) ->
  find (fun t => fst t =? q_method q) targets = Some (q_method q, hid) ->
  find_handler hid = Some h -> decorators q h = None ->
  serve p w q body d = body d.
Proof.
  intros p w q body d hid h r targets Ht Ha Er Et Eh Ed. unfold serve. rewrite Ht, andb_false_r, Er, Et, Eh, Ed.
  unfold allowed, op_rule in Ha. rewrite Er, Et, Eh in Ha.
  destruct (h_rule h =? -1); [reflexivity|]. rewrite Ha. destruct (h_check_first h); reflexivity.
Qed.
End WithDb.

(* overriding exactly the rule of an operation is what grants or denies exactly that operation *)
Lemma c16_override_local : forall p rid c w q,
  op_rule (q_route q) (q_method q) <> Some rid -> allowed (override p rid c) w q = allowed p w q.
Proof.
  intros p rid c w q H. unfold allowed. destruct (op_rule (q_route q) (q_method q)) as [r|]; [|reflexivity].
  destruct (r =? -1); [reflexivity|]. unfold override. destruct (r =? rid) eqn:E; [|reflexivity].
  apply Z.eqb_eq in E. subst. congruence.
Qed.
Lemma c16_override_exact : forall p rid c w q,
  rid <> -1 -> op_rule (q_route q) (q_method q) = Some rid -> allowed (override p rid c) w q = eval_chk c w.
Proof.
  intros p rid c w q Hn H. unfold allowed. rewrite H. destruct (rid =? -1) eqn:E; [apply Z.eqb_eq in E; congruence|].
  unfold override. rewrite Z.eqb_refl. reflexivity.
Qed.

(* defaults: a complete enumeration of callers x routes x methods *)
Definition all_callers : list caller :=
  flat_map (fun a => flat_map (fun b => flat_map (fun c => flat_map (fun d => flat_map (fun e =>
    [mkCaller a b c d e]) [true; false]) [true; false]) [true; false]) [true; false]) [true; false].
Lemma all_callers_complete : forall w, In w all_callers.
Proof. intros [[] [] [] [] []]; vm_compute; tauto. Qed.

Definition documented_default (route : Z) (w : caller) : bool :=
  if route =? 18 then is_service w                                        (* POST /reshaper: service only *)
  else if route =? 17 then is_admin w || is_service w || (is_reader w && own_project w)   (* GET /usages *)
  else is_admin w || is_service w.
Definition defaults_matrix_ok : bool :=
  forallb (fun w => forallb (fun r => forallb (fun t =>
     if (fst r =? 0) || (fst r =? 1) then true else
     Bool.eqb (allowed default_policy w (mkReq (fst r) (fst t) 39 true true)) (documented_default (fst r) w))
     (snd r)) routes) all_callers.
Lemma defaults_matrix_ok_true : defaults_matrix_ok = true. Proof. vm_compute. reflexivity. Qed.

Lemma c16_defaults : forall w route targets method hid v c a,
  In (route, targets) routes -> In (method, hid) targets -> route <> 0 -> route <> 1 ->
  allowed default_policy w (mkReq route method v c a) = documented_default route w.
Proof.
  intros w route targets method hid v c a Hr Ht H0 H1.
  pose proof defaults_matrix_ok_true as M. unfold defaults_matrix_ok in M.
  rewrite forallb_forall in M. specialize (M w (all_callers_complete w)).
  rewrite forallb_forall in M. specialize (M _ Hr). cbn [fst snd] in M.
  rewrite forallb_forall in M. specialize (M _ Ht). cbn [fst snd] in M.
  destruct (route =? 0) eqn:E0; [apply Z.eqb_eq in E0; congruence|].
  destruct (route =? 1) eqn:E1; [apply Z.eqb_eq in E1; congruence|].
  cbn [orb] in M. apply Bool.eqb_prop in M. unfold allowed in *. cbn [q_route q_method] in *. exact M.
Qed.

(* check-first and documentation of rules, as statements over the tables *)
Lemma c16_check_first : forall route targets method hid,
  In (route, targets) routes -> In (method, hid) targets -> route <> 0 -> route <> 1 ->
  exists h, find_handler hid = Some h /\ h_check_first h = true /\
            exists c opl, rule_ops (h_rule h) = Some (c, opl) /\ In (method, route) opl.
Proof.
  intros route targets method hid Hr Ht H0 H1.
  pose proof authz_ok_true as A. unfold authz_ok in A. rewrite forallb_forall in A. specialize (A _ Hr).
  cbn [fst snd] in A. rewrite forallb_forall in A. specialize (A _ Ht). cbn [fst snd] in A.
  destruct (find_handler hid) as [h|]; [|discriminate]. exists h. split; [reflexivity|].
  destruct (route =? 0) eqn:E0; [apply Z.eqb_eq in E0; congruence|].
  destruct (route =? 1) eqn:E1; [apply Z.eqb_eq in E1; congruence|].
  cbn [orb] in A. apply andb_true_iff in A. destruct A as [A1 A2]. split; [exact A1|].
  destruct (rule_ops (h_rule h)) as [[c opl]|]; [|discriminate]. exists c, opl. split; [reflexivity|].
  apply existsb_exists in A2. destruct A2 as [[m r] [Hin Heq]]. cbn [fst snd] in Heq.
  apply andb_true_iff in Heq. destruct Heq as [Em Er']. apply Z.eqb_eq in Em. apply Z.eqb_eq in Er'. subst. exact Hin.
Qed.
