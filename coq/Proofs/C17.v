(* C17 - database faults end in an exactly-once retry or a clean failure.
   Proofs of the statements in Props/C17.v (Model/Fault.v). *)
From PV Require Import Proofs.Defs Model.Fault.
From PV Require Import Proofs.C04.

(* ================================================================ retried top-level transactions *)
Lemma retry_ok : forall faults retries f d,
  (length (filter (fun b : bool => b) faults) <= retries)%nat ->
  forall rest, retry_top retries (faults ++ false :: rest) f d = Some (f d).
Proof.
  induction faults as [|b fs IH]; intros retries f d H rest; cbn [app].
  - destruct retries; reflexivity.
  - destruct b; [|destruct retries; reflexivity]. cbn [filter length] in H.
    destruct retries as [|r]; [lia|]. cbn [retry_top]. apply IH. lia.
Qed.

Lemma retry_exhausted : forall pre retries faults f d,
  (retries < length pre)%nat -> forallb (fun b : bool => b) pre = true ->
  retry_top retries (pre ++ faults) f d = None.
Proof.
  induction pre as [|b pre IH]; intros retries faults f d Hl Hb; cbn [length] in Hl; [lia|].
  cbn [forallb] in Hb. apply andb_true_iff in Hb. destruct Hb as [-> Hb]. cbn [app].
  destruct retries as [|r]; [reflexivity|]. cbn [retry_top]. apply IH; [lia|exact Hb].
Qed.

Theorem c17_retry_top_level :
  forall retries faults f d,
    (length (filter (fun b => b) faults) <= retries)%nat ->
    (exists rest, retry_top retries (faults ++ false :: rest) f d = Some (f d)) /\
    (forall pre, (retries < length pre)%nat -> forallb (fun b => b) pre = true ->
       retry_top retries (pre ++ faults) f d = None).
Proof.
  intros retries faults f d H. split.
  - exists []. apply retry_ok. exact H.
  - intros pre Hl Hb. apply retry_exhausted; assumption.
Qed.
Print Assumptions c17_retry_top_level.

(* ================================================================ a deadlock after the first CAS *)
Definition wit_d : db :=
  set_consumers
    (run (mkCfg 0 0) db0 [RpCreate 20 1 1 None; InvSet 20 1 0 [mkInvIn 0 10 0 1 10 1 1 0]])
    [mkCons 7 0 0 None 0].
Definition wit_l : list areq := [mkAreq 7 0 1 1 0 1].

Theorem c17_deadlock_after_cas_refuted :
  exists d l k d1 d2, (first_cas l < k)%nat /\ (k < length (stmts_of l))%nat /\
    set_allocations_deadlock false d d l k = Ok d1 /\ set_allocations_s d l = Ok d2 /\ rps d1 <> rps d2.
Proof.
  exists wit_d, wit_l, (S (first_cas wit_l)).
  eexists. eexists.
  split; [vm_compute; lia|]. split; [vm_compute; lia|].
  split; [vm_compute; reflexivity|]. split; [vm_compute; reflexivity|].
  vm_compute. discriminate.
Qed.
Print Assumptions c17_deadlock_after_cas_refuted.

(* ================================================================ the statement-level body *)
Lemma run_stmts_app l : forall a b p,
  run_stmts l (a ++ b) p = match run_stmts l a p with Ok p' => run_stmts l b p' | Err e => Err e end.
Proof.
  induction a as [|s a IH]; intros b p; cbn [app run_stmts]; [reflexivity|].
  destruct (exec_stmt l s p); [apply IH|reflexivity].
Qed.

Lemma set_allocs_eta d : set_allocs d (allocs d) = d.
Proof. destruct d; reflexivity. Qed.
Lemma set_allocs_twice d x y : set_allocs (set_allocs d x) y = set_allocs d y.
Proof. reflexivity. Qed.
Lemma allocs_set d x : allocs (set_allocs d x) = x.
Proof. reflexivity. Qed.

Lemma filter_filter {A} (f g : A -> bool) l : filter f (filter g l) = filter (fun x => g x && f x) l.
Proof.
  induction l as [|a l IH]; cbn [filter]; [reflexivity|].
  destruct (g a); cbn [filter andb]; [destruct (f a); rewrite IH; reflexivity|exact IH].
Qed.

Lemma memZ_dedup x l : memZ x (dedup l) = memZ x l.
Proof.
  destruct (memZ x l) eqn:E.
  - apply memZ_In. apply dedup_In. apply memZ_In. exact E.
  - apply memZ_nIn. rewrite dedup_In. apply memZ_nIn. exact E.
Qed.

(* rows kept by the DELETEs of the consumers cs *)
Definition keepf (cs : list Z) (a : alloc) : bool := negb (memZ (a_cons a) cs).

Lemma keepf_cons c cs a : keepf (c :: cs) a = negb (a_cons a =? c) && keepf cs a.
Proof. unfold keepf, memZ. cbn [existsb]. apply negb_orb. Qed.

Lemma del_phase l : forall cs rest p,
  run_stmts l (map SDel cs ++ rest) p =
  run_stmts l rest (mkPst (set_allocs (p_db p) (filter (keepf cs) (allocs (p_db p)))) (p_rpg p) (p_cg p)).
Proof.
  induction cs as [|c cs IH]; intros rest p; cbn [map app].
  - rewrite filter_all_true by reflexivity. rewrite set_allocs_eta. destruct p; reflexivity.
  - cbn [run_stmts exec_stmt]. rewrite IH. cbn [p_db p_rpg p_cg].
    rewrite set_allocs_twice, allocs_set, filter_filter.
    do 3 f_equal. apply filter_ext. intro a. symmetry. apply keepf_cons.
Qed.

Definition mk_al (a : areq) : alloc := mkAlloc (q_cons a) (q_rp a) (q_rc a) (q_amt a).

Lemma ins_phase l : forall qs rest d al rpg cg,
  run_stmts l (map SIns qs ++ rest) (mkPst (set_allocs d al) rpg cg) =
  run_stmts l rest (mkPst (set_allocs d (al ++ map mk_al qs)) rpg cg).
Proof.
  induction qs as [|q qs IH]; intros rest d al rpg cg; cbn [map app].
  - rewrite app_nil_r. reflexivity.
  - cbn [run_stmts exec_stmt p_db p_rpg p_cg]. rewrite set_allocs_twice, allocs_set, IH, <- app_assoc. reflexivity.
Qed.

Lemma lookup_bump_other cur u u' : u' <> u -> lookup (bump cur u) u' = lookup cur u'.
Proof.
  intro Hne. unfold lookup, bump. induction cur as [|[k g] cur IH]; cbn [map find fst snd]; [reflexivity|].
  destruct (k =? u) eqn:E; cbn [fst].
  - destruct (k =? u') eqn:E'; [|exact IH]. apply Z.eqb_eq in E, E'. exfalso. congruence.
  - destruct (k =? u'); [reflexivity|exact IH].
Qed.

Lemma lookup_in_nodup : forall g u gen, NoDup (map fst g) -> In (u, gen) g -> lookup g u = gen.
Proof.
  induction g as [|[k x] g IH]; intros u gen ND Hin; [destruct Hin|].
  cbn [map fst] in ND. inversion ND as [|? ? Hni ND']; subst.
  unfold lookup. cbn [find fst]. destruct Hin as [E|Hin].
  - injection E as -> ->. rewrite Z.eqb_refl. reflexivity.
  - destruct (k =? u) eqn:E.
    + apply Z.eqb_eq in E. subst k. exfalso. apply Hni. apply (in_map fst) in Hin. exact Hin.
    + apply (IH u gen ND' Hin).
Qed.

Lemma first_by_nodup : forall l seen,
  NoDup (map fst (first_by seen l)) /\ forall k, In k (map fst (first_by seen l)) -> ~ In k seen.
Proof.
  induction l as [|[k g] l IH]; intros seen; cbn [first_by].
  - split; [constructor|intros k []].
  - destruct (memZ k seen) eqn:M; [apply IH|].
    destruct (IH (k :: seen)) as [ND NS]. cbn [map fst]. split.
    + constructor; [|exact ND]. intro Hin. apply (NS k Hin). left. reflexivity.
    + intros k' [<-|Hin]; [apply memZ_nIn; exact M|]. intro Hs. apply (NS k' Hin). right. exact Hs.
Qed.

Lemma casrp_phase l cg rest : forall g cur d,
  NoDup (map fst g) -> (forall u gen, In (u, gen) g -> lookup cur u = gen) ->
  run_stmts l (map SCasRp (map fst g) ++ rest) (mkPst d cur cg) =
  match cas_rps d g with
  | Ok d' => run_stmts l rest (mkPst d' (fold_left bump (map fst g) cur) cg)
  | Err e => Err e
  end.
Proof.
  induction g as [|[u gen] g IH]; intros cur d ND H; cbn [map fst app cas_rps fold_left]; [reflexivity|].
  cbn [run_stmts exec_stmt p_db p_rpg p_cg]. rewrite (H u gen (or_introl eq_refl)). unfold bind.
  destruct (incr_rp_gen d u gen) as [d1|e]; [|reflexivity].
  cbn [map fst] in ND. inversion ND as [|? ? Hni ND']; subst. apply IH; [exact ND'|].
  intros u' gen' Hin. rewrite lookup_bump_other; [apply H; right; exact Hin|].
  intros ->. apply Hni. apply (in_map fst) in Hin. exact Hin.
Qed.

Lemma cascons_phase l rpg rest : forall g cur d,
  NoDup (map fst g) -> (forall u gen, In (u, gen) g -> lookup cur u = gen) ->
  run_stmts l (map SCasCons (map fst g) ++ rest) (mkPst d rpg cur) =
  match cas_conss d g with
  | Ok d' => run_stmts l rest (mkPst d' rpg (fold_left bump (map fst g) cur))
  | Err e => Err e
  end.
Proof.
  induction g as [|[u gen] g IH]; intros cur d ND H; cbn [map fst app cas_conss fold_left]; [reflexivity|].
  cbn [run_stmts exec_stmt p_db p_rpg p_cg]. rewrite (H u gen (or_introl eq_refl)). unfold bind.
  destruct (incr_cons_gen d u gen) as [d1|e]; [|reflexivity].
  cbn [map fst] in ND. inversion ND as [|? ? Hni ND']; subst. apply IH; [exact ND'|].
  intros u' gen' Hin. rewrite lookup_bump_other; [apply H; right; exact Hin|].
  intros ->. apply Hni. apply (in_map fst) in Hin. exact Hin.
Qed.

(* everything after the DELETE phase, as a function of the working database; generations as given *)
Definition tail_of (l : list areq) : list stmt :=
  [SCheck] ++
  map SIns (filter (fun a => negb (q_amt a =? 0)) l) ++
  map SCasRp (map fst (first_by [] (map (fun a => (q_rp a, q_rpgen a)) l))) ++
  map SCasCons (map fst (first_by [] (map (fun a => (q_cons a, q_cgen a)) l))) ++ [SStray].

Lemma stmts_of_tail l : stmts_of l = map SDel (dedup (map q_cons l)) ++ tail_of l.
Proof. reflexivity. Qed.

Definition purged (d : db) (l : list areq) : db :=
  set_allocs d (filter (fun a => negb (memZ (a_cons a) (map q_cons l))) (allocs d)).

Lemma keepf_dedup l al : filter (keepf (dedup (map q_cons l))) al =
                         filter (fun a => negb (memZ (a_cons a) (map q_cons l))) al.
Proof. apply filter_ext. intro a. unfold keepf. rewrite memZ_dedup. reflexivity. Qed.

(* the whole body from any working state holding the initial generations *)
Lemma body_from l d rpg cg :
  run_stmts l (stmts_of l) (mkPst d rpg cg) = run_stmts l (tail_of l) (mkPst (purged d l) rpg cg).
Proof. rewrite stmts_of_tail, del_phase. cbn [p_db p_rpg p_cg]. rewrite keepf_dedup. reflexivity. Qed.

Lemma tail_spec l d :
  match run_stmts l (tail_of l) (mkPst (purged d l)
          (first_by [] (map (fun a => (q_rp a, q_rpgen a)) l))
          (first_by [] (map (fun a => (q_cons a, q_cgen a)) l))) with
  | Ok p => Ok (p_db p) | Err e => Err e end = set_allocations d l.
Proof.
  unfold set_allocations, tail_of. cbv zeta. fold (purged d l).
  cbn [app run_stmts exec_stmt p_db]. unfold bind at 1.
  destruct (check_capacity (purged d l) l) as [[]|e]; [|reflexivity].
  unfold purged at 1. rewrite ins_phase. fold mk_al.
  change (set_allocs (purged d l) (allocs (purged d l) ++ ?x))
    with (set_allocs d (filter (fun a => negb (memZ (a_cons a) (map q_cons l))) (allocs d) ++ x)).
  set (d2 := set_allocs d _).
  set (g1 := first_by [] (map (fun a => (q_rp a, q_rpgen a)) l)).
  set (g2 := first_by [] (map (fun a => (q_cons a, q_cgen a)) l)).
  rewrite casrp_phase; [|apply first_by_nodup|intros u gen; apply lookup_in_nodup; apply first_by_nodup].
  unfold bind at 1. destruct (cas_rps d2 g1) as [d3|e]; [|reflexivity].
  rewrite cascons_phase; [|apply first_by_nodup|intros u gen; apply lookup_in_nodup; apply first_by_nodup].
  unfold bind. destruct (cas_conss d3 g2) as [d4|e]; [|reflexivity].
  reflexivity.
Qed.

Theorem c17_statement_model : forall d l, set_allocations_s d l = set_allocations d l.
Proof.
  intros d l. unfold set_allocations_s, init_pst. rewrite body_from. apply tail_spec.
Qed.
Print Assumptions c17_statement_model.

(* ================================================================ a deadlock up to the first CAS *)
Definition pre_of (l : list areq) : list stmt :=
  map SDel (dedup (map q_cons l)) ++ [SCheck] ++ map SIns (filter (fun a => negb (q_amt a =? 0)) l).
Definition post_of (l : list areq) : list stmt :=
  map SCasRp (map fst (first_by [] (map (fun a => (q_rp a, q_rpgen a)) l))) ++
  map SCasCons (map fst (first_by [] (map (fun a => (q_cons a, q_cgen a)) l))) ++ [SStray].

Lemma stmts_split l : stmts_of l = pre_of l ++ post_of l.
Proof. unfold stmts_of, pre_of, post_of. rewrite <- !app_assoc. reflexivity. Qed.

Lemma first_cas_pre l : first_cas l = length (pre_of l).
Proof. reflexivity. Qed.

Lemma stmts_len l : (first_cas l < length (stmts_of l))%nat.
Proof.
  rewrite stmts_split, first_cas_pre, app_length. unfold post_of. rewrite !app_length. cbn [length]. lia.
Qed.

(* statements that only touch allocation rows of the consumers cs *)
Definition pre_ok (cs : list Z) (s : stmt) : Prop :=
  match s with SDel c => In c cs | SCheck => True | SIns a => In (q_cons a) cs | _ => False end.

Lemma pre_of_ok l : Forall (pre_ok (map q_cons l)) (pre_of l).
Proof.
  unfold pre_of. apply Forall_app. split; [|apply Forall_app; split].
  - apply Forall_forall. intros s Hs. apply in_map_iff in Hs. destruct Hs as [c [<- Hc]].
    cbn [pre_ok]. apply dedup_In. exact Hc.
  - constructor; [exact I|constructor].
  - apply Forall_forall. intros s Hs. apply in_map_iff in Hs. destruct Hs as [a [<- Ha]].
    cbn [pre_ok]. apply in_map. apply filter_In in Ha. tauto.
Qed.

Lemma Forall_firstn' {A} (P : A -> Prop) : forall n l, Forall P l -> Forall P (firstn n l).
Proof.
  induction n as [|n IH]; intros l H; [constructor|]. destruct l as [|x l]; [constructor|].
  inversion H; subst. cbn [firstn]. constructor; [assumption|apply IH; assumption].
Qed.

Lemma firstn_pre l k : (k <= first_cas l)%nat -> firstn k (stmts_of l) = firstn k (pre_of l).
Proof.
  intro H. rewrite stmts_split, firstn_app. rewrite first_cas_pre in H.
  replace (k - length (pre_of l))%nat with O by lia. cbn [firstn]. apply app_nil_r.
Qed.

Lemma prefix_inv l cs : forall ss p p', Forall (pre_ok cs) ss -> run_stmts l ss p = Ok p' ->
  p_rpg p' = p_rpg p /\ p_cg p' = p_cg p /\
  exists al, p_db p' = set_allocs (p_db p) al /\ filter (keepf cs) al = filter (keepf cs) (allocs (p_db p)).
Proof.
  induction ss as [|s ss IH]; intros p p' HF H.
  - cbn [run_stmts] in H. injection H as <-. split; [reflexivity|]. split; [reflexivity|].
    exists (allocs (p_db p)). split; [symmetry; apply set_allocs_eta|reflexivity].
  - inversion HF as [|? ? Hs HF']; subst. destruct s; cbn [pre_ok] in Hs; try contradiction;
      cbn [run_stmts exec_stmt] in H.
    + destruct (IH _ _ HF' H) as [H1 [H2 [al [H3 H4]]]]. cbn [p_db p_rpg p_cg] in *.
      split; [exact H1|]. split; [exact H2|]. exists al. split; [exact H3|].
      rewrite H4, allocs_set, filter_filter. apply filter_ext. intro a.
      destruct (keepf cs a) eqn:K; [|apply andb_false_r]. rewrite andb_true_r.
      apply negb_true_iff, Z.eqb_neq. intros Ec. unfold keepf in K. apply negb_memZ_In in K. apply K. rewrite Ec. exact Hs.
    + destruct (check_capacity (p_db p) l) as [u|e]; [|discriminate]. exact (IH _ _ HF' H).
    + destruct (IH _ _ HF' H) as [H1 [H2 [al [H3 H4]]]]. cbn [p_db p_rpg p_cg] in *.
      split; [exact H1|]. split; [exact H2|]. exists al. split; [exact H3|].
      rewrite H4, allocs_set, filter_app. cbn [filter]. unfold keepf at 2. cbn [a_cons].
      replace (memZ (q_cons a) cs) with true by (symmetry; apply memZ_In; exact Hs).
      cbn [negb]. apply app_nil_r.
Qed.

Lemma deadlock_prefix_ok l d k p : (k <= first_cas l)%nat ->
  run_stmts l (firstn k (stmts_of l)) (init_pst d l) = Ok p ->
  p_rpg p = p_rpg (init_pst d l) /\ p_cg p = p_cg (init_pst d l) /\ purged (p_db p) l = purged d l.
Proof.
  intros Hk H. rewrite firstn_pre in H by exact Hk.
  apply (prefix_inv l (map q_cons l)) in H; [|apply Forall_firstn'; apply pre_of_ok].
  destruct H as [H1 [H2 [al [H3 H4]]]]. split; [exact H1|]. split; [exact H2|].
  unfold purged. rewrite H3. cbn [p_db init_pst] in *. rewrite set_allocs_twice, allocs_set.
  unfold keepf in H4. rewrite H4. reflexivity.
Qed.

Lemma deadlock_prefix_err l d k e :
  run_stmts l (firstn k (stmts_of l)) (init_pst d l) = Err e -> set_allocations_s d l = Err e.
Proof.
  intro H. unfold set_allocations_s.
  pose proof (run_stmts_app l (firstn k (stmts_of l)) (skipn k (stmts_of l)) (init_pst d l)) as E.
  rewrite firstn_skipn in E. rewrite E, H. reflexivity.
Qed.

Theorem c17_deadlock_exactly_once_partial :
  forall committed d l k, (k <= first_cas l)%nat ->
    set_allocations_deadlock false committed d l k = set_allocations_s d l.
Proof.
  intros committed d l k Hk. unfold set_allocations_deadlock. cbv zeta.
  destruct (length (stmts_of l) <=? k)%nat; [reflexivity|].
  destruct (run_stmts l (firstn k (stmts_of l)) (init_pst d l)) as [p|e] eqn:E.
  - destruct (deadlock_prefix_ok l d k p Hk E) as [H1 [H2 H3]]. destruct p as [dp rg cg].
    cbn [p_db p_rpg p_cg init_pst] in H1, H2, H3. subst rg cg.
    unfold set_allocations_s, init_pst. rewrite !body_from, H3. reflexivity.
  - symmetry. eapply deadlock_prefix_err. exact E.
Qed.
Print Assumptions c17_deadlock_exactly_once_partial.

(* ================================================================ a deadlock whose transaction was rolled back *)
(* the statement of Props/C17.v (C17_deadlock_rollback) is false when the first attempt fails by itself
   (capacity check) before reaching statement k: the error of the attempt on d is returned, while the
   body on the committed state may succeed *)
Lemma c17_deadlock_rollback_counterexample :
  exists committed d l k, (k <= first_cas l)%nat /\ (k < length (stmts_of l))%nat /\
    set_allocations_deadlock true committed d l k = Err EInvalidInventory /\
    exists d2, set_allocations_s committed l = Ok d2.
Proof.
  exists wit_d, (set_invs wit_d []), wit_l, 2%nat.
  split; [vm_compute; lia|]. split; [vm_compute; lia|]. split; [vm_compute; reflexivity|].
  eexists. vm_compute. reflexivity.
Qed.

Theorem c17_deadlock_rollback_corrected :
  forall committed d l k, (k <= first_cas l)%nat -> (k < length (stmts_of l))%nat ->
    (forall e, run_stmts l (firstn k (stmts_of l)) (init_pst d l) <> Err e) ->
    set_allocations_deadlock true committed d l k = set_allocations_s committed l.
Proof.
  intros committed d l k Hk Hl Hne. unfold set_allocations_deadlock. cbv zeta.
  apply Nat.leb_gt in Hl. rewrite Hl.
  destruct (run_stmts l (firstn k (stmts_of l)) (init_pst d l)) as [p|e] eqn:E; [|exfalso; exact (Hne e eq_refl)].
  destruct (deadlock_prefix_ok l d k p Hk E) as [H1 [H2 _]]. rewrite H1, H2. reflexivity.
Qed.
Print Assumptions c17_deadlock_rollback_corrected.

(* in general: the error of the failed first attempt, or the body on the committed state *)
Theorem c17_deadlock_rollback_general :
  forall committed d l k, (k <= first_cas l)%nat -> (k < length (stmts_of l))%nat ->
    set_allocations_deadlock true committed d l k =
    match run_stmts l (firstn k (stmts_of l)) (init_pst d l) with
    | Err e => Err e
    | Ok _ => set_allocations_s committed l
    end.
Proof.
  intros committed d l k Hk Hl. unfold set_allocations_deadlock. cbv zeta.
  apply Nat.leb_gt in Hl. rewrite Hl.
  destruct (run_stmts l (firstn k (stmts_of l)) (init_pst d l)) as [p|e] eqn:E; [|reflexivity].
  destruct (deadlock_prefix_ok l d k p Hk E) as [H1 [H2 _]]. rewrite H1, H2. reflexivity.
Qed.
Print Assumptions c17_deadlock_rollback_general.

(* ================================================================ a non-retryable error in one transaction *)
Definition cleanup_state (t : tstate) : Prop :=
  match t with TCleanup _ _ | TDelRows _ _ | TDelCons _ => True | _ => False end.

(* states from which the committing transaction of the request has not been run yet *)
Definition pmb (t : tstate) : bool :=
  match t with TDone _ | TCleanup _ _ | TDelRows _ _ | TDelCons _ => false | _ => true end.

(* uuids of the consumers created so far, as the handler's locals hold them *)
Definition cr (t : tstate) : list Z :=
  match t with
  | TCons _ _ acc | TCreate _ _ _ acc | TReload _ _ _ acc => created_uuids acc
  | TObjs _ ks _ _ | TMain _ ks _ => created_uuids ks
  | _ => []
  end.

Ltac inj E := apply pair_equal_spec in E; destruct E as [<- <-].

Lemma pmb_cod us r : pmb (cleanup_or_done us r) = false.
Proof. destruct us; reflexivity. Qed.

Lemma cr_after_cons x ks : cr (after_cons x ks) = created_uuids ks.
Proof. unfold after_cons. destruct (work_items ks (x_all x)); reflexivity. Qed.

Lemma created_uuids_rev ks u : In u (created_uuids (rev ks)) <-> In u (created_uuids ks).
Proof. exact (created_rev ks u). Qed.

Lemma cr_next x rest acc u :
  In u (cr (match rest with [] => after_cons x (rev acc) | _ => TCons x rest acc end)) <-> In u (created_uuids acc).
Proof. destruct rest; [rewrite cr_after_cons; apply created_uuids_rev|reflexivity]. Qed.

Lemma cr_ri_next x : cr (match x_all x with [] => after_cons x [] | l => TCons x l [] end) = [].
Proof. destruct (x_all x); [rewrite cr_after_cons|]; reflexivity. Qed.

Lemma aux_core_nc cf v d c : core_nc d (aux_names cf v d c) /\ consumers (aux_names cf v d c) = consumers d.
Proof. unfold aux_names. destruct (38 <=? v); repeat split. Qed.

Lemma CInv_same_cons d0 d1 d2 us :
  CInv d0 d1 us -> core_nc d1 d2 -> consumers d2 = consumers d1 -> CInv d0 d2 us.
Proof.
  intros [Hn [rows [Hr H12]]] Hn' Hc. split; [eapply core_nc_trans; eassumption|].
  exists rows. split; [congruence|exact H12].
Qed.

Lemma CInv_create d0 d us row : CInv d0 d us -> find_cons d (c_uuid row) = None ->
  CInv d0 (set_consumers d (consumers d ++ [row])) (c_uuid row :: us).
Proof.
  intros [Hn [rows [Hr [H1 H2]]]] Fn. split; [exact Hn|].
  exists (rows ++ [row]). cbn [consumers set_consumers]. split; [rewrite Hr, app_assoc; reflexivity|]. split.
  - intros r Hin. apply in_app_iff in Hin. destruct Hin as [Hin|[<-|[]]]; [right; apply H1; exact Hin|left; reflexivity].
  - intros c0 Hin [Hc0|Hc0]; [|exact (H2 c0 Hin Hc0)].
    unfold find_cons in Fn. apply (find_cons_l_None _ _ Fn c0); [|congruence].
    rewrite Hr. apply in_app_iff. left. exact Hin.
Qed.

Lemma step_pm d0 d t d' t' :
  CInv d0 d (cr t) -> tstep t d = (d', t') -> pmb t' = true -> CInv d0 d' (cr t').
Proof.
  intros Hi E Hp. destruct t; cbv beta iota delta [tstep] in E.
  - (* TDone *) inj E. discriminate Hp.
  - (* TProvRead *)
    destruct (prov_target r) as [u|]; [|inj E; discriminate Hp].
    destruct (find_rp d u) as [me|]; [|inj E; discriminate Hp].
    destruct (prov_precheck r me d); inj E; [discriminate Hp|exact Hi].
  - (* TProvWrite *) destruct (prov_write r g d). inj E. discriminate Hp.
  - (* TRi *)
    destruct todo as [|ri rest]; [inj E; rewrite cr_ri_next; exact Hi|].
    destruct (find_rp d (ri_rp ri)) as [me|]; [|inj E; discriminate Hp].
    destruct (negb (ri_gen ri =? rp_gen me)); inj E; [discriminate Hp|].
    destruct rest; [rewrite cr_ri_next|]; exact Hi.
  - (* TCons *)
    destruct todo as [|c rest].
    { inj E. eapply CInv_ext; [|exact Hi]. intro u. rewrite cr_after_cons. symmetry. apply created_uuids_rev. }
    cbv zeta in E. destruct (rq_attrs (x_cf x) (x_v x) c) as [[pj us] ty].
    destruct (aux_core_nc (x_cf x) (x_v x) d c) as [Ha1 Ha2].
    assert (Hi' : CInv d0 (aux_names (x_cf x) (x_v x) d c) (created_uuids acc))
      by (eapply CInv_same_cons; [exact Hi|exact Ha1|exact Ha2]).
    destruct (find_cons d (ci_uuid c)) as [k|].
    + destruct ((28 <=? x_v x) && negb (oeqb (Some (c_gen k)) (ci_gen c))); inj E;
        [rewrite pmb_cod in Hp; discriminate Hp|].
      eapply CInv_ext; [|exact Hi']. intro u. rewrite cr_next. reflexivity.
    + destruct ((28 <=? x_v x) && match ci_gen c with Some _ => true | None => false end); inj E;
        [rewrite pmb_cod in Hp; discriminate Hp|exact Hi'].
  - (* TCreate *)
    destruct (rq_attrs (x_cf x) (x_v x) c) as [[pj us] ty].
    destruct (find_cons d (ci_uuid c)) as [k|] eqn:Ef; inj E; [exact Hi|].
    eapply CInv_ext; [|apply (CInv_create d0 d (created_uuids acc) (mkCons (ci_uuid c) pj us ty 0) Hi Ef)].
    intro u. rewrite cr_next. reflexivity.
  - (* TReload *)
    destruct (rq_attrs (x_cf x) (x_v x) c) as [[pj us] ty].
    destruct (find_cons d (ci_uuid c)) as [k|]; [|inj E; rewrite pmb_cod in Hp; discriminate Hp].
    destruct (28 <=? x_v x); inj E; [rewrite pmb_cod in Hp; discriminate Hp|].
    eapply CInv_ext; [|exact Hi]. intro u. rewrite cr_next. reflexivity.
  - (* TObjs *)
    destruct todo as [|w rest]; [inj E; exact Hi|]. cbv zeta in E. destruct w as [k|k a].
    + inj E. destruct rest; exact Hi.
    + destruct (find_rp d (ai_rp a)); inj E; [destruct rest; exact Hi|rewrite pmb_cod in Hp; discriminate Hp].
  - (* TMain *) destruct (main_txn x ks objs d); inj E; rewrite pmb_cod in Hp; discriminate Hp.
  - (* TCleanup *) destruct todo as [|u [|u2 rest]]; inj E; discriminate Hp.
  - (* TDelRead *) destruct (wipe_list d c); inj E; discriminate Hp.
  - (* TDelRows *) inj E. discriminate Hp.
  - (* TDelCons *) inj E. discriminate Hp.
Qed.

Lemma step_npm t d d' t' : pmb t = false -> tstep t d = (d', t') -> pmb t' = false.
Proof.
  intros Hp E. destruct t; try discriminate Hp; cbn [tstep] in E.
  - inj E. reflexivity.
  - destruct todo as [|u [|u2 rest]]; inj E; reflexivity.
  - inj E. reflexivity.
  - inj E. reflexivity.
Qed.

Lemma run_thread_done f r d : run_thread f (TDone r) d = (d, TDone r).
Proof. destruct f; reflexivity. Qed.

Lemma run_thread_S f t d : pmb t = true ->
  run_thread (S f) t d = let '(d', t') := tstep t d in run_thread f t' d'.
Proof. intro H. destruct t; try discriminate H; reflexivity. Qed.

Lemma run_faulty_S f j t d : pmb t = true ->
  run_faulty (S f) j t d =
  match j with
  | O => let '(d', t') := tstep_fail t d in run_thread f t' d'
  | S j' => let '(d', t') := tstep t d in run_faulty f j' t' d'
  end.
Proof. intro H. destruct t; try discriminate H; reflexivity. Qed.

Lemma run_npm : forall n t d, pmb t = false -> pmb (snd (run_thread n t d)) = false.
Proof.
  induction n as [|n IH]; intros t d H; [exact H|].
  destruct t; try discriminate H; cbn [run_thread]; try exact H.
  all: match goal with |- context [tstep ?t ?d] => destruct (tstep t d) as [d1 t1] eqn:E end;
    apply IH; eapply step_npm; [|exact E]; reflexivity.
Qed.

Lemma tstep_fail_pm t d : pmb t = true -> tstep_fail t d = (d, cleanup_or_done (cr t) (err 500 C_DEFAULT)).
Proof. intro H. destruct t; try discriminate H; reflexivity. Qed.

(* the clean-up tail *)
Definition dci1 (d : db) (u : Z) : db := delete_consumers_if_no_allocations d [u].

Lemma cleanup_run1 : forall f us r d d' rs,
  run_thread f (TCleanup us r) d = (d', TDone rs) -> rs = r /\ d' = fold_left dci1 us d.
Proof.
  induction f as [|f IH]; intros us r d d' rs H; cbn [run_thread tstep] in H; [discriminate H|].
  destruct us as [|u [|u2 rest]].
  - rewrite run_thread_done in H. injection H as <- <-. split; reflexivity.
  - rewrite run_thread_done in H. injection H as <- <-. split; reflexivity.
  - apply IH in H. exact H.
Qed.

Lemma cod_run f us r d d' rs :
  run_thread f (cleanup_or_done us r) d = (d', TDone rs) -> rs = r /\ d' = fold_left dci1 us d.
Proof.
  destruct us as [|u us]; cbn [cleanup_or_done].
  - rewrite run_thread_done. intro H. injection H as <- <-. split; reflexivity.
  - apply cleanup_run1.
Qed.

Lemma cleanup_fold d0 : ConsIff d0 -> forall us d rows,
  core_nc d0 d -> consumers d = consumers d0 ++ rows ->
  (forall c, In c (consumers d0) -> ~ In (c_uuid c) us) ->
  exists rows', core_nc d0 (fold_left dci1 us d) /\ consumers (fold_left dci1 us d) = consumers d0 ++ rows' /\
                (forall row, In row rows' -> In row rows /\ ~ In (c_uuid row) us).
Proof.
  intros HC. induction us as [|u us IH]; intros d rows Hn Hc Hd; cbn [fold_left].
  - exists rows. split; [exact Hn|]. split; [exact Hc|]. intros row H. split; [exact H|intros []].
  - assert (Hal : allocs d = allocs d0) by (destruct Hn as (_ & _ & H & _); exact H).
    assert (Hno : existsb (fun a => a_cons a =? u) (allocs d) = false).
    { destruct (existsb (fun a => a_cons a =? u) (allocs d)) eqn:Ex; [exfalso|reflexivity].
      apply existsb_exists in Ex. destruct Ex as [a [Ha Ea]]. apply Z.eqb_eq in Ea. rewrite Hal in Ha.
      destruct (proj2 (HC u)) as [k [Hk Ek]]; [exists a; split; assumption|].
      apply (Hd k Hk). left. symmetry. exact Ek. }
    destruct (IH (dci1 d u) (filter (fun row => negb (c_uuid row =? u)) rows)) as [rows' [G1 [G2 G3]]].
    + unfold dci1, delete_consumers_if_no_allocations, core_nc in *. cbn. exact Hn.
    + unfold dci1, delete_consumers_if_no_allocations. cbn [consumers set_consumers]. rewrite Hc, filter_app. f_equal.
      * apply filter_all_true. intros c Hin. apply negb_true_iff, andb_false_iff. left.
        unfold memZ. cbn [existsb]. rewrite orb_false_r. apply Z.eqb_neq. intro E.
        apply (Hd c Hin). left. symmetry. exact E.
      * apply filter_ext. intro row. unfold memZ. cbn [existsb]. rewrite orb_false_r.
        destruct (c_uuid row =? u) eqn:E; [|reflexivity]. apply Z.eqb_eq in E. rewrite E, Hno. reflexivity.
    + intros c Hin Hu. apply (Hd c Hin). right. exact Hu.
    + exists rows'. split; [exact G1|]. split; [exact G2|]. intros row Hrow.
      destruct (G3 row Hrow) as [Hf Hnu]. apply filter_In in Hf. destruct Hf as [Hin Hne].
      split; [exact Hin|]. intros [Eu|Hu]; [|exact (Hnu Hu)].
      apply negb_true_iff, Z.eqb_neq in Hne. apply Hne. symmetry. exact Eu.
Qed.

Lemma fail_tail d0 f us r d d' rs : ConsIff d0 -> CInv d0 d us ->
  run_thread f (cleanup_or_done us r) d = (d', TDone rs) -> core_eq d0 d' /\ rs = r.
Proof.
  intros HC [Hn [rows [Hr [H1 H2]]]] H. apply cod_run in H. destruct H as [-> ->]. split; [|reflexivity].
  destruct (cleanup_fold d0 HC us d rows Hn Hr H2) as [rows' [G1 [G2 G3]]].
  apply core_nc_cons_eq; [exact G1|]. rewrite G2.
  destruct rows' as [|row rows']; [apply app_nil_r|]. exfalso.
  destruct (G3 row (or_introl eq_refl)) as [Hin Hnu]. apply Hnu. apply H1. exact Hin.
Qed.

Lemma faulty_gen d0 : ConsIff d0 -> forall fuel j t d d' rs,
  CInv d0 d (cr t) -> pmb (snd (run_thread j t d)) = true ->
  run_faulty fuel j t d = (d', TDone rs) -> core_eq d0 d' /\ status rs = 500.
Proof.
  intros HC. induction fuel as [|fuel IH]; intros j t d d' rs Hi Hp H.
  - cbn [run_faulty] in H. injection H as <- ->. rewrite run_thread_done in Hp. discriminate Hp.
  - assert (Ht : pmb t = true).
    { destruct (pmb t) eqn:Et; [reflexivity|]. rewrite (run_npm j t d Et) in Hp. discriminate Hp. }
    rewrite (run_faulty_S fuel j t d Ht) in H. destruct j as [|j].
    + rewrite (tstep_fail_pm t d Ht) in H.
      destruct (fail_tail d0 fuel (cr t) (err 500 C_DEFAULT) d d' rs HC Hi H) as [G ->]. split; [exact G|reflexivity].
    + rewrite (run_thread_S j t d Ht) in Hp. destruct (tstep t d) as [d1 t1] eqn:Es.
      assert (Ht1 : pmb t1 = true).
      { destruct (pmb t1) eqn:Et; [reflexivity|]. rewrite (run_npm j t1 d1 Et) in Hp. discriminate Hp. }
      apply (IH j t1 d1 d' rs); [|exact Hp|exact H]. eapply step_pm; eassumption.
Qed.

Lemma cr_tinit cf r : cr (tinit cf r) = [].
Proof.
  destruct r; cbn [tinit prov_target]; try reflexivity;
    try (destruct (prov_version_gate _); reflexivity);
    match goal with |- context [?a <? ?b] => destruct (a <? b) end; reflexivity.
Qed.

Lemma pmb_of t : ~ cleanup_state t -> (forall rs, t <> TDone rs) -> pmb t = true.
Proof.
  intros H1 H2. destruct t; try reflexivity; try (exfalso; apply H1; exact I).
  exfalso. exact (H2 r eq_refl).
Qed.

(* for every fuel: if the request finishes, it finishes with 500 and the core tables as before *)
Theorem c17_fatal_clean_anyfuel :
  forall fuel cf r j d d' rs, ConsIff d ->
    run_faulty fuel j (tinit cf r) d = (d', TDone rs) ->
    ~ cleanup_state (snd (run_thread j (tinit cf r) d)) ->
    (forall rs, snd (run_thread j (tinit cf r) d) <> TDone rs) ->
    core_eq d d' /\ status rs = 500.
Proof.
  intros fuel cf r j d d' rs HC H H1 H2.
  apply (faulty_gen d HC fuel j (tinit cf r) d d' rs); [|apply pmb_of; assumption|exact H].
  rewrite cr_tinit. apply (CInv_init d).
Qed.
Print Assumptions c17_fatal_clean_anyfuel.

(* the statement of Props/C17.v: the request is assumed to have finished within the fuel (the version with
   the literal fuel 1000 and no such premise is false, see c17_fatal_clean_fuel_counterexample) *)
Theorem c17_fatal_clean_corrected :
  forall cf r fuel j d d' rs, RI d -> ConsIff d -> req_wf r = true ->
    run_faulty fuel j (tinit cf r) d = (d', TDone rs) ->
    ~ cleanup_state (snd (run_thread j (tinit cf r) d)) ->
    (forall rs0, snd (run_thread j (tinit cf r) d) <> TDone rs0) ->
    core_eq d d' /\ status rs = 500.
Proof.
  intros cf r fuel j d d' rs _ HC _ H H1 H2.
  exact (c17_fatal_clean_anyfuel fuel cf r j d d' rs HC H H1 H2).
Qed.
Print Assumptions c17_fatal_clean_corrected.

(* with the fixed fuel 1000 a request naming 600 new consumers refutes the unconditional statement:
   a fault index beyond the fuel is never injected (500 consumers stay), and a fault at transaction 991
   leaves no fuel for the clean-up tail (486 consumers stay) *)
Definition big_req : req :=
  AllocPost 20 (map (fun i => mkConsIn (Z.of_nat i) [] (Some 1) (Some 1) None None) (seq 1 600)).

Lemma c17_fatal_clean_fuel_counterexample :
  req_wf big_req = true /\
  (forall j, j = 1100%nat \/ j = 990%nat ->
     let t := snd (run_thread j (tinit (mkCfg 0 0) big_req) db0) in
     ~ cleanup_state t /\ (forall rs, t <> TDone rs)) /\
  length (consumers (fst (run_faulty 1000 1100 (tinit (mkCfg 0 0) big_req) db0))) = 500%nat /\
  length (consumers (fst (run_faulty 1000 990 (tinit (mkCfg 0 0) big_req) db0))) = 486%nat /\
  consumers db0 = [].
Proof.
  split; [vm_compute; reflexivity|]. split.
  - intros j [-> | ->]; cbv zeta.
    + assert (E : exists x todo acc, snd (run_thread 1100 (tinit (mkCfg 0 0) big_req) db0) = TCons x todo acc)
        by (vm_compute; do 3 eexists; reflexivity).
      destruct E as [x [todo [acc ->]]]. split; [intros []|discriminate].
    + assert (E : exists x todo acc, snd (run_thread 990 (tinit (mkCfg 0 0) big_req) db0) = TCons x todo acc)
        by (vm_compute; do 3 eexists; reflexivity).
      destruct E as [x [todo [acc ->]]]. split; [intros []|discriminate].
  - split; [vm_compute; reflexivity|]. split; [vm_compute; reflexivity|reflexivity].
Qed.
