(* C18 - a crash after any number of committed transactions of a request leaves a state satisfying
   the core invariants.  Proofs of the statements in Props/C18.v. *)
From PV Require Import Proofs.Defs Model.Crash.
From PV Require Proofs.C01 Proofs.C08 Proofs.C09 Proofs.C12.

Ltac brk H :=
  repeat match type of H with
         | context [match ?x with _ => _ end] => destruct x eqn:?
         end.

(* ================================================================ crash_after *)
Lemma crash_after_fin cf n c d rs : cfinished c = Some rs -> crash_after cf n c d = (d, c).
Proof. intro H. destruct n; cbn [crash_after]; [reflexivity|]. rewrite H. reflexivity. Qed.

Lemma crash_after_add cf n : forall k c d,
  crash_after cf (n + k) c d =
  crash_after cf k (snd (crash_after cf n c d)) (fst (crash_after cf n c d)).
Proof.
  induction n as [|n IH]; intros k c d; [reflexivity|].
  cbn [plus crash_after]. destruct (cfinished c) as [rs|] eqn:E.
  - cbn [fst snd]. symmetry. eapply crash_after_fin; exact E.
  - destruct (cstep cf c d) as [d1 c1]. apply IH.
Qed.

(* ================================================================ all or nothing *)
Definition simple (r : req) : Prop :=
  match r with
  | RpCreate _ _ _ _ | RpUpdate _ _ _ _ | RpDelete _ | RcCreate _ _ | RcPut _ _ | RcRename _ _ _ | RcDelete _ _
  | TraitPut _ _ | TraitDelete _ _ => True
  | _ => False
  end.

Definition cone_ok (c : cstate) : Prop := match c with COne r => simple r | _ => True end.

Lemma cinit_cone_ok cf r : cone_ok (cinit cf r).
Proof. destruct r; exact I. Qed.

(* states after the committing transaction of a successful request *)
Definition tailp (c : cstate) : Prop :=
  match c with
  | CFin rs | CConc (TDone rs) | CConc (TCleanup _ rs) => status rs < 300
  | CConc (TDelCons _) => True
  | _ => False
  end.

Definition tail_len (c : cstate) : nat :=
  match c with
  | CConc (TCleanup todo _) => S (length todo)
  | CConc (TDelCons _) => 1
  | _ => 0
  end.

Lemma simple_step_cases cf d r d' rs : simple r -> step cf d r = (d', rs) -> d' = d \/ status rs < 300.
Proof.
  intros Hs H. destruct r; try contradiction; cbn [step] in H.
  - unfold h_rp_create in H. brk H; injection H as <- <-; auto; right; cbn; lia.
  - unfold h_rp_update in H. brk H; injection H as <- <-; auto; right; cbn; lia.
  - unfold h_rp_delete in H. brk H; injection H as <- <-; auto; right; cbn; lia.
  - unfold h_rc_create in H. brk H; injection H as <- <-; auto; right; cbn; lia.
  - unfold h_rc_put in H. brk H; injection H as <- <-; auto; right; cbn; lia.
  - unfold h_rc_rename, h_rc_put in H. brk H; injection H as <- <-; auto; right; cbn; lia.
  - unfold h_rc_delete in H. brk H; injection H as <- <-; auto; right; cbn; lia.
  - unfold h_trait_put in H. brk H; injection H as <- <-; auto; right; cbn; lia.
  - unfold h_trait_delete in H. brk H; injection H as <- <-; auto; right; cbn; lia.
Qed.

Lemma prov_write_cases r g d d' rs : prov_write r g d = (d', rs) -> d' = d \/ status rs < 300.
Proof.
  intro H. destruct r; cbn [prov_write] in H; brk H; injection H as <- <-; auto; right; cbn; lia.
Qed.

Lemma heavy_aux cf v d c : heavy (aux_names cf v d c) = heavy d.
Proof. unfold aux_names. destruct (38 <=? v); reflexivity. Qed.

Lemma tailp_cleanup us rs : status rs < 300 -> tailp (CConc (cleanup_or_done us rs)).
Proof. intro H. destruct us; exact H. Qed.

Lemma cstep_heavy cf c d d' c' : cone_ok c -> cstep cf c d = (d', c') -> heavy d' = heavy d \/ tailp c'.
Proof.
  intros Hok H. destruct c as [t|r|rs]; cbn [cstep] in H.
  - destruct (tstep t d) as [d1 t1] eqn:E. injection H as <- <-.
    destruct t; cbn [tstep] in E.
    + injection E as <- <-. auto.
    + brk E; injection E as <- <-; auto.
    + destruct (prov_write r g d) as [d2 rs] eqn:Ew. injection E as <- <-.
      apply prov_write_cases in Ew. destruct Ew as [->|Hs]; [auto|right; exact Hs].
    + brk E; injection E as <- <-; auto.
    + destruct todo as [|c rest]; [injection E as <- <-; auto|].
      cbv zeta in E. destruct (rq_attrs (x_cf x) (x_v x) c) as [[pj us] ty].
      brk E; injection E as <- <-; left; apply heavy_aux.
    + destruct (rq_attrs (x_cf x) (x_v x) c) as [[pj us] ty].
      brk E; injection E as <- <-; left; reflexivity.
    + destruct (rq_attrs (x_cf x) (x_v x) c) as [[pj us] ty].
      brk E; injection E as <- <-; left; reflexivity.
    + cbv zeta in E. brk E; injection E as <- <-; auto.
    + destruct (main_txn x ks objs d) as [d2|e]; injection E as <- <-.
      * right. apply tailp_cleanup. cbn. lia.
      * auto.
    + destruct todo as [|u rest]; injection E as <- <-; left; reflexivity.
    + brk E; injection E as <- <-; auto.
    + injection E as <- <-. right. exact I.
    + injection E as <- <-. left. reflexivity.
  - destruct (step cf d r) as [d1 rs] eqn:E. injection H as <- <-.
    apply simple_step_cases in E; [|exact Hok]. destruct E as [->|Hs]; [auto|right; exact Hs].
  - injection H as <- <-. auto.
Qed.

Lemma cstep_cone_ok cf c d d' c' : cstep cf c d = (d', c') -> cone_ok c'.
Proof.
  intro H. destruct c; cbn [cstep] in H.
  - destruct (tstep t d). injection H as <- <-. exact I.
  - destruct (step cf d r). injection H as <- <-. exact I.
  - injection H as <- <-. exact I.
Qed.

Lemma tail_step cf c d d' c' : tailp c -> cstep cf c d = (d', c') ->
  heavy d' = heavy d /\ tailp c' /\ (cfinished c = None -> (tail_len c' < tail_len c)%nat).
Proof.
  intros Ht H. destruct c as [t|r|rs]; cbn [cstep] in H; [|contradiction|].
  - destruct t; cbn [tailp] in Ht; try contradiction; cbn [tstep] in H.
    + injection H as <- <-. split; [reflexivity|]. split; [exact Ht|]. cbn. discriminate.
    + destruct todo as [|u rest]; [|destruct rest]; injection H as <- <-;
        (split; [reflexivity|]; split; [exact Ht|]; intros _; cbn; lia).
    + injection H as <- <-. split; [reflexivity|]. split; [cbn; lia|]. intros _. cbn. lia.
  - injection H as <- <-. split; [reflexivity|]. split; [exact Ht|]. cbn. discriminate.
Qed.

Lemma tail_finish cf : forall k c d, tailp c -> (tail_len c <= k)%nat ->
  heavy (fst (crash_after cf k c d)) = heavy d /\
  exists rs, cfinished (snd (crash_after cf k c d)) = Some rs /\ status rs < 300.
Proof.
  induction k as [|k IH]; intros c d Ht Hl.
  - cbn [crash_after fst snd]. split; [reflexivity|].
    destruct c as [t|r|rs]; [destruct t; cbn [tailp] in Ht; try contradiction; cbn in Hl; try lia|contradiction|];
      (eexists; split; [reflexivity|exact Ht]).
  - cbn [crash_after]. destruct (cfinished c) as [rs|] eqn:E.
    + cbn [fst snd]. split; [reflexivity|]. exists rs. split; [exact E|].
      destruct c as [t|r|rs']; [destruct t; try discriminate|discriminate|]; injection E as <-; exact Ht.
    + destruct (cstep cf c d) as [d1 c1] eqn:Es.
      destruct (tail_step cf c d d1 c1 Ht Es) as [Hh [Ht1 Hlt]]. specialize (Hlt E).
      destruct (IH c1 d1 Ht1) as [H1 H2]; [lia|]. split; [congruence|exact H2].
Qed.

Lemma tail_keep cf : forall n c d, tailp c -> tailp (snd (crash_after cf n c d)).
Proof.
  induction n as [|n IH]; intros c d Ht; [exact Ht|]. cbn [crash_after].
  destruct (cfinished c); [exact Ht|]. destruct (cstep cf c d) as [d1 c1] eqn:E.
  apply IH. eapply tail_step; eassumption.
Qed.

Lemma crash_heavy cf : forall n c d, cone_ok c ->
  heavy (fst (crash_after cf n c d)) = heavy d \/ tailp (snd (crash_after cf n c d)).
Proof.
  induction n as [|n IH]; intros c d Hok; [left; reflexivity|]. cbn [crash_after].
  destruct (cfinished c); [left; reflexivity|]. destruct (cstep cf c d) as [d1 c1] eqn:E.
  destruct (cstep_heavy cf c d d1 c1 Hok E) as [Hh|Ht].
  - destruct (IH c1 d1 (cstep_cone_ok cf c d d1 c1 E)) as [H|H]; [left; congruence|right; exact H].
  - right. apply tail_keep. exact Ht.
Qed.

Theorem c18_all_or_nothing :
  forall cf r n d, req_wf r = true ->
    let d' := fst (crash_after cf n (cinit cf r) d) in
    heavy d' = heavy d \/ exists m, heavy d' = heavy (fst (crash_after cf m (cinit cf r) d)) /\
                              exists rs, cfinished (snd (crash_after cf m (cinit cf r) d)) = Some rs /\ status rs < 300.
Proof.
  intros cf r n d _. cbv zeta.
  destruct (crash_heavy cf n (cinit cf r) d (cinit_cone_ok cf r)) as [H|H]; [left; exact H|right].
  set (c1 := snd (crash_after cf n (cinit cf r) d)) in *.
  set (d1 := fst (crash_after cf n (cinit cf r) d)).
  destruct (tail_finish cf (tail_len c1) c1 d1 H (le_n _)) as [Hh [rs [Hf Hs]]].
  exists (n + tail_len c1)%nat. rewrite crash_after_add. fold c1 d1.
  split; [symmetry; exact Hh|]. exists rs. split; [exact Hf|exact Hs].
Qed.
Print Assumptions c18_all_or_nothing.

(* ================================================================ the request's own thread states *)
Notation consk := C08.consk.
Notation rpk := C08.rpk.
Notation invk := C08.invk.

Lemma aux_consumers cf v d c : consumers (aux_names cf v d c) = consumers d.
Proof. unfold aux_names. destruct (38 <=? v); reflexivity. Qed.

Section Inv.
Variable cf : cfg.
Variable r0 : req.
Variable N : Z -> Prop.       (* consumers the request names *)
Variable IC : Z -> Prop.      (* providers whose inventory the request may change *)

Definition x_ok (x : actx) : Prop :=
  (forall c, In c (x_all x) -> N (ci_uuid c) /\ cons_in_wf c = true) /\
  (x_kind x = KReshape -> forall u, In u (map ri_rp (x_ri x)) -> IC u).
Definition k_ok (d : db) (k : cobj) : Prop := N (co_uuid k) /\ In (co_uuid k) (consk d).
Definition q_ok (d : db) (q : areq) : Prop := N (q_cons q) /\ In (q_cons q) (consk d) /\ 0 <= q_amt q.
Definition w_ok (d : db) (w : witem) : Prop :=
  match w with WWipe k => N (co_uuid k) | WRp k a => k_ok d k /\ alloc_in_wf a = true end.
Definition pw_ok (d : db) (r : req) (g : Z) : Prop :=
  r = r0 /\ prov_version_gate r = None /\
  exists u me, prov_target r = Some u /\ find_rp d u = Some me /\ rp_gen me = g /\ prov_precheck r me d = None.

Definition tinv (d : db) (t : tstate) : Prop :=
  match t with
  | TDone _ | TCleanup _ _ | TDelCons _ => True
  | TProvRead r => r = r0 /\ prov_version_gate r = None
  | TProvWrite r g => pw_ok d r g
  | TRi x _ => x_ok x
  | TCons x todo acc => x_ok x /\ incl todo (x_all x) /\ Forall (k_ok d) acc
  | TCreate x c todo acc | TReload x c todo acc =>
      x_ok x /\ In c (x_all x) /\ incl todo (x_all x) /\ Forall (k_ok d) acc
  | TObjs x _ todo objs => x_ok x /\ Forall (w_ok d) todo /\ Forall (q_ok d) objs
  | TMain x _ objs => x_ok x /\ Forall (q_ok d) objs
  | TDelRead c => N c
  | TDelRows c rows => N c /\ Forall (fun a => a_cons a = c) rows
  end.

(* the database changes a transaction of the request can make *)
Inductive tclass (d d' : db) : Prop :=
| tc_same : d' = d -> tclass d d'
| tc_aux cf' v c : d' = aux_names cf' v d c -> tclass d d'
| tc_create row : N (c_uuid row) -> d' = set_consumers d (consumers d ++ [row]) -> tclass d d'
| tc_dcina us : d' = delete_consumers_if_no_allocations d us -> tclass d d'
| tc_delrows c rows : N c -> Forall (fun a => a_cons a = c) rows ->
    d' = set_allocs d (filter (fun a => negb (existsb (fun b => (a_cons b =? a_cons a) && (a_rp b =? a_rp a) &&
                                                   (a_rc b =? a_rc a) && (a_used b =? a_used a)) rows)) (allocs d)) ->
    tclass d d'
| tc_prov g : pw_ok d r0 g -> d' = fst (prov_write r0 g d) -> tclass d d'
| tc_main x ks objs : x_ok x -> Forall (q_ok d) objs -> main_txn x ks objs d = Ok d' -> tclass d d'
| tc_one : simple r0 -> d' = fst (step cf d r0) -> tclass d d'.

Lemma tinv_cod d us rs : tinv d (cleanup_or_done us rs).
Proof. destruct us; exact I. Qed.

Lemma k_ok_mono d d' k : incl (consk d) (consk d') -> k_ok d k -> k_ok d' k.
Proof. intros Hi [H1 H2]. split; [exact H1|apply Hi; exact H2]. Qed.

Lemma work_items_ok d : forall ks l, Forall (k_ok d) ks -> (forall c, In c l -> cons_in_wf c = true) ->
  Forall (w_ok d) (work_items ks l).
Proof.
  induction ks as [|k ks IH]; intros l Hk Hl; destruct l as [|c l]; cbn [work_items]; try constructor.
  inversion Hk as [|? ? Hk1 Hk2]; subst.
  assert (Hc : cons_in_wf c = true) by (apply Hl; left; reflexivity).
  assert (IH' : Forall (w_ok d) (work_items ks l)) by (apply IH; [exact Hk2|intros; apply Hl; right; assumption]).
  destruct (ci_allocs c) as [|a al] eqn:E.
  - constructor; [exact (proj1 Hk1)|exact IH'].
  - apply Forall_app. split; [|exact IH']. apply Forall_forall. intros w Hw.
    apply in_map_iff in Hw. destruct Hw as [a' [<- Ha']]. split; [exact Hk1|].
    unfold cons_in_wf in Hc. apply andb_true_iff in Hc. destruct Hc as [Hc _].
    rewrite forallb_forall in Hc. apply Hc. rewrite E. exact Ha'.
Qed.

Lemma tinv_after_cons d x ks : x_ok x -> Forall (k_ok d) ks -> tinv d (after_cons x ks).
Proof.
  intros Hx Hk. unfold after_cons.
  pose proof (work_items_ok d ks (x_all x) Hk (fun c Hc => proj2 (proj1 Hx c Hc))) as Hw.
  destruct (work_items ks (x_all x)) as [|w ws]; cbn [tinv]; auto.
Qed.

Lemma tinv_cons_next d x rest acc : x_ok x -> incl rest (x_all x) -> Forall (k_ok d) acc ->
  tinv d (match rest with [] => after_cons x (rev acc) | _ => TCons x rest acc end).
Proof.
  intros Hx Hi Hk. destruct rest.
  - apply tinv_after_cons; [exact Hx|]. apply Forall_rev. exact Hk.
  - cbn [tinv]. auto.
Qed.

Ltac inj E := apply pair_equal_spec in E; destruct E as [<- <-].
Ltac cons_next :=
  lazymatch goal with
  | |- tinv ?d (match ?rest with [] => after_cons ?x (rev ?a) | _ => _ end) => apply (tinv_cons_next d x rest a)
  end.

Lemma tinv_ri_next d x : x_ok x ->
  tinv d (match x_all x with [] => after_cons x [] | l => TCons x l [] end).
Proof.
  intro Hx. destruct (x_all x) as [|c l] eqn:E.
  - apply tinv_after_cons; [exact Hx|constructor].
  - cbn [tinv]. split; [exact Hx|]. split; [rewrite E; apply incl_refl|constructor].
Qed.

Lemma find_cons_consk d u k : find_cons d u = Some k -> c_uuid k = u /\ In u (consk d).
Proof.
  intro H. split.
  - apply C08.find_cons_l_Some in H. tauto.
  - apply C08.cons_in_iff. eauto.
Qed.

Lemma wipe_list_ok d c q : N c -> In q (wipe_list d c) -> N (q_cons q) /\ In (q_cons q) (consk d) /\ q_amt q = 0.
Proof.
  intros Hn Hq. pose proof (C08.wipe_list_spec d c q Hq) as [_ [Hc Ha]].
  unfold wipe_list in Hq. destruct (find_cons d c) as [k|] eqn:E; [|contradiction].
  apply find_cons_consk in E. rewrite Hc. tauto.
Qed.

Lemma alloc_in_wf_amt a y : alloc_in_wf a = true -> In y (ai_res a) -> 1 <= snd y.
Proof.
  unfold alloc_in_wf. intros H Hy. apply andb_true_iff in H. destruct H as [H _].
  apply andb_true_iff in H. destruct H as [H _]. rewrite forallb_forall in H.
  apply Z.leb_le. apply H. exact Hy.
Qed.

Lemma tstep_inv d t d' t' : tinv d t -> tstep t d = (d', t') -> tclass d d' /\ tinv d' t'.
Proof.
  intros Hi E. destruct t; cbv beta iota delta [tstep] in E; cbn [tinv] in Hi.
  - (* TDone *) inj E. split; [apply tc_same; reflexivity|exact I].
  - (* TProvRead *) destruct Hi as [-> Hg].
    destruct (prov_target r0) as [u|] eqn:Et; [|inj E; split; [apply tc_same; reflexivity|exact I]].
    destruct (find_rp d u) as [me|] eqn:Ef; [|inj E; split; [apply tc_same; reflexivity|exact I]].
    destruct (prov_precheck r0 me d) as [e|] eqn:Ep; inj E;
      (split; [apply tc_same; reflexivity|]); [exact I|].
    cbn [tinv]. split; [reflexivity|]. split; [exact Hg|]. exists u, me. auto.
  - (* TProvWrite *) destruct (prov_write r g d) as [d2 rs] eqn:Ew. inj E.
    pose proof Hi as [-> _]. split; [|exact I]. apply (tc_prov d d2 g Hi). rewrite Ew. reflexivity.
  - (* TRi *)
    destruct todo as [|ri rest]; [inj E; split; [apply tc_same; reflexivity|apply tinv_ri_next; exact Hi]|].
    destruct (find_rp d (ri_rp ri)) as [me|]; [|inj E; split; [apply tc_same; reflexivity|exact I]].
    destruct (negb (ri_gen ri =? rp_gen me)); inj E; (split; [apply tc_same; reflexivity|]); [exact I|].
    destruct rest; [apply tinv_ri_next; exact Hi|exact Hi].
  - (* TCons *) destruct Hi as [Hx [Hin Hk]].
    destruct todo as [|c rest].
    { inj E. split; [apply tc_same; reflexivity|].
      apply tinv_after_cons; [exact Hx|apply Forall_rev; exact Hk]. }
    cbv zeta in E. destruct (rq_attrs (x_cf x) (x_v x) c) as [[pj us] ty].
    assert (Hc : In c (x_all x)) by (apply Hin; left; reflexivity).
    assert (Hrest : incl rest (x_all x)) by (intros y Hy; apply Hin; right; exact Hy).
    assert (Hk' : Forall (k_ok (aux_names (x_cf x) (x_v x) d c)) acc).
    { eapply Forall_impl; [|exact Hk]. intros k. apply k_ok_mono. unfold consk. rewrite aux_consumers. apply incl_refl. }
    destruct (find_cons d (ci_uuid c)) as [k|] eqn:Ef.
    + destruct ((28 <=? x_v x) && negb (oeqb (Some (c_gen k)) (ci_gen c))); inj E;
        (split; [eapply tc_aux; reflexivity|]); [apply tinv_cod|].
      cons_next; [exact Hx|exact Hrest|]. constructor; [|exact Hk'].
      apply find_cons_consk in Ef. destruct Ef as [Eu Ein]. split; cbn [co_uuid]; rewrite Eu.
      * apply (proj1 Hx c Hc).
      * unfold consk. rewrite aux_consumers. exact Ein.
    + destruct ((28 <=? x_v x) && match ci_gen c with Some _ => true | None => false end); inj E;
        (split; [eapply tc_aux; reflexivity|]); [apply tinv_cod|].
      cbn [tinv]. auto.
  - (* TCreate *) destruct Hi as [Hx [Hc [Hrest Hk]]].
    destruct (rq_attrs (x_cf x) (x_v x) c) as [[pj us] ty].
    destruct (find_cons d (ci_uuid c)) as [k|] eqn:Ef; inj E.
    + split; [apply tc_same; reflexivity|]. cbn [tinv]. auto.
    + split; [apply (tc_create d _ (mkCons (ci_uuid c) pj us ty 0)); [apply (proj1 Hx c Hc)|reflexivity]|].
      cons_next; [exact Hx|exact Hrest|].
      assert (Hincl : incl (consk d) (consk (set_consumers d (consumers d ++ [mkCons (ci_uuid c) pj us ty 0])))).
      { unfold consk. cbn [consumers set_consumers]. rewrite map_app. apply incl_appl, incl_refl. }
      constructor; [|eapply Forall_impl; [|exact Hk]; intros k; apply k_ok_mono; exact Hincl].
      split; cbn [co_uuid]; [apply (proj1 Hx c Hc)|].
      unfold consk. cbn [consumers set_consumers]. rewrite map_app. apply in_or_app. right. left. reflexivity.
  - (* TReload *) destruct Hi as [Hx [Hc [Hrest Hk]]].
    destruct (rq_attrs (x_cf x) (x_v x) c) as [[pj us] ty].
    destruct (find_cons d (ci_uuid c)) as [k|] eqn:Ef;
      [|inj E; split; [apply tc_same; reflexivity|apply tinv_cod]].
    destruct (28 <=? x_v x); inj E; (split; [apply tc_same; reflexivity|]); [apply tinv_cod|].
    cons_next; [exact Hx|exact Hrest|]. constructor; [|exact Hk].
    apply find_cons_consk in Ef. destruct Ef as [Eu Ein]. split; cbn [co_uuid]; rewrite Eu.
    + apply (proj1 Hx c Hc).
    + exact Ein.
  - (* TObjs *) destruct Hi as [Hx [Hw Hq]].
    destruct todo as [|w rest]; [inj E; split; [apply tc_same; reflexivity|cbn [tinv]; auto]|].
    cbv zeta in E. inversion Hw as [|? ? Hw1 Hw2]; subst.
    assert (Hnext : forall objs', Forall (q_ok d) objs' ->
              tinv d (match rest with [] => TMain x ks objs' | _ => TObjs x ks rest objs' end)).
    { intros objs' Ho. destruct rest; cbn [tinv]; auto. }
    destruct w as [k|k a].
    + inj E. split; [apply tc_same; reflexivity|]. apply Hnext.
      apply Forall_app. split; [exact Hq|]. apply Forall_forall. intros q Hq'.
      apply in_map_iff in Hq'. destruct Hq' as [q0 [<- Hq0]]. cbn [w_ok] in Hw1.
      destruct (wipe_list_ok d (co_uuid k) q0 Hw1 Hq0) as [H1 [H2 H3]].
      unfold q_ok. cbn [q_cons q_amt]. split; [exact H1|]. split; [exact H2|lia].
    + destruct (find_rp d (ai_rp a)) as [rp|]; inj E; (split; [apply tc_same; reflexivity|]);
        [|apply tinv_cod].
      apply Hnext. apply Forall_app. split; [exact Hq|]. apply Forall_forall. intros q Hq'.
      apply in_map_iff in Hq'. destruct Hq' as [y [<- Hy]]. cbn [w_ok] in Hw1. destruct Hw1 as [[H1 H2] H3].
      unfold q_ok. cbn [q_cons q_amt]. split; [exact H1|]. split; [exact H2|].
      pose proof (alloc_in_wf_amt a y H3 Hy). lia.
  - (* TMain *) destruct Hi as [Hx Hq].
    destruct (main_txn x ks objs d) as [d2|e] eqn:Em; inj E.
    + split; [eapply tc_main; eassumption|apply tinv_cod].
    + split; [apply tc_same; reflexivity|apply tinv_cod].
  - (* TCleanup *)
    destruct todo as [|u rest]; inj E.
    + split; [apply tc_same; reflexivity|exact I].
    + split; [eapply tc_dcina; reflexivity|]. destruct rest; exact I.
  - (* TDelRead *)
    destruct (wipe_list d c); inj E; (split; [apply tc_same; reflexivity|]); [exact I|].
    cbn [tinv]. split; [exact Hi|]. apply Forall_forall. intros a0 Ha. apply filter_In in Ha.
    destruct Ha as [_ Ha]. apply andb_true_iff in Ha. destruct Ha as [Ha _]. apply Z.eqb_eq. exact Ha.
  - (* TDelRows *) destruct Hi as [Hn Hr]. inj E.
    split; [eapply tc_delrows; [exact Hn|exact Hr|reflexivity]|exact I].
  - (* TDelCons *) inj E. split; [eapply tc_dcina; reflexivity|exact I].
Qed.

(* requests as crash states *)
Definition cinv (d : db) (c : cstate) : Prop :=
  match c with CConc t => tinv d t | COne r => r = r0 /\ simple r0 | CFin _ => True end.

Lemma cstep_inv d c d' c' : cinv d c -> cstep cf c d = (d', c') -> tclass d d' /\ cinv d' c'.
Proof.
  intros Hi E. destruct c as [t|r|rs]; cbn [cstep] in E.
  - destruct (tstep t d) as [d1 t1] eqn:Et. injection E as <- <-. exact (tstep_inv d t d1 t1 Hi Et).
  - destruct Hi as [-> Hs]. destruct (step cf d r0) as [d1 rs] eqn:Es. injection E as <- <-.
    split; [|exact I]. apply tc_one; [exact Hs|]. rewrite Es. reflexivity.
  - injection E as <- <-. split; [apply tc_same; reflexivity|exact I].
Qed.

Lemma crash_gen (J : db -> Prop) (R : db -> db -> Prop) :
  (forall d, R d d) -> (forall a b c, R a b -> R b c -> R a c) ->
  (forall d d', J d -> tclass d d' -> J d' /\ R d d') ->
  forall n c d, cinv d c -> J d ->
    J (fst (crash_after cf n c d)) /\ R d (fst (crash_after cf n c d)).
Proof.
  intros Hrefl Htrans Hstep. induction n as [|n IH]; intros c d Hc Hj; [cbn; auto|].
  cbn [crash_after]. destruct (cfinished c); [cbn; auto|].
  destruct (cstep cf c d) as [d1 c1] eqn:E.
  destruct (cstep_inv d c d1 c1 Hc E) as [Hcl Hc1].
  destruct (Hstep d d1 Hj Hcl) as [Hj1 Hr1].
  destruct (IH c1 d1 Hc1 Hj1) as [Hj2 Hr2]. split; [exact Hj2|eapply Htrans; eassumption].
Qed.

Hypothesis HN : forall c, In c (req_consumers r0) -> N (ci_uuid c).
Hypothesis HND : forall c, r0 = AllocDelete c -> N c.
Hypothesis HIC : forall v ri al, r0 = Reshape v ri al -> forall u, In u (map ri_rp ri) -> IC u.
Hypothesis Hwf : req_wf r0 = true.

Lemma cinit_inv d : cinv d (cinit cf r0).
Proof.
  destruct r0 eqn:Er; cbn [cinit cinv tinit prov_target];
    try (split; [symmetry; exact Er|rewrite Er; exact I]);
    try (destruct (prov_version_gate _) eqn:Eg; cbn [tinv]; [exact I|split; [symmetry; exact Er|exact Eg]]).
  - (* AllocPut *) cbn [tinv]. split; [|split; [apply incl_refl|constructor]].
    split; cbn [x_all x_kind]; [|discriminate]. intros c' [<-|[]]. split; [apply HN; left; reflexivity|exact Hwf].
  - (* AllocPost *) destruct (v <? 13); [exact I|]. cbn [tinv]. split; [|split; [apply incl_refl|constructor]].
    split; cbn [x_all x_kind]; [|discriminate]. intros c' Hc'. split; [apply HN; exact Hc'|].
    cbn [req_wf] in Hwf. unfold cons_list_wf in Hwf. apply andb_true_iff in Hwf. destruct Hwf as [H _].
    rewrite forallb_forall in H. apply H. exact Hc'.
  - (* AllocDelete *) cbn [tinv]. apply HND. reflexivity.
  - (* Reshape *) destruct (v <? 30); [exact I|]. cbn [tinv]. split; cbn [x_all x_kind x_ri].
    + intros c' Hc'. split; [apply HN; exact Hc'|].
      cbn [req_wf] in Hwf. apply andb_true_iff in Hwf. destruct Hwf as [_ H].
      unfold cons_list_wf in H. apply andb_true_iff in H. destruct H as [H _].
      rewrite forallb_forall in H. apply H. exact Hc'.
    + intros _. eapply HIC. reflexivity.
Qed.

End Inv.

(* ================================================================ one attempt of _set_allocations *)
Notation purge := C01.purge.
Notation mk_alloc := C01.mk_alloc.
Definition news (l : list areq) : list alloc := map mk_alloc (filter (fun a => negb (q_amt a =? 0)) l).

Lemma proj_uuid l l' : map C09.proj l = map C09.proj l' -> map rp_uuid l = map rp_uuid l'.
Proof.
  intro H. assert (E : forall l0, map rp_uuid l0 = map (fun p => fst (fst p)) (map C09.proj l0)).
  { intro l0. rewrite map_map. apply map_ext. intros []; reflexivity. }
  rewrite (E l), (E l'), H. reflexivity.
Qed.

Lemma cas_rps_w_spec : forall l d d' o, cas_rps_w d l = (d', o) ->
  exists xr, d' = set_rps d xr /\ map C09.proj xr = map C09.proj (rps d).
Proof.
  induction l as [|[u g] l IH]; intros d d' o; cbn [cas_rps_w].
  - intros [= <- <-]. exists (rps d). split; [destruct d; reflexivity|reflexivity].
  - unfold incr_rp_gen. destruct (cas_rp_l (rps d) u g) as [x|] eqn:E.
    + intro H. apply IH in H. destruct H as [xr [-> Hp]]. exists xr. split; [reflexivity|].
      cbn [rps set_rps] in Hp. rewrite Hp. symmetry. eapply C09.cas_rp_l_proj; exact E.
    + intros [= <- <-]. exists (rps d). split; [destruct d; reflexivity|reflexivity].
Qed.

Lemma cas_conss_w_spec : forall l d d' o, cas_conss_w d l = (d', o) ->
  exists xc, d' = set_consumers d xc /\ map c_uuid xc = consk d.
Proof.
  induction l as [|[u g] l IH]; intros d d' o; cbn [cas_conss_w].
  - intros [= <- <-]. exists (consumers d). split; [destruct d; reflexivity|reflexivity].
  - unfold incr_cons_gen. destruct (cas_cons_l (consumers d) u g) as [x|] eqn:E.
    + intro H. apply IH in H. destruct H as [xc [-> Hp]]. exists xc. split; [reflexivity|].
      unfold consk in *. cbn [consumers set_consumers] in Hp. rewrite Hp. eapply C08.cas_cons_l_keys; exact E.
    + intros [= <- <-]. exists (consumers d). split; [destruct d; reflexivity|reflexivity].
Qed.

Definition shape (w : db) (l : list areq) (w' : db) (o : option exn) : Prop :=
  invs w' = invs w /\ rcs w' = rcs w /\ traits w' = traits w /\ aggs w' = aggs w /\
  rp_aggs w' = rp_aggs w /\ rp_traits w' = rp_traits w /\
  map C09.proj (rps w') = map C09.proj (rps w) /\
  (allocs w' = allocs (purge w l) \/
   (check_loop (purge w l) [] l = Ok tt /\ allocs w' = allocs (purge w l) ++ news l)) /\
  (forall c, In c (consk w') -> In c (consk w)) /\
  (forall c, In c (consk w) -> In c (consk w') \/ (o = None /\ forall a, In a (allocs w') -> a_cons a <> c)).

Lemma saw_shape w l w' o : set_allocations_w w l = (w', o) -> shape w l w' o.
Proof.
  unfold set_allocations_w. cbv zeta. fold (purge w l).
  destruct (check_capacity (purge w l) l) as [u|e] eqn:Ec.
  2:{ intros [= <- <-]. unfold shape. repeat (split; [reflexivity|]). split; [left; reflexivity|].
      split; [intros c Hc; exact Hc|intros c Hc; left; exact Hc]. }
  apply C08.check_capacity_loop in Ec.
  fold mk_alloc. fold (news l).
  set (d2 := set_allocs (purge w l) (allocs (purge w l) ++ news l)).
  destruct (cas_rps_w d2 _) as [d3 o3] eqn:E3.
  apply cas_rps_w_spec in E3. destruct E3 as [xr [-> Hr]].
  destruct o3 as [e|].
  { intros [= <- <-]. unfold shape. cbn [invs rcs traits aggs rp_aggs rp_traits rps allocs set_rps].
    repeat (split; [reflexivity|]). split; [exact Hr|]. split; [right; split; [exact Ec|reflexivity]|].
    split; [intros c Hc; exact Hc|intros c Hc; left; exact Hc]. }
  destruct (cas_conss_w (set_rps d2 xr) _) as [d4 o4] eqn:E4.
  apply cas_conss_w_spec in E4. destruct E4 as [xc [-> Hc]].
  change (consk (set_rps d2 xr)) with (map c_uuid (consumers w)) in Hc.
  destruct o4 as [e|].
  { intros [= <- <-]. unfold shape. cbn [invs rcs traits aggs rp_aggs rp_traits rps allocs set_rps set_consumers].
    repeat (split; [reflexivity|]). split; [exact Hr|]. split; [right; split; [exact Ec|reflexivity]|].
    unfold consk in *. cbn [consumers set_consumers set_rps] in *. rewrite Hc.
    split; [intros c Hc'; exact Hc'|intros c Hc'; left; exact Hc']. }
  intros [= <- <-]. unfold shape, delete_consumers_if_no_allocations.
  cbn [invs rcs traits aggs rp_aggs rp_traits rps allocs set_rps set_consumers].
  repeat (split; [reflexivity|]). split; [exact Hr|]. split; [right; split; [exact Ec|reflexivity]|].
  unfold consk in *. cbn [consumers set_consumers set_rps allocs] in *. rewrite <- Hc.
  split.
  - intros c Hin. apply in_map_iff in Hin. destruct Hin as [k [<- Hk]]. apply filter_In in Hk.
    apply in_map. tauto.
  - intros c Hin. apply in_map_iff in Hin. destruct Hin as [k [<- Hk]].
    match goal with |- In _ (map _ (filter ?f _)) \/ _ => destruct (f k) eqn:Ef end.
    + left. apply in_map. apply filter_In. split; [exact Hk|exact Ef].
    + right. split; [reflexivity|]. apply negb_false_iff in Ef. apply andb_true_iff in Ef.
      destruct Ef as [_ Ef]. apply negb_true_iff in Ef. intros a Ha Hac.
      pose proof (C08.existsb_false_forall _ _ Ef a Ha) as Hf. cbv beta in Hf.
      apply Z.eqb_neq in Hf. contradiction.
Qed.

(* provider generations refreshed between attempts *)
Lemma refresh_Forall (P : areq -> Prop) c :
  (forall a g, P a -> P (mkAreq (q_cons a) (q_cgen a) (q_rp a) g (q_rc a) (q_amt a))) ->
  forall l l', refresh c l = Some l' -> Forall P l -> Forall P l'.
Proof.
  intros HP. induction l as [|a l IH]; intros l'; cbn [refresh].
  - intros [= <-] _. constructor.
  - destruct (find_rp c (q_rp a)) as [r|]; [|discriminate].
    destruct (refresh c l) as [rest|]; [|discriminate]. intros [= <-] H.
    inversion H; subst. constructor; [apply HP; assumption|apply IH; [reflexivity|assumption]].
Qed.

Lemma replace_all_inv (J : db -> list areq -> Prop) (Post : db -> Prop) :
  (forall w l w' e c l', J w l -> set_allocations_w w l = (w', Some e) -> refresh c l = Some l' -> J w' l') ->
  (forall w l w', J w l -> set_allocations_w w l = (w', None) -> Post w') ->
  forall f c w l w', J w l -> replace_all f c w l = Ok w' -> Post w'.
Proof.
  intros Hfail Hok. induction f as [|f IH]; intros c w l w' Hj; cbn [replace_all]; [discriminate|].
  destruct (set_allocations_w w l) as [w1 [e|]] eqn:E.
  - destruct e; try discriminate. destruct (refresh c l) as [l'|] eqn:Er; [|discriminate].
    apply IH. eapply Hfail; eassumption.
  - intros [= <-]. eapply Hok; eassumption.
Qed.

(* ---------------------------------------------------------------- referential integrity *)
Lemma shape_rpk w l w' o : shape w l w' o -> rpk w' = rpk w.
Proof. intros (_ & _ & _ & _ & _ & _ & H & _). apply proj_uuid. exact H. Qed.

Lemma rc_exists_same d d' rc : rcs d' = rcs d -> rc_exists d' rc = rc_exists d rc.
Proof. unfold rc_exists. intros ->. reflexivity. Qed.
Lemma trait_exists_same d d' t : traits d' = traits d -> trait_exists d' t = trait_exists d t.
Proof. unfold trait_exists. intros ->. reflexivity. Qed.

Lemma shape_RI w l w' o : shape w l w' o -> C08.RI2 w ->
  (forall q, In q l -> q_amt q <> 0 -> In (q_cons q) (consk w)) -> C08.RI2 w'.
Proof.
  intros Hs [HA [HV [HT HG]]] Hpre. pose proof (shape_rpk _ _ _ _ Hs) as Hrpk.
  destruct Hs as (Hi & Hrc & Htr & Hag & Hra & Hrt & _ & Hal & Hc1 & Hc2).
  assert (Hik : invk w' = invk w) by (unfold invk; rewrite Hi; reflexivity).
  assert (Hkeep : forall a, In a (allocs w') -> In (a_cons a) (consk w) -> In (a_cons a) (consk w')).
  { intros a Ha Hin. destruct (Hc2 _ Hin) as [H|[_ H]]; [exact H|]. exfalso. exact (H a Ha eq_refl). }
  assert (Hold : forall a, In a (allocs (purge w l)) -> In a (allocs w)).
  { intros a Ha. unfold purge in Ha. cbn [allocs set_allocs] in Ha. apply filter_In in Ha. tauto. }
  split; [|split; [|split]].
  - intros a Ha. rewrite Hrpk, Hik.
    assert (Hcase : In a (allocs w) \/ exists q, In q l /\ q_amt q <> 0 /\ a = mk_alloc q /\
                                        check_loop (purge w l) [] l = Ok tt).
    { destruct Hal as [Hal|[Hck Hal]]; rewrite Hal in Ha.
      - left. apply Hold. exact Ha.
      - apply in_app_or in Ha. destruct Ha as [Ha|Ha]; [left; apply Hold; exact Ha|right].
        unfold news in Ha. apply in_map_iff in Ha. destruct Ha as [q [<- Hq]]. apply filter_In in Hq.
        destruct Hq as [Hq Hnz]. apply negb_true_iff, Z.eqb_neq in Hnz. exists q. auto. }
    destruct Hcase as [Hin|[q [Hq [Hnz [-> Hck]]]]].
    + destruct (HA a Hin) as [H1 [H2 H3]]. split; [exact H1|]. split; [exact H2|]. apply Hkeep; assumption.
    + pose proof (C08.check_loop_inv _ _ _ Hck q Hq Hnz) as Hinv.
      assert (Hinv' : In (q_rp q, q_rc q) (invk w)) by exact Hinv.
      cbn [mk_alloc C01.mk_alloc a_rp a_rc a_cons].
      split; [exact (proj1 (HV _ Hinv'))|]. split; [exact Hinv'|].
      apply (Hkeep (mk_alloc q) Ha). apply Hpre; assumption.
  - intros k Hk. rewrite Hik in Hk. rewrite Hrpk, (rc_exists_same w w' _ Hrc). exact (HV k Hk).
  - intros x Hx. rewrite Hrt in Hx. rewrite Hrpk, (trait_exists_same w w' _ Htr). exact (HT x Hx).
  - intros x Hx. rewrite Hra in Hx. rewrite Hrpk, Hag. exact (HG x Hx).
Qed.

Lemma shape_consk_fail w l w' e : shape w l w' (Some e) -> forall c, In c (consk w) -> In c (consk w').
Proof.
  intros (_ & _ & _ & _ & _ & _ & _ & _ & _ & H) c Hc. destruct (H c Hc) as [H1|[H1 _]]; [exact H1|discriminate].
Qed.

Lemma replace_all_RI f c w l w' : C08.RI2 w -> (forall q, In q l -> In (q_cons q) (consk w)) ->
  replace_all f c w l = Ok w' -> C08.RI2 w'.
Proof.
  intros Hri Hpre.
  apply (replace_all_inv (fun w l => C08.RI2 w /\ Forall (fun q => In (q_cons q) (consk w)) l) C08.RI2).
  - intros w0 l0 w1 e c0 l1 [H1 H2] Hs Hr. apply saw_shape in Hs. rewrite Forall_forall in H2. split.
    + eapply shape_RI; [exact Hs|exact H1|]. intros q Hq _. apply H2. exact Hq.
    + eapply (refresh_Forall (fun q => In (q_cons q) (consk w1))); [|exact Hr|].
      * intros a g Ha. exact Ha.
      * apply Forall_forall. intros q Hq. eapply shape_consk_fail; [exact Hs|]. apply H2. exact Hq.
  - intros w0 l0 w1 [H1 H2] Hs. apply saw_shape in Hs. rewrite Forall_forall in H2.
    eapply shape_RI; [exact Hs|exact H1|]. intros q Hq _. apply H2. exact Hq.
  - split; [exact Hri|apply Forall_forall; exact Hpre].
Qed.

(* ---------------------------------------------------------------- forest *)
Lemma replace_all_sameS f c w l w' : replace_all f c w l = Ok w' -> C09.sameS w w'.
Proof.
  apply (replace_all_inv (fun w1 _ => C09.sameS w w1) (C09.sameS w)).
  - intros w0 l0 w1 e c0 l1 H Hs _. apply saw_shape in Hs.
    destruct Hs as (_ & _ & _ & _ & _ & _ & Hp & _). unfold C09.sameS in *. congruence.
  - intros w0 l0 w1 H Hs. apply saw_shape in Hs.
    destruct Hs as (_ & _ & _ & _ & _ & _ & Hp & _). unfold C09.sameS in *. congruence.
  - apply C09.sameS_refl.
Qed.

(* ---------------------------------------------------------------- positivity and capacity *)
Notation nonneg := C01.nonneg.

Lemma shape_pos w l w' o : shape w l w' o -> allocs_pos w -> nonneg l -> allocs_pos w'.
Proof.
  intros (_ & _ & _ & _ & _ & _ & _ & Hal & _) Hp Hn a Ha.
  assert (Hold : forall a, In a (allocs (purge w l)) -> 0 < a_used a).
  { intros b Hb. unfold purge in Hb. cbn [allocs set_allocs] in Hb. apply filter_In in Hb. apply Hp. tauto. }
  destruct Hal as [Hal|[_ Hal]]; rewrite Hal in Ha; [apply Hold; exact Ha|].
  apply in_app_or in Ha. destruct Ha as [Ha|Ha]; [apply Hold; exact Ha|].
  unfold news in Ha. apply in_map_iff in Ha. destruct Ha as [q [<- Hq]]. apply filter_In in Hq.
  destruct Hq as [Hq Hnz]. apply negb_true_iff, Z.eqb_neq in Hnz. cbn [mk_alloc C01.mk_alloc a_used].
  pose proof (Hn q Hq). lia.
Qed.

Definition att_cap (w w' : db) : Prop :=
  invs w' = invs w /\
  forall u rc, usage w' u rc <= usage w u rc \/ (exists i, find_inv w u rc = Some i /\ usage w' u rc <= cap_floor i).

Lemma att_cap_refl w : att_cap w w.
Proof. split; [reflexivity|]. intros u rc. left. lia. Qed.

Lemma att_cap_trans a b c : att_cap a b -> att_cap b c -> att_cap a c.
Proof.
  intros [I1 U1] [I2 U2]. split; [congruence|]. intros u rc.
  destruct (U2 u rc) as [H2|[i [Hi H2]]].
  - destruct (U1 u rc) as [H1|[i [Hi H1]]]; [left; lia|right; exists i; split; [exact Hi|lia]].
  - right. exists i. split; [|exact H2]. unfold find_inv in *. rewrite <- I1. exact Hi.
Qed.

Lemma att_cap_over w w' u rc : att_cap w w' -> overcommitted w' u rc ->
  overcommitted w u rc /\ usage w' u rc <= usage w u rc.
Proof.
  intros [I U] [i [Hi Hlt]]. assert (Hi' : find_inv w u rc = Some i) by (unfold find_inv in *; rewrite <- I; exact Hi).
  destruct (U u rc) as [H|[j [Hj H]]].
  - split; [|exact H]. exists i. split; [exact Hi'|lia].
  - rewrite Hi' in Hj. injection Hj as <-. lia.
Qed.

Lemma shape_cap w l w' o : shape w l w' o -> allocs_pos w -> nonneg l -> att_cap w w'.
Proof.
  intros (Hi & _ & _ & _ & _ & _ & _ & Hal & _) Hp Hn. split; [exact Hi|]. intros u rc.
  assert (Hle : usage (purge w l) u rc <= usage w u rc).
  { unfold usage, purge. cbn [allocs set_allocs]. apply C01.usage_l_filter_le. exact Hp. }
  destruct Hal as [Hal|[Hck Hal]].
  - left. unfold usage at 1. rewrite Hal. exact Hle.
  - assert (Hu : usage w' u rc = usage (purge w l) u rc + sum_prefix l u rc).
    { unfold usage at 1. rewrite Hal, C01.usage_l_app. unfold news. rewrite C01.usage_l_new. reflexivity. }
    destruct (existsb (C01.posat u rc) l) eqn:Ex.
    + right. destruct (C01.check_loop_bound _ u rc l [] Hn Hck Ex) as [i [Hfi Hb]]. exists i.
      split; [exact Hfi|]. cbn [sum_prefix] in Hb. lia.
    + left. rewrite Hu, (C01.sum_prefix_zero u rc l Hn Ex). lia.
Qed.

Lemma nonneg_refresh c l l' : refresh c l = Some l' -> nonneg l -> nonneg l'.
Proof.
  intros Hr Hn. assert (H : Forall (fun a => 0 <= q_amt a) l) by (apply Forall_forall; exact Hn).
  eapply refresh_Forall in H; [|intros a g Ha; exact Ha|exact Hr]. rewrite Forall_forall in H. exact H.
Qed.

Lemma replace_all_pos f c w l w' : allocs_pos w -> nonneg l -> replace_all f c w l = Ok w' -> allocs_pos w'.
Proof.
  intros Hp Hn. apply (replace_all_inv (fun w l => allocs_pos w /\ nonneg l) allocs_pos).
  - intros w0 l0 w1 e c0 l1 [H1 H2] Hs Hr. apply saw_shape in Hs. split.
    + eapply shape_pos; eassumption.
    + eapply nonneg_refresh; eassumption.
  - intros w0 l0 w1 [H1 H2] Hs. apply saw_shape in Hs. eapply shape_pos; eassumption.
  - split; assumption.
Qed.

Lemma replace_all_cap f c w l w' : allocs_pos w -> nonneg l -> replace_all f c w l = Ok w' -> att_cap w w'.
Proof.
  intros Hp Hn. apply (replace_all_inv (fun w1 l => allocs_pos w1 /\ nonneg l /\ att_cap w w1) (att_cap w)).
  - intros w0 l0 w1 e c0 l1 [H1 [H2 H3]] Hs Hr. apply saw_shape in Hs. split; [|split].
    + eapply shape_pos; eassumption.
    + eapply nonneg_refresh; eassumption.
    + eapply att_cap_trans; [exact H3|]. eapply shape_cap; eassumption.
  - intros w0 l0 w1 [H1 [H2 H3]] Hs. apply saw_shape in Hs.
    eapply att_cap_trans; [exact H3|]. eapply shape_cap; eassumption.
  - split; [exact Hp|]. split; [exact Hn|apply att_cap_refl].
Qed.

(* ================================================================ the main transaction *)
Lemma cas_rp_l_in : forall l u g l', cas_rp_l l u g = Some l' -> In u (map rp_uuid l).
Proof.
  induction l as [|r l IH]; cbn [cas_rp_l map]; intros u g l'; [discriminate|].
  destruct (rp_uuid r =? u) eqn:E.
  - intros _. left. apply Z.eqb_eq. exact E.
  - destruct (cas_rp_l l u g) eqn:E1; [|discriminate]. intros _. right. eapply IH. exact E1.
Qed.

Lemma incr_rp_gen_in d u g d' : incr_rp_gen d u g = Ok d' -> In u (rpk d).
Proof.
  unfold incr_rp_gen. destruct (cas_rp_l (rps d) u g) eqn:E; [|discriminate]. intros _.
  eapply cas_rp_l_in. exact E.
Qed.

Lemma sameS_rpk d d' : C09.sameS d d' -> rpk d' = rpk d.
Proof. intro H. symmetry. apply proj_uuid. exact H. Qed.

Lemma set_inventory_in d u g l d' : set_inventory d u g l = Ok d' -> In u (rpk d).
Proof.
  unfold set_inventory. destruct (negb _); [discriminate|].
  intro E. apply C08.bind_Ok in E. destruct E as [d1 [E1 E]]. apply C08.bind_Ok in E. destruct E as [d3 [E3 E]].
  apply incr_rp_gen_in in E. apply C09.delete_inv_same in E1. apply C09.update_inv_same in E3.
  rewrite <- (sameS_rpk _ _ E1). rewrite (sameS_rpk _ _ E3) in E. exact E.
Qed.

Lemma reshape_interim_RI' : forall l d x,
  C08.RI2 d -> reshape_interim d l = Ok x ->
  C08.RI2 (fst x) /\ rpk (fst x) = rpk d /\ allocs (fst x) = allocs d /\ consumers (fst x) = consumers d.
Proof.
  induction l as [|r l IH]; cbn [reshape_interim]; intros d x H.
  - intros [= <-]. cbn [fst]. auto.
  - destruct (ri_invs r) eqn:Einv.
    + intro E. apply C08.bind_Ok in E. destruct E as [y [Ey E]]. injection E as <-. cbn [fst].
      apply IH in Ey; [exact Ey|exact H].
    + intro E. apply C08.bind_Ok in E. destruct E as [d1 [E1 E]]. apply C08.bind_Ok in E. destruct E as [y [Ey E]].
      injection E as <-. cbn [fst]. pose proof (set_inventory_in _ _ _ _ _ E1) as Hu.
      apply C08.set_inventory_RI in E1; [|exact H|exact Hu].
      destruct E1 as [H1 [xi [xr [-> Kr]]]].
      apply IH in Ey; [|exact H1].
      destruct Ey as [P1 [P2 [P3 P4]]]. split; [exact P1|]. split; [rewrite P2; exact Kr|].
      split; [rewrite P3; reflexivity|rewrite P4; reflexivity].
Qed.

Lemma reshape_final_RI' : forall l gens d d',
  C08.RI2 d -> reshape_final d l gens = Ok d' -> C08.RI2 d' /\ allocs d' = allocs d.
Proof.
  induction l as [|r l IH]; cbn [reshape_final]; intros gens d d' H.
  - intros [= <-]. auto.
  - destruct gens as [|[u g] gens]; [intros [= <-]; auto|].
    intro E. apply C08.bind_Ok in E. destruct E as [d1 [E1 E]].
    pose proof (set_inventory_in _ _ _ _ _ E1) as Hu.
    apply C08.set_inventory_RI in E1; [|exact H|exact Hu].
    destruct E1 as [H1 [xi [xr [-> Kr]]]].
    apply IH in E; [|exact H1]. destruct E as [P1 P2]. split; [exact P1|]. rewrite P2. reflexivity.
Qed.

Lemma reshape_txn_c_inv c d ri objs d2 : reshape_txn_c c d ri objs = Ok d2 ->
  exists dB gens dC gens', reshape_interim d ri = Ok (dB, gens) /\
    replace_all retry_fuel c dB (map (C01.regen gens) objs) = Ok dC /\
    reshape_final dC ri gens' = Ok d2.
Proof.
  unfold reshape_txn_c, bind. destruct (reshape_interim d ri) as [[dB gens]|] eqn:E; [|discriminate].
  fold (C01.regen gens).
  destruct (replace_all retry_fuel c dB (map (C01.regen gens) objs)) as [dC|] eqn:Es; [|discriminate].
  intros H. exists dB, gens, dC. eexists. split; [reflexivity|]. split; [exact Es|exact H].
Qed.

Lemma regen_in gens objs q' : In q' (map (C01.regen gens) objs) ->
  exists q, In q objs /\ q_cons q' = q_cons q /\ q_rp q' = q_rp q /\ q_amt q' = q_amt q.
Proof. apply C08.regen_spec. Qed.

Lemma main_txn_RI x ks objs d d' : C08.RI2 d -> (forall q, In q objs -> In (q_cons q) (consk d)) ->
  main_txn x ks objs d = Ok d' -> C08.RI2 d'.
Proof.
  intros Hri Hpre. unfold main_txn. cbv zeta.
  pose proof (C08.fold_update_ext ks d) as Hext. set (d1 := fold_left update_consumer ks d) in *.
  pose proof (C08.RI2_ext _ _ Hext Hri) as Hri1.
  assert (Hpre1 : forall q, In q objs -> In (q_cons q) (consk d1)).
  { intros q Hq. destruct Hext as (_ & _ & _ & _ & _ & _ & _ & _ & Hi). apply Hi. apply Hpre. exact Hq. }
  assert (Hplain : replace_all retry_fuel d d1 objs = Ok d' -> C08.RI2 d').
  { apply replace_all_RI; assumption. }
  destruct (x_kind x); [exact Hplain|exact Hplain|]. intro E.
  apply reshape_txn_c_inv in E. destruct E as [dB [gens [dC [gens' [Ei [Er Ef]]]]]].
  apply reshape_interim_RI' in Ei; [|exact Hri1]. cbn [fst] in Ei. destruct Ei as [HB [_ [_ HcB]]].
  apply replace_all_RI in Er; [|exact HB|].
  - apply reshape_final_RI' in Ef; [tauto|exact Er].
  - intros q' Hq'. apply regen_in in Hq'. destruct Hq' as [q [Hq [Q1 _]]].
    unfold consk. rewrite HcB, Q1. apply Hpre1. exact Hq.
Qed.

Lemma main_txn_sameS x ks objs d d' : main_txn x ks objs d = Ok d' -> C09.sameS d d'.
Proof.
  unfold main_txn. cbv zeta.
  pose proof (C09.sameS_rps _ _ (C09.fold_update_consumer_rps ks d)) as H1.
  set (d1 := fold_left update_consumer ks d) in *.
  assert (Hplain : replace_all retry_fuel d d1 objs = Ok d' -> C09.sameS d d').
  { intro E. eapply C09.sameS_trans; [exact H1|]. eapply replace_all_sameS. exact E. }
  destruct (x_kind x); [exact Hplain|exact Hplain|]. intro E.
  apply reshape_txn_c_inv in E. destruct E as [dB [gens [dC [gens' [Ei [Er Ef]]]]]].
  apply C09.reshape_interim_same in Ei. cbn [fst] in Ei. apply replace_all_sameS in Er.
  apply C09.reshape_final_same in Ef.
  eapply C09.sameS_trans; [exact H1|]. eapply C09.sameS_trans; [exact Ei|].
  eapply C09.sameS_trans; [exact Er|exact Ef].
Qed.

Lemma main_txn_pos x ks objs d d' : allocs_pos d -> nonneg objs -> main_txn x ks objs d = Ok d' -> allocs_pos d'.
Proof.
  intros Hp Hn. unfold main_txn. cbv zeta.
  pose proof (C01.fold_update_consumer_frame ks d) as [_ HA]. set (d1 := fold_left update_consumer ks d) in *.
  pose proof (C01.allocs_pos_same _ _ HA Hp) as Hp1.
  assert (Hplain : replace_all retry_fuel d d1 objs = Ok d' -> allocs_pos d').
  { apply replace_all_pos; assumption. }
  destruct (x_kind x); [exact Hplain|exact Hplain|]. intro E.
  apply reshape_txn_c_inv in E. destruct E as [dB [gens [dC [gens' [Ei [Er Ef]]]]]].
  apply C01.reshape_interim_props in Ei. destruct Ei as [AB _].
  apply C01.reshape_final_props in Ef. destruct Ef as [AF _].
  apply (C01.allocs_pos_same _ _ AF). eapply replace_all_pos; [|apply C01.nonneg_regen; exact Hn|exact Er].
  apply (C01.allocs_pos_same _ _ AB). exact Hp1.
Qed.

Lemma over_eq d d' u rc : find_inv d' u rc = find_inv d u rc -> allocs d' = allocs d ->
  overcommitted d' u rc -> overcommitted d u rc /\ usage d' u rc = usage d u rc.
Proof.
  intros Hf Ha [i [Hi Hlt]]. assert (Hu : usage d' u rc = usage d u rc) by (unfold usage; rewrite Ha; reflexivity).
  split; [|exact Hu]. exists i. split; [rewrite <- Hf; exact Hi|lia].
Qed.

Lemma main_txn_cap (IC : Z -> Prop) x ks objs d d' : allocs_pos d -> nonneg objs ->
  (x_kind x = KReshape -> forall u, In u (map ri_rp (x_ri x)) -> IC u) ->
  main_txn x ks objs d = Ok d' ->
  forall u rc, overcommitted d' u rc -> IC u \/ (overcommitted d u rc /\ usage d' u rc <= usage d u rc).
Proof.
  intros Hp Hn Hic. unfold main_txn. cbv zeta.
  pose proof (C01.fold_update_consumer_frame ks d) as Hfr. set (d1 := fold_left update_consumer ks d) in *.
  pose proof (C01.allocs_pos_same _ _ (proj2 Hfr) Hp) as Hp1.
  assert (Hplain : replace_all retry_fuel d d1 objs = Ok d' ->
            forall u rc, overcommitted d' u rc -> IC u \/ (overcommitted d u rc /\ usage d' u rc <= usage d u rc)).
  { intros E u rc Ho. right. apply replace_all_cap in E; [|exact Hp1|exact Hn].
    destruct (att_cap_over _ _ u rc E Ho) as [Ho1 Hu1].
    destruct (C01.over_same _ _ u rc Hfr Ho1) as [Ho2 Hu2]. split; [exact Ho2|lia]. }
  destruct (x_kind x) eqn:Ek; [exact Hplain|exact Hplain|]. intros E u rc Ho.
  destruct (in_dec Z.eq_dec u (map ri_rp (x_ri x))) as [Hin|Hnin]; [left; apply Hic; [reflexivity|exact Hin]|right].
  apply reshape_txn_c_inv in E. destruct E as [dB [gens [dC [gens' [Ei [Er Ef]]]]]].
  apply C01.reshape_interim_props in Ei. destruct Ei as [AB [_ FB]].
  apply C01.reshape_final_props in Ef. destruct Ef as [AF FF].
  destruct (over_eq dC d' u rc (FF u rc Hnin) AF Ho) as [HoC HuC].
  apply replace_all_cap in Er; [|apply (C01.allocs_pos_same _ _ AB); exact Hp1|apply C01.nonneg_regen; exact Hn].
  destruct (att_cap_over _ _ u rc Er HoC) as [HoB HuB].
  destruct (over_eq d1 dB u rc (FB u rc Hnin) AB HoB) as [Ho1 Hu1].
  destruct (C01.over_same _ _ u rc Hfr Ho1) as [Ho2 Hu2]. split; [exact Ho2|lia].
Qed.

(* ---------------------------------------------------------------- consumers left without allocations *)
Section Res.
Variable N : Z -> Prop.

Definition res_rel (d d' : db) : Prop :=
  (forall c, In c (consk d') -> In c (consk d) \/ N c) /\
  (forall a, In a (allocs d) -> In a (allocs d') \/ N (a_cons a)).

Lemma res_refl d : res_rel d d.
Proof. split; intros; left; assumption. Qed.

Lemma res_trans a b c : res_rel a b -> res_rel b c -> res_rel a c.
Proof.
  intros [C1 A1] [C2 A2]. split.
  - intros k Hk. destruct (C2 k Hk) as [H|H]; [apply C1; exact H|right; exact H].
  - intros x Hx. destruct (A1 x Hx) as [H|H]; [apply A2; exact H|right; exact H].
Qed.

Lemma res_ac d d' : C12.ac d' = C12.ac d -> res_rel d d'.
Proof.
  unfold C12.ac. intros [= Ha Hc]. split.
  - intros c Hin. left. unfold consk in *. rewrite <- Hc. exact Hin.
  - intros a Hin. left. rewrite Ha. exact Hin.
Qed.

Lemma shape_res w l w' o : shape w l w' o -> (forall q, In q l -> N (q_cons q)) -> res_rel w w'.
Proof.
  intros (_ & _ & _ & _ & _ & _ & _ & Hal & Hc1 & _) Hn. split.
  - intros c Hc. left. apply Hc1. exact Hc.
  - intros a Ha. destruct (memZ (a_cons a) (map q_cons l)) eqn:E.
    + right. apply C08.memZ_In in E. apply in_map_iff in E. destruct E as [q [<- Hq]]. apply Hn. exact Hq.
    + left. assert (Hp : In a (allocs (purge w l))).
      { unfold purge. cbn [allocs set_allocs]. apply filter_In. split; [exact Ha|rewrite E; reflexivity]. }
      destruct Hal as [->|[_ ->]]; [exact Hp|apply in_or_app; left; exact Hp].
Qed.

Lemma replace_all_res f c w l w' : (forall q, In q l -> N (q_cons q)) -> replace_all f c w l = Ok w' -> res_rel w w'.
Proof.
  intros Hn. apply (replace_all_inv (fun w1 l => res_rel w w1 /\ Forall (fun q => N (q_cons q)) l) (res_rel w)).
  - intros w0 l0 w1 e c0 l1 [H1 H2] Hs Hr. apply saw_shape in Hs. split.
    + eapply res_trans; [exact H1|]. eapply shape_res; [exact Hs|]. rewrite Forall_forall in H2. exact H2.
    + eapply (refresh_Forall (fun q => N (q_cons q))); [|exact Hr|exact H2]. intros a g Ha. exact Ha.
  - intros w0 l0 w1 [H1 H2] Hs. apply saw_shape in Hs.
    eapply res_trans; [exact H1|]. eapply shape_res; [exact Hs|]. rewrite Forall_forall in H2. exact H2.
  - split; [apply res_refl|apply Forall_forall; exact Hn].
Qed.

Lemma main_txn_res x ks objs d d' : (forall q, In q objs -> N (q_cons q)) ->
  main_txn x ks objs d = Ok d' -> res_rel d d'.
Proof.
  intros Hn. unfold main_txn. cbv zeta.
  pose proof (C12.fold_update_basic ks d) as [HA [_ HC]]. set (d1 := fold_left update_consumer ks d) in *.
  assert (H1 : res_rel d d1).
  { split; [intros c Hc; left; unfold consk; unfold C12.cu in HC; rewrite <- HC; exact Hc
           |intros a Ha; left; rewrite HA; exact Ha]. }
  assert (Hplain : replace_all retry_fuel d d1 objs = Ok d' -> res_rel d d').
  { intro E. eapply res_trans; [exact H1|]. eapply replace_all_res; eassumption. }
  destruct (x_kind x); [exact Hplain|exact Hplain|]. intro E.
  apply reshape_txn_c_inv in E. destruct E as [dB [gens [dC [gens' [Ei [Er Ef]]]]]].
  apply C12.reshape_interim_ac in Ei. cbn [fst] in Ei. apply C12.reshape_final_ac in Ef.
  apply replace_all_res in Er.
  - eapply res_trans; [exact H1|]. eapply res_trans; [apply res_ac; exact Ei|].
    eapply res_trans; [exact Er|apply res_ac; exact Ef].
  - intros q' Hq'. apply regen_in in Hq'. destruct Hq' as [q [Hq [Q1 _]]]. rewrite Q1. apply Hn. exact Hq.
Qed.

End Res.

(* ================================================================ provider writes: the write transaction
   following the provider read is the sequential handler's *)
Lemma traits_c_eq d u me ts : find_rp d u = Some me ->
  set_traits_c d u (rp_gen me) ts = set_traits_txn d u (rp_gen me) ts.
Proof.
  intro Hf. unfold set_traits_c, set_traits_txn. cbv zeta.
  destruct (filter (fun t => negb (memZ t (traits_of d u))) ts); [|reflexivity].
  destruct (filter (fun t => negb (memZ t ts)) (traits_of d u)); [|reflexivity].
  rewrite Hf, Z.eqb_refl. reflexivity.
Qed.

Lemma prov_write_seq cf r0 d g : pw_ok r0 d r0 g -> fst (prov_write r0 g d) = fst (step cf d r0).
Proof.
  intros [_ [Hg [u [me [Ht [Hf [<- Hp]]]]]]].
  destruct r0; cbn [prov_target] in Ht; try discriminate; injection Ht as ->;
    cbn [prov_write step prov_precheck prov_version_gate] in *;
    unfold h_inv_set, h_inv_post, h_inv_put, h_inv_delete, h_inv_delete_all, h_traits_set, h_traits_delete,
      h_aggs_set; rewrite ?(traits_c_eq d u me _ Hf); rewrite ?Hf;
    repeat match goal with H : (if ?b then _ else _) = None |- _ => destruct b eqn:?; [discriminate|] end;
    repeat (cbn [fst]; try reflexivity;
            match goal with |- context [match ?x with _ => _ end] => destruct x end).
Qed.

(* ================================================================ invariants *)
Lemma aux_ext cf v d c : C08.ext d (aux_names cf v d c).
Proof.
  unfold aux_names, C08.ext. destruct (38 <=? v); cbn; repeat split; try reflexivity; apply incl_refl.
Qed.

Definition NT : Z -> Prop := fun _ => True.

Lemma class_inv cf r0 d d' : req_wf r0 = true -> tclass cf r0 NT NT d d' ->
  RI d /\ Forest d /\ allocs_pos d -> RI d' /\ Forest d' /\ allocs_pos d'.
Proof.
  intros Hwf Hc [Hri [Hf Hp]]. pose proof (proj1 (C08.RI_RI2 d) Hri) as Hri2.
  destruct Hc as [->| cf' v c -> | row _ -> | us -> | c rows _ _ -> | g Hpw -> | x ks objs Hx Hq Hm | Hs ->].
  - auto.
  - split; [apply C08.RI_RI2; eapply C08.RI2_ext; [apply aux_ext|exact Hri2]|]. split.
    + eapply C09.Forest_sameS; [|exact Hf]. apply C09.sameS_rps. unfold aux_names. destruct (38 <=? v); reflexivity.
    + eapply C01.allocs_pos_same; [|exact Hp]. unfold aux_names. destruct (38 <=? v); reflexivity.
  - split; [apply C08.RI_RI2; eapply C08.RI2_ext; [|exact Hri2]|].
    + unfold C08.ext. cbn. repeat split; try reflexivity. unfold consk. cbn. rewrite map_app. apply incl_appl, incl_refl.
    + split; [eapply C09.Forest_sameS; [|exact Hf]; apply C09.sameS_rps; reflexivity|].
      eapply C01.allocs_pos_same; [|exact Hp]. reflexivity.
  - split; [apply C08.RI_RI2; apply C08.delete_cons_RI; exact Hri2|].
    split; [eapply C09.Forest_sameS; [|exact Hf]; apply C09.sameS_rps; reflexivity|].
    eapply C01.allocs_pos_same; [|exact Hp]. reflexivity.
  - split; [apply C08.RI_RI2; apply C08.RI2_set_allocs_incl; [|exact Hri2]|].
    + intros a Ha. apply filter_In in Ha. tauto.
    + split; [eapply C09.Forest_sameS; [|exact Hf]; apply C09.sameS_rps; reflexivity|].
      intros a Ha. cbn [allocs set_allocs] in Ha. apply filter_In in Ha. apply Hp. tauto.
  - rewrite (prov_write_seq cf r0 d g Hpw). destruct (step cf d r0) as [d1 rs] eqn:E. cbn [fst].
    split; [eapply C08.c08_step; eassumption|]. split; [eapply C09.c09_step; eassumption|].
    eapply C01.step_allocs_pos; eassumption.
  - assert (Hc : forall q, In q objs -> In (q_cons q) (consk d)).
    { rewrite Forall_forall in Hq. intros q Hq'. apply (Hq q Hq'). }
    assert (Hn : nonneg objs).
    { rewrite Forall_forall in Hq. intros q Hq'. apply (Hq q Hq'). }
    split; [apply C08.RI_RI2; eapply main_txn_RI; eassumption|].
    split; [eapply C09.Forest_sameS; [eapply main_txn_sameS; exact Hm|exact Hf]|].
    eapply main_txn_pos; eassumption.
  - destruct (step cf d r0) as [d1 rs] eqn:E. cbn [fst].
    split; [eapply C08.c08_step; eassumption|]. split; [eapply C09.c09_step; eassumption|].
    eapply C01.step_allocs_pos; eassumption.
Qed.

Theorem c18_invariants :
  forall cf r n d, RI d -> Forest d -> allocs_pos d -> req_wf r = true ->
    let d' := fst (crash_after cf n (cinit cf r) d) in
    RI d' /\ Forest d' /\ allocs_pos d'.
Proof.
  intros cf r n d Hri Hf Hp Hwf. cbv zeta.
  refine (proj1 (crash_gen cf r NT NT (fun d => RI d /\ Forest d /\ allocs_pos d) (fun _ _ => True)
            (fun _ => I) (fun _ _ _ _ _ => I) _ n (cinit cf r) d _ _)).
  - intros d0 d1 Hj Hc. split; [eapply class_inv; eassumption|exact I].
  - apply cinit_inv; try exact Hwf; intros; exact I.
  - auto.
Qed.
Print Assumptions c18_invariants.

(* ================================================================ capacity *)
Definition cap_rel (r : req) (d d' : db) : Prop :=
  forall u rc, overcommitted d' u rc ->
    inv_change r u \/ (overcommitted d u rc /\ usage d' u rc <= usage d u rc).

Lemma cap_refl r d : cap_rel r d d.
Proof. intros u rc H. right. split; [exact H|lia]. Qed.

Lemma cap_trans r a b c : cap_rel r a b -> cap_rel r b c -> cap_rel r a c.
Proof.
  intros H1 H2 u rc Ho. destruct (H2 u rc Ho) as [H|[Ho1 Hu1]]; [left; exact H|].
  destruct (H1 u rc Ho1) as [H|[Ho2 Hu2]]; [left; exact H|]. right. split; [exact Ho2|lia].
Qed.

Lemma cap_same r d d' : C01.same_ia d d' -> cap_rel r d d'.
Proof. intros H u rc Ho. right. eapply C01.over_same; eassumption. Qed.

Lemma class_cap cf r0 d d' : req_wf r0 = true -> tclass cf r0 NT (inv_change r0) d d' ->
  allocs_pos d -> allocs_pos d' /\ cap_rel r0 d d'.
Proof.
  intros Hwf Hc Hp.
  destruct Hc as [->| cf' v c -> | row _ -> | us -> | c rows _ _ -> | g Hpw -> | x ks objs Hx Hq Hm | Hs ->].
  - split; [exact Hp|apply cap_refl].
  - assert (Hs : C01.same_ia d (aux_names cf' v d c)) by (unfold aux_names; destruct (38 <=? v); split; reflexivity).
    split; [eapply C01.allocs_pos_same; [exact (proj2 Hs)|exact Hp]|apply cap_same; exact Hs].
  - split; [exact Hp|apply cap_same; split; reflexivity].
  - split; [exact Hp|apply cap_same; split; reflexivity].
  - split.
    + intros a Ha. cbn [allocs set_allocs] in Ha. apply filter_In in Ha. apply Hp. tauto.
    + intros u rc [i [Hi Hlt]]. right.
      assert (Hu : usage (set_allocs d (filter (fun a => negb (existsb (fun b => (a_cons b =? a_cons a) &&
                 (a_rp b =? a_rp a) && (a_rc b =? a_rc a) && (a_used b =? a_used a)) rows)) (allocs d))) u rc
                   <= usage d u rc).
      { unfold usage. cbn [allocs set_allocs]. apply C01.usage_l_filter_le. exact Hp. }
      split; [|exact Hu]. exists i. split; [exact Hi|lia].
  - rewrite (prov_write_seq cf r0 d g Hpw). destruct (step cf d r0) as [d1 rs] eqn:E. cbn [fst].
    split; [eapply C01.step_allocs_pos; eassumption|]. intros u rc Ho.
    destruct (C01.c01_overcommit_origin cf d r0 d1 rs u rc Hp Hwf E Ho) as [[H _]|H]; [left; exact H|right; exact H].
  - assert (Hn : nonneg objs).
    { rewrite Forall_forall in Hq. intros q Hq'. apply (Hq q Hq'). }
    split; [eapply main_txn_pos; eassumption|]. intros u rc Ho.
    eapply (main_txn_cap (inv_change r0)); try eassumption. exact (proj2 Hx).
  - destruct (step cf d r0) as [d1 rs] eqn:E. cbn [fst].
    split; [eapply C01.step_allocs_pos; eassumption|]. intros u rc Ho.
    destruct (C01.c01_overcommit_origin cf d r0 d1 rs u rc Hp Hwf E Ho) as [[H _]|H]; [left; exact H|right; exact H].
Qed.

Theorem c18_capacity :
  forall cf r n d u rc, allocs_pos d -> req_wf r = true ->
    let d' := fst (crash_after cf n (cinit cf r) d) in
    overcommitted d' u rc -> inv_change r u \/ (overcommitted d u rc /\ usage d' u rc <= usage d u rc).
Proof.
  intros cf r n d u rc Hp Hwf. cbv zeta.
  refine (proj2 (crash_gen cf r NT (inv_change r) allocs_pos (cap_rel r)
            (cap_refl r) (cap_trans r) _ n (cinit cf r) d _ Hp) u rc).
  - intros d0 d1 Hj Hc. eapply class_cap; eassumption.
  - apply cinit_inv; try exact Hwf; try (intros; exact I).
    intros v ri al -> u0 Hu0. exact Hu0.
Qed.
Print Assumptions c18_capacity.

(* ================================================================ residue *)
Lemma class_res cf r0 N d d' : tclass cf r0 N NT d d' -> res_rel N d d'.
Proof.
  intros Hc.
  destruct Hc as [->| cf' v c -> | row Hn -> | us -> | c rows Hn Hr -> | g Hpw -> | x ks objs Hx Hq Hm | Hs ->].
  - apply res_refl.
  - apply res_ac. unfold C12.ac, aux_names. destruct (38 <=? v); reflexivity.
  - split.
    + intros c Hc. unfold consk in Hc. cbn [consumers set_consumers] in Hc. rewrite map_app in Hc.
      apply in_app_or in Hc. destruct Hc as [Hc|[<-|[]]]; [left; exact Hc|right; exact Hn].
    + intros a Ha. left. exact Ha.
  - split.
    + intros c Hc. left. unfold consk, delete_consumers_if_no_allocations in *. cbn [consumers set_consumers] in Hc.
      apply in_map_iff in Hc. destruct Hc as [k [<- Hk]]. apply filter_In in Hk. apply in_map. tauto.
    + intros a Ha. left. exact Ha.
  - split; [intros k Hk; left; exact Hk|]. intros a Ha. cbn [allocs set_allocs].
    match goal with |- In a (filter ?f _) \/ _ => destruct (f a) eqn:Ef end.
    + left. apply filter_In. split; [exact Ha|exact Ef].
    + right. apply negb_false_iff in Ef. apply existsb_exists in Ef. destruct Ef as [b [Hb Eb]].
      rewrite Forall_forall in Hr. rewrite <- (Hr b Hb) in Hn.
      apply andb_true_iff in Eb. destruct Eb as [Eb _]. apply andb_true_iff in Eb. destruct Eb as [Eb _].
      apply andb_true_iff in Eb. destruct Eb as [Eb _]. apply Z.eqb_eq in Eb. rewrite <- Eb. exact Hn.
  - rewrite (prov_write_seq cf r0 d g Hpw). destruct (step cf d r0) as [d1 rs] eqn:E. cbn [fst].
    apply res_ac. eapply C12.simple_step_ac; [|exact E].
    destruct Hpw as [_ [_ [u [me [Ht _]]]]]. destruct r0; cbn [prov_target] in Ht; try discriminate; exact I.
  - eapply main_txn_res; [|exact Hm]. rewrite Forall_forall in Hq. intros q Hq'. apply (Hq q Hq').
  - destruct (step cf d r0) as [d1 rs] eqn:E. cbn [fst].
    apply res_ac. eapply C12.simple_step_ac; [|exact E]. destruct r0; try contradiction; exact I.
Qed.

Theorem c18_residue :
  forall cf r n d c, ConsIff d -> RI d -> req_wf r = true ->
    let d' := fst (crash_after cf n (cinit cf r) d) in
    has_consumer d' c -> ~ holds_allocs d' c -> In c (map ci_uuid (req_consumers r)) \/ r = AllocDelete c.
Proof.
  intros cf r n d c Hci _ Hwf. cbv zeta.
  set (N := fun c => In c (map ci_uuid (req_consumers r)) \/ r = AllocDelete c).
  assert (Hrel : res_rel N d (fst (crash_after cf n (cinit cf r) d))).
  { refine (proj2 (crash_gen cf r N NT (fun _ => True) (res_rel N) (res_refl N) (res_trans N) _
                     n (cinit cf r) d _ I)).
    - intros d0 d1 _ Hc. split; [exact I|eapply class_res; exact Hc].
    - apply cinit_inv; try exact Hwf; try (intros; exact I).
      + intros k Hk. left. apply in_map. exact Hk.
      + intros k Hk. right. exact Hk. }
  destruct Hrel as [HC HA]. intros Hhas Hno.
  apply C12.has_consumer_cu in Hhas. destruct (HC c Hhas) as [Hin|Hn]; [|exact Hn].
  apply C12.has_consumer_cu in Hin. apply Hci in Hin. destruct Hin as [a [Ha Hac]].
  destruct (HA a Ha) as [Ha'|Hn]; [|rewrite Hac in Hn; exact Hn].
  exfalso. apply Hno. exists a. split; [exact Ha'|exact Hac].
Qed.
Print Assumptions c18_residue.
