(* C19 - proofs: start-up synchronisation of standard classes / traits, immutability of standard
   names through the API, namespacing of custom names (generated patterns), custom class identifiers. *)
From Coq Require Import ZArith List Bool Lia.
From PV Require Import Gen.GenConsts Model.Regex Gen.GenNames Model.Names Proofs.Defs.
Import ListNotations.
Open Scope Z_scope.

(* ================================================================ part 1: name patterns *)
Definition allowed_char (c : Z) : Prop := (65 <= c <= 90) \/ (48 <= c <= 57) \/ c = 95.
Definition custom_prefix : list Z := [67; 85; 83; 84; 79; 77; 95].
Definition namespaced (s : list Z) : Prop :=
  exists rest, s = custom_prefix ++ rest /\ rest <> [] /\ Forall allowed_char rest /\ Z.of_nat (length s) <= 255.

Lemma in_class_single c x : in_class [(c, c)] x = true -> x = c.
Proof.
  unfold in_class. cbn [existsb fst snd]. rewrite orb_false_r. intro H.
  apply andb_true_iff in H. destruct H as [H1 H2]. apply Z.leb_le in H1, H2. lia.
Qed.

Lemma in_class_allowed c : in_class [(65, 90); (48, 57); (95, 95)] c = true -> allowed_char c.
Proof.
  unfold in_class. cbn [existsb fst snd]. rewrite orb_false_r. intro H. unfold allowed_char.
  apply orb_true_iff in H. destruct H as [H|H].
  - apply andb_true_iff in H. destruct H as [H1 H2]. apply Z.leb_le in H1, H2. left. lia.
  - apply orb_true_iff in H. destruct H as [H|H];
      apply andb_true_iff in H; destruct H as [H1 H2]; apply Z.leb_le in H1, H2; right; [left|right]; lia.
Qed.

Lemma mplus_spec r k : forall s, mplus r k s = true ->
  exists a b, s = a ++ b /\ a <> [] /\ Forall (fun c => in_class r c = true) a /\ k b = true.
Proof.
  induction s as [|c s IH]; cbn [mplus]; intro H; [discriminate|].
  apply andb_true_iff in H. destruct H as [Hc H]. apply orb_true_iff in H. destruct H as [H|H].
  - exists [c], s. split; [reflexivity|]. split; [discriminate|]. split; [|exact H].
    constructor; [exact Hc|constructor].
  - destruct (IH H) as [a [b [E [_ [Ha Hk]]]]]. exists (c :: a), b.
    split; [rewrite E; reflexivity|]. split; [discriminate|]. split; [|exact Hk].
    constructor; assumption.
Qed.

Lemma end_ok_Z b : end_ok EndZ b = true -> b = [].
Proof. destruct b; [reflexivity|]. cbn. discriminate. Qed.

Ltac one_char H s :=
  destruct s as [|? s]; cbn [mitems] in H; [discriminate H|];
  apply andb_true_iff in H;
  let H1 := fresh "Hc" in destruct H as [H1 H]; apply in_class_single in H1; subst.

Lemma custom_items_spec s :
  mitems [One [(67, 67)]; One [(85, 85)]; One [(83, 83)]; One [(84, 84)]; One [(79, 79)]; One [(77, 77)];
          One [(95, 95)]; Plus [(65, 90); (48, 57); (95, 95)]] EndZ s = true ->
  exists rest, s = custom_prefix ++ rest /\ rest <> [] /\ Forall allowed_char rest.
Proof.
  intro H. do 7 (one_char H s). cbn [mitems] in H.
  apply mplus_spec in H. destruct H as [a [b [E [Hne [Ha Hb]]]]].
  cbn [mitems] in Hb. apply end_ok_Z in Hb. subst b. rewrite app_nil_r in E. subst s.
  exists a. split; [reflexivity|]. split; [exact Hne|].
  eapply Forall_impl; [|exact Ha]. intros c Hc. apply in_class_allowed. exact Hc.
Qed.

Lemma c19_custom_class_names :
  forall s, name_accepted custom_rc_pattern custom_rc_maxlen s = true \/
            name_accepted put_rc_pattern put_rc_maxlen s = true -> namespaced s.
Proof.
  intros s [H|H]; unfold name_accepted in H; apply andb_true_iff in H; destruct H as [H1 H2].
  - unfold pmatch, custom_rc_pattern in H1. cbn [p_start p_items p_end] in H1.
    apply custom_items_spec in H1. destruct H1 as [rest [E [Hne Hf]]].
    exists rest. repeat split; try assumption.
    apply Z.leb_le in H2. change custom_rc_maxlen with 255 in H2. exact H2.
  - unfold pmatch, put_rc_pattern in H1. cbn [p_start p_items p_end] in H1.
    apply custom_items_spec in H1. destruct H1 as [rest [E [Hne Hf]]].
    exists rest. repeat split; try assumption.
    apply Z.leb_le in H2. change put_rc_maxlen with 255 in H2. exact H2.
Qed.

Lemma c19_custom_trait_names :
  forall s, name_accepted custom_trait_pattern custom_trait_maxlen s = true -> namespaced s.
Proof.
  intros s H. unfold name_accepted in H. apply andb_true_iff in H. destruct H as [H1 H2].
  unfold pmatch, custom_trait_pattern in H1. cbn [p_start p_items p_end] in H1.
  apply custom_items_spec in H1. destruct H1 as [rest [E [Hne Hf]]].
  exists rest. repeat split; try assumption.
  apply Z.leb_le in H2. change custom_trait_maxlen with 255 in H2. exact H2.
Qed.

(* ================================================================ part 2: start-up synchronisation *)
Lemma zseq_In : forall k from i, In i (zseq k from) <-> from <= i < from + Z.of_nat k.
Proof.
  induction k as [|k IH]; intros from i; cbn [zseq In].
  - split; [tauto|lia].
  - rewrite IH, Nat2Z.inj_succ. lia.
Qed.
Lemma zseq_NoDup : forall k from, NoDup (zseq k from).
Proof.
  induction k as [|k IH]; intro from; cbn [zseq]; constructor; [|apply IH].
  rewrite zseq_In. lia.
Qed.

Lemma NoDup_filter {A} (p : A -> bool) l : NoDup l -> NoDup (filter p l).
Proof.
  induction 1 as [|x l Hx Hn IH]; cbn [filter]; [constructor|].
  destruct (p x); [|exact IH]. constructor; [|exact IH].
  intro Hin. apply filter_In in Hin. tauto.
Qed.

Lemma NoDup_app_intro {A} (a b : list A) :
  NoDup a -> NoDup b -> (forall x, In x a -> In x b -> False) -> NoDup (a ++ b).
Proof.
  induction 1 as [|x a Hx Hn IH]; intros Hb Hd; cbn [app]; [exact Hb|].
  constructor.
  - intro Hin. apply in_app_iff in Hin. destruct Hin as [Hin|Hin]; [exact (Hx Hin)|].
    apply (Hd x); [left; reflexivity|exact Hin].
  - apply IH; [exact Hb|]. intros y Hy. apply Hd. right. exact Hy.
Qed.

Definition missing (n : Z) (tbl : list (Z * Z)) : list Z :=
  filter (fun i => negb (existsb (fun r => snd r =? i) (filter (fun r => is_std_rc n (snd r)) tbl)))
         (zseq (Z.to_nat n) 0).

Lemma is_std_rc_iff n i : is_std_rc n i = true <-> 0 <= i < n.
Proof.
  unfold is_std_rc. rewrite andb_true_iff, Z.leb_le, Z.ltb_lt. tauto.
Qed.

Lemma missing_spec n tbl i : 0 <= n ->
  (In i (missing n tbl) <-> 0 <= i < n /\ forall r, In r tbl -> snd r <> i).
Proof.
  intro Hn. unfold missing. rewrite filter_In, zseq_In, Z2Nat.id by exact Hn.
  rewrite negb_true_iff. split.
  - intros [Hi He]. split; [lia|]. intros r Hr E.
    assert (X : existsb (fun r0 => snd r0 =? i) (filter (fun r0 => is_std_rc n (snd r0)) tbl) = true).
    { apply existsb_exists. exists r. split.
      - apply filter_In. split; [exact Hr|]. rewrite E. apply is_std_rc_iff. lia.
      - apply Z.eqb_eq. exact E. }
    congruence.
  - intros [Hi Hno]. split; [lia|].
    destruct (existsb _ _) eqn:X; [|reflexivity]. exfalso.
    apply existsb_exists in X. destruct X as [r [Hr E]]. apply filter_In in Hr. destruct Hr as [Hr _].
    apply Z.eqb_eq in E. exact (Hno r Hr E).
Qed.

Lemma rc_no_collision n tbl : 0 <= n <= MIN_CUSTOM_RC_ID -> rc_wf n tbl ->
  forall i x, In i (missing n tbl) -> In x tbl -> fst x <> i /\ snd x <> i.
Proof.
  intros Hn [_ [_ Hwf]] i x Hi Hx. apply missing_spec in Hi; [|lia]. destruct Hi as [Hi Hno].
  split; [|apply Hno; exact Hx].
  intro E. destruct (Hwf x Hx) as [H1 H2]. destruct (is_std_rc n (snd x)) eqn:S.
  - apply (Hno x Hx). rewrite <- H1 by reflexivity. exact E.
  - specialize (H2 eq_refl). lia.
Qed.

Lemma rc_sync_eq n tbl : 0 <= n <= MIN_CUSTOM_RC_ID -> rc_wf n tbl ->
  rc_sync n tbl = tbl ++ map (fun i => (i, i)) (missing n tbl).
Proof.
  intros Hn Hwf.
  change (rc_sync n tbl) with
    (if rc_collides tbl (map (fun i => (i, i)) (missing n tbl)) then tbl
     else tbl ++ map (fun i => (i, i)) (missing n tbl)).
  destruct (rc_collides _ _) eqn:C; [|reflexivity]. exfalso.
  unfold rc_collides in C. apply existsb_exists in C. destruct C as [r [Hr C]].
  apply in_map_iff in Hr. destruct Hr as [i [<- Hi]].
  apply existsb_exists in C. destruct C as [x [Hx C]]. cbn [fst snd] in C.
  destruct (rc_no_collision n tbl Hn Hwf i x Hi Hx) as [N1 N2].
  apply orb_true_iff in C. destruct C as [C|C]; apply Z.eqb_eq in C; contradiction.
Qed.

Lemma c19_rc_sync :
  forall n tbl, 0 <= n <= MIN_CUSTOM_RC_ID -> rc_wf n tbl ->
    let t' := rc_sync n tbl in
    (forall i, 0 <= i < n -> In (i, i) t') /\ rc_wf n t' /\ rc_sync n t' = t' /\
    (forall r, In r tbl -> In r t') /\ (forall r, In r t' -> is_std_rc n (snd r) = false -> In r tbl).
Proof.
  intros n tbl Hn Hwf t'.
  assert (Et : t' = tbl ++ map (fun i => (i, i)) (missing n tbl)) by (apply rc_sync_eq; assumption).
  assert (Hcomplete : forall i, 0 <= i < n -> In (i, i) t').
  { intros i Hi. rewrite Et. apply in_app_iff.
    destruct (existsb (fun r => snd r =? i) tbl) eqn:X.
    - left. apply existsb_exists in X. destruct X as [[a b] [Hr E]]. cbn [snd] in E. apply Z.eqb_eq in E. subst b.
      destruct Hwf as [_ [_ Hwf]]. destruct (Hwf _ Hr) as [H1 _]. cbn [fst snd] in H1.
      rewrite H1 in Hr; [exact Hr|]. apply is_std_rc_iff. exact Hi.
    - right. apply in_map_iff. exists i. split; [reflexivity|]. apply missing_spec; [lia|].
      split; [exact Hi|]. intros r Hr E.
      assert (Y : existsb (fun r0 => snd r0 =? i) tbl = true).
      { apply existsb_exists. exists r. split; [exact Hr|]. apply Z.eqb_eq. exact E. }
      congruence. }
  assert (Hwf' : rc_wf n t').
  { pose proof (rc_no_collision n tbl Hn Hwf) as Hnc. destruct Hwf as [Hf [Hs Hrows]].
    assert (Hm : NoDup (missing n tbl)) by (apply NoDup_filter, zseq_NoDup).
    rewrite Et. split; [|split].
    - rewrite map_app, map_map. cbn [fst]. rewrite map_id.
      apply NoDup_app_intro; [exact Hf|exact Hm|].
      intros i H1 H2. apply in_map_iff in H1. destruct H1 as [x [E Hx]].
      destruct (Hnc i x H2 Hx) as [N _]. exact (N E).
    - rewrite map_app, map_map. cbn [snd]. rewrite map_id.
      apply NoDup_app_intro; [exact Hs|exact Hm|].
      intros i H1 H2. apply in_map_iff in H1. destruct H1 as [x [E Hx]].
      destruct (Hnc i x H2 Hx) as [_ N]. exact (N E).
    - intros r Hr. apply in_app_iff in Hr. destruct Hr as [Hr|Hr]; [apply Hrows; exact Hr|].
      apply in_map_iff in Hr. destruct Hr as [i [<- Hi]]. cbn [fst snd].
      split; [reflexivity|]. intro S. apply missing_spec in Hi; [|lia]. destruct Hi as [Hi _].
      apply is_std_rc_iff in Hi. congruence. }
  split; [exact Hcomplete|]. split; [exact Hwf'|]. split; [|split].
  - rewrite (rc_sync_eq n t' Hn Hwf').
    assert (M : missing n t' = []).
    { destruct (missing n t') as [|i l] eqn:E; [reflexivity|]. exfalso.
      assert (Hi : In i (missing n t')) by (rewrite E; left; reflexivity).
      apply missing_spec in Hi; [|lia]. destruct Hi as [Hi Hno].
      apply (Hno (i, i) (Hcomplete i Hi)). reflexivity. }
    rewrite M. cbn [map]. apply app_nil_r.
  - intros r Hr. rewrite Et. apply in_app_iff. left. exact Hr.
  - intros r Hr S. rewrite Et in Hr. apply in_app_iff in Hr. destruct Hr as [Hr|Hr]; [exact Hr|]. exfalso.
    apply in_map_iff in Hr. destruct Hr as [i [<- Hi]]. cbn [snd] in S.
    apply missing_spec in Hi; [|lia]. destruct Hi as [Hi _]. apply is_std_rc_iff in Hi. congruence.
Qed.

(* ---------------------------------------------------------------- traits *)
Lemma memz_In x l : memz x l = true <-> In x l.
Proof.
  unfold memz. rewrite existsb_exists. split.
  - intros [y [Hy E]]. apply Z.eqb_eq in E. subst y. exact Hy.
  - intro H. exists x. split; [exact H|apply Z.eqb_refl].
Qed.
Lemma memz_false x l : memz x l = false <-> ~ In x l.
Proof.
  rewrite <- memz_In. destruct (memz x l); split; try congruence; intro H; exfalso; apply H; reflexivity.
Qed.

Lemma c19_trait_sync :
  forall std tbl, NoDup tbl -> NoDup std ->
    let t' := trait_sync std tbl in
    (forall t, In t std -> In t t') /\ (forall t, In t tbl -> In t t') /\
    (forall t, In t t' -> In t tbl \/ In t std) /\ NoDup t'.
Proof.
  intros std tbl Ht Hs t'. unfold t', trait_sync. split; [|split; [|split]].
  - intros t Hin. apply in_app_iff. destruct (memz t tbl) eqn:M.
    + left. apply memz_In. exact M.
    + right. apply filter_In. split; [exact Hin|]. rewrite M. reflexivity.
  - intros t Hin. apply in_app_iff. left. exact Hin.
  - intros t Hin. apply in_app_iff in Hin. destruct Hin as [Hin|Hin]; [left; exact Hin|].
    apply filter_In in Hin. right. tauto.
  - apply NoDup_app_intro; [exact Ht|apply NoDup_filter; exact Hs|].
    intros x H1 H2. apply filter_In in H2. destruct H2 as [_ H2]. apply negb_true_iff, memz_false in H2.
    exact (H2 H1).
Qed.

Lemma c19_trait_sync_idempotent :
  forall std tbl, trait_sync std (trait_sync std tbl) = trait_sync std tbl.
Proof.
  intros std tbl. unfold trait_sync at 1.
  assert (E : filter (fun t => negb (memz t (trait_sync std tbl))) std = []).
  { destruct (filter _ std) as [|x l] eqn:F; [reflexivity|]. exfalso.
    assert (Hx : In x (filter (fun t => negb (memz t (trait_sync std tbl))) std)) by (rewrite F; left; reflexivity).
    apply filter_In in Hx. destruct Hx as [Hx Hm]. apply negb_true_iff, memz_false in Hm. apply Hm.
    unfold trait_sync. apply in_app_iff. destruct (memz x tbl) eqn:M.
    - left. apply memz_In. exact M.
    - right. apply filter_In. split; [exact Hx|]. rewrite M. reflexivity. }
  rewrite E. apply app_nil_r.
Qed.

(* ================================================================ part 3: the API *)
Ltac brk H :=
  repeat match type of H with
  | context [match ?x with _ => _ end] => destruct x eqn:?; try discriminate H
  end.

(* keep d d': the class and trait tables are untouched *)
Definition keep (d d' : db) : Prop := rcs d' = rcs d /\ traits d' = traits d.
Lemma keep_refl d : keep d d.
Proof. split; reflexivity. Qed.
Lemma keep_trans a b c : keep a b -> keep b c -> keep a c.
Proof. unfold keep. intuition congruence. Qed.

Ltac kp_solve H := brk H; injection H as <-; split; reflexivity.

Lemma incr_rp_gen_kp d u g d' : incr_rp_gen d u g = Ok d' -> keep d d'.
Proof. unfold incr_rp_gen. intro H. kp_solve H. Qed.
Lemma incr_cons_gen_kp d u g d' : incr_cons_gen d u g = Ok d' -> keep d d'.
Proof. unfold incr_cons_gen. intro H. kp_solve H. Qed.
Lemma cas_rps_kp : forall l d d', cas_rps d l = Ok d' -> keep d d'.
Proof.
  induction l as [|[u g] l IH]; intros d d' H; cbn [cas_rps] in H.
  - injection H as <-. apply keep_refl.
  - unfold bind in H. destruct (incr_rp_gen d u g) eqn:E; [|discriminate].
    apply incr_rp_gen_kp in E. eapply keep_trans; [exact E|]. apply IH. exact H.
Qed.
Lemma cas_conss_kp : forall l d d', cas_conss d l = Ok d' -> keep d d'.
Proof.
  induction l as [|[u g] l IH]; intros d d' H; cbn [cas_conss] in H.
  - injection H as <-. apply keep_refl.
  - unfold bind in H. destruct (incr_cons_gen d u g) eqn:E; [|discriminate].
    apply incr_cons_gen_kp in E. eapply keep_trans; [exact E|]. apply IH. exact H.
Qed.

Lemma rp_create_kp d u n p d' : rp_create d u n p = Ok d' -> keep d d'.
Proof. unfold rp_create, bind. intro H. kp_solve H. Qed.
Lemma rp_update_kp d me n p b d' : rp_update d me n p b = Ok d' -> keep d d'.
Proof. unfold rp_update, bind. intro H. kp_solve H. Qed.
Lemma rp_delete_kp d u d' : rp_delete d u = Ok d' -> keep d d'.
Proof. unfold rp_delete. intro H. kp_solve H. Qed.

Lemma set_traits_txn_kp d u g w d' : set_traits_txn d u g w = Ok d' -> keep d d'.
Proof.
  unfold set_traits_txn. intro H.
  brk H; try (injection H as <-; apply keep_refl); apply incr_rp_gen_kp in H; exact H.
Qed.
Lemma set_aggregates_txn_kp d u g w b d' : set_aggregates_txn d u g w b = Ok d' -> keep d d'.
Proof.
  unfold set_aggregates_txn. intro H. destruct b.
  - apply incr_rp_gen_kp in H. exact H.
  - injection H as <-. split; reflexivity.
Qed.

Lemma update_consumer_kp d k : keep d (update_consumer d k).
Proof. unfold update_consumer, consumer_update. destruct (_ || _); split; reflexivity. Qed.
Lemma fold_update_consumer_kp : forall ks d, keep d (fold_left update_consumer ks d).
Proof.
  induction ks as [|k ks IH]; intro d; cbn [fold_left]; [apply keep_refl|].
  eapply keep_trans; [apply update_consumer_kp|apply IH].
Qed.
Lemma delete_created_kp d ks : keep d (delete_created d ks).
Proof. split; reflexivity. Qed.

Lemma delete_inventory_from_provider_kp d u l d' :
  delete_inventory_from_provider d u l = Ok d' -> keep d d'.
Proof. unfold delete_inventory_from_provider. intro H. kp_solve H. Qed.
Lemma update_inventory_for_provider_kp u : forall l d d',
  update_inventory_for_provider d u l = Ok d' -> keep d d'.
Proof.
  induction l as [|x l IH]; intros d d' H; cbn [update_inventory_for_provider] in H.
  - injection H as <-. apply keep_refl.
  - destruct (find_inv d u (ii_rc x)); [|discriminate]. apply IH in H. exact H.
Qed.
Lemma set_inventory_kp d u g l d' : set_inventory d u g l = Ok d' -> keep d d'.
Proof.
  unfold set_inventory, bind. intro H.
  destruct (negb _); [discriminate|].
  destruct (delete_inventory_from_provider _ _ _) as [d1|] eqn:E1; [|discriminate].
  destruct (update_inventory_for_provider _ _ _) as [d3|] eqn:E3; [|discriminate].
  apply delete_inventory_from_provider_kp in E1. apply update_inventory_for_provider_kp in E3.
  apply incr_rp_gen_kp in H. unfold keep in *. cbn in E3. intuition congruence.
Qed.
Lemma add_inventory_kp d u g x d' : add_inventory d u g x = Ok d' -> keep d d'.
Proof. unfold add_inventory. intro H. brk H. apply incr_rp_gen_kp in H. exact H. Qed.
Lemma update_inventory_kp d u g x d' : update_inventory d u g x = Ok d' -> keep d d'.
Proof.
  unfold update_inventory, bind. intro H. destruct (negb _); [discriminate|].
  destruct (update_inventory_for_provider _ _ _) eqn:E; [|discriminate].
  apply update_inventory_for_provider_kp in E. apply incr_rp_gen_kp in H.
  eapply keep_trans; eassumption.
Qed.
Lemma delete_inventory_kp d u g rc d' : delete_inventory d u g rc = Ok d' -> keep d d'.
Proof.
  unfold delete_inventory, bind. intro H. destruct (negb _); [discriminate|].
  destruct (delete_inventory_from_provider _ _ _) eqn:E; [|discriminate].
  destruct (find_inv d u rc); [|discriminate].
  apply delete_inventory_from_provider_kp in E. apply incr_rp_gen_kp in H.
  eapply keep_trans; eassumption.
Qed.

Lemma set_allocations_kp d l d' : set_allocations d l = Ok d' -> keep d d'.
Proof.
  unfold set_allocations, bind. intro H.
  destruct (check_capacity _ _); [|discriminate].
  destruct (cas_rps _ _) as [d3|] eqn:E3; [|discriminate].
  destruct (cas_conss _ _) as [d4|] eqn:E4; [|discriminate].
  injection H as <-. apply cas_rps_kp in E3. apply cas_conss_kp in E4.
  pose proof (keep_trans _ _ _ E3 E4) as [Ha Hb]. cbn in Ha, Hb.
  unfold delete_consumers_if_no_allocations. split; cbn; assumption.
Qed.

Lemma ensure_consumer_kp cf v d c d' o : ensure_consumer cf v d c = (d', o) -> keep d d'.
Proof.
  unfold ensure_consumer, find_cons. cbn [consumers set_users set_projects]. intro H.
  destruct (find_cons_l (consumers d) (ci_uuid c)) as [k0|];
    destruct (_ && _); destruct (38 <=? v); injection H as <- <-; split; reflexivity.
Qed.
Lemma inspect_consumers_kp cf v : forall l d acc d' o,
  inspect_consumers cf v d acc l = (d', o) -> keep d d'.
Proof.
  induction l as [|c l IH]; intros d acc d' o H; cbn [inspect_consumers] in H.
  - injection H as <- <-. apply keep_refl.
  - destruct (ensure_consumer cf v d c) as [dx [k|]] eqn:E; apply ensure_consumer_kp in E.
    + eapply keep_trans; [exact E|]. eapply IH. exact H.
    + injection H as <- <-. eapply keep_trans; [exact E|apply delete_created_kp].
Qed.

Lemma reshape_interim_kp : forall l d x, reshape_interim d l = Ok x -> keep d (fst x).
Proof.
  induction l as [|r l IH]; intros d x H; cbn [reshape_interim] in H.
  - injection H as <-. apply keep_refl.
  - unfold bind in H. destruct (ri_invs r).
    + destruct (reshape_interim d l) eqn:E; [|discriminate]. injection H as <-. cbn [fst]. apply IH. exact E.
    + destruct (set_inventory _ _ _ _) as [d1|] eqn:E1; [|discriminate].
      destruct (reshape_interim d1 l) eqn:E; [|discriminate]. injection H as <-. cbn [fst].
      apply set_inventory_kp in E1. eapply keep_trans; [exact E1|]. apply IH. exact E.
Qed.
Lemma reshape_final_kp : forall l d gens d', reshape_final d l gens = Ok d' -> keep d d'.
Proof.
  induction l as [|r l IH]; intros d gens d' H; cbn [reshape_final] in H.
  - injection H as <-. apply keep_refl.
  - destruct gens as [|[u g] gens]; [injection H as <-; apply keep_refl|].
    unfold bind in H. destruct (set_inventory _ _ _ _) as [d1|] eqn:E1; [|discriminate].
    apply set_inventory_kp in E1. eapply keep_trans; [exact E1|]. eapply IH. exact H.
Qed.
Lemma reshape_txn_kp d ri objs d' : reshape_txn d ri objs = Ok d' -> keep d d'.
Proof.
  unfold reshape_txn, bind. intro H.
  destruct (reshape_interim d ri) as [[d1 gens]|] eqn:E1; [|discriminate].
  destruct (set_allocations _ _) as [d2|] eqn:E2; [|discriminate].
  apply reshape_interim_kp in E1. cbn [fst] in E1. apply set_allocations_kp in E2. apply reshape_final_kp in H.
  eapply keep_trans; [exact E1|]. eapply keep_trans; eassumption.
Qed.

(* every handler other than the class / trait ones keeps both tables *)
Definition rc_trait_req (r : req) : bool :=
  match r with
  | RcCreate _ _ | RcPut _ _ | RcRename _ _ _ | RcDelete _ _ | TraitPut _ _ | TraitDelete _ _ => true
  | _ => false
  end.

Lemma step_other_kp cf d r d' rs : rc_trait_req r = false -> step cf d r = (d', rs) -> keep d d'.
Proof.
  intros Hr H. destruct r; try discriminate Hr; clear Hr; cbn [step] in H.
  - (* RpCreate *) unfold h_rp_create in H. destruct (_ && _); [injection H as <- _; apply keep_refl|].
    destruct (rp_create d u name parent) as [dx|e] eqn:E.
    + injection H as <- _. eapply rp_create_kp; exact E.
    + destruct e; injection H as <- _; apply keep_refl.
  - (* RpUpdate *) unfold h_rp_update in H. destruct (find_rp d u) as [me|]; [|injection H as <- _; apply keep_refl].
    destruct (_ && _); [injection H as <- _; apply keep_refl|].
    destruct (rp_update _ _ _ _ _) as [dx|e] eqn:E.
    + injection H as <- _. eapply rp_update_kp; exact E.
    + destruct e; injection H as <- _; apply keep_refl.
  - (* RpDelete *) unfold h_rp_delete in H. destruct (find_rp d u) as [me|]; [|injection H as <- _; apply keep_refl].
    destruct (rp_delete d u) as [dx|e] eqn:E.
    + injection H as <- _. eapply rp_delete_kp; exact E.
    + destruct e; injection H as <- _; apply keep_refl.
  - (* InvSet *) unfold h_inv_set in H. destruct (find_rp d u) as [me|]; [|injection H as <- _; apply keep_refl].
    destruct (negb _); [injection H as <- _; apply keep_refl|].
    destruct (existsb _ _); [injection H as <- _; apply keep_refl|].
    destruct (set_inventory _ _ _ _) as [dx|e] eqn:E.
    + injection H as <- _. eapply set_inventory_kp; exact E.
    + destruct e; injection H as <- _; apply keep_refl.
  - (* InvPost *) unfold h_inv_post in H. destruct (find_rp d u) as [me|]; [|injection H as <- _; apply keep_refl].
    destruct (bad_capacity _ _); [injection H as <- _; apply keep_refl|].
    destruct (add_inventory _ _ _ _) as [dx|e] eqn:E.
    + injection H as <- _. eapply add_inventory_kp; exact E.
    + destruct e; injection H as <- _; apply keep_refl.
  - (* InvPut *) unfold h_inv_put in H. destruct (find_rp d u) as [me|]; [|injection H as <- _; apply keep_refl].
    destruct (negb _); [injection H as <- _; apply keep_refl|].
    destruct (bad_capacity _ _); [injection H as <- _; apply keep_refl|].
    destruct (update_inventory _ _ _ _) as [dx|e] eqn:E.
    + injection H as <- _. eapply update_inventory_kp; exact E.
    + destruct e; injection H as <- _; apply keep_refl.
  - (* InvDelete *) unfold h_inv_delete in H. destruct (find_rp d u) as [me|]; [|injection H as <- _; apply keep_refl].
    destruct (delete_inventory _ _ _ _) as [dx|e] eqn:E.
    + injection H as <- _. eapply delete_inventory_kp; exact E.
    + destruct e; injection H as <- _; apply keep_refl.
  - (* InvDeleteAll *) unfold h_inv_delete_all in H. destruct (v <? 5); [injection H as <- _; apply keep_refl|].
    destruct (find_rp d u) as [me|]; [|injection H as <- _; apply keep_refl].
    destruct (set_inventory _ _ _ _) as [dx|e] eqn:E.
    + injection H as <- _. eapply set_inventory_kp; exact E.
    + destruct e; injection H as <- _; apply keep_refl.
  - (* TraitsSet *) unfold h_traits_set in H. destruct (v <? 6); [injection H as <- _; apply keep_refl|].
    destruct (find_rp d u) as [me|]; [|injection H as <- _; apply keep_refl].
    destruct (negb (g =? rp_gen me)); [injection H as <- _; apply keep_refl|].
    destruct (negb (forallb _ _)); [injection H as <- _; apply keep_refl|].
    destruct (set_traits_txn _ _ _ _) as [dx|e] eqn:E.
    + injection H as <- _. eapply set_traits_txn_kp; exact E.
    + injection H as <- _; apply keep_refl.
  - (* TraitsDelete *) unfold h_traits_delete in H. destruct (v <? 6); [injection H as <- _; apply keep_refl|].
    destruct (find_rp d u) as [me|]; [|injection H as <- _; apply keep_refl].
    destruct (set_traits_txn _ _ _ _) as [dx|e] eqn:E.
    + injection H as <- _. eapply set_traits_txn_kp; exact E.
    + injection H as <- _; apply keep_refl.
  - (* AggsSet *) unfold h_aggs_set in H. destruct (v <? 1); [injection H as <- _; apply keep_refl|].
    destruct (find_rp d u) as [me|]; [|injection H as <- _; apply keep_refl].
    destruct (_ && _); [injection H as <- _; apply keep_refl|].
    destruct (set_aggregates_txn _ _ _ _ _) as [dx|e] eqn:E.
    + injection H as <- _. eapply set_aggregates_txn_kp; exact E.
    + injection H as <- _; apply keep_refl.
  - (* AllocPut *) unfold h_alloc_put in H.
    destruct (ensure_consumer cf v d c) as [d1 [k|]] eqn:E; apply ensure_consumer_kp in E;
      [|injection H as <- _; exact E].
    destruct (alloc_objs d1 k (ci_allocs c)) as [objs|];
      [|injection H as <- _; eapply keep_trans; [exact E|apply delete_created_kp]].
    destruct (set_allocations _ _) as [d2|e] eqn:E2.
    + injection H as <- _. apply set_allocations_kp in E2.
      eapply keep_trans; [exact E|]. eapply keep_trans; [apply update_consumer_kp|].
      eapply keep_trans; [exact E2|apply delete_created_kp].
    + injection H as <- _. eapply keep_trans; [exact E|apply delete_created_kp].
  - (* AllocPost *) unfold h_alloc_post in H. destruct (v <? 13); [injection H as <- _; apply keep_refl|].
    destruct (inspect_consumers cf v d [] l) as [d1 [ks|]] eqn:E; apply inspect_consumers_kp in E;
      [|injection H as <- _; exact E].
    destruct (alloc_list d1 ks l) as [objs|];
      [|injection H as <- _; eapply keep_trans; [exact E|apply delete_created_kp]].
    destruct (set_allocations _ _) as [d2|e] eqn:E2.
    + injection H as <- _. apply set_allocations_kp in E2.
      eapply keep_trans; [exact E|]. eapply keep_trans; [apply fold_update_consumer_kp|].
      eapply keep_trans; [exact E2|apply delete_created_kp].
    + injection H as <- _. eapply keep_trans; [exact E|apply delete_created_kp].
  - (* AllocDelete *) unfold h_alloc_delete in H. destruct (wipe_list d c); injection H as <- _;
      [apply keep_refl|split; reflexivity].
  - (* Reshape *) unfold h_reshape in H. destruct (v <? 30); [injection H as <- _; apply keep_refl|].
    destruct (reshape_precheck d ri); [injection H as <- _; apply keep_refl|].
    destruct (inspect_consumers cf v d [] al) as [d1 [ks|]] eqn:E; apply inspect_consumers_kp in E;
      [|injection H as <- _; exact E].
    destruct (alloc_list d1 ks al) as [objs|];
      [|injection H as <- _; eapply keep_trans; [exact E|apply delete_created_kp]].
    destruct (reshape_txn _ _ _) as [d2|e] eqn:E2.
    + injection H as <- _. apply reshape_txn_kp in E2.
      eapply keep_trans; [exact E|]. eapply keep_trans; [apply fold_update_consumer_kp|].
      eapply keep_trans; [exact E2|apply delete_created_kp].
    + injection H as <- _. eapply keep_trans; [exact E|apply delete_created_kp].
Qed.

(* ---------------------------------------------------------------- constants, names *)
Lemma n_std_le_min : n_std_rc <= MIN_CUSTOM_RC_ID.
Proof. unfold n_std_rc, MIN_CUSTOM_RC_ID. lia. Qed.
Lemma is_std_rc_name_iff n : is_std_rc_name n = true <-> 0 <= n < n_std_rc.
Proof. unfold is_std_rc_name. rewrite andb_true_iff, Z.leb_le, Z.ltb_lt. tauto. Qed.
Lemma ltb_false_of_le a b : b <= a -> (a <? b) = false.
Proof. intro H. apply Z.ltb_ge. exact H. Qed.

Lemma c19_std_class_immutable :
  forall cf d v n new d' rs r, 2 <= v -> is_std_rc_name n = true ->
    (r = RcDelete v n \/ (r = RcRename v n new /\ v <= 6)) ->
    step cf d r = (d', rs) -> status rs = 400 /\ d' = d.
Proof.
  intros cf d v n new d' rs r Hv Hs Hr H.
  assert (Hlt : (n <? MIN_CUSTOM_RC_ID) = true).
  { apply Z.ltb_lt. apply is_std_rc_name_iff in Hs. pose proof n_std_le_min. lia. }
  destruct Hr as [->|[-> Hv6]]; cbn [step] in H.
  - unfold h_rc_delete in H. rewrite (ltb_false_of_le v 2 Hv) in H.
    unfold rc_destroy, rc_id_of_name in H. rewrite Hs, Hlt in H.
    injection H as <- <-. split; reflexivity.
  - unfold h_rc_rename in H. rewrite (ltb_false_of_le v 2 Hv) in H.
    rewrite (ltb_false_of_le 6 v Hv6) in H.
    destruct (is_std_rc_name new); [injection H as <- <-; split; reflexivity|].
    unfold rc_rename, rc_id_of_name in H. rewrite Hs, Hlt in H.
    injection H as <- <-. split; reflexivity.
Qed.

Lemma c19_std_trait_immutable :
  forall cf d v t d' rs, 6 <= v -> is_std_trait t = true ->
    step cf d (TraitDelete v t) = (d', rs) -> status rs = 400 /\ d' = d.
Proof.
  intros cf d v t d' rs Hv Ht H. cbn [step] in H. unfold h_trait_delete in H.
  rewrite (ltb_false_of_le v 6 Hv) in H.
  unfold trait_destroy, trait_exists in H. rewrite Ht in H. cbn [orb negb] in H.
  injection H as <- <-. split; reflexivity.
Qed.

Lemma c19_existing_name :
  forall cf d v n id d' rs, rc_id_of_name d n = Some id -> is_std_rc_name n = false ->
    (2 <= v -> step cf d (RcCreate v n) = (d', rs) -> status rs = 409 /\ d' = d) /\
    (7 <= v -> step cf d (RcPut v n) = (d', rs) -> status rs = 204 /\ d' = d).
Proof.
  intros cf d v n id d' rs Hid Hs. split; intros Hv H; cbn [step] in H.
  - unfold h_rc_create in H. rewrite (ltb_false_of_le v 2 Hv), Hs in H.
    unfold rc_create in H. rewrite Hid in H. injection H as <- <-. split; reflexivity.
  - unfold h_rc_put in H. rewrite (ltb_false_of_le v 2 ltac:(lia)), (ltb_false_of_le v 7 Hv), Hs, Hid in H.
    injection H as <- <-. split; reflexivity.
Qed.

(* ---------------------------------------------------------------- how one request changes the tables *)
Definition rc_step (d d' : db) : Prop :=
  rcs d' = rcs d \/
  (exists n, is_std_rc_name n = false /\ rc_id_of_name d n = None /\ rcs d' = rcs d ++ [(next_rc_id d, n)]) \/
  (exists id, rcs d' = filter (fun x => negb (fst x =? id)) (rcs d)) \/
  (exists id new, is_std_rc_name new = false /\
     (forall x, In x (rcs d) -> snd x = new -> fst x = id) /\
     rcs d' = map (fun x => if fst x =? id then (id, new) else x) (rcs d)).
Definition trait_step (d d' : db) : Prop :=
  traits d' = traits d \/
  (exists t, is_std_trait t = false /\ traits d' = traits d ++ [t]) \/
  (exists t, traits d' = filter (fun x => negb (x =? t)) (traits d)).

Lemma rc_create_spec d n d' : rc_create d n = Ok d' ->
  rc_id_of_name d n = None /\ rcs d' = rcs d ++ [(next_rc_id d, n)] /\ traits d' = traits d.
Proof.
  unfold rc_create. destruct (rc_id_of_name d n); [discriminate|]. intro H. injection H as <-.
  repeat split.
Qed.

Lemma h_rc_put_step d v n d' rs : h_rc_put d v n = (d', rs) -> rc_step d d' /\ traits d' = traits d.
Proof.
  unfold h_rc_put. intro H. destruct (v <? 2); [injection H as <- _; split; [left|]; reflexivity|]. destruct (v <? 7); [injection H as <- _; split; [left|]; reflexivity|].
  destruct (is_std_rc_name n) eqn:S; [injection H as <- _; split; [left|]; reflexivity|].
  destruct (rc_id_of_name d n) eqn:I; [injection H as <- _; split; [left|]; reflexivity|].
  destruct (rc_create d n) as [dx|e] eqn:E; injection H as <- _; [|split; [left|]; reflexivity].
  apply rc_create_spec in E. destruct E as [E1 [E2 E3]]. split; [|exact E3].
  right. left. exists n. repeat split; assumption.
Qed.

Lemma step_tables cf d r d' rs : step cf d r = (d', rs) -> rc_step d d' /\ trait_step d d'.
Proof.
  intro H. destruct (rc_trait_req r) eqn:Hr.
  2:{ destruct (step_other_kp _ _ _ _ _ Hr H) as [H1 H2]. split; left; assumption. }
  destruct r; try discriminate Hr; clear Hr; cbn [step] in H.
  - (* RcCreate *) unfold h_rc_create in H.
    destruct (v <? 2); [injection H as <- _; split; left; reflexivity|].
    destruct (is_std_rc_name n) eqn:S; [injection H as <- _; split; left; reflexivity|].
    destruct (rc_create d n) as [dx|e] eqn:E; injection H as <- _; [|split; left; reflexivity].
    apply rc_create_spec in E. destruct E as [E1 [E2 E3]]. split; [|left; exact E3].
    right. left. exists n. repeat split; assumption.
  - (* RcPut *) apply h_rc_put_step in H. destruct H as [H1 H2]. split; [exact H1|left; exact H2].
  - (* RcRename *) unfold h_rc_rename in H.
    destruct (v <? 2); [injection H as <- _; split; left; reflexivity|].
    destruct (6 <? v).
    { apply h_rc_put_step in H. destruct H as [H1 H2]. split; [exact H1|left; exact H2]. }
    destruct (is_std_rc_name new) eqn:S; [injection H as <- _; split; left; reflexivity|].
    destruct (rc_rename d old new) as [dx|e] eqn:E.
    2:{ destruct e; injection H as <- _; split; left; reflexivity. }
    injection H as <- _. unfold rc_rename in E.
    destruct (rc_id_of_name d old) as [id|]; [|discriminate].
    destruct (id <? MIN_CUSTOM_RC_ID); [discriminate|].
    destruct (existsb _ _ || _) eqn:X; [discriminate|]. injection E as <-.
    split; [|left; reflexivity]. right. right. right. exists id, new.
    split; [exact S|]. split; [|reflexivity].
    intros x Hx Ex. apply orb_false_iff in X. destruct X as [X _].
    destruct (fst x =? id) eqn:F; [apply Z.eqb_eq; exact F|]. exfalso.
    assert (Y : existsb (fun x0 => (snd x0 =? new) && negb (fst x0 =? id)) (rcs d) = true).
    { apply existsb_exists. exists x. split; [exact Hx|]. rewrite F. cbn [negb].
      rewrite andb_true_r. apply Z.eqb_eq. exact Ex. }
    congruence.
  - (* RcDelete *) unfold h_rc_delete in H.
    destruct (v <? 2); [injection H as <- _; split; left; reflexivity|].
    destruct (rc_destroy d n) as [dx|e] eqn:E.
    2:{ destruct e; injection H as <- _; split; left; reflexivity. }
    injection H as <- _. unfold rc_destroy in E.
    destruct (rc_id_of_name d n) as [id|]; [|discriminate].
    destruct (id <? MIN_CUSTOM_RC_ID); [discriminate|].
    destruct (existsb _ _); [discriminate|]. injection E as <-.
    split; [|left; reflexivity]. right. right. left. exists id. reflexivity.
  - (* TraitPut *) unfold h_trait_put in H.
    destruct (v <? 6); [injection H as <- _; split; left; reflexivity|].
    destruct (is_std_trait t) eqn:S; [injection H as <- _; split; left; reflexivity|].
    unfold trait_create in H. destruct (trait_exists d t); injection H as <- _; [split; left; reflexivity|].
    split; [left; reflexivity|]. right. left. exists t. split; [exact S|reflexivity].
  - (* TraitDelete *) unfold h_trait_delete in H.
    destruct (v <? 6); [injection H as <- _; split; left; reflexivity|].
    destruct (trait_destroy d t) as [dx|e] eqn:E.
    2:{ destruct e; injection H as <- _; split; left; reflexivity. }
    injection H as <- _. unfold trait_destroy in E.
    destruct (negb _); [discriminate|]. destruct (is_std_trait t); [discriminate|].
    destruct (existsb _ _); [discriminate|]. injection E as <-.
    split; [left; reflexivity|]. right. right. exists t. reflexivity.
Qed.

Lemma c19_std_names_not_created :
  forall cf d r d' rs, step cf d r = (d', rs) ->
    (forall x, In x (rcs d') -> is_std_rc_name (snd x) = true -> In x (rcs d)) /\
    (forall t, In t (traits d') -> is_std_trait t = true -> In t (traits d)).
Proof.
  intros cf d r d' rs H. apply step_tables in H. destruct H as [Hr Ht]. split.
  - intros x Hx Sx. destruct Hr as [E|[[n [S [_ E]]]|[[id E]|[id [new [S [_ E]]]]]]]; rewrite E in Hx.
    + exact Hx.
    + apply in_app_iff in Hx. destruct Hx as [Hx|[<-|[]]]; [exact Hx|]. cbn [snd] in Sx. congruence.
    + apply filter_In in Hx. tauto.
    + apply in_map_iff in Hx. destruct Hx as [y [Ey Hy]]. destruct (fst y =? id).
      * subst x. cbn [snd] in Sx. congruence.
      * subst x. exact Hy.
  - intros t Hin St. destruct Ht as [E|[[t0 [S E]]|[t0 E]]]; rewrite E in Hin.
    + exact Hin.
    + apply in_app_iff in Hin. destruct Hin as [Hin|[<-|[]]]; [exact Hin|]. congruence.
    + apply filter_In in Hin. tauto.
Qed.

(* ---------------------------------------------------------------- identifiers *)
Definition rcs_ok (d : db) : Prop :=
  NoDup (map fst (rcs d)) /\ NoDup (map snd (rcs d)) /\
  forall x, In x (rcs d) -> MIN_CUSTOM_RC_ID <= fst x /\ is_std_rc_name (snd x) = false.

Lemma fold_max_ge b : forall l x, In x l -> x <= fold_right Z.max b l.
Proof.
  induction l as [|y l IH]; intros x Hx; [destruct Hx|]. cbn [fold_right].
  destruct Hx as [->|Hx]; [lia|]. specialize (IH x Hx). lia.
Qed.
Lemma next_rc_id_spec d : MIN_CUSTOM_RC_ID <= next_rc_id d /\ forall x, In x (rcs d) -> fst x < next_rc_id d.
Proof.
  unfold next_rc_id. set (m := fold_right Z.max (n_std_rc - 1) (map fst (rcs d))).
  assert (Hm : forall x, In x (rcs d) -> fst x <= m).
  { intros x Hx. apply fold_max_ge. apply in_map. exact Hx. }
  destruct (m <? MIN_CUSTOM_RC_ID) eqn:E.
  - apply Z.ltb_lt in E. split; [lia|]. intros x Hx. specialize (Hm x Hx). lia.
  - apply Z.ltb_ge in E. split; [lia|]. intros x Hx. specialize (Hm x Hx). lia.
Qed.

Lemma NoDup_map_filter {A B} (f : A -> B) p l : NoDup (map f l) -> NoDup (map f (filter p l)).
Proof.
  induction l as [|x l IH]; cbn [map filter]; intro H; [constructor|].
  inversion H as [|? ? Hx Hn]; subst. destruct (p x); [|apply IH; exact Hn].
  cbn [map]. constructor; [|apply IH; exact Hn].
  intro Hin. apply Hx. apply in_map_iff in Hin. destruct Hin as [y [E Hy]]. apply filter_In in Hy.
  apply in_map_iff. exists y. tauto.
Qed.

Lemma rename_fst id new : forall l : list (Z * Z),
  map fst (map (fun x => if fst x =? id then (id, new) else x) l) = map fst l.
Proof.
  induction l as [|x l IH]; [reflexivity|]. cbn [map]. rewrite IH. f_equal.
  destruct (fst x =? id) eqn:E; [|reflexivity]. apply Z.eqb_eq in E. cbn [fst]. symmetry. exact E.
Qed.

Lemma rename_snd_NoDup id new : forall l : list (Z * Z),
  NoDup (map fst l) -> NoDup (map snd l) -> (forall x, In x l -> snd x = new -> fst x = id) ->
  NoDup (map snd (map (fun x => if fst x =? id then (id, new) else x) l)).
Proof.
  induction l as [|x l IH]; intros Hf Hs Hn; [constructor|]. cbn [map] in *.
  inversion Hf as [|? ? Hfx Hfl]; inversion Hs as [|? ? Hsx Hsl]; subst.
  constructor; [|apply IH; try assumption; intros y Hy; apply Hn; right; exact Hy].
  intro Hin. apply in_map_iff in Hin. destruct Hin as [z [Ez Hz]].
  apply in_map_iff in Hz. destruct Hz as [y [Ey Hy]]. subst z.
  destruct (fst x =? id) eqn:Fx; destruct (fst y =? id) eqn:Fy; cbn [snd] in Ez.
  - apply Z.eqb_eq in Fx, Fy. apply Hfx. rewrite Fx, <- Fy. apply in_map. exact Hy.
  - apply Z.eqb_neq in Fy. apply Fy. apply Hn; [right; exact Hy|exact Ez].
  - apply Z.eqb_neq in Fx. apply Fx. apply Hn; [left; reflexivity|symmetry; exact Ez].
  - apply Hsx. rewrite <- Ez. apply in_map. exact Hy.
Qed.

Lemma rc_id_none_names d n : is_std_rc_name n = false -> rc_id_of_name d n = None ->
  forall x, In x (rcs d) -> snd x <> n.
Proof.
  unfold rc_id_of_name. intros S H x Hx E. rewrite S in H.
  destruct (find _ (rcs d)) eqn:F; [discriminate|].
  pose proof (find_none _ _ F x Hx) as N. cbn beta in N. apply Z.eqb_neq in N. exact (N E).
Qed.

Lemma c19_ids_step : forall cf d r d' rs, rcs_ok d -> step cf d r = (d', rs) -> rcs_ok d'.
Proof.
  intros cf d r d' rs [Hf [Hs Hall]] H. apply step_tables in H. destruct H as [Hr _].
  unfold rcs_ok.
  destruct Hr as [E|[[n [S [I E]]]|[[id E]|[id [new [S [Hn E]]]]]]]; rewrite E.
  - repeat split; try assumption; apply Hall; assumption.
  - destruct (next_rc_id_spec d) as [Hmin Hgt]. pose proof (rc_id_none_names d n S I) as Hnn.
    split; [|split].
    + rewrite map_app. cbn [map fst]. apply NoDup_app_intro; [exact Hf|repeat constructor; intros []|].
      intros i H1 [<-|[]]. apply in_map_iff in H1. destruct H1 as [x [Ex Hx]]. specialize (Hgt x Hx). lia.
    + rewrite map_app. cbn [map snd]. apply NoDup_app_intro; [exact Hs|repeat constructor; intros []|].
      intros i H1 [<-|[]]. apply in_map_iff in H1. destruct H1 as [x [Ex Hx]]. exact (Hnn x Hx Ex).
    + intros x Hx. apply in_app_iff in Hx. destruct Hx as [Hx|[<-|[]]]; [apply Hall; exact Hx|].
      cbn [fst snd]. split; assumption.
  - split; [|split].
    + apply NoDup_map_filter. exact Hf.
    + apply NoDup_map_filter. exact Hs.
    + intros x Hx. apply filter_In in Hx. apply Hall. tauto.
  - split; [|split].
    + rewrite rename_fst. exact Hf.
    + apply rename_snd_NoDup; assumption.
    + intros x Hx. apply in_map_iff in Hx. destruct Hx as [y [Ey Hy]].
      destruct (fst y =? id) eqn:F; subst x; [|apply Hall; exact Hy].
      cbn [fst snd]. apply Z.eqb_eq in F. split; [|exact S]. rewrite <- F. apply Hall. exact Hy.
Qed.

Lemma ids_run cf : forall l d, rcs_ok d -> rcs_ok (run cf d l).
Proof.
  induction l as [|r l IH]; intros d Hd; cbn [run]; [exact Hd|].
  apply IH. destruct (step cf d r) as [d' rs] eqn:E. cbn [fst]. eapply c19_ids_step; eassumption.
Qed.

Lemma c19_ids_reachable : forall cf l, rcs_ok (run cf db0 l).
Proof.
  intros cf l. apply ids_run. unfold rcs_ok, db0. cbn [rcs map]. split; [constructor|].
  split; [constructor|]. intros x [].
Qed.
