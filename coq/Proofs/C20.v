(* C20: proofs about limit_results for any random.sample / random.shuffle meeting their contracts. *)
From Coq Require Import ZArith List Bool Lia Permutation.
From PV Require Import Model.Limit.
Import ListNotations.
Open Scope Z_scope.

Section Proofs.
  Variable A : Type.
  Variable provs_of : A -> list (Z * Z).
  Variable sample : list A -> nat -> list A.
  Variable shuffle : list A -> list A.
  (* contracts of random.sample (k distinct positions of the population) and random.shuffle *)
  Hypothesis sample_spec : forall l n, (n <= length l)%nat -> NoDup l ->
    length (sample l n) = n /\ NoDup (sample l n) /\ incl (sample l n) l.
  Hypothesis shuffle_perm : forall l, Permutation (shuffle l) l.

  Notation limit_results := (limit_results A provs_of sample shuffle).
  Notation covers := (covers A provs_of).

  Lemma mem_true : forall x l, mem x l = true <-> In x l.
  Proof.
    intros x l. unfold mem. rewrite existsb_exists. split.
    - intros [y [Hy E]]. apply Z.eqb_eq in E. subst. exact Hy.
    - intro H. exists x. split; [exact H|apply Z.eqb_refl].
  Qed.

  Lemma firstn_incl' : forall (l : list A) n, incl (firstn n l) l.
  Proof. intros l n x Hx. rewrite <- (firstn_skipn n l). apply in_or_app. left. exact Hx. Qed.
  Lemma firstn_nodup : forall (l : list A) n, NoDup l -> NoDup (firstn n l).
  Proof.
    induction l as [|x l IH]; intros n Hn; destruct n; cbn; try constructor.
    - inversion Hn as [|? ? Hx Hl]; subst. intro Hin. apply Hx. exact (firstn_incl' l n x Hin).
    - inversion Hn; subst. apply IH. assumption.
  Qed.

  (* limit = n >= 1: exactly min(n, M) distinct requests, all from the unlimited result, with summaries
     that still cover every provider they name and are a sub-list of the unlimited summaries *)
  Lemma c20_limit : forall rnd n ars sums kept sums',
    (1 <= n)%nat -> NoDup ars -> covers sums ars ->
    limit_results rnd (Some n) ars sums = (kept, sums') ->
    length kept = Nat.min n (length ars) /\ NoDup kept /\ incl kept ars /\
    covers sums' kept /\ incl sums' sums.
  Proof.
    intros rnd n ars sums kept sums' Hn Hnd Hcov H. unfold Limit.limit_results in H.
    destruct ((0 <? n)%nat && (n <? length ars)%nat) eqn:E.
    - apply andb_true_iff in E. destruct E as [_ E]. apply Nat.ltb_lt in E.
      injection H as <- <-.
      assert (K : length (if rnd then sample ars n else firstn n ars) = n /\
                  NoDup (if rnd then sample ars n else firstn n ars) /\
                  incl (if rnd then sample ars n else firstn n ars) ars).
      { destruct rnd.
        - apply sample_spec; [lia|exact Hnd].
        - split; [apply firstn_length_le; lia|]. split; [apply firstn_nodup; exact Hnd|apply firstn_incl']. }
      destruct K as [K1 [K2 K3]]. split; [rewrite K1; lia|]. split; [exact K2|]. split; [exact K3|]. split.
      + intros a p r Ha Hp. destruct (Hcov a p r (K3 a Ha) Hp) as [s [Hs [Hsp Hsr]]].
        exists s. split; [|split; assumption]. apply filter_In. split; [exact Hs|].
        apply mem_true. unfold roots_of. apply in_flat_map. exists a. split; [exact Ha|].
        rewrite Hsr. apply in_map_iff. exists (p, r). split; [reflexivity|exact Hp].
      + intros s Hs. apply filter_In in Hs. tauto.
    - injection H as <- <-.
      assert (Hlen : (length ars <= n)%nat).
      { apply andb_false_iff in E. destruct E as [E|E]; [apply Nat.ltb_ge in E; lia|apply Nat.ltb_ge in E; exact E]. }
      destruct rnd.
      + pose proof (shuffle_perm ars) as P.
        split. { rewrite (Permutation_length P). lia. }
        split. { apply (Permutation_NoDup (Permutation_sym P)). exact Hnd. }
        split. { intros x Hx. apply (Permutation_in x P). exact Hx. }
        split; [|apply incl_refl].
        intros a p r Ha Hp. apply (Hcov a p r); [apply (Permutation_in a P); exact Ha|exact Hp].
      + split; [lia|]. split; [exact Hnd|]. split; [apply incl_refl|]. split; [exact Hcov|apply incl_refl].
  Qed.

  (* no limit (or a limit that does not bite): with randomisation the result is a permutation of the same
     requests, without it the identical list; summaries untouched *)
  Lemma c20_unlimited : forall rnd lim ars sums,
    (match lim with Some n => (length ars <= n)%nat \/ n = 0%nat | None => True end) ->
    Permutation (fst (limit_results rnd lim ars sums)) ars /\ snd (limit_results rnd lim ars sums) = sums /\
    (rnd = false -> fst (limit_results rnd lim ars sums) = ars).
  Proof.
    intros rnd lim ars sums H. unfold Limit.limit_results.
    assert (G : Permutation (if rnd then shuffle ars else ars) ars /\ (rnd = false -> (if rnd then shuffle ars else ars) = ars)).
    { destruct rnd.
      - split; [apply shuffle_perm|intro; discriminate].
      - split; [apply Permutation_refl|reflexivity]. }
    destruct lim as [n|]; [|cbn; tauto].
    destruct ((0 <? n)%nat && (n <? length ars)%nat) eqn:E; [|cbn; tauto].
    exfalso. apply andb_true_iff in E. destruct E as [E1 E2]. apply Nat.ltb_lt in E1. apply Nat.ltb_lt in E2.
    destruct H; lia.
  Qed.

  (* with randomisation disabled a limited result is the prefix of the unlimited one: a function of the
     unlimited result alone *)
  Lemma c20_deterministic : forall n ars sums, (1 <= n)%nat ->
    fst (limit_results false (Some n) ars sums) = firstn n ars.
  Proof.
    intros n ars sums Hn. unfold Limit.limit_results.
    destruct ((0 <? n)%nat && (n <? length ars)%nat) eqn:E; cbn [fst]; [reflexivity|].
    apply andb_false_iff in E. destruct E as [E|E].
    - apply Nat.ltb_ge in E. lia.
    - apply Nat.ltb_ge in E. symmetry. apply firstn_all2. exact E.
  Qed.
End Proofs.
