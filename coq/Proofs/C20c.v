(* C20 for the CODE MODEL: the limit of GET /allocation_candidates (RequestWideSearchContext.limit_results with
   randomize_allocation_candidates = False, Model/Candidates.v:limit_results) applied where the code applies it - to the
   allocation requests and provider summaries BEFORE they are rendered for the microversion - only selects from the
   unlimited answer: a prefix of min(N, M) requests, each with the summaries of the providers it names. *)
From PV Require Import Spec.CandSpec Proofs.Defs Proofs.C13 Proofs.C03 Proofs.C02 Proofs.C02m Proofs.C03s Proofs.C03c Proofs.C03w.
From PV Require Proofs.C09.

(* ================================================================ the answer with the limit *)
(* what _get_by_requests hands to limit_results: allocation requests and provider summaries, not yet rendered *)
Definition raw_result (v : Z) (q : query) (d : db) : list creq * list psum :=
  match process_anchor_traits d q with
  | RVal anchors =>
      let rw := mkRwCtx (has_provider_trees d) (29 <=? v) anchors (qy_policy q) (qy_same_subtree q) in
      match groups_loop d rw (mkRwState (get_sharing_providers d) []) (qy_groups q) [] with
      | RVal (cands, st) => exclude_nested_providers d rw (merge_candidates d (st_built st) (merge_combos d rw cands))
      | _ => ([], [])
      end
  | _ => ([], [])
  end.
(* list_allocation_candidates with the limit of the query *)
Definition candidates_limited (v : Z) (q : query) (d : db) : cand_result :=
  match candidates v q d with
  | COk _ _ => transform v q (limit_results d (qy_limit q) (raw_result v q d))
  | r => r
  end.

Lemma raw_transform v q d a s : candidates v q d = COk a s -> transform v q (raw_result v q d) = COk a s.
Proof.
  unfold candidates, candidates_gen, raw_result. destruct (v <? 10); [discriminate|]. destruct (negb (query_wf v q)); [discriminate|].
  unfold get_by_requests_gen. destruct (process_anchor_traits d q) as [anchors| | |]; try discriminate.
  2:{ intros [= <- <-]. reflexivity. }
  cbv zeta. set (rw := mkRwCtx _ _ _ _ _).
  destruct (groups_loop d rw _ (qy_groups q) []) as [[cands st]| | |]; try discriminate.
  2:{ intros [= <- <-]. reflexivity. }
  unfold finish_requests. cbn [orb]. destruct (negb _); [intro H; exact H|].
  destruct (transform v q (exclude_nested_providers d rw (merge_candidates d (st_built st) (merge_combos d rw cands)))) as [| | |ua us] eqn:Eu;
    try discriminate.
  destruct (result_same _ _); [intro H; exact H|discriminate].
Qed.

Lemma transform_shape v q x : transform v q x = COk (map (creq_view v) (fst x)) (map (psum_view v q) (snd x)).
Proof. reflexivity. Qed.

Lemma firstn_sub {A} n : forall (l : list A) x, In x (firstn n l) -> In x l.
Proof. induction n as [|n IH]; intros [|y l] x; cbn [firstn In]; try tauto. intros [H|H]; [auto|right; apply IH; exact H]. Qed.

(* ================================================================ pairwise distinct lists *)
Definition distinct (l : list creq) : Prop := ForallOrdPairs (fun x y => same_creq x y = false) l.
Lemma distinct_dedup l : distinct (dedup_by same_creq l).
Proof.
  unfold distinct, dedup_by. induction l as [|x l IH]; cbn [fold_right]; [constructor|].
  destruct (existsb (same_creq x) (fold_right _ [] l)) eqn:E; [exact IH|]. constructor; [|exact IH].
  apply Forall_forall. intros y Hy. destruct (same_creq x y) eqn:Exy; [|reflexivity].
  assert (existsb (same_creq x) (fold_right (fun x0 acc => if existsb (same_creq x0) acc then acc else x0 :: acc) [] l) = true)
    by (apply existsb_exists; eauto). congruence.
Qed.
Lemma distinct_filter P l : distinct l -> distinct (filter P l).
Proof.
  unfold distinct. induction 1 as [|x l Hx _ IH]; cbn [filter]; [constructor|]. destruct (P x); [|exact IH].
  constructor; [|exact IH]. rewrite Forall_forall in *. intros y Hy. apply filter_In in Hy. apply Hx. tauto.
Qed.
Lemma distinct_firstn n l : distinct l -> distinct (firstn n l).
Proof.
  unfold distinct. intro H. revert n. induction H as [|x l Hx _ IH]; intros [|n]; cbn [firstn]; try constructor; [|apply IH].
  rewrite Forall_forall in *. intros y Hy. apply Hx. apply (firstn_sub n l). exact Hy.
Qed.
Lemma distinct_view v l : 34 <= v -> distinct l -> distinct (map (creq_view v) l).
Proof.
  intros Hv. unfold distinct. induction 1 as [|x l Hx _ IH]; cbn [map]; constructor; [|exact IH].
  rewrite Forall_forall in *. intros y Hy. apply in_map_iff in Hy. destruct Hy as [y0 [<- Hy0]].
  unfold same_creq, creq_view. cbn [cr_rrs cr_maps]. assert (E : (34 <=? v) = true) by (apply Z.leb_le; exact Hv). rewrite E.
  exact (Hx y0 Hy0).
Qed.

(* ================================================================ the unlimited answer, not yet rendered *)
Lemma raw_distinct v q d : distinct (fst (raw_result v q d)).
Proof.
  unfold raw_result. destruct (process_anchor_traits d q) as [anchors| | |]; try constructor. cbv zeta.
  set (rw := mkRwCtx _ _ _ _ _). destruct (groups_loop d rw _ (qy_groups q) []) as [[cands st]| | |]; try constructor.
  assert (Hm : distinct (fst (merge_candidates d (st_built st) (merge_combos d rw cands)))).
  { unfold merge_candidates. set (l := dedup_by same_creq _). pose proof (distinct_dedup (filter (fun c => negb (exceeds_capacity d c))
      (map consolidate_allocation_requests (merge_combos d rw cands)))) as Hl. fold l in Hl. destruct l; [constructor|exact Hl]. }
  unfold exclude_nested_providers. destruct (rw_nested_aware rw || negb (rw_has_trees rw)); [exact Hm|]. cbn [fst].
  apply distinct_filter. exact Hm.
Qed.

(* every provider named by an allocation request has its summary (before rendering) *)
Lemma raw_covered v q d : rps_wf d -> forall c x, In c (fst (raw_result v q d)) -> In x (cr_rrs c) ->
  exists r, In r (rps d) /\ rp_uuid r = rr_rp x /\ In (summary_of d r) (snd (raw_result v q d)).
Proof.
  intros Hwf c x. unfold raw_result. destruct (process_anchor_traits d q) as [anchors| | |]; try (intros []). cbv zeta.
  set (rw := mkRwCtx _ _ _ _ _). destruct (groups_loop d rw _ (qy_groups q) []) as [[cands st]| | |] eqn:Hg; try (intros []).
  assert (Hinv : cands_inv d (st_built st) cands).
  { eapply groups_loop_ok; [exact Hwf| |exact Hg]. cbn [st_built]. apply groups_loop_start. }
  destruct (merge_candidates d (st_built st) (merge_combos d rw cands)) as [ar su] eqn:Em.
  destruct (exclude_nested_providers d rw (ar, su)) as [ar' su'] eqn:Ee. cbn [fst snd]. intros Hc Hx.
  destruct (merge_candidates_ok d Hwf rw (st_built st) cands ar su Hinv Em) as [_ Hs].
  destruct (exclude_nested_ok d rw ar su ar' su' Ee) as [Hincl Hkeep].
  destruct (Hs c x (Hincl c Hc) Hx) as [r [Hr [Er Hin]]]. exists r. repeat split; try assumption.
  eapply Hkeep; eassumption.
Qed.

(* ================================================================ limit_results on any such pair *)
Lemma lenZ_firstn {A} n (l : list A) : 0 <= n -> lenZ (firstn (Z.to_nat n) l) = Z.min n (lenZ l).
Proof. intro H. unfold lenZ. rewrite firstn_length. lia. Qed.

Lemma limit_results_spec d n x : rps_wf d -> 1 <= n ->
  (forall c y, In c (fst x) -> In y (cr_rrs c) -> exists r, In r (rps d) /\ rp_uuid r = rr_rp y /\ In (summary_of d r) (snd x)) ->
  let x' := limit_results d (Some n) x in
  fst x' = firstn (Z.to_nat n) (fst x) /\ incl (snd x') (snd x) /\
  (forall c y, In c (fst x') -> In y (cr_rrs c) -> exists r, In r (rps d) /\ rp_uuid r = rr_rp y /\ In (summary_of d r) (snd x')).
Proof.
  intros Hwf Hn Hcov. cbv zeta. unfold limit_results.
  assert (E0 : (0 <? n) = true) by (apply Z.ltb_lt; lia). rewrite E0. cbn [andb].
  destruct (n <? lenZ (fst x)) eqn:El.
  - cbn [fst snd]. split; [reflexivity|]. split; [intros s Hs; apply filter_In in Hs; tauto|].
    intros c y Hc Hy. destruct (Hcov c y (firstn_sub _ _ c Hc) Hy) as [r [Hr [Er Hin]]]. exists r. repeat split; try assumption.
    apply filter_In. split; [exact Hin|]. apply memZ_In. cbn [summary_of ps_root].
    assert (Eroot : rp_root r = root_of d (rr_rp y)) by (rewrite <- Er; symmetry; apply (root_of_row d Hwf); exact Hr).
    rewrite Eroot. apply in_flat_map. exists c. split; [exact Hc|]. apply in_map_iff. exists y. auto.
  - apply Z.ltb_ge in El. split; [|split; [apply incl_refl|exact Hcov]].
    symmetry. apply firstn_all2. unfold lenZ in El. lia.
Qed.

(* ================================================================ theorems *)
Lemma query_wf_limit v q n : query_wf v q = true -> qy_limit q = Some n -> 16 <= v /\ 1 <= n.
Proof.
  unfold query_wf. cbv zeta. intros H Hl.
  repeat match type of H with (_ && _ = true) => let H' := fresh "W" in apply andb_true_iff in H; destruct H as [H H'] end.
  rewrite Hl in *.
  match goal with X : (16 <=? v) && (1 <=? n) = true |- _ => apply andb_true_iff in X; destruct X as [X1 X2];
    apply Z.leb_le in X1, X2; auto end.
Qed.

(* limit=N: the first min(N, M) of the M unlimited requests, pairwise distinct (as allocation requests with their
   mappings; as SHOWN, from 1.34 where the mappings are shown), every provider they name has its summary among the kept
   summaries, and these are summaries of the unlimited answer *)
Theorem c20_code_limit : forall v q d a s n,
  rps_wf d -> candidates v q d = COk a s -> qy_limit q = Some n ->
  16 <= v /\ 1 <= n /\
  exists kept sums', candidates_limited v q d = COk kept sums' /\
    kept = firstn (Z.to_nat n) a /\ lenZ kept = Z.min n (lenZ a) /\ incl kept a /\
    (exists kr, kept = map (creq_view v) kr /\ distinct kr) /\ (34 <= v -> distinct kept) /\
    (forall c x, In c kept -> In x (cr_rrs c) ->
       exists r, find_rp d (rr_rp x) = Some r /\ In (psum_view v q (summary_of d r)) sums') /\
    incl sums' s.
Proof.
  intros v q d a s n Hwf Hcand Hl. destruct (candidates_inv v q d a s Hcand) as [Hqwf _].
  destruct (query_wf_limit v q n Hqwf Hl) as [Hv Hn]. split; [exact Hv|]. split; [exact Hn|].
  pose proof (raw_transform v q d a s Hcand) as Hraw. rewrite transform_shape in Hraw. injection Hraw as Ea Es.
  set (x := raw_result v q d) in *.
  destruct (limit_results_spec d n x Hwf Hn (raw_covered v q d Hwf)) as [Ek [Hincl Hcov]].
  set (x' := limit_results d (Some n) x) in *.
  exists (map (creq_view v) (fst x')), (map (psum_view v q) (snd x')).
  assert (Ekept : map (creq_view v) (fst x') = firstn (Z.to_nat n) a).
  { rewrite Ek, <- Ea. symmetry. apply firstn_map. }
  assert (Hdk : distinct (fst x')) by (rewrite Ek; apply distinct_firstn; apply raw_distinct).
  split; [|split; [exact Ekept|split; [|split; [|split; [|split; [|split]]]]]].
  - unfold candidates_limited. rewrite Hcand, Hl. fold x. fold x'. apply transform_shape.
  - rewrite Ekept. apply lenZ_firstn. lia.
  - rewrite Ekept. intros c Hc. apply (firstn_sub _ _ c Hc).
  - exists (fst x'). split; [reflexivity|exact Hdk].
  - intro H34. apply distinct_view; assumption.
  - intros c y Hc Hy. apply in_map_iff in Hc. destruct Hc as [c0 [<- Hc0]]. cbn [creq_view cr_rrs] in Hy.
    destruct (Hcov c0 y Hc0 Hy) as [r [Hr [Er Hin]]]. exists r. split; [apply find_rp_iff; [apply Hwf|auto]|]. apply in_map. exact Hin.
  - rewrite <- Es. intros s0 Hs0. apply in_map_iff in Hs0. destruct Hs0 as [s1 [<- Hs1]]. apply in_map. apply Hincl. exact Hs1.
Qed.

(* no limit, or a limit that does not bite: the answer is unchanged *)
Theorem c20_code_unlimited : forall v q d a s,
  candidates v q d = COk a s ->
  (match qy_limit q with Some n => lenZ a <= n | None => True end) ->
  candidates_limited v q d = COk a s.
Proof.
  intros v q d a s Hcand Hl. pose proof (raw_transform v q d a s Hcand) as Hraw. unfold candidates_limited. rewrite Hcand.
  destruct (qy_limit q) as [n|]; [|exact Hraw]. unfold limit_results.
  assert (Elen : lenZ (fst (raw_result v q d)) = lenZ a).
  { rewrite transform_shape in Hraw. injection Hraw as Ea _. rewrite <- Ea. unfold lenZ. rewrite map_length. reflexivity. }
  rewrite Elen. assert (E : (n <? lenZ a) = false) by (apply Z.ltb_ge; exact Hl). rewrite E, andb_false_r. exact Hraw.
Qed.

(* the unlimited requests themselves are pairwise distinct (the de-duplication at the end of _merge_candidates) *)
Theorem c20_code_distinct : forall v q d a s, candidates v q d = COk a s ->
  (exists ar, a = map (creq_view v) ar /\ distinct ar) /\ (34 <= v -> distinct a).
Proof.
  intros v q d a s Hcand. pose proof (raw_transform v q d a s Hcand) as Hraw. rewrite transform_shape in Hraw.
  injection Hraw as Ea _. split.
  - exists (fst (raw_result v q d)). split; [symmetry; exact Ea|apply raw_distinct].
  - intro Hv. rewrite <- Ea. apply distinct_view; [exact Hv|apply raw_distinct].
Qed.

(* in every state reached by any requests (the Forest invariant gives rps_wf) *)
Theorem c20_code_limit_reachable : forall cf l v q a s n,
  candidates v q (run cf db0 l) = COk a s -> qy_limit q = Some n ->
  exists kept sums', candidates_limited v q (run cf db0 l) = COk kept sums' /\
    kept = firstn (Z.to_nat n) a /\ lenZ kept = Z.min n (lenZ a) /\ incl kept a /\
    (34 <= v -> distinct kept) /\
    (forall c x, In c kept -> In x (cr_rrs c) ->
       exists r, find_rp (run cf db0 l) (rr_rp x) = Some r /\ In (psum_view v q (summary_of (run cf db0 l) r)) sums') /\
    incl sums' s.
Proof.
  intros cf l v q a s n Hcand Hl.
  destruct (c20_code_limit v q (run cf db0 l) a s n (Forest_rps_wf _ (C09.c09_invariant cf l)) Hcand Hl)
    as [_ [_ [kept [sums' [H1 [H2 [H3 [H4 [_ [H6 [H7 H8]]]]]]]]]]].
  exists kept, sums'. auto 10.
Qed.

(* ================================================================ non-vacuity *)
(* the reachable table of Proofs/C03w.v (two sharing providers): resources=VCPU:1,DISK_GB:1 has 6 candidates and 5
   provider summaries at 1.39; with limit=2 the first two are kept, with the summaries of the providers 2 and 3 only *)
Definition lim_query (lim : option Z) : query := mkQuery [mkGroup 0 [(0, 1); (2, 1)] [] [] [] [] None] GPAbsent lim [] [] [].
Example c20_code_limit_nonvacuous :
  rps_wf sh_db /\
  (exists a s, candidates 39 (lim_query (Some 2)) sh_db = COk a s /\ lenZ a = 6 /\ map ps_rp s = [1; 2; 3; 4; 5]) /\
  (exists kept sums', candidates_limited 39 (lim_query (Some 2)) sh_db = COk kept sums' /\
     map cr_rrs kept = [[mkRreq 2 0 1; mkRreq 2 2 1]; [mkRreq 2 0 1; mkRreq 3 2 1]] /\ map ps_rp sums' = [2; 3]) /\
  candidates_limited 39 (lim_query None) sh_db = candidates 39 (lim_query None) sh_db.
Proof.
  split; [exact (proj1 (sound_db_b_ok sh_db ltac:(timeout 120 vm_compute; reflexivity)))|].
  split; [|split]; timeout 120 vm_compute; [eexists; eexists; (split; [reflexivity|split; reflexivity]) |
                                               eexists; eexists; (split; [reflexivity|split; reflexivity]) | reflexivity].
Qed.

(* ================================================================ below 1.34 the SHOWN requests need not be distinct *)
(* AllocationRequest.__eq__ compares the resource requests AND the mappings (suffix -> providers); the mappings are only
   shown from 1.34.  Two groups asking for the same class and amount can swap their providers: two requests that differ in
   their mappings only, hence both kept by the de-duplication, and rendered identically before 1.34.
   Reachable table nv_db (trees 1 -> {2 -> 3, 4} and 5 -> 6, VCPU on 2, 3, 4, 5, 6):
   GET /allocation_candidates?resources1=VCPU:2&resources2=VCPU:2&group_policy=none at 1.33 lists {2: VCPU 2, 3: VCPU 2}
   twice (and four more such pairs); at 1.34 the same eleven requests are pairwise distinct by their mappings. *)
Fixpoint dupb (l : list creq) : bool :=
  match l with [] => false | x :: r => existsb (same_creq x) r || dupb r end.
Lemma distinct_dupb l : distinct l -> dupb l = false.
Proof.
  unfold distinct. induction 1 as [|x l Hx _ IH]; cbn [dupb]; [reflexivity|]. rewrite IH, orb_false_r.
  destruct (existsb (same_creq x) l) eqn:E; [|reflexivity]. apply existsb_exists in E. destruct E as [y [Hy E]].
  rewrite Forall_forall in Hx. rewrite (Hx y Hy) in E. discriminate.
Qed.
Definition twin_query : query :=
  mkQuery [mkGroup 1 [(0, 2)] [] [] [] [] None; mkGroup 2 [(0, 2)] [] [] [] [] None] GPNone None [] [] [].
Example c20c_shown_duplicates_below_134 :
  (exists a s, candidates 33 twin_query nv_db = COk a s /\ lenZ a = 11 /\ ~ distinct a /\
               nth 1 (map cr_rrs a) [] = [mkRreq 2 0 2; mkRreq 3 0 2] /\ nth 3 (map cr_rrs a) [] = [mkRreq 3 0 2; mkRreq 2 0 2] /\
               map cr_maps a = repeat [] 11) /\
  (exists a s, candidates 34 twin_query nv_db = COk a s /\ lenZ a = 11 /\ distinct a).
Proof.
  split.
  - destruct (candidates 33 twin_query nv_db) as [| | |a s] eqn:E; try (timeout 120 vm_compute in E; discriminate E).
    exists a, s. split; [reflexivity|].
    assert (H : (lenZ a =? 11) && dupb a = true /\ nth 1 (map cr_rrs a) [] = [mkRreq 2 0 2; mkRreq 3 0 2] /\
                nth 3 (map cr_rrs a) [] = [mkRreq 3 0 2; mkRreq 2 0 2] /\ map cr_maps a = repeat [] 11).
    { timeout 120 vm_compute in E. injection E as <- _. timeout 120 vm_compute. auto. }
    destruct H as [H [H1 [H2 H3]]]. apply andb_true_iff in H. destruct H as [Hl Hd]. apply Z.eqb_eq in Hl.
    split; [exact Hl|]. split; [|auto]. intro Hdis. rewrite (distinct_dupb a Hdis) in Hd. discriminate.
  - destruct (candidates 34 twin_query nv_db) as [| | |a s] eqn:E; try (timeout 120 vm_compute in E; discriminate E).
    exists a, s. split; [reflexivity|]. split.
    + timeout 120 vm_compute in E. injection E as <- _. reflexivity.
    + apply (proj2 (c20_code_distinct 34 twin_query nv_db a s E)). lia.
Qed.

Print Assumptions c20_code_limit.
Print Assumptions c20_code_unlimited.
Print Assumptions c20_code_distinct.
Print Assumptions c20_code_limit_reachable.
Print Assumptions c20_code_limit_nonvacuous.
Print Assumptions c20c_shown_duplicates_below_134.
