(* Definitions for the statements about concurrent executions (Model/Conc.v). No proofs here. *)
From PV Require Export Model.Conc Proofs.Defs.

Definition exec (cf : cfg) (reqs : list req) (s : list nat) (d : db) : list tstate * db :=
  run_sched s (map (tinit cf) reqs) d.
Definition succeeded (ts : list tstate) (i : nat) : Prop :=
  exists r, nth_error ts i = Some (TDone r) /\ status r < 300.
Definition rejected_with (ts : list tstate) (i : nat) (s c : Z) : Prop :=
  exists r, nth_error ts i = Some (TDone r) /\ status r = s /\ code r = c.
Definition finished (ts : list tstate) : Prop := forall t, In t ts -> exists r, t = TDone r.

(* state and thread states after the first k steps of a schedule *)
Definition at_step (cf : cfg) (reqs : list req) (s : list nat) (d : db) (k : nat) : list tstate * db :=
  exec cf reqs (firstn k s) d.

(* the transaction in which a request commits its changes *)
Definition committing (t : tstate) : Prop :=
  match t with TProvWrite _ _ | TMain _ _ _ => True | _ => False end.
Definition commits_at (cf : cfg) (reqs : list req) (s : list nat) (d : db) (i k : nat) : Prop :=
  nth_error s k = Some i /\ exists t, nth_error (fst (at_step cf reqs s d k)) i = Some t /\ committing t.

(* requests that carry a provider generation: PUT inventories, PUT inventory, PUT traits,
   PUT aggregates from 1.19, POST /reshaper *)
Definition carries_rp_gen (r : req) (u g : Z) : Prop :=
  match r with
  | InvSet _ u' g' _ | InvPut _ u' g' _ | TraitsSet _ u' g' _ => u' = u /\ g' = g
  | AggsSet v u' g' _ => 19 <= v /\ u' = u /\ g' = g
  | Reshape _ ri _ => exists x, In x ri /\ ri_rp x = u /\ ri_gen x = g
  | _ => False
  end.
(* requests in the scope of C05 / C07: provider writes and allocation writes from 1.28 *)
Definition in_scope (r : req) : Prop :=
  match r with
  | InvSet _ _ _ _ | InvPost _ _ _ | InvPut _ _ _ _ | InvDelete _ _ | InvDeleteAll _ _
  | TraitsSet _ _ _ _ | TraitsDelete _ _ | AggsSet _ _ _ _ => True
  | AllocPut v _ | AllocPost v _ | Reshape v _ _ => 28 <= v
  | _ => False
  end.
(* an allocation write naming consumer c with generation g (None = must not exist) *)
Definition carries_cons_gen (r : req) (c : Z) (g : option Z) : Prop :=
  exists k, In k (req_consumers r) /\ ci_uuid k = c /\ ci_gen k = g /\ 28 <= req_version r.
Definition wipes (r : req) (c : Z) : Prop :=
  exists k, In k (req_consumers r) /\ ci_uuid k = c /\ ci_allocs k = [].

(* serial execution of requests (each to completion) in a given order *)
Definition run_req (cf : cfg) (r : req) (d : db) : db * tstate := run_thread 1000 (tinit cf r) d.
Fixpoint run_serial (cf : cfg) (rs : list req) (d : db) : db * list tstate :=
  match rs with
  | [] => (d, [])
  | r :: rs' => let '(d1, t) := run_req cf r d in let '(d2, ts) := run_serial cf rs' d1 in (d2, t :: ts)
  end.
Definition core_state (d : db) : list (list (list Z)) := core_dump (dump d).
