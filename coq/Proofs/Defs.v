(* Definitions used by the property statements over the sequential model (Model/Handlers.v).
   No proofs here. *)
From PV Require Export Model.Handlers.

(* ---------------------------------------------------------------- request well-formedness:
   what JSON (unique keys) and the JSON schemas guarantee about a parsed request *)
Fixpoint nodupb (l : list Z) : bool :=
  match l with [] => true | x :: l' => negb (memZ x l') && nodupb l' end.

Definition inv_in_wf (x : inv_in) : bool :=
  (1 <=? ii_total x) && (0 <=? ii_reserved x) && (1 <=? ii_min x) && (1 <=? ii_max x) && (1 <=? ii_step x).
Definition inv_list_wf (l : list inv_in) : bool :=
  forallb inv_in_wf l && nodupb (map ii_rc l).
Definition alloc_in_wf (a : alloc_in) : bool :=
  forallb (fun x => 1 <=? snd x) (ai_res a) && nodupb (map fst (ai_res a)) &&
  negb (match ai_res a with [] => true | _ => false end).      (* "resources": minProperties 1 *)
Definition cons_in_wf (c : cons_in) : bool :=
  forallb alloc_in_wf (ci_allocs c) && nodupb (map ai_rp (ci_allocs c)).
Definition cons_list_wf (l : list cons_in) : bool :=
  forallb cons_in_wf l && nodupb (map ci_uuid l).

Definition req_wf (r : req) : bool :=
  match r with
  | InvSet _ _ _ l => inv_list_wf l
  | InvPost _ _ x | InvPut _ _ _ x => inv_in_wf x
  | TraitsSet _ _ _ ts => nodupb ts
  | AllocPut _ c => cons_in_wf c
  | AllocPost _ l => cons_list_wf l
  | Reshape _ ri al =>
      forallb (fun r => inv_list_wf (ri_invs r)) ri && nodupb (map ri_rp ri) && cons_list_wf al
  | _ => true
  end.

Definition reqs_wf (l : list req) : Prop := Forall (fun r => req_wf r = true) l.
Definition reachable (cf : cfg) (d : db) : Prop := exists l, reqs_wf l /\ d = run cf db0 l.

(* ---------------------------------------------------------------- C01 *)
Definition placed_in (l : list cons_in) (u rc amt : Z) : Prop :=
  exists c a, In c l /\ In a (ci_allocs c) /\ ai_rp a = u /\ In (rc, amt) (ai_res a).
Definition placed (r : req) (u rc amt : Z) : Prop :=
  match r with
  | AllocPut _ c => placed_in [c] u rc amt
  | AllocPost _ l => placed_in l u rc amt
  | Reshape _ _ l => placed_in l u rc amt
  | _ => False
  end.
Definition overcommitted (d : db) (u rc : Z) : Prop :=
  exists i, find_inv d u rc = Some i /\ cap_floor i < usage d u rc.
Definition inv_change (r : req) (u : Z) : Prop :=
  match r with
  | InvSet _ u' _ _ | InvPost _ u' _ | InvPut _ u' _ _ | InvDelete u' _ | InvDeleteAll _ u' => u' = u
  | Reshape _ ri _ => In u (map ri_rp ri)
  | _ => False
  end.
Definition allocs_pos (d : db) : Prop := forall a, In a (allocs d) -> 0 < a_used a.

(* ---------------------------------------------------------------- C04 *)
(* everything except the auxiliary name tables (projects, users, consumer types) *)
Definition core_eq (d d' : db) : Prop :=
  rps d = rps d' /\ invs d = invs d' /\ allocs d = allocs d' /\ consumers d = consumers d' /\
  rcs d = rcs d' /\ traits d = traits d' /\ aggs d = aggs d' /\ rp_aggs d = rp_aggs d' /\
  rp_traits d = rp_traits d'.
(* the unique constraint on inventories (resource_provider_id, resource_class_id) *)
Definition inv_keys_nodup (d : db) : Prop := NoDup (map (fun i => (i_rp i, i_rc i)) (invs d)).
Definition is_error (rs : resp) : Prop := 400 <= status rs.
Definition is_success (rs : resp) : Prop := status rs < 300.

(* ---------------------------------------------------------------- C08 *)
Definition rp_in (d : db) (u : Z) : Prop := exists r, find_rp d u = Some r.
Definition RI (d : db) : Prop :=
  (forall a, In a (allocs d) ->
     rp_in d (a_rp a) /\ (exists i, find_inv d (a_rp a) (a_rc a) = Some i) /\
     (exists k, find_cons d (a_cons a) = Some k)) /\
  (forall i, In i (invs d) -> rp_in d (i_rp i) /\ rc_exists d (i_rc i) = true) /\
  (forall x, In x (rp_traits d) -> rp_in d (fst x) /\ trait_exists d (snd x) = true) /\
  (forall x, In x (rp_aggs d) -> rp_in d (fst x) /\ In (snd x) (aggs d)).
Definition mentions (d : db) (u : Z) : Prop :=
  rp_in d u \/ (exists i, In i (invs d) /\ i_rp i = u) \/ (exists a, In a (allocs d) /\ a_rp a = u) \/
  (exists x, In x (rp_aggs d) /\ fst x = u) \/ (exists x, In x (rp_traits d) /\ fst x = u).

(* ---------------------------------------------------------------- C09 *)
(* chain l u top: following parent links from u ends at the parentless provider top *)
Inductive chain (l : list rp) : Z -> Z -> Prop :=
| chain_top u r : find_rp_l l u = Some r -> rp_parent r = None -> chain l u u
| chain_up u r p top : find_rp_l l u = Some r -> rp_parent r = Some p -> chain l p top -> chain l u top.
Definition Forest (d : db) : Prop :=
  NoDup (map rp_uuid (rps d)) /\ forall r, In r (rps d) -> chain (rps d) (rp_uuid r) (rp_root r).
(* u is p or below p *)
Inductive below (l : list rp) : Z -> Z -> Prop :=
| below_refl u : below l u u
| below_up u r q p : find_rp_l l u = Some r -> rp_parent r = Some q -> below l q p -> below l u p.

(* ---------------------------------------------------------------- C10 *)
Definition gen_of (d : db) (u : Z) : option Z := option_map rp_gen (find_rp d u).
Definition cgen_of (d : db) (c : Z) : option Z := option_map c_gen (find_cons d c).
Definition invs_of (d : db) (u : Z) : list inv := filter (fun i => i_rp i =? u) (invs d).
Definition rp_traits_of (d : db) (u : Z) : list (Z * Z) := filter (fun x => fst x =? u) (rp_traits d).
Definition rp_aggs_of (d : db) (u : Z) : list (Z * Z) := filter (fun x => fst x =? u) (rp_aggs d).
Definition names_consumer (r : req) (c : Z) : Prop :=
  match r with
  | AllocPut _ k => ci_uuid k = c
  | AllocPost _ l | Reshape _ _ l => In c (map ci_uuid l)
  | _ => False
  end.
(* the provider whose generation a write response reports *)
Definition gen_target (r : req) : option Z :=
  match r with
  | RpCreate _ u _ _ | RpUpdate _ u _ _ | InvSet _ u _ _ | InvPost _ u _ | InvPut _ u _ _
  | TraitsSet _ u _ _ | AggsSet _ u _ _ => Some u
  | _ => None
  end.

(* ---------------------------------------------------------------- C12 *)
Definition has_consumer (d : db) (c : Z) : Prop := exists k, In k (consumers d) /\ c_uuid k = c.
Definition holds_allocs (d : db) (c : Z) : Prop := exists a, In a (allocs d) /\ a_cons a = c.
Definition ConsIff (d : db) : Prop := forall c, has_consumer d c <-> holds_allocs d c.
Definition req_consumers (r : req) : list cons_in :=
  match r with
  | AllocPut _ k => [k]
  | AllocPost _ l | Reshape _ _ l => l
  | _ => []
  end.
Definition req_version (r : req) : Z :=
  match r with
  | AllocPut v _ | AllocPost v _ | Reshape v _ _ => v
  | _ => 0
  end.
