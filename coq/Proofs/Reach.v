(* Reachable-state corollaries combining the per-step results of C08 and C12. *)
From PV Require Import Proofs.Defs Proofs.C08 Proofs.C12.

Lemma run_inv2 : forall cf l d, RI d -> ConsIff d -> reqs_wf l -> RI (run cf d l) /\ ConsIff (run cf d l).
Proof.
  intros cf l. induction l as [|r l IH]; intros d HR HC Hwf; cbn [run]; [split; assumption|].
  inversion Hwf as [|? ? Hr Hl]; subst.
  destruct (step cf d r) as [d' rs] eqn:E. cbn [fst].
  apply IH; [| |exact Hl].
  - exact (c08_step cf d r d' rs HR Hr E).
  - exact (c12_step cf d r d' rs HC HR Hr E).
Qed.

Lemma consiff_db0 : ConsIff db0.
Proof. intro c. unfold has_consumer, holds_allocs. cbn. split; intros [x [Hx _]]; destruct Hx. Qed.
Lemma ri_db0 : RI db0.
Proof. unfold RI. cbn. split; [|split; [|split]]; intros x Hx; destruct Hx. Qed.

Lemma c12_invariant : forall cf d, reachable cf d -> ConsIff d.
Proof.
  intros cf d [l [Hwf ->]]. exact (proj2 (run_inv2 cf l db0 ri_db0 consiff_db0 Hwf)).
Qed.
