(* C01 - Allocation writes never over-commit inventory or break unit constraints.
   Statements only; proofs are in Proofs/C01.v. *)
From PV Require Import Proofs.Defs Proofs.C01.

(* An accepted allocation write (PUT /allocations/{c}, POST /allocations, POST /reshaper): every
   (provider, class) on which it places an amount has an inventory in the resulting state, the amount
   respects min_unit / max_unit / step_size and total usage is within (total - reserved) * ratio. *)
Theorem C01_accepted_write :
  forall cf d r d' rs u rc amt,
    req_wf r = true -> step cf d r = (d', rs) -> is_success rs -> placed r u rc amt ->
    exists i, find_inv d' u rc = Some i /\
              i_min i <= amt <= i_max i /\ amt mod i_step i = 0 /\
              usage d' u rc <= cap_floor i.
Proof. exact c01_accepted_write. Qed.
Print Assumptions C01_accepted_write.

(* A pair that is over-committed after a request either had its inventory changed by that (successful)
   request, or was already over-committed before and its usage did not grow. *)
Theorem C01_overcommit_origin :
  forall cf d r d' rs u rc,
    allocs_pos d -> req_wf r = true -> step cf d r = (d', rs) -> overcommitted d' u rc ->
    (inv_change r u /\ is_success rs) \/ (overcommitted d u rc /\ usage d' u rc <= usage d u rc).
Proof. exact c01_overcommit_origin. Qed.
Print Assumptions C01_overcommit_origin.

(* the hypothesis allocs_pos holds in every reachable state *)
Theorem C01_allocs_pos_reachable : forall cf d, reachable cf d -> allocs_pos d.
Proof. exact c01_allocs_pos_reachable. Qed.
Print Assumptions C01_allocs_pos_reachable.

(* over whole histories: in every reachable state, an over-committed pair was made so by an
   inventory change - immediately after any request that is not an inventory change of u,
   over-commitment of (u, rc) implies over-commitment before it *)
Theorem C01_history :
  forall cf l r u rc, reqs_wf (l ++ [r]) -> ~ inv_change r u ->
    overcommitted (run cf db0 (l ++ [r])) u rc ->
    overcommitted (run cf db0 l) u rc /\ usage (run cf db0 (l ++ [r])) u rc <= usage (run cf db0 l) u rc.
Proof. exact c01_history. Qed.
Print Assumptions C01_history.
