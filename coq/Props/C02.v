(* C02 - Every allocation candidate can be claimed exactly as returned.
   Proved for the code model (candidates_gen covers both the observed and the all-anchors result):
   providers exist, every supplying provider has its summary.  Proved for the specification's candidates
   (which the check compares with the application's on every generated case): amounts add up, groups are placed
   in full, and the capacity check of the write path (Model/Txn.v:check_capacity) accepts the candidate,
   and the whole claim - PUT /allocations/{k} of the model for a new consumer k - is answered 204 in every
   reachable state.
   Proved DIRECTLY FOR THE CODE MODEL'S CANDIDATES too (Proofs/C02s.v, through the soundness of the search for all
   tables, C03_sound / C03_sound_reachable): whatever `candidates` returns as a candidate list - sharing providers
   included - claimed as returned for a new consumer from microversion 1.28, is answered 204 in every reachable state
   (C02_code_claimable_reachable; no hypothesis on the database is left), the claim is a legal request
   (C02_code_claim_request_wf) and the state after it is again reachable.  One hypothesis on the query: the unsuffixed
   group names every class once (un_rcs_nodup) - derived for every accepted query string (C03_accepted_un_rcs_nodup).
   The claim is accepted at EVERY microversion of the claiming client (C02_code_claimable_reachable_all_versions): the
   write path reads the version in two places only - the consumer-generation check from 1.28 (null for a new consumer) and
   the consumer type from 1.38 - and the body of the version (project_id / user_id from 1.8, list or dict form of the
   allocations) decodes to the same parsed allocations; the one version-dependent refusal is a NON-null
   consumer_generation for a consumer that does not exist, 409 from 1.28 (C02_claim_generation_conflict).
   Not covered: the KeyError / order-dependent answers of the search (no candidate list is returned); the JSON encoding
   of the claim body; the check also claims every returned candidate on the real application. *)
From PV Require Import Proofs.Defs Spec.CandSpec Proofs.C02 Proofs.C02m Proofs.C02c Proofs.C03s Proofs.C03u Proofs.C03w Proofs.C02s.

Theorem C02_providers_exist : forall k v q d a s, rps_wf d ->
  candidates_gen k v q d = COk a s ->
  forall c, In c a -> forall p, In p (creq_providers c) -> exists r, find_rp d p = Some r.
Proof. exact c02_providers_exist. Qed.
Print Assumptions C02_providers_exist.

Theorem C02_summaries : forall k v q d a s, rps_wf d ->
  candidates_gen k v q d = COk a s ->
  forall c x, In c a -> In x (cr_rrs c) ->
    exists r, find_rp d (rr_rp x) = Some r /\ In (psum_view v q (summary_of d r)) s.
Proof. exact c02_summaries. Qed.
Print Assumptions C02_summaries.

Theorem C02_amounts_spec : forall v q d c, In c (spec_candidates v q d) ->
  (forall rc, total_rc rc (cr_rrs c) = total_res rc (requested q)) /\ NoDup (rr_keys (cr_rrs c)).
Proof. exact c02_amounts_spec. Qed.
Print Assumptions C02_amounts_spec.

Theorem C02_groups_in_full_spec : forall v q d c, amounts_nonneg q -> In c (spec_candidates v q d) ->
  (forall g, In g (suffixed_groups q) ->
     exists p, In (g_suffix g, [p]) (cr_maps c) /\
               forall rc amount, In (rc, amount) (g_resources g) ->
                 exists x, In x (cr_rrs c) /\ rr_rp x = p /\ rr_rc x = rc /\ amount <= rr_amt x) /\
  (forall g, unsuffixed_group q = Some g ->
     exists ps, In (0, ps) (cr_maps c) /\
                forall rc amount, In (rc, amount) (g_resources g) ->
                  exists p x, In p ps /\ In x (cr_rrs c) /\ rr_rp x = p /\ rr_rc x = rc /\ amount <= rr_amt x).
Proof. exact c02_groups_in_full_spec. Qed.
Print Assumptions C02_groups_in_full_spec.

Theorem C02_providers_exist_spec : forall v q d c, In c (spec_candidates v q d) ->
  forall p, In p (creq_providers c) -> exists r, find_rp d p = Some r.
Proof. exact c02_providers_exist_spec. Qed.
Print Assumptions C02_providers_exist_spec.

(* the write path's capacity check accepts the candidate's entries *)
Theorem C02_claimable_partial : forall v q d c l,
  invs_wf d -> amounts_nonneg q -> In c (spec_candidates v q d) ->
  NoDup (map areq_key l) ->
  (forall a, In a l -> exists x, In x (cr_rrs c) /\ q_rp a = rr_rp x /\ q_rc a = rr_rc x /\ q_amt a = rr_amt x) ->
  check_capacity d l = Ok tt.
Proof. exact c02_claimable_partial. Qed.
Print Assumptions C02_claimable_partial.

(* the candidate, sent as the allocations of a new consumer k (allocations grouped by provider, consumer_generation
   null, any project / user / type, any microversion from 1.28), is a well-formed request ... *)
Theorem C02_claim_request_wf : forall v q d c k proj user ty v',
  amounts_pos q -> In c (spec_candidates v q d) ->
  req_wf (AllocPut v' (cons_in_of c k proj user ty)) = true.
Proof. exact c02_claim_request_wf. Qed.
Print Assumptions C02_claim_request_wf.

(* ... and is answered 204: in any state with referential integrity and unique inventory keys ... *)
Theorem C02_claimable : forall cf v q d c k proj user ty v',
  RI d -> inv_keys_nodup d -> amounts_nonneg q -> In c (spec_candidates v q d) -> 28 <= v' ->
  find_cons d k = None ->
  status (snd (step cf d (AllocPut v' (cons_in_of c k proj user ty)))) = 204.
Proof. exact c02_claimable. Qed.
Print Assumptions C02_claimable.

(* ... hence in every state reachable by well-formed requests *)
Theorem C02_claimable_reachable : forall cf l v q c k proj user ty v',
  reqs_wf l -> amounts_nonneg q -> In c (spec_candidates v q (run cf db0 l)) -> 28 <= v' ->
  find_cons (run cf db0 l) k = None ->
  status (snd (step cf (run cf db0 l) (AllocPut v' (cons_in_of c k proj user ty)))) = 204.
Proof. exact c02_claimable_reachable. Qed.
Print Assumptions C02_claimable_reachable.

(* ---------------------------------------------------------------------------------------------------------------
   The candidates of the CODE MODEL.  cap_ok d: on the inventories of d, int(capacity) and floor(capacity) accept the
   same positive amounts - implied by non-negative capacities (C03w.caps_nonneg_cap_ok) and by non-negative usage
   (C03w.usage_nonneg_cap_ok), hence an invariant; caps_nonneg itself is NOT one (C02_caps_nonneg_not_invariant). *)
Theorem C02_code_claimable : forall cf v q d a s c k proj user ty v',
  RI d -> inv_keys_nodup d -> rps_wf d -> parentless_root d -> cap_ok d -> un_rcs_nodup q ->
  candidates v q d = COk a s -> In c a -> 28 <= v' -> find_cons d k = None ->
  status (snd (step cf d (AllocPut v' (cons_in_of c k proj user ty)))) = 204.
Proof. exact c02_code_claimable. Qed.
Print Assumptions C02_code_claimable.

(* in every state reached by well-formed requests: a returned candidate, claimed as returned, is accepted *)
Theorem C02_code_claimable_reachable : forall cf l v q a s c k proj user ty v',
  reqs_wf l -> un_rcs_nodup q ->
  candidates v q (run cf db0 l) = COk a s -> In c a -> 28 <= v' -> find_cons (run cf db0 l) k = None ->
  status (snd (step cf (run cf db0 l) (AllocPut v' (cons_in_of c k proj user ty)))) = 204.
Proof. exact c02_code_claimable_reachable. Qed.
Print Assumptions C02_code_claimable_reachable.

(* the claim is a legal request, so the state after it is reachable again *)
Theorem C02_code_claim_request_wf : forall v q d a s c k proj user ty v',
  rps_wf d -> parentless_root d -> cap_ok d -> aggs_wf d -> un_rcs_nodup q ->
  candidates v q d = COk a s -> In c a ->
  req_wf (AllocPut v' (cons_in_of c k proj user ty)) = true.
Proof. exact c02_code_claim_request_wf. Qed.
Print Assumptions C02_code_claim_request_wf.

Theorem C02_code_claim_reachable_after : forall cf l v q a s c k proj user ty v',
  reqs_wf l -> un_rcs_nodup q -> candidates v q (run cf db0 l) = COk a s -> In c a ->
  reqs_wf (l ++ [AllocPut v' (cons_in_of c k proj user ty)]).
Proof. exact c02_code_claim_reachable_after. Qed.
Print Assumptions C02_code_claim_reachable_after.

(* the (provider, class) keys of a returned candidate are distinct: one allocation row per key *)
Theorem C02_code_keys_distinct : forall v q d a s c, candidates v q d = COk a s -> In c a -> NoDup (rr_keys (cr_rrs c)).
Proof. exact code_cand_keys_nodup. Qed.
Print Assumptions C02_code_keys_distinct.

(* a reachable state with an inventory of negative real capacity (total 1, reserved 2, allocation_ratio 0.5, accepted
   from 1.26 because int(-0.5) = 0 is not < 0): caps_nonneg is not an invariant, cap_ok is *)
Theorem C02_caps_nonneg_not_invariant :
  reqs_wf ng_ops /\ ~ caps_nonneg (run (mkCfg 0 0) db0 ng_ops) /\ cap_ok (run (mkCfg 0 0) db0 ng_ops) /\
  map (fun i => (i_total i, i_reserved i, cap_trunc i, cap_floor i)) (invs (run (mkCfg 0 0) db0 ng_ops)) = [(1, 2, 0, -1)].
Proof. exact c02s_caps_nonneg_not_invariant. Qed.
Print Assumptions C02_caps_nonneg_not_invariant.

(* ---------------------------------------------------------------------------------------------------------------
   Every microversion of the claiming client.  claim_in c k op ou oty: the candidate's allocations for consumer k with
   optional project / user / consumer type and no (or a null) consumer_generation; cons_in_at v' ..: the members the body
   of microversion v' carries (project_id / user_id from 1.8, consumer_type from 1.38; Model/Decode.v:dec_cons). *)
Theorem C02_code_claimable_all_versions : forall cf v q d a s c k op ou oty v',
  RI d -> inv_keys_nodup d -> rps_wf d -> parentless_root d -> cap_ok d -> un_rcs_nodup q ->
  candidates v q d = COk a s -> In c a -> find_cons d k = None ->
  status (snd (step cf d (AllocPut v' (claim_in c k op ou oty)))) = 204.
Proof. exact c02_code_claimable_all_versions. Qed.
Print Assumptions C02_code_claimable_all_versions.

Theorem C02_code_claimable_reachable_all_versions : forall cf l v q a s c k proj user ty v',
  reqs_wf l -> un_rcs_nodup q ->
  candidates v q (run cf db0 l) = COk a s -> In c a -> find_cons (run cf db0 l) k = None ->
  status (snd (step cf (run cf db0 l) (AllocPut v' (cons_in_at v' c k proj user ty)))) = 204 /\
  status (snd (step cf (run cf db0 l) (AllocPut v' (cons_in_of c k proj user ty)))) = 204 /\
  req_wf (AllocPut v' (cons_in_at v' c k proj user ty)) = true.
Proof. exact c02_code_claimable_reachable_all_versions. Qed.
Print Assumptions C02_code_claimable_reachable_all_versions.

(* the version-dependent refusal: consumer_generation 0 for a new consumer is accepted (ignored) at 1.27, 409 from 1.28;
   the body of each version, with a null / absent generation, is accepted at 1.0, 1.7, 1.8, 1.11, 1.12, 1.27, 1.28, 1.37, 1.38, 1.39 *)
Theorem C02_claim_generation_conflict :
  let c := mkCreq (-1) [mkRreq 3 2 2; mkRreq 4 0 1] [(1, [3]); (0, [4; 3])] in
  let rq := mkConsIn 100 (map (alloc_in_of c) (providers_of c)) (Some 1) (Some 1) (Some 0) None in
  map (fun v' => status (snd (step (mkCfg 0 0) sh_db (AllocPut v' rq)))) [27; 28; 39] = [204; 409; 409] /\
  map (fun v' => status (snd (step (mkCfg 0 0) sh_db (AllocPut v' (cons_in_at v' c 100 1 1 1))))) [0; 7; 8; 11; 12; 27; 28; 37; 38; 39]
    = [204; 204; 204; 204; 204; 204; 204; 204; 204; 204].
Proof. exact c02_claim_generation_conflict. Qed.
Print Assumptions C02_claim_generation_conflict.


(* ------------------------------------------------------------------------------------------------------------------
   End to end (Proofs/C03z.v): query string + well-formed history + a consumer that does not exist yet - every returned
   candidate is claimed with 204 by a client of any microversion, and the claim is again a well-formed request. *)
(* the claim, alone *)
From PV Require Import Spec.CandSpec Proofs.Defs Model.Parse Model.DecodeQ Model.DecodeQC.
From PV Require Import Proofs.C02 Proofs.C02m Proofs.C02c Proofs.C03s Proofs.C03c Proofs.C03q Proofs.C03u Proofs.C03uq Proofs.C03w
                       Proofs.C03x Proofs.C02s Proofs.C20c Proofs.C13q Proofs.C03z.
Theorem C02_end_to_end : forall cf l (tok_rp tok_agg tok_trait tok_rc tok_suffix : str -> Z) v kv q a s c k proj user ty v',
  reqs_wf l -> (forall x y : str, tok_rc x = tok_rc y -> x = y) ->
  decode_candidates tok_rp tok_agg tok_trait tok_rc tok_suffix v kv = POk q ->
  candidates v q (run cf db0 l) = COk a s -> In c a -> find_cons (run cf db0 l) k = None ->
  status (snd (step cf (run cf db0 l) (AllocPut v' (cons_in_at v' c k proj user ty)))) = 204 /\
  reqs_wf (l ++ [AllocPut v' (cons_in_at v' c k proj user ty)]).
Proof. exact c02_end_to_end. Qed.
Print Assumptions C02_end_to_end.
