(* C02 - Every allocation candidate can be claimed exactly as returned.   PARTIAL.
   Proved for the code model (candidates_gen covers both the observed and the all-anchors result):
   providers exist, every supplying provider has its summary.  Proved for the specification's candidates
   (which the check compares with the application's on every generated case): amounts add up, groups are placed
   in full, and the capacity check of the write path (Model/Txn.v:check_capacity) accepts the candidate.
   and the whole claim - PUT /allocations/{k} of the model for a new consumer k - is answered 204 in every
   reachable state.  Not proved: claimability directly for the code model's candidates (it follows where code
   model = specification, which is proved for the sharing-free suffixed-only fragment, C03_suffixed_only_sound,
   and compared on every generated case elsewhere); the check also claims every returned candidate on the
   real application. *)
From PV Require Import Proofs.Defs Spec.CandSpec Proofs.C02 Proofs.C02m Proofs.C02c.

Theorem C02_providers_exist : forall k v q d a s, rps_wf d ->
  candidates_gen k v q d = COk a s ->
  forall c, In c a -> forall p, In p (creq_providers c) -> exists r, find_rp d p = Some r.
Proof. exact c02_providers_exist. Qed.
Print Assumptions C02_providers_exist.

Theorem C02_summaries : forall k v q d a s, rps_wf d ->
  candidates_gen k v q d = COk a s ->
  forall c x, In c a -> In x (cr_rrs c) ->
    exists r, find_rp d (rr_rp x) = Some r /\ In (psum_view v q (summary_of d r)) s.
Proof. exact c02_summaries. Qed.
Print Assumptions C02_summaries.

Theorem C02_amounts_spec : forall v q d c, In c (spec_candidates v q d) ->
  (forall rc, total_rc rc (cr_rrs c) = total_res rc (requested q)) /\ NoDup (rr_keys (cr_rrs c)).
Proof. exact c02_amounts_spec. Qed.
Print Assumptions C02_amounts_spec.

Theorem C02_groups_in_full_spec : forall v q d c, amounts_nonneg q -> In c (spec_candidates v q d) ->
  (forall g, In g (suffixed_groups q) ->
     exists p, In (g_suffix g, [p]) (cr_maps c) /\
               forall rc amount, In (rc, amount) (g_resources g) ->
                 exists x, In x (cr_rrs c) /\ rr_rp x = p /\ rr_rc x = rc /\ amount <= rr_amt x) /\
  (forall g, unsuffixed_group q = Some g ->
     exists ps, In (0, ps) (cr_maps c) /\
                forall rc amount, In (rc, amount) (g_resources g) ->
                  exists p x, In p ps /\ In x (cr_rrs c) /\ rr_rp x = p /\ rr_rc x = rc /\ amount <= rr_amt x).
Proof. exact c02_groups_in_full_spec. Qed.
Print Assumptions C02_groups_in_full_spec.

Theorem C02_providers_exist_spec : forall v q d c, In c (spec_candidates v q d) ->
  forall p, In p (creq_providers c) -> exists r, find_rp d p = Some r.
Proof. exact c02_providers_exist_spec. Qed.
Print Assumptions C02_providers_exist_spec.

(* the write path's capacity check accepts the candidate's entries *)
Theorem C02_claimable_partial : forall v q d c l,
  invs_wf d -> amounts_nonneg q -> In c (spec_candidates v q d) ->
  NoDup (map areq_key l) ->
  (forall a, In a l -> exists x, In x (cr_rrs c) /\ q_rp a = rr_rp x /\ q_rc a = rr_rc x /\ q_amt a = rr_amt x) ->
  check_capacity d l = Ok tt.
Proof. exact c02_claimable_partial. Qed.
Print Assumptions C02_claimable_partial.

(* the candidate, sent as the allocations of a new consumer k (allocations grouped by provider, consumer_generation
   null, any project / user / type, any microversion from 1.28), is a well-formed request ... *)
Theorem C02_claim_request_wf : forall v q d c k proj user ty v',
  amounts_pos q -> In c (spec_candidates v q d) ->
  req_wf (AllocPut v' (cons_in_of c k proj user ty)) = true.
Proof. exact c02_claim_request_wf. Qed.
Print Assumptions C02_claim_request_wf.

(* ... and is answered 204: in any state with referential integrity and unique inventory keys ... *)
Theorem C02_claimable : forall cf v q d c k proj user ty v',
  RI d -> inv_keys_nodup d -> amounts_nonneg q -> In c (spec_candidates v q d) -> 28 <= v' ->
  find_cons d k = None ->
  status (snd (step cf d (AllocPut v' (cons_in_of c k proj user ty)))) = 204.
Proof. exact c02_claimable. Qed.
Print Assumptions C02_claimable.

(* ... hence in every state reachable by well-formed requests *)
Theorem C02_claimable_reachable : forall cf l v q c k proj user ty v',
  reqs_wf l -> amounts_nonneg q -> In c (spec_candidates v q (run cf db0 l)) -> 28 <= v' ->
  find_cons (run cf db0 l) k = None ->
  status (snd (step cf (run cf db0 l) (AllocPut v' (cons_in_of c k proj user ty)))) = 204.
Proof. exact c02_claimable_reachable. Qed.
Print Assumptions C02_claimable_reachable.
