(* C03 - Allocation candidates are exactly the combinations the request describes.   PARTIAL, and REFUTED in
   two named corners.
   spec_candidates (Spec/CandSpec.v) is an executable enumeration of the property: all assignments of an anchor
   tree, one usable provider per resource of the unsuffixed group and one per suffixed group, filtered by the slot
   conditions and by asg_ok (root_required, collective traits, isolate, same_subtree, capacity and max_unit of the
   summed amounts, one provider per tree before 1.29).  `valid` is its declarative reading.
   candidates (Model/Candidates.v) follows the search pipeline of the code.  "candidates = spec_candidates" is
   compared on every generated case by the check (application, model and specification on the same input, inside
   Coq); it is proved here only for the per-group matching step, and it is FALSE in general: see the two
   refutation theorems, whose witnesses are replayed on the application by the check (known findings). *)
From PV Require Import Spec.CandSpec Proofs.C03 Proofs.C03r Proofs.C03e Proofs.C02m Proofs.C03s Proofs.C03c Proofs.Defs.

(* the specification enumerator returns exactly the valid combinations, each once *)
Theorem C03_spec_sound : forall v q d c, In c (spec_candidates v q d) -> valid v q d c.
Proof. exact spec_candidates_correct. Qed.
Print Assumptions C03_spec_sound.

Theorem C03_spec_complete : forall v q d c,
  valid v q d c -> exists c', In c' (spec_candidates v q d) /\ same_creq c c' = true.
Proof. exact spec_candidates_complete. Qed.
Print Assumptions C03_spec_complete.

Theorem C03_spec_distinct : forall v q d x y l1 l2 l3,
  spec_candidates v q d = l1 ++ x :: l2 ++ y :: l3 -> same_creq x y = false.
Proof. exact spec_candidates_distinct. Qed.
Print Assumptions C03_spec_distinct.

(* what the slot conditions mean, in terms of inventories, usage, traits, aggregates and trees *)
Theorem C03_room : forall d u rc amount,
  has_room d u rc amount = true <->
  exists i, In i (invs d) /\ i_rp i = u /\ i_rc i = rc /\ usage d u rc + amount <= cap_floor i /\
            i_min i <= amount <= i_max i /\ amount mod i_step i = 0.
Proof. exact has_room_spec. Qed.
Print Assumptions C03_room.

Theorem C03_suffixed_group : forall d g p,
  suffixed_ok d g p = true <->
  (forall rc amount, In (rc, amount) (g_resources g) -> has_room d p rc amount = true) /\
  (forall any, In any (g_required g) -> exists t, In t any /\ has_trait d p t = true) /\
  (forall t, In t (g_forbidden g) -> has_trait d p t = false) /\
  (forall ags, In ags (g_member_of g) -> exists a, In a ags /\ has_agg d p a = true) /\
  (forall a, In a (g_forbidden_aggs g) -> has_agg d p a = false) /\
  in_tree_ok d g p = true.
Proof. exact suffixed_ok_spec. Qed.
Print Assumptions C03_suffixed_group.

(* code model = specification for the per-group step: the providers the code's single-provider search finds
   for a request group are exactly the existing providers meeting the group's slot condition *)
Theorem C03_matching_step_exact : forall d, NoDup (map rp_uuid (rps d)) ->
  forall g ctx, mk_rg_ctx d g = RVal ctx ->
  forall pr, In pr (get_provider_ids_matching d ctx) <->
             ex d (fst pr) /\ snd pr = root_of d (fst pr) /\ suffixed_ok d g (fst pr) = true.
Proof. exact matching_char. Qed.
Print Assumptions C03_matching_step_exact.

(* code model is SOUND w.r.t. the specification on the fragment without the sharing path: no provider carries
   MISC_SHARES_VIA_AGGREGATE, every request group is suffixed (any number of groups, any group_policy, same_subtree,
   root_required, any microversion): everything the code model returns is a valid combination.  The converse
   inclusion (nothing valid omitted) is not proved for whole queries. *)
Theorem C03_suffixed_only_sound : forall v q d a s,
  rps_wf d -> no_sharing d -> parentless_root d -> caps_nonneg d ->
  (forall g, In g (qy_groups q) -> use_same_provider g = true) ->
  candidates v q d = COk a s ->
  forall c, In c a -> exists c', In c' (map (creq_view v) (spec_candidates v q d)) /\ same_creq c c' = true.
Proof. exact c03_suffixed_only_sound. Qed.
Print Assumptions C03_suffixed_only_sound.

(* ... and COMPLETE on the same fragment: nothing valid is omitted, so there the code model returns EXACTLY the
   specification's combinations (mutual inclusion up to same_creq).  Extra hypothesis anchors_hyp: the query has no
   root_required filter, or every provider that is its own root has no parent - true of every Forest
   (C03_forest_roots_parentless), hence of every reachable state; without it the statement is false on an unreachable
   table (C03_complete_needs_roots_parentless: the code looks for anchors among PARENTLESS providers). *)
Theorem C03_suffixed_only_exact : forall v q d a s,
  rps_wf d -> no_sharing d -> parentless_root d -> caps_nonneg d ->
  (forall g, In g (qy_groups q) -> use_same_provider g = true) ->
  anchors_hyp q d ->
  candidates v q d = COk a s ->
  (forall c, In c a -> exists c', In c' (map (creq_view v) (spec_candidates v q d)) /\ same_creq c c' = true) /\
  (forall c', In c' (map (creq_view v) (spec_candidates v q d)) -> exists c, In c a /\ same_creq c c' = true).
Proof. exact c03_suffixed_only_exact. Qed.
Print Assumptions C03_suffixed_only_exact.

Theorem C03_forest_roots_parentless : forall d, Forest d -> roots_parentless d.
Proof. exact Forest_roots_parentless. Qed.
Print Assumptions C03_forest_roots_parentless.

(* on the fragment the model never answers KeyError or an order-dependent result *)
Theorem C03_suffixed_only_answers : forall v q d,
  rps_wf d -> no_sharing d -> (forall g, In g (qy_groups q) -> use_same_provider g = true) ->
  (exists e, candidates v q d = CErr e) \/ (exists a s, candidates v q d = COk a s).
Proof. exact c03_suffixed_only_answers. Qed.
Print Assumptions C03_suffixed_only_answers.

Theorem C03_complete_needs_roots_parentless :
  exists v q d, rps_wf d /\ no_sharing d /\ parentless_root d /\ caps_nonneg d /\
    (forall g, In g (qy_groups q) -> use_same_provider g = true) /\ ~ Forest d /\
    candidates v q d = COk [] [] /\
    map (creq_view v) (spec_candidates v q d) = [mkCreq (-1) [mkRreq 1 0 1] [(1, [1])]].
Proof. exact c03_complete_needs_roots_parentless. Qed.
Print Assumptions C03_complete_needs_roots_parentless.

(* ... and SOUND also when the query has the unsuffixed group (the shape nova sends: resources spread over the providers
   of one tree), still without sharing providers.  One hypothesis more: the unsuffixed group names every resource class
   once (un_rcs_nodup) - derived for every accepted query string (C03_accepted_un_rcs_nodup: resources is a dict keyed by
   class name); without it the statement is false on an abstract query (C03_no_sharing_needs_distinct_classes). *)
From PV Require Import Proofs.C03u Proofs.C03uq.
Theorem C03_no_sharing_sound : forall v q d a s,
  rps_wf d -> no_sharing d -> parentless_root d -> caps_nonneg d ->
  un_rcs_nodup q ->
  candidates v q d = COk a s ->
  forall c, In c a -> exists c', In c' (map (creq_view v) (spec_candidates v q d)) /\ same_creq c c' = true.
Proof. exact c03_no_sharing_sound. Qed.
Print Assumptions C03_no_sharing_sound.

(* on this fragment the model never answers KeyError or an order-dependent result *)
Theorem C03_no_sharing_answers : forall v q d,
  rps_wf d -> no_sharing d -> parentless_root d -> un_rcs_nodup q ->
  (exists e, candidates v q d = CErr e) \/ (exists a s, candidates v q d = COk a s).
Proof. exact c03_no_sharing_answers. Qed.
Print Assumptions C03_no_sharing_answers.

Theorem C03_accepted_un_rcs_nodup : forall (tok_rp tok_agg tok_trait tok_rc tok_suffix : Parse.str -> Z) v kv q,
  (forall a b : Parse.str, tok_rc a = tok_rc b -> a = b) ->
  DecodeQC.decode_candidates tok_rp tok_agg tok_trait tok_rc tok_suffix v kv = Parse.POk q -> un_rcs_nodup q.
Proof. exact c03u_accepted_un_rcs_nodup. Qed.
Print Assumptions C03_accepted_un_rcs_nodup.

Theorem C03_no_sharing_needs_distinct_classes :
  exists v q d,
    rps_wf d /\ no_sharing d /\ parentless_root d /\ caps_nonneg d /\ query_wf v q = true /\ ~ un_rcs_nodup q /\
    exists a s, candidates v q d = COk a s /\ a <> [] /\
      forall c, In c a -> forall c', In c' (map (creq_view v) (spec_candidates v q d)) -> same_creq c c' = false.
Proof. exact c03u_needs_distinct_classes. Qed.
Print Assumptions C03_no_sharing_needs_distinct_classes.

(* ... and COMPLETE there too: without sharing providers the code model returns EXACTLY the specification's combinations
   (mutual inclusion up to same_creq), whether or not the query has the unsuffixed group.  Hypotheses: those of
   C03_no_sharing_sound plus anchors_hyp (as for C03_suffixed_only_exact; still needed with the unsuffixed group:
   C03_no_sharing_complete_needs_roots_parentless, on an unreachable table).  No incompleteness of the code was found on
   this fragment: de-duplication, exclude_nested_providers below 1.29, in_tree, required traits spread over a tree with
   forbidden ones, member_of / forbidden aggregates through the root are all matched by the specification. *)
From PV Require Import Proofs.C03v.
Theorem C03_no_sharing_exact : forall v q d a s,
  rps_wf d -> no_sharing d -> parentless_root d -> caps_nonneg d -> un_rcs_nodup q -> anchors_hyp q d ->
  candidates v q d = COk a s ->
  (forall c, In c a -> exists c', In c' (map (creq_view v) (spec_candidates v q d)) /\ same_creq c c' = true) /\
  (forall c', In c' (map (creq_view v) (spec_candidates v q d)) -> exists c, In c a /\ same_creq c c' = true).
Proof. exact c03_no_sharing_exact. Qed.
Print Assumptions C03_no_sharing_exact.

(* ... so, with C03_no_sharing_answers: an error status, or verdict 0 ("same candidates") of the three-way comparison *)
Theorem C03_no_sharing_verdict : forall v q d,
  rps_wf d -> no_sharing d -> parentless_root d -> caps_nonneg d -> un_rcs_nodup q -> anchors_hyp q d ->
  (exists e, candidates v q d = CErr e) \/ spec_check v (candidates v q d) (spec_candidates v q d) = 0.
Proof. exact c03_no_sharing_verdict. Qed.
Print Assumptions C03_no_sharing_verdict.

Theorem C03_no_sharing_complete_needs_roots_parentless :
  exists v q d,
    rps_wf d /\ no_sharing d /\ parentless_root d /\ caps_nonneg d /\ un_rcs_nodup q /\ unsuffixed_group q <> None /\
    ~ Forest d /\
    candidates v q d = COk [] [] /\
    map (creq_view v) (spec_candidates v q d) = [mkCreq (-1) [mkRreq 1 0 1] [(0, [1])]].
Proof. exact c03u_complete_needs_roots_parentless. Qed.
Print Assumptions C03_no_sharing_complete_needs_roots_parentless.

(* SOUND FOR ALL TABLES, sharing providers included (Proofs/C03w.v): whatever the code model returns as a candidate list
   (not KeyError / order-dependent: separate findings) is a list of combinations of the specification.  The unsuffixed
   group may take its classes partly from the anchor tree and partly from sharing providers associated through an
   aggregate with a provider of the tree; a suffixed group may be served by a sharing provider, offered under every
   accepted anchor it shares with.  Besides the hypotheses of C03_no_sharing_sound (minus no_sharing) one more: aggs_wf -
   every aggregate association names an existing provider; it is part of the invariant RI, hence holds in every reachable
   state (C03_reachable_aggs_wf), and without it the statement is false on an unreachable table (C03_sound_needs_aggs_wf).
   The two refutations below are about OMITTED candidates: soundness survives sharing, completeness does not. *)
From PV Require Import Proofs.C03w.
Theorem C03_sound : forall v q d a s,
  rps_wf d -> parentless_root d -> caps_nonneg d -> aggs_wf d -> un_rcs_nodup q ->
  candidates v q d = COk a s ->
  forall c, In c a -> exists c', In c' (map (creq_view v) (spec_candidates v q d)) /\ same_creq c c' = true.
Proof. exact c03_sound. Qed.
Print Assumptions C03_sound.

(* the same with cap_ok (int(capacity) and floor(capacity) accept the same positive amounts) in place of caps_nonneg -
   implied by it, and by non-negative usage: caps_nonneg is not an invariant of the service (Props/C02.v:
   C02_caps_nonneg_not_invariant), cap_ok is ... *)
Theorem C03_sound_gen : forall v q d a s,
  rps_wf d -> parentless_root d -> cap_ok d -> aggs_wf d -> un_rcs_nodup q ->
  candidates v q d = COk a s ->
  forall c, In c a -> exists c', In c' (map (creq_view v) (spec_candidates v q d)) /\ same_creq c c' = true.
Proof. exact c03_sound_gen. Qed.
Print Assumptions C03_sound_gen.

(* ... so in every state reached by well-formed requests no hypothesis on the database is left (rps_wf and parentless_root
   from the Forest invariant, cap_ok from positive allocations, aggs_wf from RI) *)
Theorem C03_sound_reachable : forall cf l v q a s,
  reqs_wf l -> un_rcs_nodup q ->
  candidates v q (run cf db0 l) = COk a s ->
  forall c, In c a -> exists c', In c' (map (creq_view v) (spec_candidates v q (run cf db0 l))) /\ same_creq c c' = true.
Proof. exact c03_sound_reachable. Qed.
Print Assumptions C03_sound_reachable.

Theorem C03_reachable_aggs_wf : forall cf d, reachable cf d -> aggs_wf d.
Proof. exact reachable_aggs_wf. Qed.
Print Assumptions C03_reachable_aggs_wf.

Theorem C03_sound_needs_aggs_wf :
  exists v q d,
    rps_wf d /\ parentless_root d /\ caps_nonneg d /\ un_rcs_nodup q /\ ~ aggs_wf d /\ ~ RI d /\
    (exists s, candidates v q d = COk [mkCreq (-1) [mkRreq 1 0 1; mkRreq 2 2 1] [(1, [1]); (2, [2])]] s) /\
    spec_candidates v q d = [].
Proof. exact c03w_needs_aggs_wf. Qed.
Print Assumptions C03_sound_needs_aggs_wf.

(* COMPLETE, hence EXACT, WITH SHARING PROVIDERS (Proofs/C03x.v) whenever the code model answers with a candidate list and
   two computable conditions hold:
     in_tree_hyp q d         no sharing provider lying in the tree named by in_tree of the unsuffixed group shares with
                             another tree (excludes the in_tree pin, C03_refuted_in_tree_pin);
     forbidden_aggs_hyp q d  no root of a tree that a sharing provider shares with - other than its own - is in a forbidden
                             aggregate (member_of=!agg) of the unsuffixed group (excludes a FOURTH corner found while proving
                             this: the code tests forbidden aggregates on the anchor root too, C03_needs_forbidden_aggs_hyp).
   The two other corners need no condition: there the model does not answer with a list (COrderDependent for the anchor
   de-duplication, CKeyError for a nested sharing provider; C03_corners_excluded_by_answer).  A brute-force comparison over
   two reachable tables with sharing providers (13888 queries each) found no omission outside these four corners. *)
From PV Require Import Proofs.C03x.
Theorem C03_exact_sharing : forall v q d a s,
  rps_wf d -> parentless_root d -> cap_ok d -> aggs_wf d -> un_rcs_nodup q -> anchors_hyp q d ->
  in_tree_hyp q d = true -> forbidden_aggs_hyp q d = true ->
  candidates v q d = COk a s ->
  (forall c, In c a -> exists c', In c' (map (creq_view v) (spec_candidates v q d)) /\ same_creq c c' = true) /\
  (forall c', In c' (map (creq_view v) (spec_candidates v q d)) -> exists c, In c a /\ same_creq c c' = true).
Proof. exact c03_exact_sharing. Qed.
Print Assumptions C03_exact_sharing.

(* the converse inclusion alone needs neither aggs_wf nor any condition on capacities *)
Theorem C03_complete_sharing : forall v q d a s,
  rps_wf d -> parentless_root d -> un_rcs_nodup q -> anchors_hyp q d ->
  in_tree_hyp q d = true -> forbidden_aggs_hyp q d = true ->
  candidates v q d = COk a s ->
  forall c', In c' (map (creq_view v) (spec_candidates v q d)) -> exists c, In c a /\ same_creq c c' = true.
Proof. exact c03_complete_sharing. Qed.
Print Assumptions C03_complete_sharing.

(* in every state reached by well-formed requests only the conditions on the query and the sharing providers remain *)
Theorem C03_exact_sharing_reachable : forall cf l v q a s,
  reqs_wf l -> un_rcs_nodup q ->
  in_tree_hyp q (run cf db0 l) = true -> forbidden_aggs_hyp q (run cf db0 l) = true ->
  candidates v q (run cf db0 l) = COk a s ->
  (forall c, In c a -> exists c', In c' (map (creq_view v) (spec_candidates v q (run cf db0 l))) /\ same_creq c c' = true) /\
  (forall c', In c' (map (creq_view v) (spec_candidates v q (run cf db0 l))) -> exists c, In c a /\ same_creq c c' = true).
Proof. exact c03_exact_sharing_reachable. Qed.
Print Assumptions C03_exact_sharing_reachable.

(* necessity of forbidden_aggs_hyp: reachable table cn (1: VCPU, aggregates 1 and 2), ss (2: DISK_GB, sharing, aggregate 2);
   resources=DISK_GB:1&member_of=!<agg 1>&resources1=VCPU:1 and resources=DISK_GB:1&member_of=!<agg 1>&root_required=!MISC_SHARES_VIA_AGGREGATE
   at 1.39: the specification has one candidate, the code none *)
Theorem C03_needs_forbidden_aggs_hyp :
  reachable (mkCfg 0 0) fa_db /\ db_hyps fa_db /\
  (un_rcs_nodup fa_query2 /\ anchors_hyp fa_query2 fa_db /\ in_tree_hyp fa_query2 fa_db = true /\
   forbidden_aggs_hyp fa_query2 fa_db = false /\
   candidates 39 fa_query2 fa_db = COk [] [] /\
   spec_candidates 39 fa_query2 fa_db = [mkCreq (-1) [mkRreq 2 2 1; mkRreq 1 0 1] [(0, [2]); (1, [1])]]) /\
  (un_rcs_nodup fa_query1 /\ anchors_hyp fa_query1 fa_db /\ in_tree_hyp fa_query1 fa_db = true /\
   forbidden_aggs_hyp fa_query1 fa_db = false /\
   candidates 39 fa_query1 fa_db = COk [] [] /\
   spec_candidates 39 fa_query1 fa_db = [mkCreq (-1) [mkRreq 2 2 1] [(0, [2])]]).
Proof. exact c03x_needs_forbidden_aggs_hyp. Qed.
Print Assumptions C03_needs_forbidden_aggs_hyp.

Theorem C03_needs_in_tree_hyp :
  let d := run cf0 db0 it_ops in
  db_hyps d /\ un_rcs_nodup it_query /\ anchors_hyp it_query d /\
  in_tree_hyp it_query d = false /\ forbidden_aggs_hyp it_query d = true /\
  candidates 39 it_query d = COk [] [] /\
  spec_candidates 39 it_query d = [mkCreq (-1) [mkRreq 2 2 1; mkRreq 1 0 1] [(0, [2]); (1, [1])]].
Proof. exact c03x_needs_in_tree_hyp. Qed.
Print Assumptions C03_needs_in_tree_hyp.

Theorem C03_corners_excluded_by_answer :
  (let d := run cf0 db0 ad_ops in
   db_hyps d /\ in_tree_hyp ad_query d = true /\ forbidden_aggs_hyp ad_query d = true /\
   candidates 39 ad_query d = COrderDependent 1 /\ lenZ (spec_candidates 39 ad_query d) = 2) /\
  (let d := run cf0 db0 ke_ops in
   db_hyps d /\ in_tree_hyp ke_query d = true /\ forbidden_aggs_hyp ke_query d = true /\
   candidates 39 ke_query d = CKeyError /\
   spec_candidates 39 ke_query d = [mkCreq (-1) [mkRreq 1 0 1; mkRreq 3 2 1] [(0, [1; 3])]]).
Proof. exact c03x_corners_excluded_by_answer. Qed.
Print Assumptions C03_corners_excluded_by_answer.

(* REFUTED: the faithful model omits valid candidates *)
(* 1. a sharing provider reachable from several anchors: the per-group result is a SET of allocation requests
      whose equality ignores the anchor, so one anchor survives and merges under the others are lost *)
Theorem C03_refuted_anchor_dedup :
  exists v q d,
    d = run cf0 db0 ad_ops /\
    candidates v q d = COrderDependent 1 /\
    lenZ (spec_candidates v q d) = 2 /\
    spec_check v (candidates_all_anchors v q d) (spec_candidates v q d) = 0 /\
    cand_check (candidates v q d) (candidates_all_anchors v q d) ad_observed = 4 /\
    spec_check v ad_observed (spec_candidates v q d) = 5.
Proof. exact c03_refuted_anchor_dedup. Qed.
Print Assumptions C03_refuted_anchor_dedup.

(* 2. in_tree on the unsuffixed group pins the anchor tree: a sharing provider of that tree is not offered under
      the anchors it shares with *)
Theorem C03_refuted_in_tree_pin :
  exists v q d,
    d = run cf0 db0 it_ops /\
    candidates v q d = COk [] [] /\
    spec_candidates v q d = [mkCreq (-1) [mkRreq 2 2 1; mkRreq 1 0 1] [(0, [2]); (1, [1])]] /\
    spec_check v (candidates v q d) (spec_candidates v q d) = 5.
Proof. exact c03_refuted_in_tree_pin. Qed.
Print Assumptions C03_refuted_in_tree_pin.

(* ---------------------------------------------------------------------------------------------------------------
   From the query string.  decode_candidates (Model/DecodeQC.v) is the front half of list_allocation_candidates: the query
   parameters as webob delivers them, validated as dict(req.GET) against the query schema of the version (regenerated),
   RequestWideParams.from_request and RequestGroup.dict_from_request of placement/lib.py (suffix patterns by version,
   groups in order of first appearance, required / member_of from all values of their key, resources / in_tree from the
   last, the orphan / resourceless / same_subtree / conflict checks, the group_policy requirement), through the value
   parsers of Model/Parse.v.  Tied to the code by calling the REAL handler on generated query strings and capturing the
   groups and request-wide parameters it hands to the search (harness/decodeqc.py). *)
From PV Require Import Model.Parse Model.DecodeQ Model.DecodeQC Proofs.C03q.

Theorem C03_query_never_escapes : forall (tok_rp tok_agg tok_trait tok_rc tok_suffix : str -> Z) v kv,
  decode_candidates tok_rp tok_agg tok_trait tok_rc tok_suffix v kv <> PEscape.
Proof. exact c03q_never_escapes. Qed.
Print Assumptions C03_query_never_escapes.

(* the hypothesis query_wf of the candidate theorems (C02, C03, C20) is DERIVED: whatever the front half accepts at
   version v satisfies every version gate and structural condition of query_wf - given tokenizers that are injective on
   suffixes (with '' -> 0) and trait names *)
Theorem C03_query_accepted_wf : forall (tok_rp tok_agg tok_trait tok_rc : str -> Z) (tok_suffix : list Z -> Z) v kv q,
  0 <= v <= 39 -> tok_suffix [] = 0 ->
  (forall a b, tok_suffix a = tok_suffix b -> a = b) -> (forall a b : str, tok_trait a = tok_trait b -> a = b) ->
  decode_candidates tok_rp tok_agg tok_trait tok_rc tok_suffix v kv = POk q -> query_wf v q = true.
Proof. exact c03q_accepted_wf. Qed.
Print Assumptions C03_query_accepted_wf.

(* ... and without injective tokenizers the statement is false (two unknown trait names with one token look like a
   conflict): a fact about tokenizers, not about the code *)
Theorem C03_query_wf_needs_injective_tokenizers :
  ~ (forall (tok_rp tok_agg tok_trait tok_rc tok_suffix : str -> Z) v kv q, 0 <= v <= 39 ->
       decode_candidates tok_rp tok_agg tok_trait tok_rc tok_suffix v kv = POk q -> query_wf v q = true).
Proof. exact c03q_tokenizers_needed_refuted. Qed.
Print Assumptions C03_query_wf_needs_injective_tokenizers.

(* ------------------------------------------------------------------------------------------------------------------
   End to end (Proofs/C03z.v): from the query string a client sends and the history of well-formed requests that produced the
   state - no hypothesis on the database, none on the parsed query.  What does not compose away: tok_rc must keep class names
   apart; completeness keeps in_tree_hyp / forbidden_aggs_hyp (the two recorded corners); the claim needs a new consumer. *)
(* soundness, completeness away from the corners, claimability at every microversion, limit, summaries, distinctness *)
From PV Require Import Spec.CandSpec Proofs.Defs Model.Parse Model.DecodeQ Model.DecodeQC.
From PV Require Import Proofs.C02 Proofs.C02m Proofs.C02c Proofs.C03s Proofs.C03c Proofs.C03q Proofs.C03u Proofs.C03uq Proofs.C03w
                       Proofs.C03x Proofs.C02s Proofs.C20c Proofs.C13q Proofs.C03z.
Theorem C03_end_to_end : forall cf l (tok_rp tok_agg tok_trait tok_rc tok_suffix : str -> Z) v kv q a s,
  reqs_wf l ->
  (forall x y : str, tok_rc x = tok_rc y -> x = y) ->
  decode_candidates tok_rp tok_agg tok_trait tok_rc tok_suffix v kv = POk q ->
  let d := run cf db0 l in
  candidates v q d = COk a s ->
  (* (1) soundness *)
  (forall c, In c a -> exists c', In c' (map (creq_view v) (spec_candidates v q d)) /\ same_creq c c' = true) /\
  (* (2) completeness, away from the two recorded corners *)
  (in_tree_hyp q d = true -> forbidden_aggs_hyp q d = true ->
   forall c', In c' (map (creq_view v) (spec_candidates v q d)) -> exists c, In c a /\ same_creq c c' = true) /\
  (* (3) every returned candidate can be claimed as returned, by a client of any microversion, for a new consumer;
         the claim is a legal request, so the state after it is reachable again *)
  (forall c k proj user ty v', In c a -> find_cons d k = None ->
     status (snd (step cf d (AllocPut v' (cons_in_at v' c k proj user ty)))) = 204 /\
     reqs_wf (l ++ [AllocPut v' (cons_in_at v' c k proj user ty)])) /\
  (* (4) limit=n: the first min(n, |a|) requests, with covering summaries taken from s *)
  (forall n, qy_limit q = Some n ->
     16 <= v /\ 1 <= n /\
     exists kept sums', candidates_limited v q d = COk kept sums' /\
       kept = firstn (Z.to_nat n) a /\ lenZ kept = Z.min n (lenZ a) /\ incl kept a /\
       (forall c x, In c kept -> In x (cr_rrs c) ->
          exists r, find_rp d (rr_rp x) = Some r /\ In (psum_view v q (summary_of d r)) sums') /\
       incl sums' s) /\
  (qy_limit q = None -> candidates_limited v q d = COk a s) /\
  (* (5) every provider named exists and has its summary; one allocation per (provider, class); the requests are pairwise
         distinct as requests with mappings, and as shown from 1.34; the query is well formed for the version *)
  (forall c x, In c a -> In x (cr_rrs c) -> exists r, find_rp d (rr_rp x) = Some r /\ In (psum_view v q (summary_of d r)) s) /\
  (forall c, In c a -> NoDup (rr_keys (cr_rrs c))) /\
  (34 <= v -> distinct a) /\
  query_wf v q = true /\ 10 <= v.
Proof. exact c03_end_to_end. Qed.
Print Assumptions C03_end_to_end.

(* the handler model does not refuse an accepted query string for its form: with tokenizers that keep suffixes and trait
   names apart, from 1.10 the answer is that of the search itself *)
Theorem C03_end_to_end_no_form_error : forall cf l (tok_rp tok_agg tok_trait tok_rc tok_suffix : str -> Z) v kv q,
  10 <= v <= 39 -> tok_suffix [] = 0 ->
  (forall x y : str, tok_suffix x = tok_suffix y -> x = y) -> (forall x y : str, tok_trait x = tok_trait y -> x = y) ->
  decode_candidates tok_rp tok_agg tok_trait tok_rc tok_suffix v kv = POk q ->
  query_wf v q = true /\ candidates v q (run cf db0 l) = get_by_requests (run cf db0 l) v q.
Proof. exact c03_end_to_end_no_form_error. Qed.
Print Assumptions C03_end_to_end_no_form_error.
