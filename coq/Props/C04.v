(* C04 - Rejected writes leave no trace; multi-entity writes are all-or-nothing. *)
From PV Require Import Proofs.Defs Proofs.C04.

(* any request answered with an error leaves every table except projects / users / consumer types
   exactly as it was (providers, inventories, allocations, consumers, generations, traits, aggregates) *)
Theorem C04_rejected_no_trace :
  forall cf d r d' rs, req_wf r = true -> step cf d r = (d', rs) -> is_error rs -> core_eq d d'.
Proof. exact c04_rejected_no_trace. Qed.
Print Assumptions C04_rejected_no_trace.

(* the only residue: names are only ever added to the auxiliary tables *)
Theorem C04_residue :
  forall cf d r d' rs, step cf d r = (d', rs) ->
    incl (projects d) (projects d') /\ incl (users d) (users d') /\ incl (ctypes d) (ctypes d').
Proof. exact c04_residue. Qed.
Print Assumptions C04_residue.

(* complete effect of an accepted multi-consumer allocation write: every consumer named in the
   request holds exactly the amounts the request gives it *)
Theorem C04_allocs_complete :
  forall cf d v l d' rs c u rc amt,
    RI d -> req_wf (AllocPost v l) = true -> step cf d (AllocPost v l) = (d', rs) -> is_success rs ->
    In c l ->
    (In (mkAlloc (ci_uuid c) u rc amt) (allocs d') <->
     exists a, In a (ci_allocs c) /\ ai_rp a = u /\ In (rc, amt) (ai_res a)).
Proof. exact c04_allocs_complete. Qed.
Print Assumptions C04_allocs_complete.

(* ... and nobody else's allocations are touched *)
Theorem C04_allocs_frame :
  forall cf d v l d' rs a,
    step cf d (AllocPost v l) = (d', rs) -> is_success rs -> ~ In (a_cons a) (map ci_uuid l) ->
    (In a (allocs d') <-> In a (allocs d)).
Proof. exact c04_allocs_frame. Qed.
Print Assumptions C04_allocs_frame.

(* complete effect of an accepted inventory replacement *)
Theorem C04_inventory_complete :
  forall cf d v u g l d' rs x,
    inv_keys_nodup d -> req_wf (InvSet v u g l) = true -> step cf d (InvSet v u g l) = (d', rs) -> is_success rs ->
    (In x (invs d') <-> (In x (map (to_inv u) l) \/ (In x (invs d) /\ i_rp x <> u))).
Proof. exact c04_inventory_complete. Qed.
Print Assumptions C04_inventory_complete.

Theorem C04_inv_keys_reachable : forall cf d, reachable cf d -> inv_keys_nodup d.
Proof. exact c04_inv_keys_reachable. Qed.
Print Assumptions C04_inv_keys_reachable.

(* complete effect of an accepted trait replacement *)
Theorem C04_traits_complete :
  forall cf d v u g ts d' rs t,
    step cf d (TraitsSet v u g ts) = (d', rs) -> is_success rs ->
    (In (u, t) (rp_traits d') <-> In t ts).
Proof. exact c04_traits_complete. Qed.
Print Assumptions C04_traits_complete.

(* complete effect of an accepted aggregate replacement *)
Theorem C04_aggregates_complete :
  forall cf d v u g l d' rs a,
    step cf d (AggsSet v u g l) = (d', rs) -> is_success rs ->
    (In (u, a) (rp_aggs d') <-> In a l).
Proof. exact c04_aggregates_complete. Qed.
Print Assumptions C04_aggregates_complete.

(* ------------------------------------------------------------------------------------------------------------------
   Under interleaving (Proofs/C12a.v, over Model/ConcAll.v: every request kind as a thread, one step per top-level transaction,
   any number of threads, any schedule, any start state).  hv d = the heavy tables: providers, inventories, allocations,
   classes, traits, aggregates, aggregate and trait associations - everything but consumers / projects / users / consumer types.
   before_step / after_step = the states around the k-th step of the schedule. *)
From PV Require Import Model.ConcAll Proofs.C10c Proofs.C06a Proofs.C12a.

(* a request answered >= 300 has changed no heavy table at any point: each of its transactions was rolled back or touched only
   consumers (C12_stray_is_owed: what it created it removes again, unless another request gave it allocations) and projects /
   users / consumer types (never removed: C04_rejected_leaves_project) *)
Theorem C04_rejected_no_trace_all_schedules : forall cf reqs s d k i t r,
  nth_error s k = Some i ->
  nth_error (fst (a_exec cf reqs s d)) i = Some t -> a_resp t = Some r -> 300 <= status r ->
  hv (snd (after_step cf reqs s d k)) = hv (snd (before_step cf reqs s d k)).
Proof. exact c04a_rejected_no_trace. Qed.
Print Assumptions C04_rejected_no_trace_all_schedules.

(* all-or-nothing: at most one transaction of a request changes a heavy table, and a request with such a transaction is
   answered with success *)
Theorem C04_one_commit : forall cf reqs s d k1 k2 i,
  (k1 < k2)%nat -> nth_error s k1 = Some i -> nth_error s k2 = Some i ->
  hv (snd (after_step cf reqs s d k1)) <> hv (snd (before_step cf reqs s d k1)) ->
  hv (snd (after_step cf reqs s d k2)) = hv (snd (before_step cf reqs s d k2)).
Proof. exact c04a_one_commit. Qed.
Theorem C04_commit_is_success : forall cf reqs s d k i t r,
  nth_error s k = Some i ->
  hv (snd (after_step cf reqs s d k)) <> hv (snd (before_step cf reqs s d k)) ->
  nth_error (fst (a_exec cf reqs s d)) i = Some t -> a_resp t = Some r -> status r < 300.
Proof. exact c04a_commit_is_success. Qed.
Print Assumptions C04_one_commit.
Print Assumptions C04_commit_is_success.

(* "exactly one" is false: DELETE /allocations/{c} overtaken by a PUT answers 204 without having changed anything *)
Theorem C04_delete_without_effect :
  cz_run [AllocDelete 2; cy_pB] [0; 0; 1; 1; 1; 1; 0; 0; 0]%nat = ([204; 204], [], [(3, 1); (3, 4); (2, 2)], [1]).
Proof. exact c04a_delete_without_effect. Qed.
Theorem C04_rejected_leaves_project :
  cz_run [cz_rej] [0; 0; 0; 0; 0; 0; 0]%nat = ([409], [], [(2, 2); (3, 1); (3, 4)], [1; 77]) /\ projects cx_d0 = [1].
Proof. exact c04a_rejected_leaves_project. Qed.
Print Assumptions C04_delete_without_effect.
Print Assumptions C04_rejected_leaves_project.

(* what a rejected (or any) request may leave behind in the light tables, completed: on every transaction of every thread rows of
   projects / users / consumer types are only added, never removed - and so over any schedule *)
Theorem C04_aux_only_grow : forall cf t d, aux_le d (snd (astep cf t d)).
Proof. exact c04a_aux_grow. Qed.
Print Assumptions C04_aux_only_grow.
Theorem C04_aux_only_grow_all_schedules : forall cf s ts d, aux_le d (snd (a_run_sched cf s ts d)).
Proof. exact c04a_aux_grow_sched. Qed.
Print Assumptions C04_aux_only_grow_all_schedules.
