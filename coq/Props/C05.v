(* C05 - A write guarded by a provider generation succeeds only against that generation.
   Over all schedules of any number of concurrent requests (Model/Conc.v: one step = one top-level
   database transaction). *)
From PV Require Import Proofs.ConcDefs Proofs.C05.

(* a request carrying generation g for provider u succeeds only if, at the transaction in which its
   changes are committed, u's generation is g *)
Theorem C05_commit_generation :
  forall cf reqs s d i r u g ts' d',
    exec cf reqs s d = (ts', d') -> nth_error reqs i = Some r -> carries_rp_gen r u g -> succeeded ts' i ->
    exists k, commits_at cf reqs s d i k /\ gen_of (snd (at_step cf reqs s d k)) u = Some g.
Proof. exact c05_commit_generation. Qed.
Print Assumptions C05_commit_generation.

(* of the requests carrying the same generation for one provider at most one succeeds with an effect
   (a trait replacement that changes nothing reports the unchanged generation; every other success
   increments it) *)
Definition reports_change (r : req) (g : Z) (t : tstate) : Prop :=
  match r, t with
  | TraitsSet _ _ _ _, TDone rs => rgen rs = g + 1
  | _, _ => True
  end.
Theorem C05_at_most_one :
  forall cf reqs s d i j ri rj u g ts' d' ti tj,
    exec cf reqs s d = (ts', d') -> i <> j ->
    nth_error reqs i = Some ri -> nth_error reqs j = Some rj ->
    carries_rp_gen ri u g -> carries_rp_gen rj u g ->
    succeeded ts' i -> succeeded ts' j ->
    nth_error ts' i = Some ti -> nth_error ts' j = Some tj ->
    reports_change ri g ti -> reports_change rj g tj -> False.
Proof. exact c05_at_most_one. Qed.
Print Assumptions C05_at_most_one.

(* a rejected provider write changes nothing: none of its transactions modifies the database *)
Theorem C05_rejected_no_effect :
  forall cf reqs s d i r u ts' d' rs,
    exec cf reqs s d = (ts', d') -> nth_error reqs i = Some r -> prov_target r = Some u ->
    nth_error ts' i = Some (TDone rs) -> 400 <= status rs ->
    forall k, nth_error s k = Some i ->
      snd (at_step cf reqs s d (S k)) = snd (at_step cf reqs s d k).
Proof. exact c05_rejected_no_effect. Qed.
Print Assumptions C05_rejected_no_effect.

(* requests deriving the generation themselves (POST / DELETE inventory, DELETE traits ...) never
   overwrite a change committed after they read the provider: the provider's generation at their write
   transaction is the one they read *)
Theorem C05_self_derived :
  forall cf reqs s d i r u ts' d',
    exec cf reqs s d = (ts', d') -> nth_error reqs i = Some r -> prov_target r = Some u ->
    (* PUT aggregates below 1.19 is documented as not generation-guarded *)
    (forall v u' g l, r = AggsSet v u' g l -> 19 <= v) ->
    succeeded ts' i ->
    exists k1 k2 g, (k1 < k2)%nat /\ nth_error s k1 = Some i /\ commits_at cf reqs s d i k2 /\
      gen_of (snd (at_step cf reqs s d k1)) u = Some g /\ gen_of (snd (at_step cf reqs s d k2)) u = Some g.
Proof. exact c05_self_derived. Qed.
Print Assumptions C05_self_derived.

(* ---------------------------------------------------------------------------------------------------------------
   Over Model/ConcAll.v: EVERY request kind as a thread (provider create / update / delete, class and trait CRUD, PUT traits and
   PUT aggregates with their current write transactions, the allocation writes with the request's class cache), one step per
   top-level transaction, any number of threads, any schedule (Proofs/C05a.v, on the accounting of Proofs/C10c.v).
   a_held t u = the generation the thread holds for provider u while its answer is open: the one the request carries (PUT
   inventories, PUT inventory, PUT traits, PUT aggregates from 1.19; POST /reshaper: the generation named for u in its
   inventories section), or - for the requests deriving it themselves - the one their read transaction found (from then on). *)
From PV Require Import Model.ConcAll Proofs.C10c Proofs.C05a.

(* (a) a thread holding generation g for u fixes a success only in a transaction that found u at generation g; that
   transaction moves u's generation within the bounds of the request's kind (C10_bounds_by_kind: exactly g -> g + 1 for PUT
   inventories, PUT / POST / DELETE inventory, DELETE inventories, PUT aggregates from 1.19; g -> g or g + 1 for PUT / DELETE
   traits - g when nothing changes) *)
Theorem C05_commit_generation_all_kinds : forall cf t d u g r,
  a_resp t = None -> a_held t u = Some g ->
  a_resp (fst (astep cf t d)) = Some r -> status r < 300 ->
  gen_of d u = Some g /\ in_bounds (a_bounds t u) (gdelta d (snd (astep cf t d)) u).
Proof. exact c05a_commit_generation. Qed.
Print Assumptions C05_commit_generation_all_kinds.

(* ... and it keeps holding g until then *)
Theorem C05_holds_until_commit : forall cf t d u g, a_resp t = None -> a_held t u = Some g ->
  a_resp (fst (astep cf t d)) = None -> a_held (fst (astep cf t d)) u = Some g.
Proof. intros cf t d u g H1 H2. exact (proj1 (a_held_step cf t d u g H1 H2)). Qed.
Print Assumptions C05_holds_until_commit.

(* which generation a request holds from the start *)
Theorem C05_held_by_kind : forall cf u,
  (forall v u0 g l, a_held (ainit cf (InvSet v u0 g l)) u = if u0 =? u then Some g else None) /\
  (forall v u0 g x, a_held (ainit cf (InvPut v u0 g x)) u = if u0 =? u then Some g else None) /\
  (forall v u0 g ts, 6 <= v -> a_held (ainit cf (TraitsSet v u0 g ts)) u = if u0 =? u then Some g else None) /\
  (forall v u0 g l, 19 <= v -> a_held (ainit cf (AggsSet v u0 g l)) u = if u0 =? u then Some g else None) /\
  (forall v u0 g l, 1 <= v < 19 -> a_held (ainit cf (AggsSet v u0 g l)) u = None) /\
  (forall v ri al, 30 <= v -> a_held (ainit cf (Reshape v ri al)) u = reshape_held ri u) /\
  (forall v u0 x, a_held (ainit cf (InvPost v u0 x)) u = None) /\
  (forall u0 rc, a_held (ainit cf (InvDelete u0 rc)) u = None) /\
  (forall v u0, a_held (ainit cf (InvDeleteAll v u0)) u = None) /\
  (forall v u0, a_held (ainit cf (TraitsDelete v u0)) u = None) /\
  (forall v c, a_held (ainit cf (AllocPut v c)) u = None) /\
  (forall v l, a_held (ainit cf (AllocPost v l)) u = None).
Proof. exact held_table. Qed.
Print Assumptions C05_held_by_kind.

(* requests deriving the generation themselves hold, from their read transaction on, the generation stored then *)
Theorem C05_self_derived_all_kinds : forall cf r d u, guards r u = true -> carried r = None ->
  a_resp (fst (astep cf (ATree (TTOther (TProvRead r))) d)) = None ->
  a_held (fst (astep cf (ATree (TTOther (TProvRead r))) d)) u = gen_of d u /\ gen_of d u <> None.
Proof. exact c05a_self_derived_read. Qed.
Print Assumptions C05_self_derived_all_kinds.

(* (b) any start state in which u exists, any requests none of which is the DELETE of u, any schedule: of the requests holding
   generation g for u from the start, AT MOST ONE increments u's generation (tl = per-request increments, Props/C10.v).  The
   others are rejected, or accepted WITHOUT an increment - a PUT traits that changes nothing, which has still compared the
   generation (C05_same_traits_twice: both of two identical such requests are accepted). *)
Theorem C05_at_most_one_all_kinds : forall cf reqs s d u g,
  gen_of d u <> None -> (forall r, In r reqs -> r <> RpDelete u) ->
  let fs := map (holds0 cf u g) reqs in
  let '(_, _, tl) := a_run_tally cf u s (map (ainit cf) reqs) d (map (fun _ => 0) reqs) in
  cnt fs tl <= 1 /\
  forall i j, i <> j -> nth i fs false = true -> nth j fs false = true -> 0 < nth i tl 0 -> 0 < nth j tl 0 -> False.
Proof. exact c05a_at_most_one. Qed.
Print Assumptions C05_at_most_one_all_kinds.

Theorem C05_same_traits_twice :
  let reqs := [TraitsSet 39 1 4 [100002]; TraitsSet 39 1 4 [100002]] in
  let '(ts, d', tl) := a_run_tally cx_cf 1 [0; 1; 0; 1; 0; 1]%nat (map (ainit cx_cf) reqs) cx_d0 [0; 0] in
  (map (holds0 cx_cf 1 4) reqs, map cx_status ts, cx_gen cx_d0 1, cx_gen d' 1, tl) = ([true; true], [200; 200], 4, 4, [0; 0]).
Proof. exact c05a_same_traits_twice. Qed.
Print Assumptions C05_same_traits_twice.

Theorem C05_traits_vs_inventories :
  let reqs := [TraitsSet 39 1 4 [100001]; InvSet 39 1 4 [mkInvIn 0 8 0 1 2147483647 1 1 0; mkInvIn 2 200 0 1 2147483647 1 1 0]] in
  let '(ts, d', tl) := a_run_tally cx_cf 1 [0; 1; 0; 1; 0]%nat (map (ainit cx_cf) reqs) cx_d0 [0; 0] in
  (map (holds0 cx_cf 1 4) reqs, map cx_status ts, cx_gen cx_d0 1, cx_gen d' 1, tl) = ([true; true], [409; 200], 4, 5, [0; 1]).
Proof. exact c05a_traits_vs_inventories. Qed.
Print Assumptions C05_traits_vs_inventories.

