(* C05 - A write guarded by a provider generation succeeds only against that generation.
   Over all schedules of any number of concurrent requests (Model/Conc.v: one step = one top-level
   database transaction). *)
From PV Require Import Proofs.ConcDefs Proofs.C05.

(* a request carrying generation g for provider u succeeds only if, at the transaction in which its
   changes are committed, u's generation is g *)
Theorem C05_commit_generation :
  forall cf reqs s d i r u g ts' d',
    exec cf reqs s d = (ts', d') -> nth_error reqs i = Some r -> carries_rp_gen r u g -> succeeded ts' i ->
    exists k, commits_at cf reqs s d i k /\ gen_of (snd (at_step cf reqs s d k)) u = Some g.
Proof. exact c05_commit_generation. Qed.
Print Assumptions C05_commit_generation.

(* of the requests carrying the same generation for one provider at most one succeeds with an effect
   (a trait replacement that changes nothing reports the unchanged generation; every other success
   increments it) *)
Definition reports_change (r : req) (g : Z) (t : tstate) : Prop :=
  match r, t with
  | TraitsSet _ _ _ _, TDone rs => rgen rs = g + 1
  | _, _ => True
  end.
Theorem C05_at_most_one :
  forall cf reqs s d i j ri rj u g ts' d' ti tj,
    exec cf reqs s d = (ts', d') -> i <> j ->
    nth_error reqs i = Some ri -> nth_error reqs j = Some rj ->
    carries_rp_gen ri u g -> carries_rp_gen rj u g ->
    succeeded ts' i -> succeeded ts' j ->
    nth_error ts' i = Some ti -> nth_error ts' j = Some tj ->
    reports_change ri g ti -> reports_change rj g tj -> False.
Proof. exact c05_at_most_one. Qed.
Print Assumptions C05_at_most_one.

(* a rejected provider write changes nothing: none of its transactions modifies the database *)
Theorem C05_rejected_no_effect :
  forall cf reqs s d i r u ts' d' rs,
    exec cf reqs s d = (ts', d') -> nth_error reqs i = Some r -> prov_target r = Some u ->
    nth_error ts' i = Some (TDone rs) -> 400 <= status rs ->
    forall k, nth_error s k = Some i ->
      snd (at_step cf reqs s d (S k)) = snd (at_step cf reqs s d k).
Proof. exact c05_rejected_no_effect. Qed.
Print Assumptions C05_rejected_no_effect.

(* requests deriving the generation themselves (POST / DELETE inventory, DELETE traits ...) never
   overwrite a change committed after they read the provider: the provider's generation at their write
   transaction is the one they read *)
Theorem C05_self_derived :
  forall cf reqs s d i r u ts' d',
    exec cf reqs s d = (ts', d') -> nth_error reqs i = Some r -> prov_target r = Some u ->
    (* PUT aggregates below 1.19 is documented as not generation-guarded *)
    (forall v u' g l, r = AggsSet v u' g l -> 19 <= v) ->
    succeeded ts' i ->
    exists k1 k2 g, (k1 < k2)%nat /\ nth_error s k1 = Some i /\ commits_at cf reqs s d i k2 /\
      gen_of (snd (at_step cf reqs s d k1)) u = Some g /\ gen_of (snd (at_step cf reqs s d k2)) u = Some g.
Proof. exact c05_self_derived. Qed.
Print Assumptions C05_self_derived.
