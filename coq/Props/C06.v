(* C06 - Consumer generations prevent lost updates of a consumer's allocations (from 1.28).
   Over all schedules of any number of concurrent requests. *)
From PV Require Import Proofs.ConcDefs Proofs.C06.

(* a write naming consumer c with generation g succeeds only if c's generation is g in the transaction
   that commits the write; with null, only if c did not exist when the request created it *)
Theorem C06_commit_generation :
  forall cf reqs s d i r c g ts' d',
    exec cf reqs s d = (ts', d') -> nth_error reqs i = Some r ->
    carries_cons_gen r c (Some g) -> req_wf r = true -> succeeded ts' i ->
    (* if the request clears c's allocations, c still holds some whenever they are re-read; otherwise the
       request is an (idempotent) no-op that performs no compare-and-swap: known finding "double wipe" *)
    (wipes r c -> forall k, wipe_list (snd (at_step cf reqs s d k)) c <> []) ->
    exists k, commits_at cf reqs s d i k /\ cgen_of (snd (at_step cf reqs s d k)) c = Some g /\
              (exists g', cgen_of (snd (at_step cf reqs s d (S k))) c = Some g' /\ g < g' \/
               cgen_of (snd (at_step cf reqs s d (S k))) c = None).
Proof. exact c06_commit_generation. Qed.
Print Assumptions C06_commit_generation.

Theorem C06_null_means_absent :
  forall cf reqs s d i r c ts' d',
    exec cf reqs s d = (ts', d') -> nth_error reqs i = Some r ->
    carries_cons_gen r c None -> req_wf r = true -> succeeded ts' i ->
    exists k, nth_error s k = Some i /\ cgen_of (snd (at_step cf reqs s d k)) c = None /\
              cgen_of (snd (at_step cf reqs s d (S k))) c = Some 0.
Proof. exact c06_null_means_absent. Qed.
Print Assumptions C06_null_means_absent.

(* among concurrent writes to an existing consumer carrying the same generation at most one succeeds
   (as long as no request in flight removes the consumer by writing empty allocations) *)
Theorem C06_at_most_one :
  forall cf reqs s d i j ri rj c g ts' d',
    exec cf reqs s d = (ts', d') -> i <> j ->
    (forall r, In r reqs -> in_scope r /\ req_wf r = true /\ ~ wipes r c) ->
    has_consumer d c ->
    nth_error reqs i = Some ri -> nth_error reqs j = Some rj ->
    carries_cons_gen ri c (Some g) -> carries_cons_gen rj c (Some g) ->
    succeeded ts' i -> succeeded ts' j -> False.
Proof. exact c06_at_most_one. Qed.
Print Assumptions C06_at_most_one.
