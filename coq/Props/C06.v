(* C06 - Consumer generations prevent lost updates of a consumer's allocations (from 1.28).
   Over all schedules of any number of concurrent requests. *)
From PV Require Import Proofs.ConcDefs Proofs.C06.

(* a write naming consumer c with generation g succeeds only if c's generation is g in the transaction
   that commits the write; with null, only if c did not exist when the request created it *)
Theorem C06_commit_generation :
  forall cf reqs s d i r c g ts' d',
    exec cf reqs s d = (ts', d') -> nth_error reqs i = Some r ->
    carries_cons_gen r c (Some g) -> req_wf r = true -> succeeded ts' i ->
    (* if the request clears c's allocations, c still holds some whenever they are re-read; otherwise the
       request is an (idempotent) no-op that performs no compare-and-swap: known finding "double wipe" *)
    (wipes r c -> forall k, wipe_list (snd (at_step cf reqs s d k)) c <> []) ->
    exists k, commits_at cf reqs s d i k /\ cgen_of (snd (at_step cf reqs s d k)) c = Some g /\
              (exists g', cgen_of (snd (at_step cf reqs s d (S k))) c = Some g' /\ g < g' \/
               cgen_of (snd (at_step cf reqs s d (S k))) c = None).
Proof. exact c06_commit_generation. Qed.
Print Assumptions C06_commit_generation.

Theorem C06_null_means_absent :
  forall cf reqs s d i r c ts' d',
    exec cf reqs s d = (ts', d') -> nth_error reqs i = Some r ->
    carries_cons_gen r c None -> req_wf r = true -> succeeded ts' i ->
    exists k, nth_error s k = Some i /\ cgen_of (snd (at_step cf reqs s d k)) c = None /\
              cgen_of (snd (at_step cf reqs s d (S k))) c = Some 0.
Proof. exact c06_null_means_absent. Qed.
Print Assumptions C06_null_means_absent.

(* among concurrent writes to an existing consumer carrying the same generation at most one succeeds
   (as long as no request in flight removes the consumer by writing empty allocations) *)
Theorem C06_at_most_one :
  forall cf reqs s d i j ri rj c g ts' d',
    exec cf reqs s d = (ts', d') -> i <> j ->
    (forall r, In r reqs -> in_scope r /\ req_wf r = true /\ ~ wipes r c) ->
    has_consumer d c ->
    nth_error reqs i = Some ri -> nth_error reqs j = Some rj ->
    carries_cons_gen ri c (Some g) -> carries_cons_gen rj c (Some g) ->
    succeeded ts' i -> succeeded ts' j -> False.
Proof. exact c06_at_most_one. Qed.
Print Assumptions C06_at_most_one.

(* ------------------------------------------------------------------------------------------------------------------
   The same over Model/ConcAll.v (Proofs/C06a.v): every request kind as a thread, one step per top-level transaction (the
   class-cache loads and the DELETE /allocations thread included), any number of threads, any schedule, any start state.
   Stated with a tally of the increments each request's own transactions make to c's generation (C10_consumer_accounting in
   Props/C10.v), so "succeeds" becomes "increments": the two recorded findings are about answers and are shown as examples. *)
From PV Require Import Model.ConcAll Proofs.C10c Proofs.C05a Proofs.C06a.

(* one transaction of a thread holding generation g for c (a_cheld: every entry, Consumer object and allocation object of the
   thread that mentions c is bound to g; from 1.28) that fixes a success: with an allocation object for c it found c at g and
   left it at g + 1 (or ended it, when the write leaves c without allocations); without one - the request does not write c,
   or it is a clearing write whose re-read found no rows: known finding "double wipe" - it compares nothing and leaves c alone *)
Theorem C06_commit_generation_all_kinds : forall cf t d c g r,
  a_resp t = None -> a_cheld t c g = true ->
  a_resp (fst (astep cf t d)) = Some r -> status r < 300 ->
  if a_cobjs t c
  then cgen_of d c = Some g /\ (cgen_of (snd (astep cf t d)) c = Some (g + 1) \/ cgen_of (snd (astep cf t d)) c = None)
  else cgen_of (snd (astep cf t d)) c = cgen_of d c.
Proof. exact c06a_commit_generation. Qed.
Print Assumptions C06_commit_generation_all_kinds.

(* ... and until then it keeps holding g *)
Theorem C06_holds_until_commit : forall cf t d c g, a_resp t = None -> a_cheld t c g = true ->
  a_resp (fst (astep cf t d)) = None -> a_cheld (fst (astep cf t d)) c g = true.
Proof. intros cf t d c g Er Hh E. exact (proj1 (a_cheld_step cf t d c g Er Hh) E). Qed.
Print Assumptions C06_holds_until_commit.

(* which requests hold g / carry null for c from the start *)
Theorem C06_held_by_kind : forall cf c g,
  (forall v e, cholds0 cf c g (AllocPut v e) = ent_ok v g c e) /\
  (forall v l, 13 <= v -> cholds0 cf c g (AllocPost v l) = forallb (ent_ok v g c) l) /\
  (forall v ri l, 30 <= v -> cholds0 cf c g (Reshape v ri l) = forallb (ent_ok v g c) l) /\
  (forall c0, cholds0 cf c g (AllocDelete c0) = false) /\
  (forall v e, cnull0 cf c (AllocPut v e) = ent_null v c e) /\
  (forall v l, 13 <= v -> cnull0 cf c (AllocPost v l) = forallb (ent_null v c) l) /\
  (forall v ri l, 30 <= v -> cnull0 cf c (Reshape v ri l) = forallb (ent_null v c) l) /\
  (forall c0, cnull0 cf c (AllocDelete c0) = false).
Proof. exact cheld_table. Qed.
Theorem C06_entry_holds : forall v g c e, ent_ok v g c e = true <-> (ci_uuid e = c -> ci_gen e = Some g /\ 28 <= v).
Proof. exact ent_ok_spec. Qed.
Print Assumptions C06_entry_holds.
Theorem C06_entry_null : forall v c e, ent_null v c e = true <-> (ci_uuid e = c -> ci_gen e = None /\ 28 <= v).
Proof. exact ent_null_spec. Qed.
Print Assumptions C06_entry_null.
Print Assumptions C06_held_by_kind.

(* while c exists (c_alive: in the start state and after every step): of the requests holding g for c AT MOST ONE increments c *)
Theorem C06_at_most_one_all_kinds : forall cf reqs s d c g,
  c_alive cf c s (map (ainit cf) reqs) d ->
  let fs := map (cholds0 cf c g) reqs in
  let '(_, _, tl) := c_run_tally cf c s (map (ainit cf) reqs) d (map (fun _ => 0) reqs) in
  cnt fs tl <= 1 /\
  forall i j, i <> j -> nth i fs false = true -> nth j fs false = true -> 0 < nth i tl 0 -> 0 < nth j tl 0 -> False.
Proof. exact c06a_at_most_one. Qed.
Print Assumptions C06_at_most_one_all_kinds.

(* c_alive is needed: generations restart at 0 when a consumer is deleted and created again, so a generation number recurs -
   two requests holding generation 1 both increment consumer 2 (write, DELETE, null PUT, write of a request that had looked
   the consumer up before the first write) *)
Theorem C06_at_most_one_needs_alive :
  cy_run 2 [1; 0; 0; 0; 2; 2; 2; 2; 3; 3; 3; 3; 1; 1]%nat [cy_pA; cy_pB; AllocDelete 2; cy_pN] =
    ([204; 204; 204; 204], Some 1, Some 2, [1; 1; 0; 1]) /\
  map (cholds0 cx_cf 2 1) [cy_pA; cy_pB; AllocDelete 2; cy_pN] = [true; true; false; false].
Proof. exact c06a_needs_alive. Qed.
Print Assumptions C06_at_most_one_needs_alive.

(* the null case: in a schedule that does not end c (c_no_end; c may be created), of the requests carrying null for c AT MOST
   ONE increments c - the one whose own transaction created it *)
Theorem C06_null_at_most_one : forall cf reqs s d c,
  c_no_end cf c s (map (ainit cf) reqs) d ->
  let fs := map (cnull0 cf c) reqs in
  let '(_, _, tl) := c_run_tally cf c s (map (ainit cf) reqs) d (map (fun _ => 0) reqs) in
  forall i j, i <> j -> nth i fs false = true -> nth j fs false = true -> 0 < nth i tl 0 -> 0 < nth j tl 0 -> False.
Proof. exact c06a_null_at_most_one. Qed.
Print Assumptions C06_null_at_most_one.
(* a request carrying null adds nothing before its own transaction has created c *)
Theorem C06_null_adds_nothing_before_creating : forall cf c t z d, nrb c t z = true ->
  nrb c (fst (astep cf t d)) (z + cdelta d (snd (astep cf t d)) c) = true \/ ccreate d (snd (astep cf t d)) c.
Proof. intros cf c t z d. apply nr_step. Qed.
Print Assumptions C06_null_adds_nothing_before_creating.
Theorem C06_null_needs_no_end :
  cy_run 5 [0; 0; 0; 0; 1; 1; 1; 1; 2; 2; 2; 2]%nat [cy_n5a; AllocDelete 5; cy_n5b] = ([204; 204; 204], None, Some 1, [1; 0; 1]) /\
  map (cnull0 cx_cf 5) [cy_n5a; AllocDelete 5; cy_n5b] = [true; false; true].
Proof. exact c06a_null_needs_no_end. Qed.
Print Assumptions C06_null_needs_no_end.

(* the two recorded findings in this model: both are about ANSWERS, neither contradicts the statements about increments *)
Theorem C06_double_wipe_all_kinds :
  cy_run 2 [0; 0; 0; 1; 0; 1; 1]%nat [cy_wipe; cy_wipe] = ([204; 204], Some 1, None, [0; 0]) /\
  map (cholds0 cx_cf 2 1) [cy_wipe; cy_wipe] = [true; true].
Proof. exact c06a_double_wipe. Qed.
Theorem C06_success_on_consumer_created_by_failed_request :
  cy_run 5 [0; 0; 0; 1; 1; 1; 0; 0]%nat [cy_n5a; cy_g5] = ([409; 204], None, Some 1, [0; 1]) /\
  map (cnull0 cx_cf 5) [cy_n5a; cy_g5] = [true; false] /\ map (cholds0 cx_cf 5 0) [cy_n5a; cy_g5] = [false; true] /\
  c_no_end cx_cf 5 [0; 0; 0; 1; 1; 1; 0; 0]%nat (map (ainit cx_cf) [cy_n5a; cy_g5]) cx_d0.
Proof. exact c06a_null_vs_gen0. Qed.
Print Assumptions C06_double_wipe_all_kinds.
Print Assumptions C06_success_on_consumer_created_by_failed_request.
(* non-vacuity of the two at-most-one statements *)
Theorem C06_two_writers_example :
  cy_run 2 [0; 0; 1; 1; 1; 0]%nat [cy_pA; cy_pB] = ([409; 204], Some 1, Some 2, [0; 1]) /\
  map (cholds0 cx_cf 2 1) [cy_pA; cy_pB] = [true; true] /\
  c_alive cx_cf 2 [0; 0; 1; 1; 1; 0]%nat (map (ainit cx_cf) [cy_pA; cy_pB]) cx_d0.
Proof. exact c06a_two_writers. Qed.
Theorem C06_two_null_puts_example :
  cy_run 5 [0; 0; 1; 0; 0; 1]%nat [cy_n5a; cy_n5b] = ([204; 409], None, Some 1, [1; 0]) /\
  map (cnull0 cx_cf 5) [cy_n5a; cy_n5b] = [true; true] /\
  c_no_end cx_cf 5 [0; 0; 1; 0; 0; 1]%nat (map (ainit cx_cf) [cy_n5a; cy_n5b]) cx_d0.
Proof. exact c06a_two_null_puts. Qed.
Print Assumptions C06_two_writers_example.
Print Assumptions C06_two_null_puts_example.

(* c_alive from the requests: c exists at the start, no request is DELETE /allocations/c, and no entry for c in a (well-formed)
   request has empty allocations - then c exists after every step of every schedule.  (For c_no_end there is no such condition on
   the requests alone: a request carrying null that creates c and is then refused removes it again.) *)
Theorem C06_alive_from_requests : forall cf reqs s d c,
  cgen_of d c <> None -> Forall (fun r => req_wf r = true /\ keeps_consumer c r) reqs ->
  c_alive cf c s (map (ainit cf) reqs) d.
Proof. exact c06a_alive_from_requests. Qed.
Print Assumptions C06_alive_from_requests.
(* ... hence, with C06_at_most_one_all_kinds: of such requests holding g for c at most one increments c *)
Theorem C06_at_most_one_from_requests : forall cf reqs s d c g,
  cgen_of d c <> None -> Forall (fun r => req_wf r = true /\ keeps_consumer c r) reqs ->
  let fs := map (cholds0 cf c g) reqs in
  let '(_, _, tl) := c_run_tally cf c s (map (ainit cf) reqs) d (map (fun _ => 0) reqs) in
  cnt fs tl <= 1 /\
  forall i j, i <> j -> nth i fs false = true -> nth j fs false = true -> 0 < nth i tl 0 -> 0 < nth j tl 0 -> False.
Proof. intros cf reqs s d c g Hc Hf. apply c06a_at_most_one. apply c06a_alive_from_requests; assumption. Qed.
Print Assumptions C06_at_most_one_from_requests.
