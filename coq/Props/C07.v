(* C07 - Concurrent claims are serializable and never jointly over-commit.
   Over all schedules of any number of concurrent requests (each transaction atomic and isolated). *)
From PV Require Import Proofs.ConcDefs Proofs.C07.

(* Full statement.  The requests answered with success, executed one after another in the order of their
   commits, all succeed with the same responses and produce the same providers, inventories, allocations
   and consumers; requests answered with an error therefore had no effect.
   Hypothesis `consumers_preexist`: every consumer named by a request exists in the start state and no
   request carries consumer_generation null.  Without it the statement is FALSE for the code as it is
   (C07_refuted below; known finding "success on a consumer created by a failed request"). *)
Definition consumers_preexist (reqs : list req) (d : db) : Prop :=
  forall r k, In r reqs -> In k (req_consumers r) -> has_consumer d (ci_uuid k) /\ ci_gen k <> None.
(* no consumer is cleared (empty allocations) by two different requests: the overtaken one would be a
   no-op answered 204 where the serial execution answers 409 (known finding "double wipe") *)
Definition single_wiper (reqs : list req) : Prop :=
  forall i j ri rj c, nth_error reqs i = Some ri -> nth_error reqs j = Some rj ->
    wipes ri c -> wipes rj c -> i = j.
(* the serial reference execution runs each request to completion (run_req gives every request 1000
   transactions, far more than any request of the bounded scope needs) *)
Definition completes (cf : cfg) (reqs : list req) : Prop :=
  forall r d0, In r reqs -> exists rs, snd (run_req cf r d0) = TDone rs.

Theorem C07_serializable_partial :
  forall cf reqs s d ts' d',
    RI d -> ConsIff d -> Forest d ->
    (forall r, In r reqs -> in_scope r /\ req_wf r = true) ->
    consumers_preexist reqs d -> single_wiper reqs -> completes cf reqs ->
    exec cf reqs s d = (ts', d') -> finished ts' ->
    exists order : list nat,
      NoDup order /\ (forall i, In i order <-> succeeded ts' i) /\
      core_state (fst (run_serial cf (map (fun i => nth i reqs (RpDelete 0)) order) d)) = core_state d' /\
      Forall2 (fun i t => nth_error ts' i = Some t) order
              (snd (run_serial cf (map (fun i => nth i reqs (RpDelete 0)) order) d)).
Proof. exact c07_serializable_partial. Qed.
Print Assumptions C07_serializable_partial.

(* no inventory ends up over-committed by allocation writes, under any schedule: every transaction of
   every request preserves "over-committed only if it was, and usage did not grow" *)
Theorem C07_no_joint_overcommit :
  forall cf reqs s d ts' d' u rc,
    allocs_pos d ->
    (forall r, In r reqs -> in_scope r /\ req_wf r = true) ->
    (forall r, In r reqs -> ~ inv_change r u) ->
    exec cf reqs s d = (ts', d') -> overcommitted d' u rc ->
    overcommitted d u rc /\ usage d' u rc <= usage d u rc.
Proof. exact c07_no_joint_overcommit. Qed.
Print Assumptions C07_no_joint_overcommit.

(* the full statement without `consumers_preexist` is refuted by a concrete schedule of two requests *)
Theorem C07_refuted :
  exists cf reqs s d,
    (forall r, In r reqs -> in_scope r /\ req_wf r = true) /\
    let '(ts', d') := exec cf reqs s d in
    finished ts' /\
    forall order : list nat,
      NoDup order -> (forall i, In i order <-> succeeded ts' i) ->
      ~ (core_state (fst (run_serial cf (map (fun i => nth i reqs (RpDelete 0)) order) d)) = core_state d' /\
         Forall2 (fun i t => nth_error ts' i = Some t) order
                 (snd (run_serial cf (map (fun i => nth i reqs (RpDelete 0)) order) d))).
Proof. exact c07_refuted. Qed.
Print Assumptions C07_refuted.
