(* C08 - Stored records never dangle; entities in use cannot be removed. *)
From PV Require Import Proofs.Defs Proofs.C08.

Theorem C08_step :
  forall cf d r d' rs, RI d -> req_wf r = true -> step cf d r = (d', rs) -> RI d'.
Proof. exact c08_step. Qed.
Print Assumptions C08_step.

Theorem C08_invariant : forall cf d, reachable cf d -> RI d.
Proof. exact c08_invariant. Qed.
Print Assumptions C08_invariant.

(* refusals: a provider with allocations or children *)
Theorem C08_refuse_provider :
  forall cf d u d' rs, rp_in d u ->
    ((exists a, In a (allocs d) /\ a_rp a = u) \/ (exists r, In r (rps d) /\ rp_parent r = Some u)) ->
    step cf d (RpDelete u) = (d', rs) -> status rs = 409 /\ d' = d.
Proof. exact c08_refuse_provider. Qed.
Print Assumptions C08_refuse_provider.

(* an inventory with allocations (single delete, delete-all, replacement dropping the class) *)
Theorem C08_refuse_inventory :
  forall cf d u rc d' rs, rp_in d u -> rc_exists d rc = true ->
    (exists a, In a (allocs d) /\ a_rp a = u /\ a_rc a = rc) ->
    step cf d (InvDelete u rc) = (d', rs) -> status rs = 409 /\ d' = d.
Proof. exact c08_refuse_inventory. Qed.
Print Assumptions C08_refuse_inventory.

Theorem C08_refuse_inventory_all :
  forall cf d v u d' rs, rp_in d u -> 5 <= v ->
    (exists a i, In a (allocs d) /\ a_rp a = u /\ In i (invs d) /\ i_rp i = u /\ i_rc i = a_rc a) ->
    step cf d (InvDeleteAll v u) = (d', rs) -> status rs = 409 /\ d' = d.
Proof. exact c08_refuse_inventory_all. Qed.
Print Assumptions C08_refuse_inventory_all.

(* a resource class with inventory; a standard class *)
Theorem C08_refuse_class :
  forall cf d v n id d' rs, 2 <= v -> rc_id_of_name d n = Some id ->
    (id < MIN_CUSTOM_RC_ID \/ exists i, In i (invs d) /\ i_rc i = id) ->
    step cf d (RcDelete v n) = (d', rs) ->
    (status rs = (if id <? MIN_CUSTOM_RC_ID then 400 else 409)) /\ d' = d.
Proof. exact c08_refuse_class. Qed.
Print Assumptions C08_refuse_class.

(* a trait associated with a provider; a standard trait *)
Theorem C08_refuse_trait :
  forall cf d v t d' rs, 6 <= v -> trait_exists d t = true ->
    (is_std_trait t = true \/ exists x, In x (rp_traits d) /\ snd x = t) ->
    step cf d (TraitDelete v t) = (d', rs) ->
    (status rs = (if is_std_trait t then 400 else 409)) /\ d' = d.
Proof. exact c08_refuse_trait. Qed.
Print Assumptions C08_refuse_trait.

(* deleting a provider that is not in use removes its inventories and associations too *)
Theorem C08_cascade :
  forall cf d u d' rs, Forest d -> RI d ->
    step cf d (RpDelete u) = (d', rs) -> is_success rs -> ~ mentions d' u.
Proof. exact c08_cascade. Qed.
Print Assumptions C08_cascade.

(* ---------------------------------------------------------------------------------------------------------------
   Under interleaving (Model/ConcAll.v: every request as its sequence of top-level transactions - provider create /
   update / delete, class and trait create / put / rename / delete, PUT aggregates, PUT provider traits with its look-up
   and the re-check of fix 6eda2e3, the allocation writes and guarded provider writes of Model/Conc.v, the reshaper with
   the per-request resource class cache).  The property itself quantifies over request sequences; these theorems say what
   survives when requests overlap (DESIGN.md section 12). *)
From PV Require Import Model.ConcAll Proofs.C08c.

(* a class / trait request run alone is the sequential handler *)
Theorem C08_thread_alone_is_handler : forall cf d r k, is_ct_req r -> (2 <= k)%nat ->
  a_run_thread cf k (ainit cf r) d = (ADone (snd (step cf d r)), fst (step cf d r)).
Proof. exact a_serial. Qed.
Print Assumptions C08_thread_alone_is_handler.

(* ANY number of concurrent requests of ANY kind, ANY schedule: nothing dangles - provided no request set contains both a
   reshape that clears a consumer and a DELETE of a resource class (the recorded finding: the reshaper's write resolves the
   class name from the cache an earlier transaction of the same request filled) *)
Theorem C08_ri_all_schedules_partial : forall cf reqs s d, RI d -> Forall (fun r => req_wf r = true) reqs ->
  no_reshape_class_delete_race reqs ->
  RI (snd (a_run_sched cf s (map (ainit cf) reqs) d)).
Proof. exact C08c_ri_all_schedules_partial. Qed.
Print Assumptions C08_ri_all_schedules_partial.

Theorem C08_ri_every_prefix_partial : forall cf reqs s d k, RI d -> Forall (fun r => req_wf r = true) reqs ->
  no_reshape_class_delete_race reqs -> RI (snd (a_exec cf reqs (firstn k s) d)).
Proof. exact C08c_ri_every_prefix_partial. Qed.
Print Assumptions C08_ri_every_prefix_partial.

Theorem C08_ri_reachable_concurrent_partial : forall cf setup reqs s, reqs_wf setup ->
  Forall (fun r => req_wf r = true) reqs -> no_reshape_class_delete_race reqs ->
  RI (snd (a_exec cf reqs s (run cf db0 setup))).
Proof. exact C08c_ri_reachable_partial. Qed.
Print Assumptions C08_ri_reachable_concurrent_partial.

(* without that hypothesis the statement is false for the code as it is (known finding) *)
Theorem C08_ri_all_schedules_refuted : exists cf reqs s d, RI d /\ Forall (fun r => req_wf r = true) reqs /\
  ~ RI (snd (a_run_sched cf s (map (ainit cf) reqs) d)).
Proof. exact C08c_ri_all_schedules_refuted. Qed.
Print Assumptions C08_ri_all_schedules_refuted.

(* the race repaired by 09e8fa2, for every version, provider, generation, aggregate list, schedule and start state *)
Theorem C08_aggregates_vs_provider_delete : forall cf v u g l s d, RI d ->
  RI (snd (a_exec cf [AggsSet v u g l; RpDelete u] s d)).
Proof. exact C08c_aggs_vs_provider_delete_all. Qed.
Print Assumptions C08_aggregates_vs_provider_delete.
