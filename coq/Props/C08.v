(* C08 - Stored records never dangle; entities in use cannot be removed. *)
From PV Require Import Proofs.Defs Proofs.C08.

Theorem C08_step :
  forall cf d r d' rs, RI d -> req_wf r = true -> step cf d r = (d', rs) -> RI d'.
Proof. exact c08_step. Qed.
Print Assumptions C08_step.

Theorem C08_invariant : forall cf d, reachable cf d -> RI d.
Proof. exact c08_invariant. Qed.
Print Assumptions C08_invariant.

(* refusals: a provider with allocations or children *)
Theorem C08_refuse_provider :
  forall cf d u d' rs, rp_in d u ->
    ((exists a, In a (allocs d) /\ a_rp a = u) \/ (exists r, In r (rps d) /\ rp_parent r = Some u)) ->
    step cf d (RpDelete u) = (d', rs) -> status rs = 409 /\ d' = d.
Proof. exact c08_refuse_provider. Qed.
Print Assumptions C08_refuse_provider.

(* an inventory with allocations (single delete, delete-all, replacement dropping the class) *)
Theorem C08_refuse_inventory :
  forall cf d u rc d' rs, rp_in d u -> rc_exists d rc = true ->
    (exists a, In a (allocs d) /\ a_rp a = u /\ a_rc a = rc) ->
    step cf d (InvDelete u rc) = (d', rs) -> status rs = 409 /\ d' = d.
Proof. exact c08_refuse_inventory. Qed.
Print Assumptions C08_refuse_inventory.

Theorem C08_refuse_inventory_all :
  forall cf d v u d' rs, rp_in d u -> 5 <= v ->
    (exists a i, In a (allocs d) /\ a_rp a = u /\ In i (invs d) /\ i_rp i = u /\ i_rc i = a_rc a) ->
    step cf d (InvDeleteAll v u) = (d', rs) -> status rs = 409 /\ d' = d.
Proof. exact c08_refuse_inventory_all. Qed.
Print Assumptions C08_refuse_inventory_all.

(* a resource class with inventory; a standard class *)
Theorem C08_refuse_class :
  forall cf d v n id d' rs, 2 <= v -> rc_id_of_name d n = Some id ->
    (id < MIN_CUSTOM_RC_ID \/ exists i, In i (invs d) /\ i_rc i = id) ->
    step cf d (RcDelete v n) = (d', rs) ->
    (status rs = (if id <? MIN_CUSTOM_RC_ID then 400 else 409)) /\ d' = d.
Proof. exact c08_refuse_class. Qed.
Print Assumptions C08_refuse_class.

(* a trait associated with a provider; a standard trait *)
Theorem C08_refuse_trait :
  forall cf d v t d' rs, 6 <= v -> trait_exists d t = true ->
    (is_std_trait t = true \/ exists x, In x (rp_traits d) /\ snd x = t) ->
    step cf d (TraitDelete v t) = (d', rs) ->
    (status rs = (if is_std_trait t then 400 else 409)) /\ d' = d.
Proof. exact c08_refuse_trait. Qed.
Print Assumptions C08_refuse_trait.

(* deleting a provider that is not in use removes its inventories and associations too *)
Theorem C08_cascade :
  forall cf d u d' rs, Forest d -> RI d ->
    step cf d (RpDelete u) = (d', rs) -> is_success rs -> ~ mentions d' u.
Proof. exact c08_cascade. Qed.
Print Assumptions C08_cascade.
