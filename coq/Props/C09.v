(* C09 - The provider hierarchy is always a forest with correct root pointers. *)
From PV Require Import Proofs.Defs Proofs.C09.

Theorem C09_step : forall cf d r d' rs, Forest d -> step cf d r = (d', rs) -> Forest d'.
Proof. exact c09_step. Qed.
Print Assumptions C09_step.

Theorem C09_invariant : forall cf l, Forest (run cf db0 l).
Proof. exact c09_invariant. Qed.
Print Assumptions C09_invariant.

(* rejections: a request that would create a loop *)
Theorem C09_reject_loop :
  forall cf d v u name p d' rs, Forest d -> rp_in d u -> below (rps d) p u ->
    step cf d (RpUpdate v u name (Some (Some p))) = (d', rs) -> status rs = 400 /\ d' = d.
Proof. exact c09_reject_loop. Qed.
Print Assumptions C09_reject_loop.

(* ... that names a missing parent *)
Theorem C09_reject_missing_parent_create :
  forall cf d v u name p d' rs, find_rp d p = None ->
    step cf d (RpCreate v u name (Some p)) = (d', rs) -> status rs = 400 /\ d' = d.
Proof. exact c09_reject_missing_parent_create. Qed.
Print Assumptions C09_reject_missing_parent_create.

Theorem C09_reject_missing_parent_update :
  forall cf d v u name p d' rs, rp_in d u -> find_rp d p = None ->
    step cf d (RpUpdate v u name (Some (Some p))) = (d', rs) -> status rs = 400 /\ d' = d.
Proof. exact c09_reject_missing_parent_update. Qed.
Print Assumptions C09_reject_missing_parent_update.

(* ... that deletes a provider that still has children *)
Theorem C09_reject_delete_parent :
  forall cf d u d' rs, rp_in d u -> (exists r, In r (rps d) /\ rp_parent r = Some u) ->
    step cf d (RpDelete u) = (d', rs) -> status rs = 409 /\ d' = d.
Proof. exact c09_reject_delete_parent. Qed.
Print Assumptions C09_reject_delete_parent.

(* ... or, before 1.37, moves or detaches an already parented provider *)
Theorem C09_reject_reparent_old :
  forall cf d v u name me q newp d' rs, v < 37 -> find_rp d u = Some me -> rp_parent me = Some q ->
    newp <> Some q ->
    step cf d (RpUpdate v u name (Some newp)) = (d', rs) -> status rs = 400 /\ d' = d.
Proof. exact c09_reject_reparent_old. Qed.
Print Assumptions C09_reject_reparent_old.
