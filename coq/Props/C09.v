(* C09 - The provider hierarchy is always a forest with correct root pointers. *)
From PV Require Import Proofs.Defs Proofs.C09.

Theorem C09_step : forall cf d r d' rs, Forest d -> step cf d r = (d', rs) -> Forest d'.
Proof. exact c09_step. Qed.
Print Assumptions C09_step.

Theorem C09_invariant : forall cf l, Forest (run cf db0 l).
Proof. exact c09_invariant. Qed.
Print Assumptions C09_invariant.

(* rejections: a request that would create a loop *)
Theorem C09_reject_loop :
  forall cf d v u name p d' rs, Forest d -> rp_in d u -> below (rps d) p u ->
    step cf d (RpUpdate v u name (Some (Some p))) = (d', rs) -> status rs = 400 /\ d' = d.
Proof. exact c09_reject_loop. Qed.
Print Assumptions C09_reject_loop.

(* ... that names a missing parent *)
Theorem C09_reject_missing_parent_create :
  forall cf d v u name p d' rs, find_rp d p = None ->
    step cf d (RpCreate v u name (Some p)) = (d', rs) -> status rs = 400 /\ d' = d.
Proof. exact c09_reject_missing_parent_create. Qed.
Print Assumptions C09_reject_missing_parent_create.

Theorem C09_reject_missing_parent_update :
  forall cf d v u name p d' rs, rp_in d u -> find_rp d p = None ->
    step cf d (RpUpdate v u name (Some (Some p))) = (d', rs) -> status rs = 400 /\ d' = d.
Proof. exact c09_reject_missing_parent_update. Qed.
Print Assumptions C09_reject_missing_parent_update.

(* ... that deletes a provider that still has children *)
Theorem C09_reject_delete_parent :
  forall cf d u d' rs, rp_in d u -> (exists r, In r (rps d) /\ rp_parent r = Some u) ->
    step cf d (RpDelete u) = (d', rs) -> status rs = 409 /\ d' = d.
Proof. exact c09_reject_delete_parent. Qed.
Print Assumptions C09_reject_delete_parent.

(* ... or, before 1.37, moves or detaches an already parented provider *)
Theorem C09_reject_reparent_old :
  forall cf d v u name me q newp d' rs, v < 37 -> find_rp d u = Some me -> rp_parent me = Some q ->
    newp <> Some q ->
    step cf d (RpUpdate v u name (Some newp)) = (d', rs) -> status rs = 400 /\ d' = d.
Proof. exact c09_reject_reparent_old. Qed.
Print Assumptions C09_reject_reparent_old.

(* ---------------------------------------------------------------------------------------------------------------
   Under interleaving (Model/ConcTree.v: POST = one transaction; PUT = load + save, the save re-reads the provider but
   writes the name and - when the body had no parent key - the parent that was LOADED; DELETE = load + delete; every
   other request is a thread of Model/Conc.v).  The property itself quantifies over request sequences; these theorems
   say what survives when requests overlap. *)
From PV Require Import Model.ConcTree Proofs.C09c.

(* a thread run alone is the sequential handler *)
Theorem C09_thread_alone_is_handler : forall cf d r n, is_rp_req r -> (2 <= n)%nat ->
  tt_run_thread cf n (ttinit cf r) d = (TTDone (snd (step cf d r)), fst (step cf d r)).
Proof. exact tt_serial. Qed.
Print Assumptions C09_thread_alone_is_handler.

(* any number of concurrent requests of any kind, any schedule, any prefix of it: the hierarchy stays a forest with
   correct root pointers *)
Theorem C09_forest_all_schedules : forall cf reqs s d, Forest d ->
  Forest (snd (tt_run_sched cf s (map (ttinit cf) reqs) d)).
Proof. exact C09c_forest_all_schedules. Qed.
Print Assumptions C09_forest_all_schedules.

Theorem C09_forest_every_prefix : forall cf reqs s d k, Forest d -> Forest (snd (tt_exec cf reqs (firstn k s) d)).
Proof. exact C09c_forest_every_prefix. Qed.
Print Assumptions C09_forest_every_prefix.

Theorem C09_forest_reachable_concurrent : forall cf setup reqs s, Forest (snd (tt_exec cf reqs s (run cf db0 setup))).
Proof. exact C09c_forest_reachable. Qed.
Print Assumptions C09_forest_reachable_concurrent.

(* a provider request that ends in an error changed nothing in the step that ended it *)
Theorem C09_rejected_no_effect_concurrent : forall cf t d r d',
  rp_thread t -> ttstep cf t d = (TTDone r, d') -> 400 <= status r -> d' = d.
Proof. exact C09c_rejected_no_effect. Qed.
Print Assumptions C09_rejected_no_effect_concurrent.

(* what does NOT survive: PUT /resource_providers/{uuid} carries no generation; a rename (no parent key) overtaken by a
   re-parenting writes the OLD parent back - both answered 200, no serial order gives that state.  Observed on the
   service by the interleaving stream (scenario rename-unparented-vs-reparent); by design, not a finding of C09. *)
Theorem C09_rename_reverts_reparent :
  let conc := tt_exec cf0 [rr_A; rr_B] rr_sched rr_d0 in
  let mid := tt_exec cf0 [rr_A; rr_B] (firstn 3 rr_sched) rr_d0 in
  map tt_done (fst conc) = [Some (okg 200 0); Some (okg 200 0)] /\
  parent_of rr_d0 3 = Some (Some 1) /\
  statuses (fst mid) = [-1; 200] /\
  parent_of (snd mid) 3 = Some (Some 2) /\
  parent_of (snd conc) 3 = Some (Some 1) /\
  (forall order : list req, Permutation.Permutation [rr_A; rr_B] order ->
     run_statuses cf0 rr_d0 order = [200; 200] /\
     parent_of (run cf0 rr_d0 order) 3 = Some (Some 2) /\ core_differs (run cf0 rr_d0 order) (snd conc) = true).
Proof. exact C09c_rename_reverts_reparent. Qed.
Print Assumptions C09_rename_reverts_reparent.
