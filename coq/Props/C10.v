(* C10 - Generations move forward on every change and only then. *)
From PV Require Import Proofs.Defs Proofs.C10.

(* never decrease *)
Theorem C10_provider_monotone :
  forall cf d r d' rs u g g', step cf d r = (d', rs) -> gen_of d u = Some g -> gen_of d' u = Some g' -> g <= g'.
Proof. exact c10_provider_monotone. Qed.
Print Assumptions C10_provider_monotone.

Theorem C10_consumer_monotone :
  forall cf d r d' rs c g g', req_wf r = true -> ConsIff d -> RI d ->
    step cf d r = (d', rs) -> cgen_of d c = Some g -> cgen_of d' c = Some g' -> g <= g'.
Proof. exact c10_consumer_monotone. Qed.
Print Assumptions C10_consumer_monotone.

(* errors change no generation *)
Theorem C10_error_no_change :
  forall cf d r d' rs, req_wf r = true -> step cf d r = (d', rs) -> is_error rs ->
    (forall u, gen_of d' u = gen_of d u) /\ (forall c, cgen_of d' c = cgen_of d c).
Proof. exact c10_error_no_change. Qed.
Print Assumptions C10_error_no_change.

(* every change to a provider's inventories or traits strictly increases its generation *)
Theorem C10_inventory_change_increments :
  forall cf d r d' rs u g g', req_wf r = true -> step cf d r = (d', rs) ->
    gen_of d u = Some g -> gen_of d' u = Some g' -> invs_of d u <> invs_of d' u -> g < g'.
Proof. exact c10_inventory_change_increments. Qed.
Print Assumptions C10_inventory_change_increments.

Theorem C10_trait_change_increments :
  forall cf d r d' rs u g g', step cf d r = (d', rs) ->
    gen_of d u = Some g -> gen_of d' u = Some g' -> rp_traits_of d u <> rp_traits_of d' u -> g < g'.
Proof. exact c10_trait_change_increments. Qed.
Print Assumptions C10_trait_change_increments.

(* aggregates: from 1.19 *)
Theorem C10_aggregate_change_increments :
  forall cf d v u0 g0 l d' rs u g g', 19 <= v -> step cf d (AggsSet v u0 g0 l) = (d', rs) ->
    gen_of d u = Some g -> gen_of d' u = Some g' -> rp_aggs_of d u <> rp_aggs_of d' u -> g < g'.
Proof. exact c10_aggregate_change_increments. Qed.
Print Assumptions C10_aggregate_change_increments.

(* an accepted allocation write increases the generation of every provider it places resources on *)
Theorem C10_alloc_write_increments_provider :
  forall cf d r d' rs u rc amt g, req_wf r = true -> step cf d r = (d', rs) -> is_success rs ->
    placed r u rc amt -> gen_of d u = Some g -> exists g', gen_of d' u = Some g' /\ g < g'.
Proof. exact c10_alloc_write_increments_provider. Qed.
Print Assumptions C10_alloc_write_increments_provider.

(* ... and of every consumer it names that exists before and after *)
Theorem C10_alloc_write_increments_consumer :
  forall cf d r d' rs c g g', req_wf r = true -> ConsIff d -> RI d ->
    step cf d r = (d', rs) -> is_success rs -> names_consumer r c ->
    cgen_of d c = Some g -> cgen_of d' c = Some g' -> g < g'.
Proof. exact c10_alloc_write_increments_consumer. Qed.
Print Assumptions C10_alloc_write_increments_consumer.

(* the generation reported by a write is the stored one *)
Theorem C10_response_generation :
  forall cf d r d' rs u, Forest d -> step cf d r = (d', rs) -> is_success rs -> 0 <= rgen rs ->
    gen_target r = Some u -> gen_of d' u = Some (rgen rs).
Proof. exact c10_response_generation. Qed.
Print Assumptions C10_response_generation.

(* ---------------------------------------------------------------------------------------------------------------
   Under interleaving (Model/Conc.v: allocation writes and generation-guarded provider writes as threads; state after the
   first k entries of the schedule = snd (at_step cf reqs s d k)): generations never decrease along ANY schedule of ANY
   number of concurrent requests (beyond the property's quantifier over request sequences, §12 of DESIGN.md). *)
From PV Require Import Model.Conc Proofs.ConcDefs Proofs.C05 Proofs.C06.

Theorem C10_provider_monotone_all_schedules : forall cf reqs s d u k k', (k <= k')%nat ->
  ole (gen_of (snd (at_step cf reqs s d k)) u) (gen_of (snd (at_step cf reqs s d k')) u).
Proof. exact D_mono. Qed.
Print Assumptions C10_provider_monotone_all_schedules.

(* ... and so do consumer generations, as long as no request in flight clears the consumer (a cleared consumer is deleted
   and may be re-created at generation 0) *)
Theorem C10_consumer_monotone_all_schedules : forall cf reqs s d c,
  (forall r, In r reqs -> in_scope r /\ req_wf r = true /\ ~ wipes r c) -> has_consumer d c ->
  forall k k', (k <= k')%nat ->
  ole (cgen_of (snd (at_step cf reqs s d k)) c) (cgen_of (snd (at_step cf reqs s d k')) c).
Proof. exact cons_mono. Qed.
Print Assumptions C10_consumer_monotone_all_schedules.

(* ---------------------------------------------------------------------------------------------------------------
   AN ACCOUNTING under ALL schedules of ANY number of requests of EVERY kind (Model/ConcAll.v: one step per top-level
   transaction; Proofs/C10c.v).  a_run_tally is a_run_sched recording, per request, the increments of provider u's generation
   made by that request's own transactions (tl).  acct1 u t z b says of one request (thread state t, tally z, bounds b of its
   kind): answer not fixed yet -> z = 0; answered >= 300 -> z = 0; answered with success -> least b <= z <= greatest b.
   So: generations move only in the ONE committing transaction of a request that is then answered with success; rejected and
   unfinished requests move nothing; and u's final generation is the initial one plus the sum of the tally. *)
From PV Require Import Model.ConcAll Proofs.C10c.

Theorem C10_accounting_all_schedules : forall cf reqs s d u,
  let '(ts, d', tl) := a_run_tally cf u s (map (ainit cf) reqs) d (map (fun _ => 0) reqs) in
  a_exec cf reqs s d = (ts, d') /\
  acctL u ts tl (map (fun r => a_bounds (ainit cf r) u) reqs) /\
  (forall g, gen_of d u = Some g -> alive cf u s (map (ainit cf) reqs) d -> gen_of d' u = Some (g + sumZ tl)).
Proof. exact c10c_accounting. Qed.
Print Assumptions C10_accounting_all_schedules.

(* reading acctL request by request *)
Theorem C10_accounting_per_request : forall u ts tl bs i t, acctL u ts tl bs -> nth_error ts i = Some t ->
  exists z b, nth_error tl i = Some z /\ nth_error bs i = Some b /\
    (a_resp t = None -> z = 0) /\
    (forall r, a_resp t = Some r -> 300 <= status r -> z = 0) /\
    (forall r, a_resp t = Some r -> status r < 300 -> in_bounds b z).
Proof.
  intros u ts tl bs i t H Hi. destruct (acctL_nth u ts tl bs i t H Hi) as [z [b [H1 [H2 H3]]]]. exists z, b.
  split; [exact H1|]. split; [exact H2|]. split; [apply (acct1_open u t z b H3)|].
  split; [intros r; apply (acct1_rejected u t z b r H3)|intros r; apply (acct1_accepted u t z b r H3)].
Qed.
Print Assumptions C10_accounting_per_request.

(* the bounds (least, greatest; None = not bounded here) by request kind: exact where the documented meaning does not depend
   on the state - PUT inventories, POST / PUT / DELETE inventory, DELETE inventories, PUT aggregates from 1.19: exactly one on
   the provider named, nothing elsewhere; PUT aggregates below 1.19, provider create / update / delete, DELETE /allocations:
   nothing; PUT / DELETE traits: at most one on the provider named (none when nothing changes); PUT / POST /allocations: at most
   one per provider (see C10_two_clearing_writes for why not "exactly one per provider named"); POST /reshaper: not bounded *)
Theorem C10_bounds_by_kind : forall cf u,
  (forall v u0 g l, a_bounds (ainit cf (InvSet v u0 g l)) u = (b01 u0 u, Some (b01 u0 u))) /\
  (forall v u0 x, a_bounds (ainit cf (InvPost v u0 x)) u = (b01 u0 u, Some (b01 u0 u))) /\
  (forall v u0 g x, a_bounds (ainit cf (InvPut v u0 g x)) u = (b01 u0 u, Some (b01 u0 u))) /\
  (forall u0 rc, a_bounds (ainit cf (InvDelete u0 rc)) u = (b01 u0 u, Some (b01 u0 u))) /\
  (forall v u0, 5 <= v -> a_bounds (ainit cf (InvDeleteAll v u0)) u = (b01 u0 u, Some (b01 u0 u))) /\
  (forall v u0 g l, 19 <= v -> a_bounds (ainit cf (AggsSet v u0 g l)) u = (b01 u0 u, Some (b01 u0 u))) /\
  (forall v u0 g l, 1 <= v < 19 -> a_bounds (ainit cf (AggsSet v u0 g l)) u = (0, Some 0)) /\
  (forall v u0 g ts, 6 <= v -> a_bounds (ainit cf (TraitsSet v u0 g ts)) u = (0, Some (b01 u0 u))) /\
  (forall v u0, 6 <= v -> a_bounds (ainit cf (TraitsDelete v u0)) u = (0, Some (b01 u0 u))) /\
  (forall v c, a_bounds (ainit cf (AllocPut v c)) u = (0, Some 1)) /\
  (forall v l, 13 <= v -> a_bounds (ainit cf (AllocPost v l)) u = (0, Some 1)) /\
  (forall v ri al, 30 <= v -> a_bounds (ainit cf (Reshape v ri al)) u = (0, None)) /\
  (forall c, a_bounds (ainit cf (AllocDelete c)) u = (0, Some 0)) /\
  (forall v u0 n p, a_bounds (ainit cf (RpCreate v u0 n p)) u = (0, Some 0)) /\
  (forall v u0 n p, a_bounds (ainit cf (RpUpdate v u0 n p)) u = (0, Some 0)) /\
  (forall u0, a_bounds (ainit cf (RpDelete u0)) u = (0, Some 0)).
Proof. exact bounds_table. Qed.
Print Assumptions C10_bounds_by_kind.

(* the total increment lies between the least and greatest documented increments of the ACCEPTED requests; where they
   coincide it is exact *)
Theorem C10_totals : forall u ts tl bs, acctL u ts tl bs ->
  lo_sum ts bs <= sumZ tl /\ (Forall (fun b => snd b <> None) bs -> sumZ tl <= hi_sum ts bs).
Proof. exact acct_totals. Qed.
Print Assumptions C10_totals.

(* the set-up of harness/conc_extra.py: a claim and an inventory PUT on provider 6 both succeed under this schedule (the claim
   re-reads the generation on its server-side retry): 1 + 1 + 1 *)
Theorem C10_example_claim_vs_put :
  let '(ts, d', tl) := a_run_tally cx_cf 6 [0; 0; 0; 1; 1; 0]%nat (map (ainit cx_cf) cx_claim_vs_put) cx_d0 [0; 0] in
  (map cx_status ts, cx_gen cx_d0 6, cx_gen d' 6, tl) = ([204; 200], 1, 3, [1; 1]).
Proof. exact c10c_example_claim_vs_put. Qed.
Print Assumptions C10_example_claim_vs_put.

(* ... and why an allocation write is "at most one per provider": two PUT /allocations/2 {} with the same consumer generation
   both answer 204 (recorded finding of C06 / C07: the overtaken clearing write finds no rows and compares nothing); provider 2
   is incremented once *)
Theorem C10_two_clearing_writes :
  let '(ts, d', tl) := a_run_tally cx_cf 2 [0; 0; 0; 1; 0; 1; 1]%nat (map (ainit cx_cf) cx_two_clears) cx_d0 [0; 0] in
  (map cx_status ts, cx_gen cx_d0 2, cx_gen d' 2, tl) = ([204; 204], 3, 4, [1; 0]).
Proof. exact c10c_example_two_clears. Qed.
Print Assumptions C10_two_clearing_writes.

(* the accounting with a hypothesis on the REQUESTS only (Proofs/C05a.v): u exists at the start and no request is the DELETE
   of u - then u exists after every step (alive) *)
From PV Require Import Proofs.C05a.
Theorem C10_accounting_no_delete : forall cf reqs s d u g,
  gen_of d u = Some g -> (forall r, In r reqs -> r <> RpDelete u) ->
  let '(ts, d', tl) := a_run_tally cf u s (map (ainit cf) reqs) d (map (fun _ => 0) reqs) in
  a_exec cf reqs s d = (ts, d') /\
  acctL u ts tl (map (fun r => a_bounds (ainit cf r) u) reqs) /\
  gen_of d' u = Some (g + sumZ tl).
Proof. exact c10c_accounting_no_delete. Qed.
Print Assumptions C10_accounting_no_delete.


(* ------------------------------------------------------------------------------------------------------------------
   CONSUMER generations under interleaving (Proofs/C06a.v, over Model/ConcAll.v). *)
From PV Require Import Proofs.C06a.

(* every transaction of every thread does one of four things to a consumer c: nothing, create it at generation 0, move its
   generation from g to g + 1, end it *)
Theorem C10_consumer_step_effect : forall cf c ts i d, let d' := snd (a_step_thread cf i ts d) in
  csame d d' c \/ ccreate d d' c \/ cincr d d' c \/ cend d d' c.
Proof. exact c_step_effect. Qed.
Print Assumptions C10_consumer_step_effect.
(* ... and which of them depends on the answer of its request: still open afterwards - nothing or the creation; fixed >= 300 in
   this transaction - nothing; fixed before - nothing or the end (clean-up of what the request created); fixed < 300 in this
   transaction - nothing, the increment, or the end (a write that leaves c without allocations, DELETE /allocations/{c}) *)
Theorem C10_consumer_step_by_answer : forall cf t d c,
  c_outcome (a_resp t) (a_resp (fst (astep cf t d))) d (snd (astep cf t d)) c.
Proof. exact a_cacct. Qed.
Print Assumptions C10_consumer_step_by_answer.

(* with the tally tl of the increments of c's generation made by the transactions of each request: a request not answered yet
   or answered >= 300 has added nothing, a request answered with success 0 or 1; while c exists, final = initial + sum *)
Theorem C10_consumer_accounting : forall cf reqs s d c,
  let '(ts, d', tl) := c_run_tally cf c s (map (ainit cf) reqs) d (map (fun _ => 0) reqs) in
  a_exec cf reqs s d = (ts, d') /\
  cacctL ts tl (map (fun _ => tt) reqs) /\
  (forall g, cgen_of d c = Some g -> c_alive cf c s (map (ainit cf) reqs) d -> cgen_of d' c = Some (g + sumZ tl)).
Proof. exact c06a_accounting. Qed.
Print Assumptions C10_consumer_accounting.
Theorem C10_consumer_accounting_per_request : forall ts tl al i t, cacctL ts tl al -> nth_error ts i = Some t ->
  exists z, nth_error tl i = Some z /\
            match a_resp t with
            | None => z = 0
            | Some r => (300 <= status r /\ z = 0) \/ (status r < 300 /\ 0 <= z <= 1)
            end.
Proof. intros ts tl al i t H Hi. destruct (PL_nth unit cacct1 ts tl al H i t Hi) as (z & a & Hz & _ & Hp). exists z. split; [exact Hz|exact Hp]. Qed.
Print Assumptions C10_consumer_accounting_per_request.
(* one segment of c's life: whatever happened during s1 (c created, ended, created again at 0), if c exists from the end of s1 to
   the end of s1 ++ s2 its generation then is the one after s1 plus what the requests added during s2 *)
Theorem C10_consumer_accounting_segment : forall cf reqs s1 s2 d c,
  let '(ts1, d1, tl1) := c_run_tally cf c s1 (map (ainit cf) reqs) d (map (fun _ => 0) reqs) in
  let '(ts2, d2, tl2) := c_run_tally cf c (s1 ++ s2) (map (ainit cf) reqs) d (map (fun _ => 0) reqs) in
  cacctL ts2 tl2 (map (fun _ => tt) reqs) /\
  forall g1, cgen_of d1 c = Some g1 -> c_alive cf c s2 ts1 d1 -> cgen_of d2 c = Some (g1 + (sumZ tl2 - sumZ tl1)).
Proof. exact c06a_accounting_segment. Qed.
Print Assumptions C10_consumer_accounting_segment.

(* ------------------------------------------------------------------------------------------------------------------
   Exact increments under interleaving (Proofs/C10d.v). *)
From PV Require Import Proofs.C12a Proofs.C10d.

(* a PUT / POST /allocations that names provider u in an allocation with resources (a_wp; C10_provider_exact_requests) and is
   answered with success has added EXACTLY 1 to u's generation - whatever the schedule, retries included *)
Theorem C10_provider_exact : forall cf reqs s d u,
  let '(ts, _, tl) := a_run_tally cf u s (map (ainit cf) reqs) d (map (fun _ => 0) reqs) in
  forall i r t rs, nth_error reqs i = Some r -> a_wp (ainit cf r) u ->
    nth_error ts i = Some t -> a_resp t = Some rs -> status rs < 300 -> nth_error tl i = Some 1.
Proof. exact c10d_provider_exact. Qed.
Print Assumptions C10_provider_exact.
Theorem C10_provider_exact_requests : forall cf u,
  (forall v e, a_wp (ainit cf (AllocPut v e)) u <-> exists a, In a (ci_allocs e) /\ ai_rp a = u /\ ai_res a <> []) /\
  (forall v l, 13 <= v -> (a_wp (ainit cf (AllocPost v l)) u <->
     exists e a, In e l /\ In a (ci_allocs e) /\ ai_rp a = u /\ ai_res a <> [])).
Proof. exact wp_table. Qed.
Print Assumptions C10_provider_exact_requests.

(* an allocation write (PUT, POST, POST /reshaper) that names consumer c with non-empty allocations and is answered with success
   has added EXACTLY 1 to c's generation *)
Theorem C10_consumer_exact : forall cf reqs s d c,
  let '(ts, _, tl) := c_run_tally cf c s (map (ainit cf) reqs) d (map (fun _ => 0) reqs) in
  forall i r t rs, nth_error reqs i = Some r -> a_ww (ainit cf r) c ->
    nth_error ts i = Some t -> a_resp t = Some rs -> status rs < 300 -> nth_error tl i = Some 1.
Proof. exact c10d_consumer_exact. Qed.
Print Assumptions C10_consumer_exact.
Theorem C10_consumer_exact_requests : forall cf c r, req_wf r = true ->
  (exists e, In e (req_consumers r) /\ ci_uuid e = c /\ ci_allocs e <> []) ->
  match r with AllocPost v _ => 13 <= v | Reshape v _ _ => 30 <= v | _ => True end ->
  a_ww (ainit cf r) c.
Proof. exact ww_table. Qed.
Print Assumptions C10_consumer_exact_requests.

(* POST /reshaper (providers named once in its inventories section): its main transaction moves the generation of a provider u
   by reshape_incr = (1 if u is named with inventories) + (1 if an allocation object is on u) + (1 if u is named): between 0
   and 3, 1 for a provider that only receives or loses allocations, 2 or 3 for the providers being reshaped *)
Theorem C10_reshape_exact : forall x ks objs d d', x_kind x = KReshape -> nodupb (map ri_rp (x_ri x)) = true ->
  main_txn x ks objs d = Ok d' ->
  forall u g, gen_of d u = Some g -> gen_of d' u = Some (g + reshape_incr (x_ri x) objs u).
Proof. exact c10d_reshape_exact. Qed.
Print Assumptions C10_reshape_exact.
Theorem C10_reshape_step : forall snap x ks objs d d' u, x_kind x = KReshape -> nodupb (map ri_rp (x_ri x)) = true ->
  main_txn_cached snap x ks objs d = Ok d' -> gen_of d u <> None ->
  gdelta d d' u = reshape_incr (x_ri x) objs u /\ 0 <= gdelta d d' u <= 3.
Proof. exact c10d_reshape_step. Qed.
Print Assumptions C10_reshape_step.
