(* C10 - Generations move forward on every change and only then. *)
From PV Require Import Proofs.Defs Proofs.C10.

(* never decrease *)
Theorem C10_provider_monotone :
  forall cf d r d' rs u g g', step cf d r = (d', rs) -> gen_of d u = Some g -> gen_of d' u = Some g' -> g <= g'.
Proof. exact c10_provider_monotone. Qed.
Print Assumptions C10_provider_monotone.

Theorem C10_consumer_monotone :
  forall cf d r d' rs c g g', req_wf r = true -> ConsIff d -> RI d ->
    step cf d r = (d', rs) -> cgen_of d c = Some g -> cgen_of d' c = Some g' -> g <= g'.
Proof. exact c10_consumer_monotone. Qed.
Print Assumptions C10_consumer_monotone.

(* errors change no generation *)
Theorem C10_error_no_change :
  forall cf d r d' rs, req_wf r = true -> step cf d r = (d', rs) -> is_error rs ->
    (forall u, gen_of d' u = gen_of d u) /\ (forall c, cgen_of d' c = cgen_of d c).
Proof. exact c10_error_no_change. Qed.
Print Assumptions C10_error_no_change.

(* every change to a provider's inventories or traits strictly increases its generation *)
Theorem C10_inventory_change_increments :
  forall cf d r d' rs u g g', req_wf r = true -> step cf d r = (d', rs) ->
    gen_of d u = Some g -> gen_of d' u = Some g' -> invs_of d u <> invs_of d' u -> g < g'.
Proof. exact c10_inventory_change_increments. Qed.
Print Assumptions C10_inventory_change_increments.

Theorem C10_trait_change_increments :
  forall cf d r d' rs u g g', step cf d r = (d', rs) ->
    gen_of d u = Some g -> gen_of d' u = Some g' -> rp_traits_of d u <> rp_traits_of d' u -> g < g'.
Proof. exact c10_trait_change_increments. Qed.
Print Assumptions C10_trait_change_increments.

(* aggregates: from 1.19 *)
Theorem C10_aggregate_change_increments :
  forall cf d v u0 g0 l d' rs u g g', 19 <= v -> step cf d (AggsSet v u0 g0 l) = (d', rs) ->
    gen_of d u = Some g -> gen_of d' u = Some g' -> rp_aggs_of d u <> rp_aggs_of d' u -> g < g'.
Proof. exact c10_aggregate_change_increments. Qed.
Print Assumptions C10_aggregate_change_increments.

(* an accepted allocation write increases the generation of every provider it places resources on *)
Theorem C10_alloc_write_increments_provider :
  forall cf d r d' rs u rc amt g, req_wf r = true -> step cf d r = (d', rs) -> is_success rs ->
    placed r u rc amt -> gen_of d u = Some g -> exists g', gen_of d' u = Some g' /\ g < g'.
Proof. exact c10_alloc_write_increments_provider. Qed.
Print Assumptions C10_alloc_write_increments_provider.

(* ... and of every consumer it names that exists before and after *)
Theorem C10_alloc_write_increments_consumer :
  forall cf d r d' rs c g g', req_wf r = true -> ConsIff d -> RI d ->
    step cf d r = (d', rs) -> is_success rs -> names_consumer r c ->
    cgen_of d c = Some g -> cgen_of d' c = Some g' -> g < g'.
Proof. exact c10_alloc_write_increments_consumer. Qed.
Print Assumptions C10_alloc_write_increments_consumer.

(* the generation reported by a write is the stored one *)
Theorem C10_response_generation :
  forall cf d r d' rs u, Forest d -> step cf d r = (d', rs) -> is_success rs -> 0 <= rgen rs ->
    gen_target r = Some u -> gen_of d' u = Some (rgen rs).
Proof. exact c10_response_generation. Qed.
Print Assumptions C10_response_generation.

(* ---------------------------------------------------------------------------------------------------------------
   Under interleaving (Model/Conc.v: allocation writes and generation-guarded provider writes as threads; state after the
   first k entries of the schedule = snd (at_step cf reqs s d k)): generations never decrease along ANY schedule of ANY
   number of concurrent requests (beyond the property's quantifier over request sequences, §12 of DESIGN.md). *)
From PV Require Import Model.Conc Proofs.ConcDefs Proofs.C05 Proofs.C06.

Theorem C10_provider_monotone_all_schedules : forall cf reqs s d u k k', (k <= k')%nat ->
  ole (gen_of (snd (at_step cf reqs s d k)) u) (gen_of (snd (at_step cf reqs s d k')) u).
Proof. exact D_mono. Qed.
Print Assumptions C10_provider_monotone_all_schedules.

(* ... and so do consumer generations, as long as no request in flight clears the consumer (a cleared consumer is deleted
   and may be re-created at generation 0) *)
Theorem C10_consumer_monotone_all_schedules : forall cf reqs s d c,
  (forall r, In r reqs -> in_scope r /\ req_wf r = true /\ ~ wipes r c) -> has_consumer d c ->
  forall k k', (k <= k')%nat ->
  ole (cgen_of (snd (at_step cf reqs s d k)) c) (cgen_of (snd (at_step cf reqs s d k')) c).
Proof. exact cons_mono. Qed.
Print Assumptions C10_consumer_monotone_all_schedules.
