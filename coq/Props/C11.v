(* C11 - Reads report exactly the state produced by the successful writes.
   view (Model/Reads.v) = the read handlers on the database; spec_view / abs (Spec/ApiSpec.v) = the
   reads on the abstract state (usages, roots, totals derived). *)
From PV Require Import Proofs.Defs Spec.ApiSpec Proofs.C11 Proofs.C11n.
From PV Require Proofs.C19.

(* every read (thirteen routes: nine about providers / consumers / usages, GET /traits with its
   name=in: and associated= filters, GET /traits/{name}, GET /resource_classes,
   GET /resource_classes/{name}), at every microversion, reports what the reference semantics computes
   from the abstraction of the database, provided the stored records do not dangle (RI, C08), the
   provider hierarchy is a forest with correct root pointers (Forest, C09) and consumer uuids are
   unique.  One read needs one more fact: GET /traits?associated=true is a JOIN .. DISTINCT and lists a
   name once only if the traits table holds it once (traits_unique; needs_unique_traits q is false for
   every other query, so for them the statement is the one proved before) *)
Theorem C11_reads_refine :
  forall d, RI d -> Forest d -> NoDup (map c_uuid (consumers d)) ->
  forall q v, (needs_unique_traits q = true -> traits_unique d) -> view q v d = spec_view q v (abs d).
Proof. exact c11_reads_refine. Qed.
Print Assumptions C11_reads_refine.

(* trait names are unique in every state the API can produce (any requests, well-formed or not) *)
Theorem C11_traits_unique : forall cf l, traits_unique (run cf db0 l).
Proof. exact c11_traits_unique. Qed.
Print Assumptions C11_traits_unique.

(* consumer uuids are unique in every state the API can produce (any requests, well-formed or not) *)
Theorem C11_consumers_unique : forall cf l, NoDup (map c_uuid (consumers (run cf db0 l))).
Proof. exact c11_consumers_unique. Qed.
Print Assumptions C11_consumers_unique.

(* ... hence after any sequence of well-formed requests every read equals the reference semantics
   (RI by C08.run_RI, Forest by C09.c09_invariant, uniqueness by the two theorems above) *)
Theorem C11_reads_refine_reachable :
  forall cf l q v, reqs_wf l -> view q v (run cf db0 l) = spec_view q v (abs (run cf db0 l)).
Proof. exact c11_reads_refine_reachable. Qed.
Print Assumptions C11_reads_refine_reachable.

(* GET /resource_providers/{u}/usages has one entry per class with inventory on u, and its value is the
   sum of `used` over all allocation records of that provider and class *)
Theorem C11_usage_is_sum :
  forall d v u, rv_status (view (QRpUsages u) v d) = 200 ->
  forall rc x,
    In [rc; x] (rv_rows (view (QRpUsages u) v d)) <->
    ((exists i, In i (invs d) /\ i_rp i = u /\ i_rc i = rc) /\
     x = sumZ (map a_used (filter (fun a => (a_rp a =? u) && (a_rc a =? rc)) (allocs d)))).
Proof. exact c11_usage_is_sum. Qed.
Print Assumptions C11_usage_is_sum.

(* ... and equals the sum, over all consumers, of what GET /allocations/{consumer} reports for that
   provider and class *)
Theorem C11_usage_is_sum_of_consumers :
  forall d v v' u rc x, RI d -> NoDup (map c_uuid (consumers d)) ->
    In [rc; x] (rv_rows (view (QRpUsages u) v d)) ->
    x = sumZ (map (fun k => rows_amount u rc (rv_rows (view (QConsAllocs (c_uuid k)) v' d))) (consumers d)).
Proof. exact c11_usage_is_sum_of_consumers. Qed.
Print Assumptions C11_usage_is_sum_of_consumers.

(* the per-consumer and the per-provider view of allocations agree: "c holds amt of rc on u" is in
   GET /allocations/{c} iff it is in GET /resource_providers/{u}/allocations (RI is not needed: both
   queries join the same tables; Forest makes the provider lookup of the second succeed) *)
Theorem C11_views_agree :
  forall d, Forest d -> forall c u rc amt v v',
    (exists g, In [u; g; rc; amt] (rv_rows (view (QConsAllocs c) v d))) <->
    (exists tl, In ([c; rc; amt] ++ tl) (rv_rows (view (QRpAllocs u) v' d))).
Proof. exact c11_views_agree. Qed.
Print Assumptions C11_views_agree.

(* reads depend on the core tables only; core_eq (Proofs/Defs.v) compares every table but projects /
   users / consumer_types, so the tables behind the class and trait reads (resource_classes, traits,
   resource_provider_traits) are core and the statement covers those reads as it stands *)
Theorem C11_view_core_eq : forall d d' q v, core_eq d d' -> view q v d = view q v d'.
Proof. exact c11_view_core_eq. Qed.
Print Assumptions C11_view_core_eq.

(* read after write: an accepted inventory replacement is read back exactly *)
Theorem C11_read_after_write_inventory :
  forall cf d v u g l d' rs v',
    inv_keys_nodup d -> Forest d -> req_wf (InvSet v u g l) = true ->
    step cf d (InvSet v u g l) = (d', rs) -> is_success rs ->
    exists g', gen_of d' u = Some g' /\
      view (QInvs u) v' d' = mkView 200 [g'] (sort_rows (map (fun x => inv_row (to_inv u x)) l)).
Proof. exact c11_raw_inventory. Qed.
Print Assumptions C11_read_after_write_inventory.

(* ... an accepted trait replacement: exactly the requested set *)
Theorem C11_read_after_write_traits :
  forall cf d v u g ts d' rs v',
    Forest d -> step cf d (TraitsSet v u g ts) = (d', rs) -> is_success rs -> 6 <= v' ->
    rv_status (view (QRpTraits u) v' d') = 200 /\
    forall t, In [t] (rv_rows (view (QRpTraits u) v' d')) <-> In t ts.
Proof. exact c11_raw_traits. Qed.
Print Assumptions C11_read_after_write_traits.

(* ... and GET /traits lists each of them as associated (with or without a name filter that admits
   it) and not as unassociated *)
Theorem C11_read_after_write_traits_associated :
  forall cf d v u g ts d' rs v' t,
    step cf d (TraitsSet v u g ts) = (d', rs) -> is_success rs -> 6 <= v' -> In t ts ->
    forall names, names_ok names t ->
      In [t] (rv_rows (view (QTraits names (Some true)) v' d')) /\
      ~ In [t] (rv_rows (view (QTraits names (Some false)) v' d')).
Proof. exact c11_raw_traits_associated. Qed.
Print Assumptions C11_read_after_write_traits_associated.

(* ... an accepted aggregate replacement: exactly the requested set *)
Theorem C11_read_after_write_aggregates :
  forall cf d v u g l d' rs v',
    RI d -> Forest d -> step cf d (AggsSet v u g l) = (d', rs) -> is_success rs -> 1 <= v' ->
    rv_status (view (QRpAggs u) v' d') = 200 /\
    forall a, In [a] (rv_rows (view (QRpAggs u) v' d')) <-> In a l.
Proof. exact c11_raw_aggregates. Qed.
Print Assumptions C11_read_after_write_aggregates.

(* ... an accepted POST /allocations: every consumer it names reads back exactly what the request
   gives it *)
Theorem C11_read_after_write_allocations :
  forall cf d v l d' rs c u rc amt v',
    RI d -> req_wf (AllocPost v l) = true -> step cf d (AllocPost v l) = (d', rs) -> is_success rs ->
    In c l ->
    ((exists g, In [u; g; rc; amt] (rv_rows (view (QConsAllocs (ci_uuid c)) v' d'))) <->
     exists a, In a (ci_allocs c) /\ ai_rp a = u /\ In (rc, amt) (ai_res a)).
Proof. exact c11_raw_allocations. Qed.
Print Assumptions C11_read_after_write_allocations.

(* ... and the same for PUT /allocations/{c}, which is POST /allocations with the single consumer c *)
Theorem C11_put_as_post :
  forall cf d v c, step cf d (AllocPut v c) = step cf d (AllocPost (Z.max v 13) [c]).
Proof. exact put_as_post. Qed.
Print Assumptions C11_put_as_post.

Theorem C11_read_after_write_allocation_put :
  forall cf d v c d' rs u rc amt v',
    RI d -> req_wf (AllocPut v c) = true -> step cf d (AllocPut v c) = (d', rs) -> is_success rs ->
    ((exists g, In [u; g; rc; amt] (rv_rows (view (QConsAllocs (ci_uuid c)) v' d'))) <->
     exists a, In a (ci_allocs c) /\ ai_rp a = u /\ In (rc, amt) (ai_res a)).
Proof. exact c11_raw_allocation_put. Qed.
Print Assumptions C11_read_after_write_allocation_put.

(* ... with the project and user of the request (the configured placeholders below 1.8) and, when both
   the write and the read are at 1.38 or later, its consumer type *)
Theorem C11_read_after_write_consumer_attrs :
  forall cf d r d' rs c v',
    ConsIff d -> RI d -> req_wf r = true -> step cf d r = (d', rs) -> is_success rs ->
    In c (req_consumers r) -> 12 <= v' ->
    rv_rows (view (QConsAllocs (ci_uuid c)) v' d') <> [] ->
    exists tl,
      rv_hdr (view (QConsAllocs (ci_uuid c)) v' d') =
      [match ci_proj c with Some p => p | None => incomplete_proj cf end;
       match ci_proj c with Some _ => oz (ci_user c) | None => incomplete_user cf end] ++ tl /\
      (38 <= req_version r -> 38 <= v' -> exists g, tl = [g; oz (ci_type c)]).
Proof. exact c11_raw_consumer_attrs. Qed.
Print Assumptions C11_read_after_write_consumer_attrs.

(* ---------------------------------------------------------------- classes and traits *)
(* what GET /traits lists, from 1.6: a trait is listed iff it exists (standard, or created and not
   deleted), is among the names asked for, and is / is not carried by a provider when `associated`
   is given.  names_ok names t := names = None or t is in the list; assoc_ok d assoc t := assoc = None,
   or (true) some (u, t) is in resource_provider_traits, or (false) none is *)
Theorem C11_traits_listed_iff :
  forall d v names assoc t, 6 <= v ->
    (In [t] (rv_rows (view (QTraits names assoc) v d)) <->
     trait_exists d t = true /\ names_ok names t /\ assoc_ok d assoc t).
Proof. exact c11_traits_listed_iff. Qed.
Print Assumptions C11_traits_listed_iff.

(* GET /traits/{t}: 204 iff the trait exists *)
Theorem C11_trait_show :
  forall d v t, 6 <= v -> view (QTrait t) v d = if trait_exists d t then mkView 204 [] [] else v_404.
Proof. exact c11_trait_show. Qed.
Print Assumptions C11_trait_show.

(* GET /resource_classes lists exactly the existing classes (class_exists d n := n is a standard name
   or the name of a row of resource_classes); GET /resource_classes/{n} answers 200 with the name iff
   the class exists *)
Theorem C11_classes_listed_iff :
  forall d v n, 2 <= v -> (In [n] (rv_rows (view QClasses v d)) <-> class_exists d n = true).
Proof. exact c11_classes_listed_iff. Qed.
Print Assumptions C11_classes_listed_iff.

Theorem C11_class_show :
  forall d v n, 2 <= v -> view (QClass n) v d = if class_exists d n then mkView 200 [n] [] else v_404.
Proof. exact c11_class_show. Qed.
Print Assumptions C11_class_show.

(* below 1.6 / 1.2 these reads answer 404 in every state *)
Theorem C11_names_unavailable :
  forall d v, (v < 6 -> forall names assoc t, view (QTraits names assoc) v d = v_404 /\ view (QTrait t) v d = v_404) /\
              (v < 2 -> forall n, view QClasses v d = v_404 /\ view (QClass n) v d = v_404).
Proof. exact c11_names_unavailable. Qed.
Print Assumptions C11_names_unavailable.

(* read after write: after an accepted PUT /traits/{t} (201 created or 204 already there) the trait
   reads 204, every listing whose name filter admits it contains it, and nothing reported about any
   other trait has changed *)
Theorem C11_read_after_write_trait_put :
  forall cf d v t d' rs v',
    step cf d (TraitPut v t) = (d', rs) -> is_success rs -> 6 <= v' ->
    view (QTrait t) v' d' = mkView 204 [] [] /\
    (forall names, names_ok names t -> In [t] (rv_rows (view (QTraits names None) v' d'))) /\
    (forall t' names assoc, t' <> t ->
       (In [t'] (rv_rows (view (QTraits names assoc) v' d')) <->
        In [t'] (rv_rows (view (QTraits names assoc) v' d)))).
Proof. exact c11_raw_trait_put. Qed.
Print Assumptions C11_read_after_write_trait_put.

(* ... after an accepted DELETE /traits/{t}: 404, in no listing under any filter, other traits untouched *)
Theorem C11_read_after_write_trait_delete :
  forall cf d v t d' rs v',
    step cf d (TraitDelete v t) = (d', rs) -> is_success rs -> 6 <= v' ->
    view (QTrait t) v' d' = v_404 /\
    (forall names assoc, ~ In [t] (rv_rows (view (QTraits names assoc) v' d'))) /\
    (forall t' names assoc, t' <> t ->
       (In [t'] (rv_rows (view (QTraits names assoc) v' d')) <->
        In [t'] (rv_rows (view (QTraits names assoc) v' d)))).
Proof. exact c11_raw_trait_delete. Qed.
Print Assumptions C11_read_after_write_trait_delete.

(* ... after an accepted POST /resource_classes {"name": n}: 200 with the name, listed, others untouched *)
Theorem C11_read_after_write_class_create :
  forall cf d v n d' rs v',
    step cf d (RcCreate v n) = (d', rs) -> is_success rs -> 2 <= v' ->
    view (QClass n) v' d' = mkView 200 [n] [] /\ In [n] (rv_rows (view QClasses v' d')) /\
    forall n', n' <> n -> view (QClass n') v' d' = view (QClass n') v' d.
Proof. exact c11_raw_class_create. Qed.
Print Assumptions C11_read_after_write_class_create.

(* ... after an accepted body-less PUT /resource_classes/{n} (from 1.7: create if absent) *)
Theorem C11_read_after_write_class_put :
  forall cf d v n d' rs v',
    step cf d (RcPut v n) = (d', rs) -> is_success rs -> 2 <= v' ->
    view (QClass n) v' d' = mkView 200 [n] [] /\ In [n] (rv_rows (view QClasses v' d')) /\
    forall n', n' <> n -> view (QClass n') v' d' = view (QClass n') v' d.
Proof. exact c11_raw_class_put. Qed.
Print Assumptions C11_read_after_write_class_put.

(* ... after an accepted rename PUT /resource_classes/{old} {"name": new} (1.2 - 1.6): the new name
   reads 200 and is listed, the old one (if different) reads 404 and is not listed, all other names
   are untouched.  rcs_ok (Proofs/C19.v: ids and names of the custom rows unique, no standard name
   among them) holds in every state the API can produce: C19.c19_ids_reachable *)
Theorem C11_read_after_write_class_rename :
  forall cf d v old new d' rs v',
    C19.rcs_ok d -> v <= 6 -> step cf d (RcRename v old new) = (d', rs) -> is_success rs -> 2 <= v' ->
    view (QClass new) v' d' = mkView 200 [new] [] /\ In [new] (rv_rows (view QClasses v' d')) /\
    (old <> new -> view (QClass old) v' d' = v_404 /\ ~ In [old] (rv_rows (view QClasses v' d'))) /\
    forall n', n' <> old -> n' <> new -> view (QClass n') v' d' = view (QClass n') v' d.
Proof. exact c11_raw_class_rename. Qed.
Print Assumptions C11_read_after_write_class_rename.

(* ... after an accepted DELETE /resource_classes/{n}: 404, not listed, others untouched *)
Theorem C11_read_after_write_class_delete :
  forall cf d v n d' rs v',
    C19.rcs_ok d -> step cf d (RcDelete v n) = (d', rs) -> is_success rs -> 2 <= v' ->
    view (QClass n) v' d' = v_404 /\ ~ In [n] (rv_rows (view QClasses v' d')) /\
    forall n', n' <> n -> view (QClass n') v' d' = view (QClass n') v' d.
Proof. exact c11_raw_class_delete. Qed.
Print Assumptions C11_read_after_write_class_delete.

(* a request answered with an error changes no read *)
Theorem C11_rejected_reads_unchanged :
  forall cf d r d' rs q v, req_wf r = true -> step cf d r = (d', rs) -> is_error rs ->
    view q v d' = view q v d.
Proof. exact c11_rejected_reads_unchanged. Qed.
Print Assumptions C11_rejected_reads_unchanged.

(* the literal reading of C11: after any sequence of well-formed requests, every read reports what it
   would report had only the requests answered without an error been issued, in the same order
   (step_core_eq: requests started from states that agree on the core tables answer the same and
   leave states that agree on the core tables) ... *)
Theorem C11_only_successes_matter :
  forall cf l q v, reqs_wf l ->
    view q v (run cf db0 l) = view q v (run cf db0 (successes cf db0 l)).
Proof. exact c11_only_successes_matter. Qed.
Print Assumptions C11_only_successes_matter.

Theorem C11_step_core_eq :
  forall cf r d1 d2, core_eq d1 d2 ->
    core_eq (fst (step cf d1 r)) (fst (step cf d2 r)) /\ snd (step cf d1 r) = snd (step cf d2 r).
Proof. exact step_core_eq. Qed.
Print Assumptions C11_step_core_eq.

(* ... and that is the reference semantics applied to the abstract state those requests produce *)
Theorem C11_reads_are_successful_writes :
  forall cf l q v, reqs_wf l ->
    view q v (run cf db0 l) = spec_view q v (abs (run cf db0 (successes cf db0 l))).
Proof. exact c11_reads_are_successful_writes. Qed.
Print Assumptions C11_reads_are_successful_writes.
