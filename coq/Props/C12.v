(* C12 - Consumers exist exactly while they hold allocations. *)
From PV Require Import Proofs.Defs Proofs.C12 Proofs.Reach.

Theorem C12_step :
  forall cf d r d' rs, ConsIff d -> RI d -> req_wf r = true -> step cf d r = (d', rs) -> ConsIff d'.
Proof. exact c12_step. Qed.
Print Assumptions C12_step.

Theorem C12_invariant : forall cf d, reachable cf d -> ConsIff d.
Proof. exact c12_invariant. Qed.
Print Assumptions C12_invariant.

(* attributes: after an accepted allocation write every consumer it names that still exists carries
   the project and user of the request (the configured placeholders below 1.8) and, from 1.38, its type *)
Theorem C12_attrs :
  forall cf d r d' rs c k, ConsIff d -> RI d -> req_wf r = true ->
    step cf d r = (d', rs) -> is_success rs -> In c (req_consumers r) ->
    find_cons d' (ci_uuid c) = Some k ->
    c_proj k = (match ci_proj c with Some p => p | None => incomplete_proj cf end) /\
    c_user k = (match ci_proj c with Some _ => oz (ci_user c) | None => incomplete_user cf end) /\
    (38 <= req_version r -> c_type k = Some (oz (ci_type c))).
Proof. exact c12_attrs. Qed.
Print Assumptions C12_attrs.

(* a consumer that does not exist (never written, removed, or first write rejected) is never refused
   for its generation when the write carries consumer_generation null *)
Theorem C12_recreate :
  forall cf v d c, find_cons d (ci_uuid c) = None -> ci_gen c = None ->
    snd (ensure_consumer cf v d c) <> None.
Proof. exact c12_recreate. Qed.
Print Assumptions C12_recreate.

(* ------------------------------------------------------------------------------------------------------------------
   Under interleaving (Proofs/C12a.v, over Model/ConcAll.v: every request kind as a thread, one step per top-level transaction,
   any number of threads, any schedule). *)
From PV Require Import Model.ConcAll Proofs.C10c Proofs.C06a Proofs.C12a.
From PV Require Proofs.C08c.

(* at every point of every schedule that starts in a state with the C12 invariant: a consumer record without allocations is owed
   by a thread that is not finished - a request that created the record in its own transaction and has neither given it
   allocations nor cleaned it up yet, a request with the record on its clean-up list, or DELETE /allocations between its two
   writer transactions (a_owes).  This is the recorded residue: it is a state DURING a schedule, visible to other requests. *)
Theorem C12_stray_is_owed : forall cf reqs s d c,
  ConsIff d -> Forall (fun r => req_wf r = true) reqs ->
  stray (snd (a_exec cf reqs s d)) c ->
  exists j t, nth_error (fst (a_exec cf reqs s d)) j = Some t /\ a_owes t c /\ a_done t = None.
Proof. exact c12a_stray_owed. Qed.
Print Assumptions C12_stray_is_owed.

(* when every request is answered the invariant holds again: consumers exist exactly while they hold allocations
   (RI d and race_free are the hypotheses of C08c_ri_all_schedules_partial, used for "allocations have a consumer record") *)
Theorem C12_final_state : forall cf reqs s d,
  ConsIff d -> RI d -> Forall (fun r => req_wf r = true) reqs -> C08c.race_free reqs ->
  (forall t, In t (fst (a_exec cf reqs s d)) -> a_done t <> None) ->
  ConsIff (snd (a_exec cf reqs s d)).
Proof. exact c12a_final_state. Qed.
Print Assumptions C12_final_state.

Theorem C12_residue_mid_schedule :
  cz_run [cy_n5a; cy_g5] [0; 0]%nat = ([-1; -1], [5], [(2, 2); (3, 1); (3, 4)], [1]).
Proof. exact c12a_residue_mid_schedule. Qed.
(* req_wf is needed: an allocation with an empty "resources" object (refused by the JSON schema) leaves the record it created *)
Theorem C12_final_state_needs_wf :
  cz_run [cz_bad] [0; 0; 0; 0; 0; 0]%nat = ([204], [5], [(2, 2); (3, 1); (3, 4)], [1]) /\ req_wf cz_bad = false.
Proof. exact c12a_needs_wf. Qed.
Print Assumptions C12_residue_mid_schedule.
Print Assumptions C12_final_state_needs_wf.
