(* C12 - Consumers exist exactly while they hold allocations. *)
From PV Require Import Proofs.Defs Proofs.C12 Proofs.Reach.

Theorem C12_step :
  forall cf d r d' rs, ConsIff d -> RI d -> req_wf r = true -> step cf d r = (d', rs) -> ConsIff d'.
Proof. exact c12_step. Qed.
Print Assumptions C12_step.

Theorem C12_invariant : forall cf d, reachable cf d -> ConsIff d.
Proof. exact c12_invariant. Qed.
Print Assumptions C12_invariant.

(* attributes: after an accepted allocation write every consumer it names that still exists carries
   the project and user of the request (the configured placeholders below 1.8) and, from 1.38, its type *)
Theorem C12_attrs :
  forall cf d r d' rs c k, ConsIff d -> RI d -> req_wf r = true ->
    step cf d r = (d', rs) -> is_success rs -> In c (req_consumers r) ->
    find_cons d' (ci_uuid c) = Some k ->
    c_proj k = (match ci_proj c with Some p => p | None => incomplete_proj cf end) /\
    c_user k = (match ci_proj c with Some _ => oz (ci_user c) | None => incomplete_user cf end) /\
    (38 <= req_version r -> c_type k = Some (oz (ci_type c))).
Proof. exact c12_attrs. Qed.
Print Assumptions C12_attrs.

(* a consumer that does not exist (never written, removed, or first write rejected) is never refused
   for its generation when the write carries consumer_generation null *)
Theorem C12_recreate :
  forall cf v d c, find_cons d (ci_uuid c) = None -> ci_gen c = None ->
    snd (ensure_consumer cf v d c) <> None.
Proof. exact c12_recreate. Qed.
Print Assumptions C12_recreate.
