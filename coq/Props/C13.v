(* C13 - Provider listing filters select exactly the matching providers.
   list_rps / list_rps_result (Model/Candidates.v) follow handlers/resource_provider.py:list_resource_providers and
   objects/resource_provider.py:_get_all_by_filters_from_db stage by stage; rp_matches (Spec/CandSpec.v) is the
   declarative reading of the property.  The model is tied to the application by the listing stream of the check. *)
From PV Require Import Spec.CandSpec Proofs.C13.

(* the answer is exactly the set of existing providers meeting every supplied filter ... *)
Theorem C13_exact : forall v f d,
  rp_filters_wf v f = true -> filters_known d f -> NoDup (map rp_uuid (rps d)) ->
  forall u, In u (list_rps v f d) <-> (exists r, find_rp d u = Some r) /\ rp_matches v f d u = true.
Proof. exact c13_exact. Qed.
Print Assumptions C13_exact.

(* ... each listed once *)
Theorem C13_no_duplicates : forall v f d,
  NoDup (map rp_uuid (rps d)) -> filters_known d f -> NoDup (list_rps v f d).
Proof. exact c13_nodup. Qed.
Print Assumptions C13_no_duplicates.

(* an in_tree or uuid naming no provider, or a member_of value naming only unknown aggregates: the empty list *)
Theorem C13_unknown_empty : forall v f d,
  filters_known d f -> NoDup (map rp_uuid (rps d)) ->
  (match f_in_tree f with Some t => find_rp d t = None | None => False end) \/
  (match f_uuid f with Some w => find_rp d w = None | None => False end) \/
  (exists ags, In ags (f_member_of f) /\ (forall a, In a ags -> ~ In a (aggs d)) /\
               (forall x, In x (rp_aggs d) -> In (snd x) (aggs d))) ->
  list_rps v f d = [].
Proof. exact c13_unknown_empty. Qed.
Print Assumptions C13_unknown_empty.

(* 400 exactly when a filter is not available at the microversion or names an unknown trait / resource class,
   whatever the other filters are *)
Theorem C13_bad_request_iff : forall v f d,
  list_rps_result v f d = None <-> rp_filters_wf v f = false \/ names_known d f = false.
Proof. exact c13_400_iff. Qed.
Print Assumptions C13_bad_request_iff.

Theorem C13_unknown_name_400 : forall v f d,
  rp_filters_wf v f = true ->
  forallb (forallb (trait_exists d)) (f_required f) = false \/
  forallb (trait_exists d) (f_forbidden f) = false \/
  forallb (fun x => rc_exists d (fst x)) (f_resources f) = false ->
  list_rps_result v f d = None.
Proof. exact c13_unknown_400. Qed.
Print Assumptions C13_unknown_name_400.

(* ---------------------------------------------------------------------------------------------------------------
   From the query string.  decode_listing (Model/DecodeQ.v) is the front half of the handler: the query parameters as
   webob delivers them (a list of decoded key/value pairs, repeats allowed), validated as dict(req.GET) against the query
   schema of the version (REGENERATED schemas, Gen/GenSchemas.v), then read exactly as list_resource_providers reads them
   (last value of uuid / name / in_tree / resources, all values of member_of, all values of required from 1.39 and the
   last one before) through the value parsers of Model/Parse.v.  Tokenizers are arbitrary.  Tied to the code by calling
   the REAL handler on generated query strings and capturing the filters it passes on (harness/decodeq.py). *)
From PV Require Import Model.Parse Model.Json Model.DecodeQ Spec.Fields Proofs.C13q.

(* no query string makes the front half end in an exception other than 400 *)
Theorem C13_query_never_escapes : forall (tok_rp tok_agg tok_trait tok_rc tok_name : str -> Z) v kv,
  decode_listing tok_rp tok_agg tok_trait tok_rc tok_name v kv <> PEscape.
Proof. exact c13q_never_escapes. Qed.
Print Assumptions C13_query_never_escapes.

(* the hypothesis rp_filters_wf of the theorems above is DERIVED: whatever the front half accepts at version v satisfies
   the version gates (schemas: which parameters exist at v; parsers: forbidden traits 1.22, repeated member_of 1.24,
   forbidden aggregates 1.32, any-of traits 1.39; amounts >= 1) *)
Theorem C13_query_accepted_wf : forall (tok_rp tok_agg tok_trait tok_rc tok_name : str -> Z) v kv f,
  decode_listing tok_rp tok_agg tok_trait tok_rc tok_name v kv = POk f -> rp_filters_wf v f = true.
Proof. exact c13q_accepted_wf_any. Qed.
Print Assumptions C13_query_accepted_wf.

(* exactly when the front half answers 400 *)
Theorem C13_query_rejected_iff : forall (tok_rp tok_agg tok_trait tok_rc tok_name : str -> Z) v kv,
  decode_listing tok_rp tok_agg tok_trait tok_rc tok_name v kv = P400 <->
  validate (schema_of_get_rps v) (qdict kv) = false \/
  has_key qk_member_of kv = true /\
    normalize_member_of_qs_params v (getall qk_member_of kv) = Raise HTTPBadRequest \/
  has_key qk_required kv = true /\
    normalize_traits_qs_params v (getall qk_required kv) = Raise HTTPBadRequest \/
  (exists x : str, get_last qk_resources kv = Some x /\ normalize_resources_qs_param x = Raise HTTPBadRequest).
Proof. exact c13q_rejected_iff. Qed.
Print Assumptions C13_query_rejected_iff.

(* C13_exact from the query string *)
Theorem C13_exact_from_query : forall (tok_rp tok_agg tok_trait tok_rc tok_name : str -> Z) v kv f d,
  decode_listing tok_rp tok_agg tok_trait tok_rc tok_name v kv = POk f ->
  filters_known d f -> NoDup (map rp_uuid (rps d)) ->
  forall u, In u (list_rps v f d) <-> (exists r, find_rp d u = Some r) /\ rp_matches v f d u = true.
Proof. exact c13q_listing_exact. Qed.
Print Assumptions C13_exact_from_query.

Theorem C13_400_from_query : forall (tok_rp tok_agg tok_trait tok_rc tok_name : str -> Z) v kv f d,
  decode_listing tok_rp tok_agg tok_trait tok_rc tok_name v kv = POk f ->
  list_rps_result v f d = None <-> names_known d f = false.
Proof. exact c13q_listing_400_iff. Qed.
Print Assumptions C13_400_from_query.

(* ------------------------------------------------------------------------------------------------------------------
   End to end (Proofs/C03z.v): from the query string to "exactly the providers meeting every supplied filter", in every state
   reached by any requests; what remains is the existence of the named traits and classes - otherwise, and only then, 400. *)
(* the listing twin of C03_end_to_end *)
From PV Require Import Spec.CandSpec Proofs.Defs Model.Parse Model.DecodeQ Model.DecodeQC.
From PV Require Import Proofs.C02 Proofs.C02m Proofs.C02c Proofs.C03s Proofs.C03c Proofs.C03q Proofs.C03u Proofs.C03uq Proofs.C03w
                       Proofs.C03x Proofs.C02s Proofs.C20c Proofs.C13q Proofs.C03z.
Theorem C13_end_to_end : forall cf l (tok_rp tok_agg tok_trait tok_rc tok_name : str -> Z) v kv f,
  decode_listing tok_rp tok_agg tok_trait tok_rc tok_name v kv = POk f ->
  let d := run cf db0 l in
  rp_filters_wf v f = true /\
  (list_rps_result v f d = None <-> names_known d f = false) /\
  (filters_known d f ->
   forall u, In u (list_rps v f d) <-> (exists r, find_rp d u = Some r) /\ rp_matches v f d u = true).
Proof. exact c13_end_to_end. Qed.
Print Assumptions C13_end_to_end.
