(* C13 - Provider listing filters select exactly the matching providers.
   list_rps / list_rps_result (Model/Candidates.v) follow handlers/resource_provider.py:list_resource_providers and
   objects/resource_provider.py:_get_all_by_filters_from_db stage by stage; rp_matches (Spec/CandSpec.v) is the
   declarative reading of the property.  The model is tied to the application by the listing stream of the check. *)
From PV Require Import Spec.CandSpec Proofs.C13.

(* the answer is exactly the set of existing providers meeting every supplied filter ... *)
Theorem C13_exact : forall v f d,
  rp_filters_wf v f = true -> filters_known d f -> NoDup (map rp_uuid (rps d)) ->
  forall u, In u (list_rps v f d) <-> (exists r, find_rp d u = Some r) /\ rp_matches v f d u = true.
Proof. exact c13_exact. Qed.
Print Assumptions C13_exact.

(* ... each listed once *)
Theorem C13_no_duplicates : forall v f d,
  NoDup (map rp_uuid (rps d)) -> filters_known d f -> NoDup (list_rps v f d).
Proof. exact c13_nodup. Qed.
Print Assumptions C13_no_duplicates.

(* an in_tree or uuid naming no provider, or a member_of value naming only unknown aggregates: the empty list *)
Theorem C13_unknown_empty : forall v f d,
  filters_known d f -> NoDup (map rp_uuid (rps d)) ->
  (match f_in_tree f with Some t => find_rp d t = None | None => False end) \/
  (match f_uuid f with Some w => find_rp d w = None | None => False end) \/
  (exists ags, In ags (f_member_of f) /\ (forall a, In a ags -> ~ In a (aggs d)) /\
               (forall x, In x (rp_aggs d) -> In (snd x) (aggs d))) ->
  list_rps v f d = [].
Proof. exact c13_unknown_empty. Qed.
Print Assumptions C13_unknown_empty.

(* 400 exactly when a filter is not available at the microversion or names an unknown trait / resource class,
   whatever the other filters are *)
Theorem C13_bad_request_iff : forall v f d,
  list_rps_result v f d = None <-> rp_filters_wf v f = false \/ names_known d f = false.
Proof. exact c13_400_iff. Qed.
Print Assumptions C13_bad_request_iff.

Theorem C13_unknown_name_400 : forall v f d,
  rp_filters_wf v f = true ->
  forallb (forallb (trait_exists d)) (f_required f) = false \/
  forallb (trait_exists d) (f_forbidden f) = false \/
  forallb (fun x => rc_exists d (fst x)) (f_resources f) = false ->
  list_rps_result v f d = None.
Proof. exact c13_unknown_400. Qed.
Print Assumptions C13_unknown_name_400.
