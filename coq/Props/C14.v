(* C14 - Each microversion exposes exactly its documented surface.
   route_status is computed from the tables regenerated from /repo (routing table, version windows of
   every handler overload); doc_status from the documented surface (/verif/spec/surface.json). *)
From Coq Require Import ZArith List Bool.
From PV Require Import Gen.GenConsts Gen.GenSurfaceSpec Spec.Surface Proofs.C14 Spec.Fields Proofs.C14f Spec.RespFields
  Proofs.C14r.
Import ListNotations.
Open Scope Z_scope.

(* availability: all microversions x all routes (and an unknown one) x all methods (and unknown ones):
   404 for routes, 405 for methods not yet introduced, available from the documented version on *)
Theorem C14_availability : forall v r m, 0 <= v <= max_version -> 0 <= r < 20 -> 0 <= m < 6 ->
  route_status v r m = doc_status v r m.
Proof. exact c14_availability_all. Qed.
Print Assumptions C14_availability.

(* the versions at which each operation's handler changes behaviour are the documented change points *)
Theorem C14_change_points : change_points_ok = true.
Proof. exact change_points_ok_true. Qed.
Print Assumptions C14_change_points.

(* the service implements exactly the documented range of microversions *)
Theorem C14_versions : max_version = doc_max_version.
Proof. exact c14_versions_agree. Qed.
Print Assumptions C14_versions.

(* negotiation, for any requested version: absent means 1.0, latest the maximum, anything outside
   1.0 - 1.max is not acceptable (406) *)
Theorem C14_negotiation : forall h,
  match negotiate h with
  | Accepted n => 0 <= n <= doc_max_version /\ (h = VAbsent -> n = 0) /\ (h = VLatest -> n = doc_max_version) /\
                  (forall mj mn, h = VVersion mj mn -> mj = 1 /\ n = mn)
  | NotAcceptable => exists mj mn, h = VVersion mj mn /\ (mj <> 1 \/ mn < 0 \/ doc_max_version < mn)
  end.
Proof. exact c14_negotiation. Qed.
Print Assumptions C14_negotiation.

(* request members and query parameters: for every documented member of every operation that takes a body or query
   parameters (Gen/GenSurfaceSpec.v:doc_fields, 50 entries transcribed from the API reference) and every minor version at
   which the operation exists, the schema the operation validates with at that version - read from the schemas
   REGENERATED from placement/schemas/*.py - rejects the member below its documented version and accepts (requires) it from
   that version on; `type` entries: the value is an object from that version on (the list form of allocations below 1.12,
   the bare aggregate list below 1.19).  1593 (member, version) facts, decided by complete evaluation. *)
Theorem C14_fields : forall f v, In f doc_fields -> In v (field_versions f) -> field_ok v f = true.
Proof. exact c14_fields. Qed.
Print Assumptions C14_fields.

Theorem C14_field_versions : forall n lo v, In v (versions_from n lo) <-> lo <= v < lo + Z.of_nat n.
Proof. exact versions_from_spec. Qed.
Print Assumptions C14_field_versions.

(* response members.  resp_members route method v (Spec/RespFields.v) = the members the code's serialisers emit for a
   successful request of the operation at minor version v: (0, path, name) a body member (path from the body root; None = any
   key of a map keyed by data, Some "[]" = a list element), (1, [], name) a response header among last-modified /
   cache-control / location / openstack-api-version / vary, (2, [], code) a status code.  It is hand-written from
   placement/handlers/*.py and compared with the running service on every run of the check, operation by operation and
   version by version (harness/respfields.py).  doc_resp_fields = spec/surface.json:response_fields, transcribed from the
   API reference; route 19 = the error document.

   For every documented response member and every minor version at which its operation exists: the member is emitted
   exactly from the version that introduces it on and below the version that removes it (removed = -1: never removed). *)
Theorem C14_response_fields : forall route method loc path name intro removed v,
  In (route, method, loc, path, name, intro, removed) doc_resp_fields ->
  resp_op_intro route method <= v <= doc_max_version ->
  (In (loc, path, name) (resp_members route method v) <-> intro <= v /\ (removed < 0 \/ v < removed)).
Proof.
  intros route method loc path name intro removed v Hd Hv. apply c14_response_fields; [exact Hd|].
  apply resp_versions_spec. exact Hv.
Qed.
Print Assumptions C14_response_fields.

(* conversely: at every version, every member the code emits for an operation (resp_ops: every documented operation and the
   error document) is documented for that operation at that version - or is one of the listed disagreements
   (resp_known_extra: last-modified / cache-control on the body-less answer of PUT /traits/{name} from 1.15) *)
Theorem C14_no_undocumented_response_member : forall route method v x,
  In (route, method) resp_ops -> resp_op_intro route method <= v <= doc_max_version ->
  In x (resp_members route method v) ->
  (exists intro removed, In (route, method, fst (fst x), snd (fst x), snd x, intro, removed) doc_resp_fields /\
                         intro <= v /\ (removed < 0 \/ v < removed)) \/
  (exists from, In (route, method, x, from) resp_known_extra /\ from <= v).
Proof.
  intros route method v x Hop Hv Hx. apply c14_no_undocumented; [exact Hop | | exact Hx].
  apply resp_versions_spec. exact Hv.
Qed.
Print Assumptions C14_no_undocumented_response_member.

(* each listed disagreement is a real one: the member is emitted exactly from the stated version on and no entry of the
   documented table gives it to the operation at any version *)
Theorem C14_response_disagreements_are_real : forall route method x from v,
  In (route, method, x, from) resp_known_extra -> resp_op_intro route method <= v <= doc_max_version ->
  (In x (resp_members route method v) <-> from <= v) /\ documented_at route method v x = false.
Proof.
  intros route method x from v He Hv. apply c14_extras_real; [exact He|]. apply resp_versions_spec. exact Hv.
Qed.
Print Assumptions C14_response_disagreements_are_real.

(* the table the harness reads (resp_table: per operation the members of any version once + a 0/1 mask per version) decodes
   to resp_members, as sets *)
Theorem C14_response_table_faithful : resp_table_faithful = true.
Proof. exact resp_table_faithful_true. Qed.
Print Assumptions C14_response_table_faithful.
