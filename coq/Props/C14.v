(* C14 - Each microversion exposes exactly its documented surface.
   route_status is computed from the tables regenerated from /repo (routing table, version windows of
   every handler overload); doc_status from the documented surface (/verif/spec/surface.json). *)
From Coq Require Import ZArith List Bool.
From PV Require Import Gen.GenConsts Gen.GenSurfaceSpec Spec.Surface Proofs.C14 Spec.Fields Proofs.C14f.
Import ListNotations.
Open Scope Z_scope.

(* availability: all microversions x all routes (and an unknown one) x all methods (and unknown ones):
   404 for routes, 405 for methods not yet introduced, available from the documented version on *)
Theorem C14_availability : forall v r m, 0 <= v <= max_version -> 0 <= r < 20 -> 0 <= m < 6 ->
  route_status v r m = doc_status v r m.
Proof. exact c14_availability_all. Qed.
Print Assumptions C14_availability.

(* the versions at which each operation's handler changes behaviour are the documented change points *)
Theorem C14_change_points : change_points_ok = true.
Proof. exact change_points_ok_true. Qed.
Print Assumptions C14_change_points.

(* the service implements exactly the documented range of microversions *)
Theorem C14_versions : max_version = doc_max_version.
Proof. exact c14_versions_agree. Qed.
Print Assumptions C14_versions.

(* negotiation, for any requested version: absent means 1.0, latest the maximum, anything outside
   1.0 - 1.max is not acceptable (406) *)
Theorem C14_negotiation : forall h,
  match negotiate h with
  | Accepted n => 0 <= n <= doc_max_version /\ (h = VAbsent -> n = 0) /\ (h = VLatest -> n = doc_max_version) /\
                  (forall mj mn, h = VVersion mj mn -> mj = 1 /\ n = mn)
  | NotAcceptable => exists mj mn, h = VVersion mj mn /\ (mj <> 1 \/ mn < 0 \/ doc_max_version < mn)
  end.
Proof. exact c14_negotiation. Qed.
Print Assumptions C14_negotiation.

(* request members and query parameters: for every documented member of every operation that takes a body or query
   parameters (Gen/GenSurfaceSpec.v:doc_fields, 50 entries transcribed from the API reference) and every minor version at
   which the operation exists, the schema the operation validates with at that version - read from the schemas
   REGENERATED from placement/schemas/*.py - rejects the member below its documented version and accepts (requires) it from
   that version on; `type` entries: the value is an object from that version on (the list form of allocations below 1.12,
   the bare aggregate list below 1.19).  1593 (member, version) facts, decided by complete evaluation. *)
Theorem C14_fields : forall f v, In f doc_fields -> In v (field_versions f) -> field_ok v f = true.
Proof. exact c14_fields. Qed.
Print Assumptions C14_fields.

Theorem C14_field_versions : forall n lo v, In v (versions_from n lo) <-> lo <= v < lo + Z.of_nat n.
Proof. exact versions_from_spec. Qed.
Print Assumptions C14_field_versions.
