(* C14 - Each microversion exposes exactly its documented surface.
   route_status is computed from the tables regenerated from /repo (routing table, version windows of
   every handler overload); doc_status from the documented surface (/verif/spec/surface.json). *)
From Coq Require Import ZArith List Bool.
From PV Require Import Gen.GenConsts Gen.GenSurfaceSpec Spec.Surface Proofs.C14.
Import ListNotations.
Open Scope Z_scope.

(* availability: all microversions x all routes (and an unknown one) x all methods (and unknown ones):
   404 for routes, 405 for methods not yet introduced, available from the documented version on *)
Theorem C14_availability : forall v r m, 0 <= v <= max_version -> 0 <= r < 20 -> 0 <= m < 6 ->
  route_status v r m = doc_status v r m.
Proof. exact c14_availability_all. Qed.
Print Assumptions C14_availability.

(* the versions at which each operation's handler changes behaviour are the documented change points *)
Theorem C14_change_points : change_points_ok = true.
Proof. exact change_points_ok_true. Qed.
Print Assumptions C14_change_points.

(* the service implements exactly the documented range of microversions *)
Theorem C14_versions : max_version = doc_max_version.
Proof. exact c14_versions_agree. Qed.
Print Assumptions C14_versions.

(* negotiation, for any requested version: absent means 1.0, latest the maximum, anything outside
   1.0 - 1.max is not acceptable (406) *)
Theorem C14_negotiation : forall h,
  match negotiate h with
  | Accepted n => 0 <= n <= doc_max_version /\ (h = VAbsent -> n = 0) /\ (h = VLatest -> n = doc_max_version) /\
                  (forall mj mn, h = VVersion mj mn -> mj = 1 /\ n = mn)
  | NotAcceptable => exists mj mn, h = VVersion mj mn /\ (mj <> 1 \/ mn < 0 \/ doc_max_version < mn)
  end.
Proof. exact c14_negotiation. Qed.
Print Assumptions C14_negotiation.
