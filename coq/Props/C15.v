(* C15 - Arbitrary input yields well-formed client errors, never a server error.
   The theorems cover the modelled part: every write operation of the model in every state, behind the
   front pipeline computed from the regenerated routing tables.  Body/query parsing, JSON formatting of
   errors and the read routes are covered by the differential fuzz stream of the check, not by a theorem. *)
From PV Require Import Proofs.Defs Proofs.C15.
From PV Require Import Gen.GenRoutes Spec.Pipeline Gen.GenExc Spec.ExcSpec Proofs.C15x.
From PV Require Import Gen.GenConsts Model.Parse Proofs.C15p.
From PV Require Import Model.Json Gen.GenSchemas Model.Decode Proofs.C15s.

(* no write request, in any state (reachable or not), at any microversion, is answered with a 5xx:
   every failure of the object layer is converted into a 4xx *)
Theorem C15_no_server_error : forall cf d r, status (snd (step cf d r)) < 500.
Proof. exact c15_model_no_5xx. Qed.
Print Assumptions C15_no_server_error.

(* the same through authentication, routing, decorators and policy check, for any caller and policy *)
Theorem C15_pipeline_no_server_error : forall (p : policy) w q cf r d,
  snd (serve p w q (fun d0 => let (d1, rs) := step cf d0 r in (d1, status rs)) d) < 500.
Proof. exact c15_served_write. Qed.
Print Assumptions C15_pipeline_no_server_error.

(* the pipeline either runs the handler or leaves the stored state alone *)
Theorem C15_pipeline_reject_no_effect : forall (db : Type) (p : policy) w q (body : db -> db * Z) d,
  (forall d0, snd (body d0) < 500) ->
  snd (serve p w q body d) < 500 /\ (serve p w q body d = body d \/ fst (serve p w q body d) = d).
Proof. exact c15_pipeline. Qed.
Print Assumptions C15_pipeline_reject_no_effect.

(* a rejected request (any status from 400 up) changes no stored state *)
Theorem C15_rejected_no_effect : forall cf d r d' rs,
  req_wf r = true -> step cf d r = (d', rs) -> 400 <= status rs -> core_eq d d'.
Proof. exact c15_rejected_no_effect. Qed.
Print Assumptions C15_rejected_no_effect.

(* The error answers of the model are those of the code: exc_resp reads the table regenerated on every build from the
   `try` statements of placement/handlers/*.py (which exception classes each handler catches around its object-layer
   call, through local functions and re-raising clean-up handlers, and which webob answer and error code it raises;
   500 = not caught).  For the allocation writes and the reshaper the agreement is for EVERY exception of the model,
   caught or not ... *)
Theorem C15_exceptions_allocations : forall e,
  exc_resp S_allocation__set_allocations_for_consumer__replace_all e = Some (alloc_err e) /\
  exc_resp S_allocation__set_allocations__replace_all e = Some (alloc_err e) /\
  exc_resp S_reshaper__reshape__reshape e = Some (reshape_err e).
Proof. intro e. repeat split; [apply exc_alloc_put_all|apply exc_alloc_post_all|apply exc_reshape_all]. Qed.
Print Assumptions C15_exceptions_allocations.

(* ... for the inventory writes: whenever the modelled transaction fails, the handler answers with the table's entry *)
Theorem C15_exceptions_inventory_set : forall d v u g l me e,
  find_rp d u = Some me -> g = rp_gen me -> existsb (bad_capacity v) l = false ->
  set_inventory d u (rp_gen me) l = Err e ->
  Some (snd (h_inv_set d v u g l)) = exc_resp S_inventory__set_inventories__set_inventory e.
Proof. exact h_inv_set_fail. Qed.
Print Assumptions C15_exceptions_inventory_set.

Theorem C15_exceptions_inventory_post : forall d v u x me e,
  find_rp d u = Some me -> bad_capacity v x = false -> add_inventory d u (rp_gen me) x = Err e ->
  Some (snd (h_inv_post d v u x)) = exc_resp S_inventory__create_inventory__add_inventory e.
Proof. exact h_inv_post_fail. Qed.
Print Assumptions C15_exceptions_inventory_post.

Theorem C15_exceptions_inventory_delete : forall d u rc me e,
  find_rp d u = Some me -> delete_inventory d u (rp_gen me) rc = Err e ->
  Some (snd (h_inv_delete d u rc)) = exc_resp S_inventory__delete_inventory__delete_inventory e.
Proof. exact h_inv_delete_fail. Qed.
Print Assumptions C15_exceptions_inventory_delete.

(* ... and for the remaining write routes, entry by entry *)
Theorem C15_exceptions_other :
  (forall e, e = EInvRcNotFound \/ e = ERpConcurrent ->
     exc_resp S_inventory__update_inventory__update_inventory e = Some (inv_put_err e)) /\
  (forall e, e = EHasChildren \/ e = ERpInUse \/ e = ENotFound ->
     exc_resp S_resource_provider__delete_resource_provider__destroy e = Some (rp_delete_err e)) /\
  exc_resp S_trait__update_traits_for_resource_provider__set_traits ERpConcurrent = Some (err 409 C_CONCURRENT) /\
  exc_resp S_trait__delete_traits_for_resource_provider__set_traits ERpConcurrent = Some (err 409 C_CONCURRENT) /\
  exc_resp S_aggregate__set_aggregates__set_aggregates ERpConcurrent = Some (err 409 C_CONCURRENT) /\
  exc_resp S_trait__delete_trait__destroy ETraitNotFound = Some (err 404 C_DEFAULT) /\
  exc_resp S_trait__delete_trait__destroy ETraitStandard = Some (err 400 C_DEFAULT) /\
  exc_resp S_trait__delete_trait__destroy ETraitInUse = Some (err 409 C_DEFAULT) /\
  exc_resp S_resource_class__delete_resource_class__destroy ERcStandard = Some (err 400 C_DEFAULT) /\
  exc_resp S_resource_class__delete_resource_class__destroy ERcInUse = Some (err 409 C_DEFAULT) /\
  exc_resp S_resource_class__create_resource_class__create ERcExists = Some (err 409 C_DEFAULT) /\
  exc_resp S_resource_provider__create_resource_provider__create EDuplicate = Some (err 409 C_DUPNAME) /\
  exc_resp S_resource_provider__create_resource_provider__create EObjAction = Some (err 400 C_DEFAULT) /\
  exc_resp S_resource_provider__update_resource_provider__save EDuplicate = Some (err 409 C_DUPNAME) /\
  exc_resp S_resource_provider__update_resource_provider__save EObjAction = Some (err 400 C_DEFAULT).
Proof.
  split; [exact exc_inv_put|]. split; [exact exc_rp_delete|].
  destruct exc_traits_set as [A [B C]]. repeat (split; [assumption|]). exact exc_names.
Qed.
Print Assumptions C15_exceptions_other.

(* ---------------------------------------------------------------------------------------------------------------
   Query-string value parsers (placement/util.py, placement/lib.py; Model/Parse.v, tied to the code by the parse
   stream of the check).  Strings are arbitrary lists of code points: control characters, any Unicode digit block,
   any length.  None of the eight value parsers ends in an exception other than webob.exc.HTTPBadRequest ... *)
Theorem C15_value_parsers_never_escape :
  (forall qs, to_pres (normalize_resources_qs_param qs) <> PEscape) /\
  (forall val af aa, to_pres (normalize_traits_qs_param val af aa) <> PEscape) /\
  (forall val af, to_pres (normalize_traits_qs_param_to_legacy_value val af) <> PEscape) /\
  (forall minor values, to_pres (normalize_traits_qs_params minor values) <> PEscape) /\
  (forall v, to_pres (normalize_member_of_qs_param v) <> PEscape) /\
  (forall minor values, to_pres (normalize_member_of_qs_params minor values) <> PEscape) /\
  (forall v, to_pres (normalize_in_tree_qs_params v) <> PEscape) /\
  (forall limit gp rr ss, to_pres (rwp_from_request limit gp rr ss) <> PEscape).
Proof. exact c15_value_parsers_never_escape. Qed.
Print Assumptions C15_value_parsers_never_escape.

(* ... and what they accept is what the search code relies on: amounts within the database integer range (the
   bound of fix fc8d3cd), one entry per class, class names free of the separators *)
Theorem C15_resources_accepted_wf : forall qs d,
  normalize_resources_qs_param qs = Ret d ->
  d <> [] /\ NoDup (map fst d) /\
  forall k v, In (k, v) d -> 1 <= v <= MAX_INT /\ ~ In 58 k /\ ~ In 44 k.
Proof. exact resources_accepted_wf. Qed.
Print Assumptions C15_resources_accepted_wf.

(* forbidden traits only from 1.22, any-of lists only from 1.39 *)
Theorem C15_traits_accepted_wf : forall minor values req forb,
  normalize_traits_qs_params minor values = Ret (req, forb) ->
  (forb <> [] -> 22 <= minor) /\ (minor < 39 -> Forall (fun s => length s = 1%nat) req).
Proof. exact traits_params_accepted_wf. Qed.
Print Assumptions C15_traits_accepted_wf.

(* aggregates are uuid-like; forbidden aggregates only from 1.32, repeated member_of only from 1.24 *)
Theorem C15_member_of_accepted_wf : forall minor values req forb,
  normalize_member_of_qs_params minor values = Ret (req, forb) ->
  Forall uuids req /\ uuids forb /\ (forb <> [] -> 32 <= minor) /\ ((1 < length values)%nat -> 24 <= minor).
Proof. exact member_of_params_accepted_wf. Qed.
Print Assumptions C15_member_of_accepted_wf.

Theorem C15_in_tree_accepted_wf : forall v r,
  normalize_in_tree_qs_params v = Ret r -> r = strip v /\ is_uuid_like r = true.
Proof. exact in_tree_accepted_wf. Qed.
Print Assumptions C15_in_tree_accepted_wf.

(* limit >= 1 and read from the FIRST value given (the value of fix e9a5c05); root_required never both requires and
   forbids a trait; same_subtree entries are non-empty lists of non-empty suffixes *)
Theorem C15_request_wide_accepted_wf : forall limit gp rr ss l g a t,
  rwp_from_request limit gp rr ss = Ret (l, g, a, t) ->
  (forall n, l = Some n -> 1 <= n /\ exists l0 rest, limit = l0 :: rest /\ int_of l0 = Ret n) /\
  (l = None -> limit = []) /\
  (g = match gp with [] => None | g0 :: _ => Some g0 end) /\
  (forall rq fb, a = Some (rq, fb) -> length rr = 1%nat /\ forall x, In x fb -> set_mem x rq = false) /\
  (a = None -> rr = []) /\
  length t = length ss /\ Forall (fun s => s <> [] /\ ~ In [] s) t.
Proof. exact rwp_accepted_wf. Qed.
Print Assumptions C15_request_wide_accepted_wf.

(* int() as the parsers see it: every ASCII decimal string within the interpreter's digit limit is read as its value *)
Theorem C15_int_of_ascii : forall ds, are_digits ds -> ds <> [] -> Z.of_nat (length ds) <= INT_MAX_STR_DIGITS ->
  int_of (ascii_digits ds) = Ret (dec_value ds 0).
Proof. exact int_of_ascii_digits. Qed.
Print Assumptions C15_int_of_ascii.

(* ---------------------------------------------------------------------------------------------------------------
   Request bodies.  `validate` (Model/Json.v) is python-jsonschema on the schemas REGENERATED from
   placement/schemas/*.py on every build (Gen/GenSchemas.v); `to_req_*` (Model/Decode.v) reads from a body what the
   handlers read; tokenizers (external names -> the model's tokens) are arbitrary.  A body that the route's schema
   accepts at ANY minor version decodes to a request satisfying req_wf - the well-formedness that the theorems of
   C01 C04 C08 C09 C10 C11 C12 C15 assume of parsed requests is hereby derived from the code's schemas, and weakening
   a schema (a bound, a required member, minProperties, a pattern ...) breaks this theorem.
   Hypotheses, all visible: json_wf = object keys pairwise distinct (json.loads); json_finite = no nan/inf number and every
   allocation_ratio within +-SQL_SP_FLOAT_MAX (the schema-valid exceptions - C15_nonfinite_ratio_schema_valid,
   C15_huge_negative_ratio_schema_valid below - are rejected by the handler since fixes df933f2, 1d23be2, 7fca050); the *_inj hypotheses say that the tokenizers are injective on the identifiers that occur in the
   document (they exclude two spellings of one uuid in one document). *)
Theorem C15_valid_body_wf :
  forall tok_rp tok_cons tok_agg tok_rc tok_trait tok_name tok_proj tok_user tok_type : Parse.str -> Z,
  (forall (v u : Z) (j : json), json_wf j -> json_finite j ->
     validate S_inventory__PUT_INVENTORY_SCHEMA j = true -> tok_inj_on tok_rc (okeys (member f_inventories j)) ->
     exists r : req, to_req_inv_set tok_rc v u j = Some r /\ req_wf r = true) /\
  (forall (v u : Z) (j : json), json_finite j -> validate S_inventory__POST_INVENTORY_SCHEMA j = true ->
     exists r : req, to_req_inv_post tok_rc v u j = Some r /\ req_wf r = true) /\
  (forall (v u rc : Z) (j : json), json_finite j -> validate S_inventory__BASE_INVENTORY_SCHEMA j = true ->
     exists r : req, to_req_inv_put v u rc j = Some r /\ req_wf r = true) /\
  (forall (v u : Z) (j : json), validate S_trait__SET_TRAITS_FOR_RP_SCHEMA j = true ->
     exists (g : Z) (ts : list Z),
       to_req_traits_set tok_trait v u j = Some (TraitsSet v u g ts) /\ req_wf (TraitsSet v u g ts) = true) /\
  (forall (v u g0 : Z) (j : json), validate (schema_of_aggs v) j = true -> tok_inj_on tok_agg (agg_strs v j) ->
     exists (g : Z) (l : list Z), to_req_aggs_set tok_agg v u g0 j = Some (AggsSet v u g l) /\ nodupb l = true) /\
  (forall (v c : Z) (j : json), json_wf j -> validate (schema_of_put_alloc v) j = true -> alloc_inj tok_rp tok_rc v j ->
     exists r : req, to_req_alloc_put tok_rp tok_rc tok_proj tok_user tok_type v c j = Some r /\ req_wf r = true) /\
  (forall (v : Z) (j : json), json_wf j -> validate (schema_of_post_alloc v) j = true -> post_inj tok_rp tok_cons tok_rc v j ->
     exists r : req, to_req_alloc_post tok_rp tok_cons tok_rc tok_proj tok_user tok_type v j = Some r /\ req_wf r = true) /\
  (forall (v : Z) (j : json), json_wf j -> json_finite j -> validate (schema_of_reshape v) j = true ->
     reshape_inj tok_rp tok_cons tok_rc v j ->
     exists r : req, to_req_reshape tok_rp tok_cons tok_rc tok_proj tok_user tok_type v j = Some r /\ req_wf r = true) /\
  (forall (v : Z) (j : json), validate (schema_of_rp_create v) j = true -> In f_uuid (okeys j) ->
     exists (u n : Z) (p : option Z),
       to_req_rp_create tok_rp tok_name v j = Some (RpCreate v u n p) /\ (v < 14 -> p = None)) /\
  (forall (v u : Z) (j : json), validate (schema_of_rp_update v) j = true ->
     exists (n : Z) (p : option (option Z)),
       to_req_rp_update tok_rp tok_name v u j = Some (RpUpdate v u n p) /\ (v < 14 -> p = None)) /\
  (forall (v old : Z) (j : json),
     validate S_resource_class__POST_RC_SCHEMA_V1_2 j = true \/ validate S_resource_class__PUT_RC_SCHEMA_V1_2 j = true ->
     exists n : Z, to_req_rc_create tok_rc v j = Some (RcCreate v n) /\
                   to_req_rc_rename tok_rc v old j = Some (RcRename v old n)).
Proof. exact C15s_valid_body_wf. Qed.
Print Assumptions C15_valid_body_wf.

(* the schema of PUT /resource_providers/{uuid}/traits admits repeated names (no uniqueItems); the handler acts on the
   de-duplicated list, which is what the decoder returns *)
Theorem C15_traits_schema_admits_repeats : forall tok_trait : Parse.str -> Z,
  exists j : json, json_wf j /\ json_finite j /\ validate S_trait__SET_TRAITS_FOR_RP_SCHEMA j = true /\
    tok_inj_on tok_trait (jstrs (member f_traits j)) /\
    nodupb (map tok_trait (jstrs (member f_traits j))) = false /\
    dec_traits_set tok_trait j = Some (0, [tok_trait [65]]).
Proof. exact C15s_traits_set_refuted. Qed.
Print Assumptions C15_traits_schema_admits_repeats.

(* found by the proof attempt of C15_valid_body_wf: allocation_ratio = NaN / -Infinity is accepted by the schema
   (only a maximum, and nan > max is false); on the service it was a 500 until fix df933f2 *)
Theorem C15_nonfinite_ratio_schema_valid : forall tok_rc : Parse.str -> Z,
  exists j : json, json_wf j /\ validate S_inventory__POST_INVENTORY_SCHEMA j = true /\ dec_inv_post tok_rc j = None.
Proof. exact C15s_inv_post_nan_refuted. Qed.
Print Assumptions C15_nonfinite_ratio_schema_valid.

(* found by the boundary stream: so is a FINITE allocation_ratio below the negative of the schema's maximum (the schema
   has no minimum), e.g. -1e308; (total - reserved) * ratio overflowed in Inventory.capacity - a 500 until fix 7fca050.
   json_finite (Decode.json_finiteb) therefore also says: every allocation_ratio member is within
   +-SQL_SP_FLOAT_MAX (Decode.ratio_storable), which is the handler's test. *)
Theorem C15_huge_negative_ratio_schema_valid : forall tok_rc : Parse.str -> Z,
  exists j : json, json_wf j /\ json_nospecb j = true /\ validate S_inventory__POST_INVENTORY_SCHEMA j = true /\
                   dec_inv_post tok_rc j = None.
Proof. exact C15s_inv_post_huge_negative_refuted. Qed.
Print Assumptions C15_huge_negative_ratio_schema_valid.
