(* C15 - Arbitrary input yields well-formed client errors, never a server error.
   The theorems cover the modelled part: every write operation of the model in every state, behind the
   front pipeline computed from the regenerated routing tables.  Body/query parsing, JSON formatting of
   errors and the read routes are covered by the differential fuzz stream of the check, not by a theorem. *)
From PV Require Import Proofs.Defs Proofs.C15.
From PV Require Import Gen.GenRoutes Spec.Pipeline.

(* no write request, in any state (reachable or not), at any microversion, is answered with a 5xx:
   every failure of the object layer is converted into a 4xx *)
Theorem C15_no_server_error : forall cf d r, status (snd (step cf d r)) < 500.
Proof. exact c15_model_no_5xx. Qed.
Print Assumptions C15_no_server_error.

(* the same through authentication, routing, decorators and policy check, for any caller and policy *)
Theorem C15_pipeline_no_server_error : forall (p : policy) w q cf r d,
  snd (serve p w q (fun d0 => let (d1, rs) := step cf d0 r in (d1, status rs)) d) < 500.
Proof. exact c15_served_write. Qed.
Print Assumptions C15_pipeline_no_server_error.

(* the pipeline either runs the handler or leaves the stored state alone *)
Theorem C15_pipeline_reject_no_effect : forall (db : Type) (p : policy) w q (body : db -> db * Z) d,
  (forall d0, snd (body d0) < 500) ->
  snd (serve p w q body d) < 500 /\ (serve p w q body d = body d \/ fst (serve p w q body d) = d).
Proof. exact c15_pipeline. Qed.
Print Assumptions C15_pipeline_reject_no_effect.

(* a rejected request (any status from 400 up) changes no stored state *)
Theorem C15_rejected_no_effect : forall cf d r d' rs,
  req_wf r = true -> step cf d r = (d', rs) -> 400 <= status rs -> core_eq d d'.
Proof. exact c15_rejected_no_effect. Qed.
Print Assumptions C15_rejected_no_effect.
