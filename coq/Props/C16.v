(* C16 - Every operation is authenticated and authorised before it has any effect.
   Over the front-pipeline model (Spec/Pipeline.v) and the routing / decorator / policy tables
   regenerated from /repo on every run (Gen/GenRoutes.v). *)
From Coq Require Import ZArith List Bool.
From PV Require Import Gen.GenRoutes Spec.Surface Spec.Pipeline Proofs.C16.
Import ListNotations.
Open Scope Z_scope.

(* every routed operation except the version document checks, as its first effectful statement,
   a rule whose documented operations list exactly that method and path *)
Theorem C16_check_first : forall route targets method hid,
  In (route, targets) routes -> In (method, hid) targets -> route <> 0 -> route <> 1 ->
  exists h, find_handler hid = Some h /\ h_check_first h = true /\
            exists c opl, rule_ops (h_rule h) = Some (c, opl) /\ In (method, route) opl.
Proof. exact c16_check_first. Qed.
Print Assumptions C16_check_first.

(* every documented operation of every rule is served by a handler checking that rule *)
Theorem C16_rules_routed : rules_routed_ok = true.
Proof. exact rules_routed_ok_true. Qed.
Print Assumptions C16_rules_routed.

(* no credentials: 401, nothing happens (any state type, any handler body, any policy) *)
Theorem C16_unauth : forall (db : Type) (p : policy) w q (body : db -> db * Z) d,
  has_token w = false -> is_root q = false -> serve p w q body d = (d, 401).
Proof. exact c16_unauth. Qed.
Print Assumptions C16_unauth.

(* a caller not satisfying the rule in force never reaches the handler body *)
Theorem C16_denied : forall (db : Type) (p : policy) w q (body : db -> db * Z) d,
  allowed p w q = false ->
  fst (serve p w q body d) = d /\
  let s := snd (serve p w q body d) in s = 401 \/ s = 403 \/ s = 404 \/ s = 405 \/ s = 406 \/ s = 415.
Proof. exact c16_denied. Qed.
Print Assumptions C16_denied.

(* the answer is 403 unless the request is rejected the same way for every (authenticated) caller *)
Theorem C16_reject_caller_independent : forall (db : Type) (p : policy) w w' q (body : db -> db * Z) d,
  allowed p w q = false -> has_token w = true -> has_token w' = true ->
  snd (serve p w q body d) <> 403 -> serve p w' q body d = serve p w q body d.
Proof. exact c16_reject_caller_independent. Qed.
Print Assumptions C16_reject_caller_independent.

(* non-vacuity: an allowed caller does get the body *)
Theorem C16_allowed_runs_body : forall (db : Type) (p : policy) w q (body : db -> db * Z) d hid h r targets,
  has_token w = true -> allowed p w q = true ->
  find (fun r => fst r =? q_route q) routes = Some (r, targets) ->
  find (fun t => fst t =? q_method q) targets = Some (q_method q, hid) ->
  find_handler hid = Some h -> decorators q h = None -> serve p w q body d = body d.
Proof. exact c16_allowed_runs_body. Qed.
Print Assumptions C16_allowed_runs_body.

(* default policy: admin or service everywhere; the reshaper service only; GET /usages additionally a
   reader of the project queried -- for every role combination *)
Theorem C16_defaults : forall w route targets method hid v c a,
  In (route, targets) routes -> In (method, hid) targets -> route <> 0 -> route <> 1 ->
  allowed default_policy w (mkReq route method v c a) = documented_default route w.
Proof. exact c16_defaults. Qed.
Print Assumptions C16_defaults.

(* overriding one rule changes exactly the operations guarded by it *)
Theorem C16_override_local : forall p rid c w q,
  op_rule (q_route q) (q_method q) <> Some rid -> allowed (override p rid c) w q = allowed p w q.
Proof. exact c16_override_local. Qed.
Print Assumptions C16_override_local.
Theorem C16_override_exact : forall p rid c w q,
  rid <> -1 -> op_rule (q_route q) (q_method q) = Some rid -> allowed (override p rid c) w q = eval_chk c w.
Proof. exact c16_override_exact. Qed.
Print Assumptions C16_override_exact.
