(* C17 - Database faults end in an exactly-once retry or a clean failure.
   Model/Fault.v: _set_allocations at SQL-statement granularity under wrap_db_retry (which sits INSIDE the
   caller's transaction), retried top-level transactions, and a non-retryable error in any transaction of
   a request.  The database's own behaviour (atomic rollback of a failing top-level transaction; whether a
   deadlock victim's transaction is rolled back) is a parameter / assumption, exercised by fault injection. *)
From PV Require Import Proofs.Defs Model.Fault Proofs.C17.

(* the statement-level body is the transaction function used by every other theorem *)
Theorem C17_statement_model : forall d l, set_allocations_s d l = set_allocations d l.
Proof. exact c17_statement_model. Qed.
Print Assumptions C17_statement_model.

(* a deadlock (transaction NOT rolled back by the database) reported at any statement up to the first
   generation compare-and-swap: the retry yields exactly the fault-free result, for every request size *)
Theorem C17_deadlock_exactly_once_partial :
  forall committed d l k, (k <= first_cas l)%nat ->
    set_allocations_deadlock false committed d l k = set_allocations_s d l.
Proof. exact c17_deadlock_exactly_once_partial. Qed.
Print Assumptions C17_deadlock_exactly_once_partial.

(* ... after the first compare-and-swap the full statement is FALSE for the code as it is: the retry bumps
   the generations a second time (known finding) *)
Theorem C17_deadlock_after_cas_refuted :
  exists d l k d1 d2, (first_cas l < k)%nat /\ (k < length (stmts_of l))%nat /\
    set_allocations_deadlock false d d l k = Ok d1 /\ set_allocations_s d l = Ok d2 /\ rps d1 <> rps d2.
Proof. exact c17_deadlock_after_cas_refuted. Qed.
Print Assumptions C17_deadlock_after_cas_refuted.

(* a deadlock whose transaction WAS rolled back by the database (up to the first compare-and-swap): the
   allocation write is re-run once, on the committed state - whatever the enclosing transaction had done
   before (consumer attribute updates, the reshaper's interim inventories) is lost (known finding) *)
Theorem C17_deadlock_rollback :
  forall committed d l k, (k <= first_cas l)%nat -> (k < length (stmts_of l))%nat ->
    (* the first attempt does not fail by itself (capacity check) before reaching statement k *)
    (forall e, run_stmts l (firstn k (stmts_of l)) (init_pst d l) <> Err e) ->
    set_allocations_deadlock true committed d l k = set_allocations_s committed l.
Proof. exact c17_deadlock_rollback_corrected. Qed.
Print Assumptions C17_deadlock_rollback.

(* retried top-level transactions (start-up sync of traits / classes, first recording of an aggregate):
   with at most `retries` faults the body's effect is applied exactly once; beyond, nothing is applied *)
Theorem C17_retry_top_level :
  forall retries faults f d,
    (length (filter (fun b => b) faults) <= retries)%nat ->
    (exists rest, retry_top retries (faults ++ false :: rest) f d = Some (f d)) /\
    (forall pre, (retries < length pre)%nat -> forallb (fun b => b) pre = true ->
       retry_top retries (pre ++ faults) f d = None).
Proof. exact c17_retry_top_level. Qed.
Print Assumptions C17_retry_top_level.

(* a non-retryable error in any transaction of any request except a clean-up transaction: 500 and every
   core table as before the request *)
Definition cleanup_state (t : tstate) : Prop :=
  match t with TCleanup _ _ | TDelRows _ _ | TDelCons _ => True | _ => False end.
Theorem C17_fatal_clean :
  forall cf r fuel j d d' rs, RI d -> ConsIff d -> req_wf r = true ->
    (* the request, with a fault in its (j+1)-th transaction, ran to completion within the fuel *)
    run_faulty fuel j (tinit cf r) d = (d', TDone rs) ->
    (* the transaction that failed was not a clean-up transaction *)
    ~ cleanup_state (snd (run_thread j (tinit cf r) d)) ->
    (forall rs0, snd (run_thread j (tinit cf r) d) <> TDone rs0) ->
    core_eq d d' /\ status rs = 500.
Proof. exact c17_fatal_clean_corrected. Qed.
Print Assumptions C17_fatal_clean.
