(* C18 - A crash at any point leaves a state satisfying the core invariants.
   The process may die after any number n of the request's transactions have committed (the transaction
   in flight is rolled back by the database: assumed, and validated by the crash-injection stream). *)
From PV Require Import Proofs.Defs Model.Crash Proofs.C18.

(* referential integrity, the forest property and positivity of stored allocations survive every crash *)
Theorem C18_invariants :
  forall cf r n d, RI d -> Forest d -> allocs_pos d -> req_wf r = true ->
    let d' := fst (crash_after cf n (cinit cf r) d) in
    RI d' /\ Forest d' /\ allocs_pos d'.
Proof. exact c18_invariants. Qed.
Print Assumptions C18_invariants.

(* capacity safety (C01) survives: an over-committed pair after the crash was over-committed before with
   no larger usage, unless the request is an inventory change of that provider *)
Theorem C18_capacity :
  forall cf r n d u rc, allocs_pos d -> req_wf r = true ->
    let d' := fst (crash_after cf n (cinit cf r) d) in
    overcommitted d' u rc -> inv_change r u \/ (overcommitted d u rc /\ usage d' u rc <= usage d u rc).
Proof. exact c18_capacity. Qed.
Print Assumptions C18_capacity.

(* all or nothing: providers, inventories, allocations, traits, aggregates and names are either exactly
   as before the request or exactly as after its complete execution *)
Theorem C18_all_or_nothing :
  forall cf r n d, req_wf r = true ->
    let d' := fst (crash_after cf n (cinit cf r) d) in
    heavy d' = heavy d \/ exists m, heavy d' = heavy (fst (crash_after cf m (cinit cf r) d)) /\
                              exists rs, cfinished (snd (crash_after cf m (cinit cf r) d)) = Some rs /\ status rs < 300.
Proof. exact c18_all_or_nothing. Qed.
Print Assumptions C18_all_or_nothing.

(* the only partial effects: auxiliary names, and consumers without allocations that the request itself
   named; every other consumer row is as before or as after the complete execution *)
Theorem C18_residue :
  forall cf r n d c, ConsIff d -> RI d -> req_wf r = true ->
    let d' := fst (crash_after cf n (cinit cf r) d) in
    has_consumer d' c -> ~ holds_allocs d' c -> In c (map ci_uuid (req_consumers r)) \/ r = AllocDelete c.
Proof. exact c18_residue. Qed.
Print Assumptions C18_residue.
