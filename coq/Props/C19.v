(* C19 - Standard traits/classes always present and immutable; custom ones namespaced. *)
From Coq Require Import ZArith List Bool.
From PV Require Import Gen.GenConsts Model.Regex Gen.GenNames Model.Names Proofs.Defs Proofs.C19.
Import ListNotations.
Open Scope Z_scope.

(* start-up synchronisation of resource classes: complete, with the fixed identifiers, idempotent,
   leaves custom classes alone -- from ANY well-formed table (empty, partially or fully synchronised,
   with custom classes) and for any number n of standard classes below the custom floor *)
Theorem C19_rc_sync :
  forall n tbl, 0 <= n <= MIN_CUSTOM_RC_ID -> rc_wf n tbl ->
    let t' := rc_sync n tbl in
    (forall i, 0 <= i < n -> In (i, i) t') /\ rc_wf n t' /\ rc_sync n t' = t' /\
    (forall r, In r tbl -> In r t') /\ (forall r, In r t' -> is_std_rc n (snd r) = false -> In r tbl).
Proof. exact c19_rc_sync. Qed.
Print Assumptions C19_rc_sync.

(* start-up synchronisation of traits, for any library list `std` *)
Theorem C19_trait_sync :
  forall std tbl, NoDup tbl -> NoDup std ->
    let t' := trait_sync std tbl in
    (forall t, In t std -> In t t') /\ (forall t, In t tbl -> In t t') /\
    (forall t, In t t' -> In t tbl \/ In t std) /\ NoDup t'.
Proof. exact c19_trait_sync. Qed.
Print Assumptions C19_trait_sync.
Theorem C19_trait_sync_idempotent :
  forall std tbl, trait_sync std (trait_sync std tbl) = trait_sync std tbl.
Proof. exact c19_trait_sync_idempotent. Qed.
Print Assumptions C19_trait_sync_idempotent.

(* no API request deletes or renames a standard class or trait: 400 and nothing changes *)
Theorem C19_std_class_immutable :
  forall cf d v n new d' rs r, 2 <= v -> is_std_rc_name n = true ->
    (r = RcDelete v n \/ (r = RcRename v n new /\ v <= 6)) ->
    step cf d r = (d', rs) -> status rs = 400 /\ d' = d.
Proof. exact c19_std_class_immutable. Qed.
Print Assumptions C19_std_class_immutable.
Theorem C19_std_trait_immutable :
  forall cf d v t d' rs, 6 <= v -> is_std_trait t = true ->
    step cf d (TraitDelete v t) = (d', rs) -> status rs = 400 /\ d' = d.
Proof. exact c19_std_trait_immutable. Qed.
Print Assumptions C19_std_trait_immutable.
(* ... and no request creates a class or trait under a standard name *)
Theorem C19_std_names_not_created :
  forall cf d r d' rs, step cf d r = (d', rs) ->
    (forall x, In x (rcs d') -> is_std_rc_name (snd x) = true -> In x (rcs d)) /\
    (forall t, In t (traits d') -> is_std_trait t = true -> In t (traits d)).
Proof. exact c19_std_names_not_created. Qed.
Print Assumptions C19_std_names_not_created.

(* names accepted by the schemas regenerated from /repo: CUSTOM_ followed only by A-Z, 0-9, _ ; <= 255 *)
Definition allowed_char (c : Z) : Prop := (65 <= c <= 90) \/ (48 <= c <= 57) \/ c = 95.
Definition custom_prefix : list Z := [67; 85; 83; 84; 79; 77; 95].
Definition namespaced (s : list Z) : Prop :=
  exists rest, s = custom_prefix ++ rest /\ rest <> [] /\ Forall allowed_char rest /\ Z.of_nat (length s) <= 255.
Theorem C19_custom_class_names :
  forall s, name_accepted custom_rc_pattern custom_rc_maxlen s = true \/
            name_accepted put_rc_pattern put_rc_maxlen s = true -> namespaced s.
Proof. exact c19_custom_class_names. Qed.
Print Assumptions C19_custom_class_names.
Theorem C19_custom_trait_names :
  forall s, name_accepted custom_trait_pattern custom_trait_maxlen s = true -> namespaced s.
Proof. exact c19_custom_trait_names. Qed.
Print Assumptions C19_custom_trait_names.

(* custom classes get identifiers >= 10000 that never collide; an existing name is answered 204 / 409 and
   never duplicated *)
Definition rcs_ok (d : db) : Prop :=
  NoDup (map fst (rcs d)) /\ NoDup (map snd (rcs d)) /\
  forall x, In x (rcs d) -> MIN_CUSTOM_RC_ID <= fst x /\ is_std_rc_name (snd x) = false.
Theorem C19_ids_step : forall cf d r d' rs, rcs_ok d -> step cf d r = (d', rs) -> rcs_ok d'.
Proof. exact c19_ids_step. Qed.
Print Assumptions C19_ids_step.
Theorem C19_ids_reachable : forall cf l, rcs_ok (run cf db0 l).
Proof. exact c19_ids_reachable. Qed.
Print Assumptions C19_ids_reachable.
Theorem C19_existing_name :
  forall cf d v n id d' rs, rc_id_of_name d n = Some id -> is_std_rc_name n = false ->
    (2 <= v -> step cf d (RcCreate v n) = (d', rs) -> status rs = 409 /\ d' = d) /\
    (7 <= v -> step cf d (RcPut v n) = (d', rs) -> status rs = 204 /\ d' = d).
Proof. exact c19_existing_name. Qed.
Print Assumptions C19_existing_name.
