(* C20 - limit and randomisation only select from the full candidate set.
   limit_results (Model/Limit.v) for ANY allocation-request type, any random.sample / random.shuffle that
   meet their documented contracts (the two hypotheses visible in every statement below). *)
From Coq Require Import ZArith List Bool Permutation.
From PV Require Import Model.Limit Proofs.C20.
Import ListNotations.

Definition sample_contract (A : Type) (sample : list A -> nat -> list A) : Prop :=
  forall l n, (n <= length l)%nat -> NoDup l -> length (sample l n) = n /\ NoDup (sample l n) /\ incl (sample l n) l.
Definition shuffle_contract (A : Type) (shuffle : list A -> list A) : Prop :=
  forall l, Permutation (shuffle l) l.

(* limit=N: exactly min(N, M) distinct requests, each one of the M unlimited ones, with summaries covering
   every provider they name (and only summaries of the unlimited result) *)
Theorem C20_limit :
  forall (A : Type) (provs_of : A -> list (Z * Z)) sample shuffle,
    sample_contract A sample -> shuffle_contract A shuffle ->
    forall rnd n ars sums kept sums',
      (1 <= n)%nat -> NoDup ars -> covers A provs_of sums ars ->
      limit_results A provs_of sample shuffle rnd (Some n) ars sums = (kept, sums') ->
      length kept = Nat.min n (length ars) /\ NoDup kept /\ incl kept ars /\
      covers A provs_of sums' kept /\ incl sums' sums.
Proof. exact c20_limit. Qed.
Print Assumptions C20_limit.

(* randomisation enabled, no (effective) limit: a permutation of the same set; disabled: the same list *)
Theorem C20_unlimited :
  forall (A : Type) (provs_of : A -> list (Z * Z)) sample shuffle,
    sample_contract A sample -> shuffle_contract A shuffle ->
    forall rnd lim ars sums,
      (match lim with Some n => (length ars <= n)%nat \/ n = 0%nat | None => True end) ->
      Permutation (fst (limit_results A provs_of sample shuffle rnd lim ars sums)) ars /\
      snd (limit_results A provs_of sample shuffle rnd lim ars sums) = sums /\
      (rnd = false -> fst (limit_results A provs_of sample shuffle rnd lim ars sums) = ars).
Proof. intros A provs_of sample shuffle _ Hp. exact (c20_unlimited A provs_of sample shuffle Hp). Qed.
Print Assumptions C20_unlimited.

(* randomisation disabled: a limited answer is the prefix of the unlimited list - it depends on nothing else *)
Theorem C20_deterministic :
  forall (A : Type) (provs_of : A -> list (Z * Z)) sample shuffle,
    sample_contract A sample -> shuffle_contract A shuffle ->
    forall n ars sums, (1 <= n)%nat ->
      fst (limit_results A provs_of sample shuffle false (Some n) ars sums) = firstn n ars.
Proof. intros A provs_of sample shuffle _ _. exact (c20_deterministic A provs_of sample shuffle). Qed.
Print Assumptions C20_deterministic.
