(* C20 - limit and randomisation only select from the full candidate set.
   limit_results (Model/Limit.v) for ANY allocation-request type, any random.sample / random.shuffle that
   meet their documented contracts (the two hypotheses visible in every statement below). *)
From Coq Require Import ZArith List Bool Permutation.
From PV Require Import Model.Limit Proofs.C20.
Import ListNotations.

Definition sample_contract (A : Type) (sample : list A -> nat -> list A) : Prop :=
  forall l n, (n <= length l)%nat -> NoDup l -> length (sample l n) = n /\ NoDup (sample l n) /\ incl (sample l n) l.
Definition shuffle_contract (A : Type) (shuffle : list A -> list A) : Prop :=
  forall l, Permutation (shuffle l) l.

(* limit=N: exactly min(N, M) distinct requests, each one of the M unlimited ones, with summaries covering
   every provider they name (and only summaries of the unlimited result) *)
Theorem C20_limit :
  forall (A : Type) (provs_of : A -> list (Z * Z)) sample shuffle,
    sample_contract A sample -> shuffle_contract A shuffle ->
    forall rnd n ars sums kept sums',
      (1 <= n)%nat -> NoDup ars -> covers A provs_of sums ars ->
      limit_results A provs_of sample shuffle rnd (Some n) ars sums = (kept, sums') ->
      length kept = Nat.min n (length ars) /\ NoDup kept /\ incl kept ars /\
      covers A provs_of sums' kept /\ incl sums' sums.
Proof. exact c20_limit. Qed.
Print Assumptions C20_limit.

(* randomisation enabled, no (effective) limit: a permutation of the same set; disabled: the same list *)
Theorem C20_unlimited :
  forall (A : Type) (provs_of : A -> list (Z * Z)) sample shuffle,
    sample_contract A sample -> shuffle_contract A shuffle ->
    forall rnd lim ars sums,
      (match lim with Some n => (length ars <= n)%nat \/ n = 0%nat | None => True end) ->
      Permutation (fst (limit_results A provs_of sample shuffle rnd lim ars sums)) ars /\
      snd (limit_results A provs_of sample shuffle rnd lim ars sums) = sums /\
      (rnd = false -> fst (limit_results A provs_of sample shuffle rnd lim ars sums) = ars).
Proof. intros A provs_of sample shuffle _ Hp. exact (c20_unlimited A provs_of sample shuffle Hp). Qed.
Print Assumptions C20_unlimited.

(* randomisation disabled: a limited answer is the prefix of the unlimited list - it depends on nothing else *)
Theorem C20_deterministic :
  forall (A : Type) (provs_of : A -> list (Z * Z)) sample shuffle,
    sample_contract A sample -> shuffle_contract A shuffle ->
    forall n ars sums, (1 <= n)%nat ->
      fst (limit_results A provs_of sample shuffle false (Some n) ars sums) = firstn n ars.
Proof. intros A provs_of sample shuffle _ _. exact (c20_deterministic A provs_of sample shuffle). Qed.
Print Assumptions C20_deterministic.

(* ---------------------------------------------------------------------------------------------------------------
   For the CODE MODEL (Proofs/C20c.v).  candidates_limited v q d is list_allocation_candidates with the limit of the query:
   Candidates.limit_results (randomize_allocation_candidates = False) applied where the code applies it, to the allocation
   requests and provider summaries of _get_by_requests BEFORE they are rendered for the microversion (raw_result), then
   rendered.  `distinct` = pairwise same_creq-different (AllocationRequest.__eq__: resource requests and mappings). *)
From PV Require Import Spec.CandSpec Proofs.C02m Proofs.C20c.

(* limit=N (accepted from 1.16, N >= 1): the first min(N, M) of the M unlimited requests; pairwise distinct as requests
   with their mappings, and as SHOWN from 1.34; every provider they name has its summary among the kept ones, which are
   summaries of the unlimited answer.  Only hypothesis: unique provider uuids and root columns naming roots (rps_wf). *)
Theorem C20_code_limit : forall v q d a s n,
  rps_wf d -> candidates v q d = COk a s -> qy_limit q = Some n ->
  16 <= v /\ 1 <= n /\
  exists kept sums', candidates_limited v q d = COk kept sums' /\
    kept = firstn (Z.to_nat n) a /\ lenZ kept = Z.min n (lenZ a) /\ incl kept a /\
    (exists kr, kept = map (creq_view v) kr /\ distinct kr) /\ (34 <= v -> distinct kept) /\
    (forall c x, In c kept -> In x (cr_rrs c) ->
       exists r, find_rp d (rr_rp x) = Some r /\ In (psum_view v q (summary_of d r)) sums') /\
    incl sums' s.
Proof. exact c20_code_limit. Qed.
Print Assumptions C20_code_limit.

(* ... in every state reached by any requests (no hypothesis left) *)
Theorem C20_code_limit_reachable : forall cf l v q a s n,
  candidates v q (run cf db0 l) = COk a s -> qy_limit q = Some n ->
  exists kept sums', candidates_limited v q (run cf db0 l) = COk kept sums' /\
    kept = firstn (Z.to_nat n) a /\ lenZ kept = Z.min n (lenZ a) /\ incl kept a /\
    (34 <= v -> distinct kept) /\
    (forall c x, In c kept -> In x (cr_rrs c) ->
       exists r, find_rp (run cf db0 l) (rr_rp x) = Some r /\ In (psum_view v q (summary_of (run cf db0 l) r)) sums') /\
    incl sums' s.
Proof. exact c20_code_limit_reachable. Qed.
Print Assumptions C20_code_limit_reachable.

(* no limit, or a limit that does not bite: the answer is unchanged *)
Theorem C20_code_unlimited : forall v q d a s,
  candidates v q d = COk a s ->
  (match qy_limit q with Some n => lenZ a <= n | None => True end) ->
  candidates_limited v q d = COk a s.
Proof. exact c20_code_unlimited. Qed.
Print Assumptions C20_code_unlimited.

(* the unlimited requests are pairwise distinct (the hypothesis NoDup ars of C20_limit, for the code model) *)
Theorem C20_code_distinct : forall v q d a s, candidates v q d = COk a s ->
  (exists ar, a = map (creq_view v) ar /\ distinct ar) /\ (34 <= v -> distinct a).
Proof. exact c20_code_distinct. Qed.
Print Assumptions C20_code_distinct.

(* ... but below 1.34 the SHOWN requests need not be: two groups with the same class and amount swap their providers, the
   two requests differ in their mappings only, which are not shown before 1.34 (reachable table; resources1=VCPU:2&
   resources2=VCPU:2&group_policy=none at 1.33 lists {2: VCPU 2, 3: VCPU 2} twice) *)
Theorem C20_shown_duplicates_below_134 :
  (exists a s, candidates 33 twin_query C03c.nv_db = COk a s /\ lenZ a = 11 /\ ~ distinct a /\
               nth 1 (map cr_rrs a) [] = [mkRreq 2 0 2; mkRreq 3 0 2] /\ nth 3 (map cr_rrs a) [] = [mkRreq 3 0 2; mkRreq 2 0 2] /\
               map cr_maps a = repeat [] 11) /\
  (exists a s, candidates 34 twin_query C03c.nv_db = COk a s /\ lenZ a = 11 /\ distinct a).
Proof. exact c20c_shown_duplicates_below_134. Qed.
Print Assumptions C20_shown_duplicates_below_134.


(* ------------------------------------------------------------------------------------------------------------------
   End to end (Proofs/C03z.v), for the code model in any state reached by requests: no hypothesis but the answer itself. *)
(* limit=n keeps the first min(n, |a|) allocation requests, with covering summaries taken from the unlimited answer *)
From PV Require Import Spec.CandSpec Proofs.Defs Model.Parse Model.DecodeQ Model.DecodeQC.
From PV Require Import Proofs.C02 Proofs.C02m Proofs.C02c Proofs.C03s Proofs.C03c Proofs.C03q Proofs.C03u Proofs.C03uq Proofs.C03w
                       Proofs.C03x Proofs.C02s Proofs.C20c Proofs.C13q Proofs.C03z.
Theorem C20_end_to_end : forall cf l v q a s n,
  candidates v q (run cf db0 l) = COk a s -> qy_limit q = Some n ->
  16 <= v /\ 1 <= n /\
  exists kept sums', candidates_limited v q (run cf db0 l) = COk kept sums' /\
    kept = firstn (Z.to_nat n) a /\ lenZ kept = Z.min n (lenZ a) /\ incl kept a /\
    (34 <= v -> distinct kept) /\
    (forall c x, In c kept -> In x (cr_rrs c) ->
       exists r, find_rp (run cf db0 l) (rr_rp x) = Some r /\ In (psum_view v q (summary_of (run cf db0 l) r)) sums') /\
    incl sums' s.
Proof. exact c20_end_to_end. Qed.
Print Assumptions C20_end_to_end.
