(* C11 reference semantics: what the read API reports, defined on an abstract state that holds only
   what clients write -- no usages, no root pointers, no totals: those are DERIVED here.

     usage of a class on a provider  =  sum over all consumers of what they hold there
     root of a provider              =  its top ancestor (follow parent links)
     totals of a project / user      =  sums over the matching consumers, grouped by consumer type

   Shared with Model/Reads.v (database-independent list functions and the payload format only):
   rview / mkView / v_404 / v_400, query, sort_rows (insertion sort of rows), uniq_adj (drop adjacent
   duplicates), jrow / group_rows (GROUP BY key, class with SUM and COUNT DISTINCT), CT_ALL,
   CT_UNKNOWN, is_untyped, oz (None = -1).

   Traits and resource classes: the abstract state holds the custom names clients created and did not
   delete; the standard ones (tokens below n_std_traits / n_std_rc) always exist.  A trait is
   "associated" when some provider carries it. *)
From PV Require Export Model.Reads.
From PV Require Import Model.Names.

(* ---------------------------------------------------------------- abstract state *)
Record aprov := mkAprov {
  p_uuid : Z; p_name : Z; p_parent : option Z; p_gen : Z;
  p_invs : list (Z * list Z);       (* class -> [total; reserved; min_unit; max_unit; step_size; ratio m; ratio e] *)
  p_traits : list Z;
  p_aggs : list Z }.
Record acons := mkAcons {
  k_uuid : Z; k_proj : Z; k_user : Z; k_type : option Z; k_gen : Z;
  k_allocs : list (Z * Z * Z) }.    (* (provider, class, amount) *)
Record astate := mkAstate {
  as_provs : list aprov; as_conss : list acons;
  as_traits : list Z;               (* custom trait names *)
  as_classes : list Z }.            (* custom resource class names *)

(* ---------------------------------------------------------------- abstraction of a database *)
Definition abs_prov (d : db) (r : rp) : aprov :=
  mkAprov (rp_uuid r) (rp_name r) (rp_parent r) (rp_gen r)
    (map (fun i => (i_rc i, inv_fields i)) (filter (fun i => i_rp i =? rp_uuid r) (invs d)))
    (traits_of d (rp_uuid r))
    (aggs_of d (rp_uuid r)).
Definition abs_cons (d : db) (k : consumer) : acons :=
  mkAcons (c_uuid k) (c_proj k) (c_user k) (c_type k) (c_gen k)
    (map (fun a => (a_rp a, a_rc a, a_used a)) (filter (fun a => a_cons a =? c_uuid k) (allocs d))).
Definition abs (d : db) : astate :=
  mkAstate (map (abs_prov d) (rps d)) (map (abs_cons d) (consumers d)) (traits d) (map snd (rcs d)).

(* ---------------------------------------------------------------- derived notions *)
Definition s_prov (s : astate) (u : Z) : option aprov := find (fun p => p_uuid p =? u) (as_provs s).
Definition s_cons (s : astate) (c : Z) : option acons := find (fun k => k_uuid k =? c) (as_conss s).
Definition s_gen (s : astate) (u : Z) : Z := match s_prov s u with Some p => p_gen p | None => -1 end.

(* top ancestor: follow parent links, at most once per provider *)
Fixpoint top_of (s : astate) (fuel : nat) (u : Z) : Z :=
  match fuel with
  | O => u
  | S f => match s_prov s u with
           | Some p => match p_parent p with Some q => top_of s f q | None => u end
           | None => u
           end
  end.
Definition s_root (s : astate) (u : Z) : Z := top_of s (length (as_provs s)) u.

(* what consumer k holds of class rc on provider u *)
Fixpoint held_l (l : list (Z * Z * Z)) (u rc : Z) : Z :=
  match l with
  | [] => 0
  | (u', rc', amt) :: l' => (if (u' =? u) && (rc' =? rc) then amt else 0) + held_l l' u rc
  end.
Definition held (k : acons) (u rc : Z) : Z := held_l (k_allocs k) u rc.
(* usage = sum over all consumers *)
Fixpoint s_usage_l (l : list acons) (u rc : Z) : Z :=
  match l with [] => 0 | k :: l' => held k u rc + s_usage_l l' u rc end.
Definition s_usage (s : astate) (u rc : Z) : Z := s_usage_l (as_conss s) u rc.

(* ---------------------------------------------------------------- the reads *)
Definition sp_rp (s : astate) (v u : Z) : rview :=
  match s_prov s u with
  | None => v_404
  | Some p => mkView 200 ([p_name p; p_gen p] ++
                          (if 14 <=? v then [oz (p_parent p); s_root s u] else [])) []
  end.

Definition sp_invs (s : astate) (u : Z) : rview :=
  match s_prov s u with
  | None => v_404
  | Some p => mkView 200 [p_gen p] (sort_rows (map (fun x => fst x :: snd x) (p_invs p)))
  end.

(* resource_provider_generation is left out of this body when it is 0 (-1 = absent) *)
Definition sp_inv (s : astate) (u rc : Z) : rview :=
  match s_prov s u with
  | None => v_404
  | Some p =>
      match find (fun x => fst x =? rc) (p_invs p) with
      | None => v_404
      | Some x => mkView 200 ((if p_gen p =? 0 then -1 else p_gen p) :: snd x) []
      end
  end.

(* one entry per class that has inventory; its value is the derived usage *)
Definition sp_rp_usages (s : astate) (u : Z) : rview :=
  match s_prov s u with
  | None => v_404
  | Some p => mkView 200 [p_gen p] (sort_rows (map (fun x => [fst x; s_usage s u (fst x)]) (p_invs p)))
  end.

(* every consumer's holdings on u *)
Definition sp_rp_allocs (s : astate) (v u : Z) : rview :=
  match s_prov s u with
  | None => v_404
  | Some p =>
      mkView 200 [p_gen p]
        (sort_rows (flat_map (fun k =>
           flat_map (fun x => let '(u', rc, amt) := x in
                              if u' =? u then [[k_uuid k; rc; amt] ++ (if 28 <=? v then [k_gen k] else [])]
                              else []) (k_allocs k)) (as_conss s)))
  end.

Definition sp_rp_traits (s : astate) (v u : Z) : rview :=
  if v <? 6 then v_404 else
  match s_prov s u with
  | None => v_404
  | Some p => mkView 200 [p_gen p] (sort_rows (map (fun t => [t]) (p_traits p)))
  end.

Definition sp_rp_aggs (s : astate) (v u : Z) : rview :=
  if v <? 1 then v_404 else
  match s_prov s u with
  | None => v_404
  | Some p => mkView 200 (if 19 <=? v then [p_gen p] else []) (sort_rows (map (fun a => [a]) (p_aggs p)))
  end.

(* a consumer's holdings with each provider's generation; an unknown consumer has none.
   The consumer's attributes are reported only together with at least one allocation. *)
Definition sp_cons_allocs (s : astate) (v c : Z) : rview :=
  match s_cons s c with
  | None => mkView 200 [] []
  | Some k =>
      mkView 200
        (match k_allocs k with
         | [] => []
         | _ :: _ => if 12 <=? v then [k_proj k; k_user k] ++ (if 28 <=? v then [k_gen k] else []) ++
                                      (if 38 <=? v then [oz (k_type k)] else [])
                     else []
         end)
        (sort_rows (map (fun x => let '(u, rc, amt) := x in [u; s_gen s u; rc; amt]) (k_allocs k)))
  end.

(* the holdings of the consumers of project p (and user), filtered / keyed by consumer type *)
Definition s_join (s : astate) (p : Z) (user : option Z) (keep : option Z -> bool) (key : option Z -> Z)
  : list jrow :=
  flat_map (fun k =>
    if (k_proj k =? p) && (match user with Some w => k_user k =? w | None => true end) && keep (k_type k)
    then map (fun x => let '(_, rc, amt) := x in mkJ (key (k_type k)) (k_uuid k) rc amt) (k_allocs k)
    else []) (as_conss s).

(* below 1.38: one total per class.  From 1.38: per consumer type (the name "unknown" for consumers
   without a type), each group with the number of its consumers; consumer_type=all puts everything
   into one group "all", =unknown selects the untyped consumers, =T those of type T *)
Definition sp_usages (s : astate) (v p : Z) (user : option Z) (ct : option Z) : rview :=
  if v <? 9 then v_404 else
  if v <? 38 then
    match ct with
    | Some _ => v_400
    | None => mkView 200 [] (map (@tl Z) (group_rows false (s_join s p user (fun _ => true) (fun _ => 0))))
    end
  else
    match ct with
    | None => mkView 200 [] (group_rows true (s_join s p user (fun _ => true) oz))
    | Some t =>
        if t =? CT_ALL then mkView 200 [] (group_rows true (s_join s p user (fun _ => true) (fun _ => CT_ALL)))
        else if t =? CT_UNKNOWN then
          mkView 200 [] (group_rows true (s_join s p user is_untyped (fun _ => CT_UNKNOWN)))
        else mkView 200 [] (group_rows true (s_join s p user (fun ty => oeqb ty (Some t)) (fun _ => t)))
    end.

(* ---------------------------------------------------------------- traits and classes *)
Definition s_trait_exists (s : astate) (t : Z) : bool := is_std_trait t || memZ t (as_traits s).
(* some provider carries trait t *)
Definition s_associated (s : astate) (t : Z) : bool := existsb (fun p => memZ t (p_traits p)) (as_provs s).
(* every existing trait, once *)
Definition s_all_traits (s : astate) : list Z := zseq (Z.to_nat n_std_traits) 0 ++ as_traits s.

(* GET /traits (from 1.6): a trait is listed iff it exists, is one of the names asked for (name=in:..)
   and is / is not carried by some provider (associated=true / false) *)
Definition sp_traits (s : astate) (v : Z) (names : option (list Z)) (assoc : option bool) : rview :=
  if v <? 6 then v_404 else
  mkView 200 []
    (sort_rows (map (fun t => [t])
       (filter (fun t => match names with Some ns => memZ t ns | None => true end &&
                         match assoc with Some b => Bool.eqb (s_associated s t) b | None => true end)
               (s_all_traits s)))).

(* GET /traits/{t} (from 1.6): 204 iff the trait exists *)
Definition sp_trait (s : astate) (v t : Z) : rview :=
  if v <? 6 then v_404 else if s_trait_exists s t then mkView 204 [] [] else v_404.

Definition s_class_exists (s : astate) (n : Z) : bool := is_std_rc_name n || memZ n (as_classes s).

(* GET /resource_classes (from 1.2): the standard classes and the custom ones *)
Definition sp_classes (s : astate) (v : Z) : rview :=
  if v <? 2 then v_404 else
  mkView 200 [] (sort_rows (map (fun n => [n]) (zseq (Z.to_nat n_std_rc) 0 ++ as_classes s))).

(* GET /resource_classes/{n} (from 1.2): its name iff the class exists *)
Definition sp_class (s : astate) (v n : Z) : rview :=
  if v <? 2 then v_404 else if s_class_exists s n then mkView 200 [n] [] else v_404.

Definition spec_view (q : query) (v : Z) (s : astate) : rview :=
  match q with
  | QRp u => sp_rp s v u
  | QInvs u => sp_invs s u
  | QInv u rc => sp_inv s u rc
  | QRpUsages u => sp_rp_usages s u
  | QRpAllocs u => sp_rp_allocs s v u
  | QRpTraits u => sp_rp_traits s v u
  | QRpAggs u => sp_rp_aggs s v u
  | QConsAllocs c => sp_cons_allocs s v c
  | QUsages p user ct => sp_usages s v p user ct
  | QTraits names assoc => sp_traits s v names assoc
  | QTrait t => sp_trait s v t
  | QClasses => sp_classes s v
  | QClass n => sp_class s v n
  end.

(* the unique constraint on traits.name as the model sees it: the custom rows are pairwise distinct and
   none of them carries a standard name (C11_traits_unique: holds in every state the API can produce).
   Needed by the refinement of GET /traits?associated=true only (JOIN .. DISTINCT lists a name once) *)
Definition traits_unique (d : db) : Prop :=
  NoDup (traits d) /\ forall t, In t (traits d) -> is_std_trait t = false.
Definition needs_unique_traits (q : query) : bool :=
  match q with QTraits _ (Some true) => true | _ => false end.

(* ---------------------------------------------------------------- reading amounts off a payload *)
(* total amount of class rc on provider u in the rows [provider; generation; class; amount] of a
   GET /allocations/{c} payload *)
Fixpoint rows_amount (u rc : Z) (rows : list (list Z)) : Z :=
  match rows with
  | [] => 0
  | row :: rest =>
      (match row with
       | [u'; _; rc'; amt] => if (u' =? u) && (rc' =? rc) then amt else 0
       | _ => 0
       end) + rows_amount u rc rest
  end.
Definition sumZ (l : list Z) : Z := fold_right Z.add 0 l.

(* ---------------------------------------------------------------- the history that counts *)
(* the requests of a history that were answered without an error, in order *)
Fixpoint successes (cf : cfg) (d : db) (l : list req) : list req :=
  match l with
  | [] => []
  | r :: l' =>
      let '(d', rs) := step cf d r in
      if status rs <? 400 then r :: successes cf d' l' else successes cf d' l'
  end.

