(* Declarative readings of the two read-path properties, independent of the pipeline of the code:
   C13 (GET /resource_providers: exactly the providers meeting every supplied filter) and
   C03 (GET /allocation_candidates: exactly the valid combinations). *)
From PV Require Export Model.Candidates.

(* ================================================================ C13: GET /resource_providers *)
(* provider u is directly associated with at least one aggregate of the list *)
Definition in_some_agg (d : db) (u : Z) (ags : list Z) : bool :=
  existsb (fun x => (fst x =? u) && memZ (snd x) ags) (rp_aggs d).
(* provider u has at least one trait of the list *)
Definition has_some_trait (d : db) (u : Z) (ts : list Z) : bool :=
  existsb (fun x => (fst x =? u) && memZ (snd x) ts) (rp_traits d).
(* provider u has an inventory of class rc with room for `amount`: usage + amount within the capacity
   (total - reserved) * allocation_ratio, min_unit <= amount <= max_unit, amount a multiple of step_size *)
Definition has_room (d : db) (u rc amount : Z) : bool :=
  existsb (fun i => (i_rp i =? u) && (i_rc i =? rc)
                    && (usage d u rc + amount <=? cap_floor i)
                    && (i_min i <=? amount) && (amount <=? i_max i) && (amount mod i_step i =? 0)) (invs d).

(* The provider with uuid u satisfies every supplied filter.
   Deviations of the code from the plain reading, encoded here explicitly:
   - an EMPTY name (`?name=`) is not a filter at all (handler: `if name:`);
   - in_tree naming no provider: there is no such tree, nobody matches. *)
Definition rp_matches (v : Z) (f : rp_filters) (d : db) (u : Z) : bool :=
  match find_rp d u with
  | None => false
  | Some r =>
      (match f_name f with NameIs n => rp_name r =? n | NameEmpty | NameAbsent => true end)
      && (match f_uuid f with Some w => u =? w | None => true end)
      && (match f_in_tree f with
          | Some t => match find_rp d t with Some tr => rp_root r =? rp_root tr | None => false end
          | None => true
          end)
      && forallb (in_some_agg d u) (f_member_of f)
      && negb (in_some_agg d u (f_forbidden_aggs f))
      && forallb (has_some_trait d u) (f_required f)
      && negb (has_some_trait d u (f_forbidden f))
      && forallb (fun x => has_room d u (fst x) (snd x)) (f_resources f)
  end.

(* every trait and resource class named by the filters exists (otherwise the answer is 400) *)
Definition filters_known (d : db) (f : rp_filters) : Prop :=
  forallb (forallb (trait_exists d)) (f_required f) = true /\
  forallb (trait_exists d) (f_forbidden f) = true /\
  forallb (fun x => rc_exists d (fst x)) (f_resources f) = true.

(* ================================================================ C03: GET /allocation_candidates *)
(* A candidate is described by an ASSIGNMENT: an anchor tree, one provider per resource class of the
   unsuffixed group, one provider per suffixed group. *)
Record assignment := mkAsg {
  as_anchor : Z;
  as_un : list Z;        (* aligned with the resources of the unsuffixed group ([] if there is none) *)
  as_suff : list Z }.    (* aligned with the suffixed groups, in query order *)

Definition unsuffixed_group (q : query) : option rgroup := find (fun g => g_suffix g =? 0) (qy_groups q).
Definition suffixed_groups (q : query) : list rgroup := filter use_same_provider (qy_groups q).
Definition un_resources (q : query) : list (Z * Z) :=
  match unsuffixed_group q with Some g => g_resources g | None => [] end.

(* roots of the provider trees *)
Definition tree_roots (d : db) : list Z := map rp_uuid (filter (fun r => rp_root r =? rp_uuid r) (rps d)).
(* p is a sharing provider associated through some aggregate with a provider of the tree rooted at R *)
Definition shares_with_tree (d : db) (R p : Z) : bool :=
  has_trait d p MISC_SHARES_VIA_AGGREGATE
  && existsb (fun x => (fst x =? p) && existsb (fun y => (snd y =? snd x) && (root_of d (fst y) =? R)) (rp_aggs d))
             (rp_aggs d).
(* the providers an allocation request anchored at R may use: the tree itself and its sharing providers *)
Definition avail (d : db) (R p : Z) : bool := (root_of d p =? R) || shares_with_tree d R p.
Definition avail_list (d : db) (R : Z) : list Z := filter (avail d R) (map rp_uuid (rps d)).

Definition in_tree_ok (d : db) (g : rgroup) (p : Z) : bool :=
  match g_in_tree g with
  | None => true
  | Some t => match find_rp d t with Some tr => root_of d p =? rp_root tr | None => false end
  end.

(* a suffixed group on ONE provider: room for all its resources, every required and no forbidden trait,
   direct membership of the required and of no forbidden aggregate, in the requested tree *)
Definition suffixed_ok (d : db) (g : rgroup) (p : Z) : bool :=
  forallb (fun x => has_room d p (fst x) (snd x)) (g_resources g)
  && forallb (has_some_trait d p) (g_required g) && negb (has_some_trait d p (g_forbidden g))
  && forallb (in_some_agg d p) (g_member_of g) && negb (in_some_agg d p (g_forbidden_aggs g))
  && in_tree_ok d g p.

(* aggregate membership for the unsuffixed group: directly, or - for a provider of the anchor tree -
   through the root of the tree *)
Definition agg_via_root (d : db) (R p : Z) (ags : list Z) : bool :=
  in_some_agg d p ags || ((root_of d p =? R) && in_some_agg d R ags).
(* member_of (the conjunction of all its values) is met by the provider itself, or - for a provider of the
   anchor tree - by the root of the tree *)
Definition member_of_via_root (d : db) (R p : Z) (mo : list (list Z)) : bool :=
  forallb (in_some_agg d p) mo || ((root_of d p =? R) && forallb (in_some_agg d R) mo).
(* one provider of the unsuffixed group, for one resource *)
Definition un_slot_ok (d : db) (g : rgroup) (R : Z) (x : Z * Z) (p : Z) : bool :=
  has_room d p (fst x) (snd x)
  && negb (has_some_trait d p (g_forbidden g))
  && member_of_via_root d R p (g_member_of g) && negb (agg_via_root d R p (g_forbidden_aggs g))
  && in_tree_ok d g p.

(* every assignment whose slots are individually acceptable *)
Definition all_assignments (q : query) (d : db) : list assignment :=
  flat_map (fun R =>
    let av := avail_list d R in
    let un_slots := match unsuffixed_group q with
                    | Some g => map (fun x => filter (un_slot_ok d g R x) av) (g_resources g)
                    | None => []
                    end in
    let suff_slots := map (fun g => filter (suffixed_ok d g) av) (suffixed_groups q) in
    flat_map (fun un => map (fun su => mkAsg R un su) (product suff_slots)) (product un_slots))
  (tree_roots d).

(* (provider, class, amount) triples placed by an assignment, before summing *)
Definition placements (q : query) (a : assignment) : list (Z * Z * Z) :=
  map (fun px => (fst px, fst (snd px), snd (snd px))) (combine (as_un a) (un_resources q))
  ++ flat_map (fun pg => map (fun x => (fst pg, fst x, snd x)) (g_resources (snd pg)))
              (combine (as_suff a) (suffixed_groups q)).
Fixpoint sum_into (acc : list rreq) (x : Z * Z * Z) : list rreq :=
  match acc with
  | [] => [mkRreq (fst (fst x)) (snd (fst x)) (snd x)]
  | y :: r => if (rr_rp y =? fst (fst x)) && (rr_rc y =? snd (fst x))
              then mkRreq (rr_rp y) (rr_rc y) (rr_amt y + snd x) :: r else y :: sum_into r x
  end.
Definition summed (q : query) (a : assignment) : list rreq := fold_left sum_into (placements q a) [].

(* the candidate an assignment denotes: summed allocations + mappings suffix -> providers *)
Definition creq_of (q : query) (a : assignment) : creq :=
  mkCreq (-1) (summed q a)
         ((match unsuffixed_group q with Some _ => [(0, dedup (as_un a))] | None => [] end)
          ++ map (fun pg => (g_suffix (snd pg), [fst pg])) (combine (as_suff a) (suffixed_groups q))).

Fixpoint nodupZ (l : list Z) : bool :=
  match l with [] => true | x :: l' => negb (memZ x l') && nodupZ l' end.

(* u is w or one of its ancestors *)
Definition ancestor_or_self (d : db) (u w : Z) : bool := memZ u (ancestors (length (rps d)) d w).
(* same_subtree: the providers of the named groups are all rooted at one of them *)
Definition subtree_ok (d : db) (us : list Z) : bool :=
  existsb (fun u => forallb (ancestor_or_self d u) us) us.

(* the conditions relating the slots of an assignment to each other *)
Definition asg_ok (v : Z) (q : query) (d : db) (a : assignment) : bool :=
  let R := as_anchor a in
  (* root_required on the anchor *)
  forallb (has_trait d R) (qy_root_required q) && negb (existsb (has_trait d R) (qy_root_forbidden q))
  (* required traits of the unsuffixed group, collectively *)
  && (match unsuffixed_group q with
      | Some g => forallb (fun any => existsb (fun p => has_some_trait d p any) (as_un a)) (g_required g)
      | None => true
      end)
  (* group_policy=isolate *)
  && (match qy_policy q with GPIsolate => nodupZ (as_suff a) | _ => true end)
  (* same_subtree *)
  && forallb (fun sfx => subtree_ok d (dedup (flat_map (fun pg => if memZ (g_suffix (snd pg)) sfx then [fst pg] else [])
                                                       (combine (as_suff a) (suffixed_groups q))))) (qy_same_subtree q)
  (* capacity and max_unit on the summed amounts *)
  && forallb (fun x => match find_inv d (rr_rp x) (rr_rc x) with
                       | Some i => (usage d (rr_rp x) (rr_rc x) + rr_amt x <=? cap_floor i) && (rr_amt x <=? i_max i)
                       | None => false
                       end) (summed q a)
  (* before 1.29: at most one provider per tree *)
  && ((29 <=? v) || nodupZ (map (root_of d) (dedup (map rr_rp (summed q a))))).

Definition spec_candidates (v : Z) (q : query) (d : db) : list creq :=
  dedup_by same_creq (map (creq_of q) (filter (asg_ok v q d) (all_assignments q d))).

(* what the response shows of a candidate at version v (mappings from 1.34) *)
Definition creq_view (v : Z) (c : creq) : creq := mkCreq (-1) (cr_rrs c) (if 34 <=? v then cr_maps c else []).

(* three-way comparison, model against spec:
   0 = same candidates, 5 = they differ, 6 = the model does not answer with a candidate list *)
Definition spec_check (v : Z) (model : cand_result) (spec : list creq) : Z :=
  match model with
  | COk a _ => let s := map (creq_view v) spec in
               if subset_by same_creq a s && subset_by same_creq s a then 0 else 5
  | _ => 6
  end.

(* ---------------------------------------------------------------- the property for ONE combination *)
(* p is an existing provider that an allocation request anchored at R may use *)
Definition usable (d : db) (R p : Z) : Prop := In p (map rp_uuid (rps d)) /\ avail d R p = true.

(* The assignment is admissible: its anchor is the root of a tree; every resource of the unsuffixed group is
   placed on a usable provider acceptable for it (un_slot_ok); every suffixed group is placed on ONE usable
   provider acceptable for the whole group (suffixed_ok); and the conditions between the slots hold (asg_ok:
   root_required, collective required traits, group_policy, same_subtree, capacity and max_unit of the summed
   amounts, one provider per tree before 1.29). *)
Definition admissible (v : Z) (q : query) (d : db) (a : assignment) : Prop :=
  In (as_anchor a) (tree_roots d) /\
  match unsuffixed_group q with
  | Some g => Forall2 (fun p x => usable d (as_anchor a) p /\ un_slot_ok d g (as_anchor a) x p = true)
                      (as_un a) (g_resources g)
  | None => as_un a = []
  end /\
  Forall2 (fun p g => usable d (as_anchor a) p /\ suffixed_ok d g p = true) (as_suff a) (suffixed_groups q) /\
  asg_ok v q d a = true.

(* c is a valid allocation candidate for q: it is what some admissible assignment denotes *)
Definition valid (v : Z) (q : query) (d : db) (c : creq) : Prop :=
  exists a, admissible v q d a /\ c = creq_of q a.
