(* How the handlers of /repo map object-layer exceptions to answers (Gen/GenExc.v, regenerated from the `try`
   statements of placement/handlers/*.py on every build), expressed with the model's exceptions and responses. *)
From Coq Require Import ZArith List Bool.
From PV Require Import Gen.GenExc Model.Base Model.Tables Model.Txn Model.Handlers.
Import ListNotations.
Open Scope Z_scope.

Definition exn_id (e : exn) : Z :=
  match e with
  | ENotFound => 0 | ERcNotFound => 1 | EInvRcNotFound => 2 | EInvalidInventory => 3 | EInventoryInUse => 4
  | EConcurrent => 5 | ERpConcurrent => 6 | EDuplicate => 7 | EObjAction => 8 | EHasChildren => 9
  | ERpInUse => 10 | EBadCapacity => 11 | ERcInUse => 12 | ERcStandard => 13 | ERcExists => 14
  | ETraitNotFound => 15 | ETraitInUse => 16 | ETraitStandard => 17
  end.

(* error-code constants of placement/errors.py as the model names them; a comment-less webob exception carries the
   default code *)
Definition xc_code (c : Z) : Z :=
  if c =? 0 then C_DEFAULT
  else if c =? XC_CONCURRENT_UPDATE then C_CONCURRENT
  else if c =? XC_INVENTORY_INUSE then C_INUSE
  else if c =? XC_DUPLICATE_NAME then C_DUPNAME
  else if c =? XC_PROVIDER_IN_USE then C_RP_INUSE
  else if c =? XC_PROVIDER_CANNOT_DELETE_PARENT then C_CANNOT_DELETE_PARENT
  else -1.

(* the answer of the code when the object-layer call `site` raises e *)
Definition exc_resp (site : Z) (e : exn) : option resp :=
  match find (fun r => let '(s, x, _, _) := r in (s =? site) && (x =? exn_id e)) exc_table with
  | Some (_, _, st, c) => Some (err st (xc_code c))
  | None => None
  end.

(* the error branches written inline in Model/Handlers.v, as functions *)
Definition inv_set_err (e : exn) : resp :=
  match e with
  | ERcNotFound => err 400 C_DEFAULT | EInvRcNotFound => err 409 C_DEFAULT | EInventoryInUse => err 409 C_INUSE
  | _ => err 409 C_CONCURRENT
  end.
Definition inv_post_err (e : exn) : resp :=
  match e with ERcNotFound => err 400 C_DEFAULT | _ => err 409 C_CONCURRENT end.
Definition inv_put_err (e : exn) : resp :=
  match e with ERcNotFound => err 404 C_DEFAULT | EInvRcNotFound => err 400 C_DEFAULT | _ => err 409 C_CONCURRENT end.
Definition inv_delete_err (e : exn) : resp :=
  match e with ERcNotFound | ENotFound => err 404 C_DEFAULT | _ => err 409 C_CONCURRENT end.
Definition rp_delete_err (e : exn) : resp :=
  match e with ERpInUse => err 409 C_RP_INUSE | EHasChildren => err 409 C_CANNOT_DELETE_PARENT | _ => err 404 C_DEFAULT end.
