(* C14, request members and query parameters: which members the schema an operation validates with at minor version v
   accepts / requires, read off the schemas REGENERATED from placement/schemas/*.py (Gen/GenSchemas.v), against the
   documented members (Gen/GenSurfaceSpec.v:doc_fields, transcribed from the API reference).

   schema_at names the schema constant each operation uses at each version; that table is hand-written (like
   Decode.schema_of_*, which it reuses) and tied to the code on every run: one real request per operation and minor
   version with a spy on util.extract_json / util.validate_query_params, the learnt constant must be this one
   (harness/decode.py:schema_choice). *)
From Coq Require Import ZArith List Bool.
From PV Require Import Model.Regex Model.Parse Model.Json Gen.GenSchemas Model.Decode Gen.GenSurfaceSpec.
Import ListNotations.
Open Scope Z_scope.

Definition schema_of_get_candidates (v : Z) : schema :=
  if 36 <=? v then S_allocation_candidate__GET_SCHEMA_1_36
  else if 35 <=? v then S_allocation_candidate__GET_SCHEMA_1_35
  else if 33 <=? v then S_allocation_candidate__GET_SCHEMA_1_33
  else if 31 <=? v then S_allocation_candidate__GET_SCHEMA_1_31
  else if 25 <=? v then S_allocation_candidate__GET_SCHEMA_1_25
  else if 21 <=? v then S_allocation_candidate__GET_SCHEMA_1_21
  else if 17 <=? v then S_allocation_candidate__GET_SCHEMA_1_17
  else if 16 <=? v then S_allocation_candidate__GET_SCHEMA_1_16
  else S_allocation_candidate__GET_SCHEMA_1_10.
Definition schema_of_get_rps (v : Z) : schema :=
  if 18 <=? v then S_resource_provider__GET_RPS_SCHEMA_1_18
  else if 14 <=? v then S_resource_provider__GET_RPS_SCHEMA_1_14
  else if 4 <=? v then S_resource_provider__GET_RPS_SCHEMA_1_4
  else if 3 <=? v then S_resource_provider__GET_RPS_SCHEMA_1_3
  else S_resource_provider__GET_RPS_SCHEMA_1_0.
Definition schema_of_get_usages (v : Z) : schema :=
  if 38 <=? v then S_usage__GET_USAGES_SCHEMA_V1_38 else S_usage__GET_USAGES_SCHEMA_1_9.

(* (route id, method id) as in Gen/GenRoutes.v -> schema of the body (PUT / POST) or of the query parameters (GET) *)
Definition schema_at (route method v : Z) : option schema :=
  match route, method with
  | 12, 2 => Some (schema_of_put_alloc v)
  | 11, 1 => Some (schema_of_post_alloc v)
  | 18, 1 => Some (schema_of_reshape v)
  | 9, 2 => Some (schema_of_aggs v)
  | 4, 1 => Some (schema_of_rp_create v)
  | 5, 2 => Some (schema_of_rp_update v)
  | 13, 0 => Some (schema_of_get_candidates v)
  | 4, 0 => Some (schema_of_get_rps v)
  | 17, 0 => Some (schema_of_get_usages v)
  | _, _ => None
  end.

(* ------------------------------------------------------------------ reading a schema *)
Definition kws_of (s : schema) : list kw := let '(Sch k) := s in k.

(* the schema of member k (k = None: of the members admitted by the first patternProperties entry) *)
Definition descend (s : schema) (sel : option str) : option schema :=
  match sel with
  | Some k => match prop_schemas (kws_of s) k with x :: _ => Some x | [] => None end
  | None =>
      let pats := flat_map (fun w => match w with KPatProps ps => map snd ps | _ => [] end) (kws_of s) in
      match pats with x :: _ => Some x | [] => None end
  end.
Fixpoint descend_path (s : schema) (path : list (option str)) : option schema :=
  match path with
  | [] => Some s
  | sel :: rest => match descend s sel with Some s' => descend_path s' rest | None => None end
  end.

(* an object validated by s may carry member k *)
Definition key_accepted (s : schema) (k : str) : bool :=
  match prop_schemas (kws_of s) k with
  | [] => negb (no_additional (kws_of s))
  | _ => true
  end.
Definition key_required (s : schema) (k : str) : bool :=
  existsb (fun w => match w with KRequired l => existsb (str_eqb k) l | _ => false end) (kws_of s).
Definition is_object_schema (s : schema) : bool :=
  existsb (fun w => match w with KType ts => forallb (fun t => match t with TObject => true | _ => false end) ts && negb (match ts with [] => true | _ => false end) | _ => false end) (kws_of s).

(* one documented member at one version: does the schema say what the documentation says? *)
Definition field_ok (v : Z) (f : Z * Z * list (option str) * str * Z * Z) : bool :=
  let '(route, method, path, name, intro, kind) := f in
  match schema_at route method v with
  | None => false
  | Some s0 =>
      let present := intro <=? v in
      match descend_path s0 path with
      | None =>
          (* the place itself does not exist (yet): fine only before the member is introduced *)
          negb present
      | Some s =>
          if kind =? 2 then Bool.eqb (is_object_schema s) present
          else if kind =? 1 then Bool.eqb (key_accepted s name && key_required s name) present &&
                                 (present || negb (key_accepted s name) || negb (no_additional (kws_of s)))
          else Bool.eqb (key_accepted s name) present
      end
  end.

(* versions at which the operation exists at all (doc_avail of the same file) *)
Definition op_intro (route method : Z) : Z :=
  match find (fun a => let '(r, m, _, _) := a in (r =? route) && (m =? method)) doc_avail with
  | Some (_, _, i, _) => i
  | None => 0
  end.
Fixpoint versions_from (n : nat) (lo : Z) : list Z :=
  match n with O => [] | S n' => lo :: versions_from n' (lo + 1) end.
Definition field_versions (f : Z * Z * list (option str) * str * Z * Z) : list Z :=
  let '(route, method, _, _, _, _) := f in
  let lo := op_intro route method in
  versions_from (Z.to_nat (doc_max_version - lo + 1)) lo.
Definition fields_ok : bool :=
  forallb (fun f => forallb (fun v => field_ok v f) (field_versions f)) doc_fields.
