(* The front pipeline of deploy(): authentication, routing, decorators, policy check, handler body --
   over the tables regenerated from /repo.  The handler body is an arbitrary state transformer. *)
From Coq Require Import ZArith List Bool.
From PV Require Import Gen.GenConsts Gen.GenRoutes Gen.GenSurfaceSpec Spec.Surface.
Import ListNotations.
Open Scope Z_scope.

Section Pipeline.
Variable db : Type.

Inductive chk := Admin | Service | ReaderOwn | Or (a b : chk) | Always | Never.
Record caller := mkCaller { has_token : bool; is_admin : bool; is_service : bool; is_reader : bool;
                            own_project : bool }.
Fixpoint eval_chk (c : chk) (w : caller) : bool :=
  match c with
  | Admin => is_admin w
  | Service => is_service w
  | ReaderOwn => is_reader w && own_project w
  | Or a b => eval_chk a w || eval_chk b w
  | Always => true
  | Never => false
  end.
Definition default_chk (code : Z) : chk :=
  if code =? 0 then Or Admin Service
  else if code =? 1 then Service
  else Or Admin (Or ReaderOwn Service).

(* policy in force: rule id -> check (an unregistered rule denies) *)
Definition policy := Z -> chk.
Definition default_policy : policy :=
  fun rid => match rule_ops rid with Some (c, _) => default_chk c | None => Never end.
Definition override (p : policy) (rid : Z) (c : chk) : policy :=
  fun r => if r =? rid then c else p r.

Record hreq := mkReq { q_route : Z; q_method : Z; q_version : Z; q_content_ok : bool; q_accept_ok : bool }.

(* run decorators left to right; None = passed *)
Fixpoint run_decos (q : hreq) (l : list deco) : option Z :=
  match l with
  | [] => None
  | DAccept :: l' => if q_accept_ok q then run_decos q l' else Some 406
  | DContent :: l' => if q_content_ok q then run_decos q l' else Some 415
  | DVersion _ _ _ :: l' => run_decos q l'
  end.
Fixpoint before_version (l : list deco) : list deco :=
  match l with
  | [] => []
  | DVersion _ _ _ :: _ => []
  | d :: l' => d :: before_version l'
  end.
Fixpoint after_version (l : list deco) : list deco :=
  match l with
  | [] => []
  | DVersion _ _ _ :: l' => l'
  | _ :: l' => after_version l'
  end.
Definition select_overload (v : Z) (h : hinfo) : option (list deco) :=
  find (fun o => match version_deco o with Some d => in_window v d | None => false end) (h_overloads h).

(* decorators of the routed function; Some status = rejected before the body *)
Definition decorators (q : hreq) (h : hinfo) : option Z :=
  let lastd := last (h_overloads h) [] in
  match run_decos q (before_version lastd) with
  | Some s => Some s
  | None =>
      match version_deco lastd with
      | None => None
      | Some (DVersion _ _ st) =>
          match select_overload (q_version q) h with
          | Some o => run_decos q (after_version o)
          | None => Some st
          end
      | Some _ => None
      end
  end.

Definition is_root (q : hreq) : bool := (q_route q =? 0) || (q_route q =? 1).

(* the whole pipeline; `body` is what the handler does after its policy check *)
Definition serve (p : policy) (w : caller) (q : hreq) (body : db -> db * Z) (d : db) : db * Z :=
  if negb (is_root q) && negb (has_token w) then (d, 401) else
  match find (fun r => fst r =? q_route q) routes with
  | None => (d, 404)
  | Some (_, targets) =>
      match find (fun t => fst t =? q_method q) targets with
      | None => (d, 405)
      | Some (_, hid) =>
          match find_handler hid with
          | None => (d, 500)
          | Some h =>
              match decorators q h with
              | Some s => (d, s)
              | None =>
                  if h_rule h =? -1 then body d else
                  if h_check_first h then (if eval_chk (p (h_rule h)) w then body d else (d, 403))
                  else (* effects may precede the check *)
                    (if eval_chk (p (h_rule h)) w then body d else (fst (body d), 403))
              end
          end
      end
  end.

(* the rule guarding an operation, if routed *)
Definition op_rule (route method : Z) : option Z :=
  match find (fun r => fst r =? route) routes with
  | Some (_, targets) =>
      match find (fun t => fst t =? method) targets with
      | Some (_, hid) => match find_handler hid with Some h => Some (h_rule h) | None => None end
      | None => None
      end
  | None => None
  end.
Definition allowed (p : policy) (w : caller) (q : hreq) : bool :=
  match op_rule (q_route q) (q_method q) with
  | Some rid => if rid =? -1 then true else eval_chk (p rid) w
  | None => false
  end.
End Pipeline.
Arguments serve {db}.
