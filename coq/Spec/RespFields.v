(* C14, response members per microversion: which members (body members by path, the headers last-modified / cache-control /
   location / openstack-api-version / vary, the status codes) the CODE emits for a successful request of each operation at
   minor version v.

   resp_members is hand-written from reading the serialisers of placement/handlers/*.py (_serialize_*, _transform_*, the
   want_version.matches gates around them, the req.response.* assignments) - one definition per serialiser, composed the way
   the handlers compose them.  It is tied to the code on every run of the C14 check (harness/respfields.py): for every
   operation and every minor version at which it exists one real request on a populated state; the set of member paths of
   the JSON answer, the headers and the status must be exactly resp_members (evaluated here by vm_compute: resp_table).

   The documented side is Gen/GenSurfaceSpec.v:doc_resp_fields (spec/surface.json:response_fields, transcribed from the API
   reference).  resp_fields_ok / resp_no_undocumented_ok compare the two over the complete finite domain. *)
From Coq Require Import ZArith List Bool String Ascii.
From PV Require Import Model.Parse Gen.GenSurfaceSpec Spec.Fields.
Import ListNotations.
Open Scope string_scope.
Open Scope list_scope.
Open Scope Z_scope.

(* ------------------------------------------------------------------ notation *)
Definition zs (s : string) : str := map (fun c => Z.of_N (N_of_ascii c)) (list_ascii_of_string s).
Definition rpath := list (option str).
Definition bmem := (rpath * str)%type.                 (* a body member: path of the object that carries it, its name *)
Definition rmem := (Z * rpath * str)%type.             (* location (0 body, 1 header, 2 status), path, name *)

(* "a/*/[]": "*" = any key of a map keyed by data, "[]" = a list element *)
Definition seg (s : string) : option str := if String.eqb s "*" then None else Some (zs s).
Definition pth (l : list string) : rpath := map seg l.
Definition keys (l : list string) : list bmem := map (fun k => ([], zs k)) l.
Definition under (p : list string) (ms : list bmem) : list bmem := map (fun m => (pth p ++ fst m, snd m)) ms.
Definition any_key : list bmem := keys ["*"].          (* the map is keyed by data and has an entry *)
Definition since (n v : Z) (ms : list bmem) : list bmem := if n <=? v then ms else [].
Definition before (n v : Z) (ms : list bmem) : list bmem := if v <? n then ms else [].

(* ------------------------------------------------------------------ serialisers, as in placement/handlers *)
(* a list of {rel, href} objects *)
Definition ser_links (rels : list string) : list bmem :=
  under ["[]"] (keys ["rel"; "href"] ++ keys (map (fun r => String.append "rel=" r) rels)).

(* resource_provider._serialize_links *)
Definition rp_rels (v : Z) : list string :=
  ["self"; "inventories"; "usages"] ++ (if 1 <=? v then ["aggregates"] else []) ++ (if 6 <=? v then ["traits"] else []) ++
  (if 11 <=? v then ["allocations"] else []).
(* resource_provider._serialize_provider *)
Definition ser_provider (v : Z) : list bmem :=
  keys ["uuid"; "name"; "generation"; "links"] ++ under ["links"] (ser_links (rp_rels v)) ++
  since 14 v (keys ["parent_provider_uuid"; "root_provider_uuid"]).
(* resource_provider._serialize_providers *)
Definition ser_providers (v : Z) : list bmem :=
  keys ["resource_providers"] ++ under ["resource_providers"; "[]"] (ser_provider v).

(* inventory._serialize_inventory (generation is truthy for every provider that has inventory) / _serialize_inventories *)
Definition inv_fields : list string := ["total"; "reserved"; "min_unit"; "max_unit"; "step_size"; "allocation_ratio"].
Definition ser_inventory : list bmem := keys inv_fields ++ keys ["resource_provider_generation"].
Definition ser_inventories : list bmem :=
  keys ["resource_provider_generation"; "inventories"] ++ under ["inventories"] any_key ++ under ["inventories"; "*"] (keys inv_fields).

(* aggregate._send_aggregates *)
Definition ser_aggregates (v : Z) : list bmem := keys ["aggregates"] ++ since 19 v (keys ["resource_provider_generation"]).

(* usage._serialize_usages; usage.get_total_usages *)
Definition ser_rp_usages : list bmem := keys ["resource_provider_generation"; "usages"] ++ under ["usages"] any_key.
Definition ser_total_usages (v : Z) : list bmem :=
  keys ["usages"] ++ under ["usages"] any_key ++ since 38 v (under ["usages"; "*"] (any_key ++ keys ["consumer_count"])).

(* trait._serialize_traits (+ resource_provider_generation on the provider routes) *)
Definition ser_traits : list bmem := keys ["traits"].
Definition ser_rp_traits : list bmem := keys ["traits"; "resource_provider_generation"].

(* resource_class._serialize_resource_class / _serialize_resource_classes *)
Definition ser_rc : list bmem := keys ["name"; "links"] ++ under ["links"] (ser_links ["self"]).
Definition ser_rcs : list bmem := keys ["resource_classes"] ++ under ["resource_classes"; "[]"] ser_rc.

(* allocation._serialize_allocations_for_consumer (allocations non-empty) *)
Definition ser_allocs_consumer (v : Z) : list bmem :=
  keys ["allocations"] ++ under ["allocations"] any_key ++ under ["allocations"; "*"] (keys ["resources"; "generation"]) ++
  under ["allocations"; "*"; "resources"] any_key ++
  since 12 v (keys ["project_id"; "user_id"] ++ since 28 v (keys ["consumer_generation"]) ++ since 38 v (keys ["consumer_type"])).
(* allocation._serialize_allocations_for_resource_provider *)
Definition ser_allocs_provider (v : Z) : list bmem :=
  keys ["allocations"; "resource_provider_generation"] ++ under ["allocations"] any_key ++
  under ["allocations"; "*"] (keys ["resources"] ++ since 28 v (keys ["consumer_generation"])) ++
  under ["allocations"; "*"; "resources"] any_key.

(* allocation_candidate._transform_allocation_requests_dict / _list, _transform_provider_summaries,
   _transform_allocation_candidates *)
Definition ser_areq_dict (v : Z) : list bmem :=
  keys ["allocations"] ++ under ["allocations"] any_key ++ under ["allocations"; "*"] (keys ["resources"]) ++
  under ["allocations"; "*"; "resources"] any_key ++ since 34 v (keys ["mappings"] ++ under ["mappings"] any_key).
Definition ser_areq_list : list bmem :=
  keys ["allocations"] ++ under ["allocations"; "[]"] (keys ["resource_provider"; "resources"]) ++
  under ["allocations"; "[]"; "resource_provider"] (keys ["uuid"]) ++ under ["allocations"; "[]"; "resources"] any_key.
Definition ser_summaries (v : Z) : list bmem :=
  any_key ++ under ["*"] (keys ["resources"] ++ since 17 v (keys ["traits"]) ++
                          since 29 v (keys ["parent_provider_uuid"; "root_provider_uuid"])) ++
  under ["*"; "resources"] any_key ++ under ["*"; "resources"; "*"] (keys ["capacity"; "used"]).
Definition ser_candidates (v : Z) : list bmem :=
  keys ["allocation_requests"; "provider_summaries"] ++
  under ["allocation_requests"; "[]"] (if 12 <=? v then ser_areq_dict v else ser_areq_list) ++
  under ["provider_summaries"] (ser_summaries v).

(* root.home *)
Definition ser_home : list bmem :=
  keys ["versions"] ++ under ["versions"; "[]"] (keys ["id"; "max_version"; "min_version"; "status"; "links"] ++
                                                 under ["links"] (ser_links ["self"])).

(* util.json_error_formatter (the request id middleware has run) *)
Definition ser_error (v : Z) : list bmem :=
  keys ["errors"] ++ under ["errors"; "[]"] (keys ["status"; "title"; "detail"] ++ since 23 v (keys ["code"]) ++ keys ["request_id"]).

(* ------------------------------------------------------------------ per operation: body, headers, status *)
(* route and method ids as in Gen/GenRoutes.v; route 19 = the error document of any route *)
Definition resp_body (route method v : Z) : list bmem :=
  match route, method with
  | 0, 0 => ser_home
  | 1, 0 => ser_home                          (* '' is routed to the same handler *)
  | 2, 0 => ser_rcs
  | 3, 0 => ser_rc
  | 3, 2 => before 7 v ser_rc                   (* the 1.2 - 1.6 overload of update_resource_class answers with the class *)
  | 4, 0 => ser_providers v
  | 4, 1 => since 20 v (ser_provider v)         (* create_resource_provider: matches(min_version=(1, 20)) *)
  | 5, 0 => ser_provider v
  | 5, 2 => ser_provider v
  | 6, 0 => ser_inventories
  | 6, 1 => ser_inventory
  | 6, 2 => ser_inventories
  | 7, 0 => ser_inventory
  | 7, 2 => ser_inventory
  | 8, 0 => ser_rp_usages
  | 9, 0 => ser_aggregates v
  | 9, 2 => ser_aggregates v
  | 10, 0 => ser_allocs_provider v
  | 12, 0 => ser_allocs_consumer v
  | 13, 0 => ser_candidates v
  | 14, 0 => ser_traits
  | 16, 0 => ser_rp_traits
  | 16, 2 => ser_rp_traits
  | 17, 0 => ser_total_usages v
  | 19, 0 => ser_error v
  | _, _ => []
  end.

(* `if want_version.matches((1, 15)): response.last_modified = ...; response.cache_control = 'no-cache'` *)
Definition cache_hdrs (v : Z) : list string := if 15 <=? v then ["last-modified"; "cache-control"] else [].
Definition resp_headers (route method v : Z) : list string :=
  match route, method with
  | 19, _ => []                                 (* error answers: no header claim *)
  | _, _ =>
    ["openstack-api-version"; "vary"] ++
    match route, method with
    | 2, 1 => ["location"]                                     (* create_resource_class *)
    | 3, 2 => if 7 <=? v then ["location"] else []             (* update_resource_class, the 1.7 overload *)
    | 4, 1 => ["location"] ++ (if 20 <=? v then ["last-modified"; "cache-control"] else [])
    | 6, 1 => ["location"] ++ cache_hdrs v                     (* create_inventory -> _send_inventory *)
    | 15, 2 => ["location"] ++ cache_hdrs v                    (* put_trait: no body, yet the 1.15 gate *)
    | _, 0 => cache_hdrs v                                     (* every GET handler, get_trait (204) included *)
    | 5, 2 | 6, 2 | 7, 2 | 9, 2 | 16, 2 => cache_hdrs v        (* PUT handlers that answer with a body *)
    | _, _ => []
    end
  end.

Definition resp_statuses (route method v : Z) : list string :=
  match route, method with
  | 19, _ => []
  | 15, 0 => ["204"]                                           (* get_trait *)
  | _, 0 => ["200"]
  | _, 3 => ["204"]
  | 2, 1 => ["201"]
  | 3, 2 => if 7 <=? v then ["201"; "204"] else ["200"]
  | 4, 1 => if 20 <=? v then ["200"] else ["201"]
  | 6, 1 => ["201"]
  | 15, 2 => ["201"; "204"]
  | 11, 1 | 12, 2 | 18, 1 => ["204"]                           (* POST /allocations, PUT /allocations/{c}, POST /reshaper *)
  | _, 2 => ["200"]
  | _, _ => []
  end.

Definition resp_members (route method v : Z) : list rmem :=
  map (fun m => (0, fst m, snd m)) (resp_body route method v) ++
  map (fun h => (1, [], zs h)) (resp_headers route method v) ++
  map (fun s => (2, [], zs s)) (resp_statuses route method v).

(* ------------------------------------------------------------------ comparison with the documented table *)
Definition seg_eqb (a b : option str) : bool :=
  match a, b with
  | None, None => true
  | Some x, Some y => str_eqb x y
  | _, _ => false
  end.
Fixpoint rpath_eqb (a b : rpath) : bool :=
  match a, b with
  | [], [] => true
  | x :: a', y :: b' => seg_eqb x y && rpath_eqb a' b'
  | _, _ => false
  end.
Definition rmem_eqb (a b : rmem) : bool :=
  let '(la, pa, na) := a in let '(lb, pb, nb) := b in (la =? lb) && rpath_eqb pa pb && str_eqb na nb.
Definition rmem_in (x : rmem) (l : list rmem) : bool := existsb (rmem_eqb x) l.

Definition docrf := (Z * Z * Z * list (option (list Z)) * list Z * Z * Z)%type.
(* removed = -1: never removed.  (`if` rather than && where the right operand is costly: vm_compute is strict.) *)
Definition in_window (intro removed v : Z) : bool := (intro <=? v) && ((removed <? 0) || (v <? removed)).
Definition rf_member (d : docrf) : rmem := let '(_, _, loc, path, name, _, _) := d in (loc, path, name).

(* the versions at which an operation exists; the error document (route 19) exists at every version *)
Definition resp_op_intro (route method : Z) : Z := if route =? 19 then 0 else op_intro route method.
Definition resp_versions (route method : Z) : list Z :=
  let lo := resp_op_intro route method in versions_from (Z.to_nat (doc_max_version - lo + 1)) lo.
Definition rf_versions (d : docrf) : list Z := let '(route, method, _, _, _, _, _) := d in resp_versions route method.

(* one documented member at one version: emitted exactly inside its documented window *)
Definition rf_ok (v : Z) (d : docrf) : bool :=
  let '(route, method, _, _, _, intro, removed) := d in
  Bool.eqb (rmem_in (rf_member d) (resp_members route method v)) (in_window intro removed v).

(* members the code emits that the documentation does not give the operation: (route, method, member, from version on).
   Each is a disagreement between code and documentation, reported by the C14 check as a known finding; resp_extras_real
   says that each is indeed emitted and indeed undocumented. *)
Definition resp_known_extra : list (Z * Z * rmem * Z) :=
  [ (* PUT /traits/{name} answers 201 / 204 without a body, yet carries last-modified and cache-control from 1.15; history
       1.15 gives them to "GET responses and those PUT and POST responses that have bodies" *)
    (15, 2, (1, [], zs "last-modified"), 15);
    (15, 2, (1, [], zs "cache-control"), 15) ].

Definition documented_at (route method v : Z) (x : rmem) : bool :=
  existsb (fun d : docrf => let '(r, m, _, _, _, intro, removed) := d in
             if r =? route then if m =? method then rmem_eqb (rf_member d) x && in_window intro removed v else false
             else false) doc_resp_fields.
Definition extra_at (route method v : Z) (x : rmem) : bool :=
  existsb (fun e : Z * Z * rmem * Z => let '(r, m, y, from) := e in
             if r =? route then if m =? method then rmem_eqb y x && (from <=? v) else false else false) resp_known_extra.

(* all operations: the documented ones and the error document *)
Definition resp_ops : list (Z * Z) := map (fun a => let '(r, m, _, _) := a in (r, m)) doc_avail ++ [(19, 0)].

Definition resp_fields_ok : bool :=
  forallb (fun d => forallb (fun v => rf_ok v d) (rf_versions d)) doc_resp_fields.
Definition resp_no_undocumented_ok : bool :=
  forallb (fun op => let '(r, m) := op in
    forallb (fun v => forallb (fun x => documented_at r m v x || extra_at r m v x) (resp_members r m v)) (resp_versions r m))
  resp_ops.
Definition resp_extras_real : bool :=
  forallb (fun e : Z * Z * rmem * Z => let '(r, m, x, from) := e in
    forallb (fun v => Bool.eqb (rmem_in x (resp_members r m v)) (from <=? v) && negb (documented_at r m v x)) (resp_versions r m))
  resp_known_extra.

(* for diagnosis when Proofs/C14r.v stops checking (`Eval vm_compute in resp_fields_bad.`): the documented members and
   versions at which model and documentation disagree / the members emitted without documentation *)
Definition resp_fields_bad : list (docrf * Z) :=
  flat_map (fun d => map (fun v => (d, v)) (filter (fun v => negb (rf_ok v d)) (rf_versions d))) doc_resp_fields.
Definition resp_undocumented_bad : list (Z * Z * Z * rmem) :=
  flat_map (fun op : Z * Z => let '(r, m) := op in
    flat_map (fun v => map (fun x => (r, m, v, x))
                           (filter (fun x => negb (documented_at r m v x || extra_at r m v x)) (resp_members r m v)))
             (resp_versions r m)) resp_ops.

(* ------------------------------------------------------------------ the table the harness reads (one vm_compute):
   per operation the members emitted at any version (each once) and, for each version at which the operation exists, a 0/1
   mask over that list: resp_members r m v = the members whose mask entry is 1 (resp_table_faithful below) *)
Fixpoint dedup (l acc : list rmem) : list rmem :=
  match l with
  | [] => rev acc
  | x :: l' => if rmem_in x acc then dedup l' acc else dedup l' (x :: acc)
  end.
Definition resp_universe (r m : Z) : list rmem := dedup (flat_map (fun v => resp_members r m v) (resp_versions r m)) [].
Definition resp_mask (u ms : list rmem) : list Z := map (fun x => if rmem_in x ms then 1 else 0) u.
Definition resp_table : list (Z * Z * list rmem * list (Z * list Z)) :=
  map (fun op => let '(r, m) := op in
         let u := resp_universe r m in
         (r, m, u, map (fun v => (v, resp_mask u (resp_members r m v))) (resp_versions r m))) resp_ops.
(* decoding a mask gives back the members, as a set *)
Fixpoint unmask (u : list rmem) (mask : list Z) : list rmem :=
  match u, mask with
  | x :: u', b :: mask' => if b =? 1 then x :: unmask u' mask' else unmask u' mask'
  | _, _ => []
  end.
Definition same_set (a b : list rmem) : bool := forallb (fun x => rmem_in x b) a && forallb (fun x => rmem_in x a) b.
Definition resp_table_faithful : bool :=
  forallb (fun row : Z * Z * list rmem * list (Z * list Z) => let '(r, m, u, rows) := row in
    forallb (fun vm : Z * list Z => same_set (unmask u (snd vm)) (resp_members r m (fst vm))) rows) resp_table.
