(* Dispatch of a request to a handler as placement/handler.py + microversion.py do it, computed over the
   tables regenerated from /repo (Gen/GenRoutes.v), and the documented surface (Gen/GenSurfaceSpec.v). *)
From Coq Require Import ZArith List Bool.
From PV Require Import Gen.GenConsts Gen.GenRoutes Gen.GenSurfaceSpec.
Import ListNotations.
Open Scope Z_scope.

Definition find_handler (id : Z) : option hinfo := find (fun h => h_id h =? id) handlers.

Definition in_window (v : Z) (d : deco) : bool :=
  match d with
  | DVersion mn mx _ => (mn <=? v) && ((mx <? 0) || (v <=? mx))
  | _ => false
  end.
Definition version_deco (o : list deco) : option deco :=
  find (fun d => match d with DVersion _ _ _ => true | _ => false end) o.

(* microversion.version_handler / _find_method: the route's function is the LAST definition of the name;
   if it is not versioned the handler is always available; otherwise any overload whose window contains v
   serves the request, else the last definition's status code is returned. 0 = available. *)
Definition handler_status (v : Z) (h : hinfo) : Z :=
  match version_deco (last (h_overloads h) []) with
  | None => 0
  | Some (DVersion _ _ st) =>
      if existsb (fun o => match version_deco o with Some d => in_window v d | None => false end) (h_overloads h)
      then 0 else st
  | Some _ => 0
  end.

(* PlacementHandler dispatch: unknown route 404, known route but no handler for the method 405 *)
Definition route_status (v route method : Z) : Z :=
  match find (fun r => fst r =? route) routes with
  | None => 404
  | Some (_, targets) =>
      match find (fun t => fst t =? method) targets with
      | None => 405
      | Some (_, hid) => match find_handler hid with Some h => handler_status v h | None => 500 end
      end
  end.

(* the documented availability *)
Definition doc_status (v route method : Z) : Z :=
  if negb (existsb (fun x => let '(r, _, _, _) := x in r =? route) doc_avail) then 404 else
  match find (fun x => let '(r, m, _, _) := x in (r =? route) && (m =? method)) doc_avail with
  | None => 405
  | Some (_, _, intro, below) => if intro <=? v then 0 else below
  end.

Fixpoint zrange (n : nat) (from : Z) : list Z :=
  match n with O => [] | S k => from :: zrange k (from + 1) end.
Definition all_versions : list Z := zrange 40 0.
Definition all_routes : list Z := zrange 20 0.        (* 19 documented routes + one unknown id *)
Definition all_methods : list Z := zrange 6 0.        (* GET POST PUT DELETE + two other methods *)

Definition availability_ok : bool :=
  forallb (fun v => forallb (fun r => forallb (fun m => route_status v r m =? doc_status v r m) all_methods)
                            all_routes) all_versions.

(* handler-level version gates = documented change points (as sets) *)
Fixpoint dedup_sorted (l : list Z) : list Z :=
  match l with
  | x :: ((y :: _) as l') => if x =? y then dedup_sorted l' else x :: dedup_sorted l'
  | _ => l
  end.
Definition windows_of (h : hinfo) : list Z :=
  flat_map (fun o => match version_deco o with
                     | Some (DVersion mn _ _) => if 1 <? Z.of_nat (length (h_overloads h)) then [mn] else []
                     | _ => [] end) (h_overloads h).
Fixpoint insert_z (x : Z) (l : list Z) : list Z :=
  match l with [] => [x] | y :: l' => if x <=? y then x :: l else y :: insert_z x l' end.
Definition sort_z (l : list Z) : list Z := fold_right insert_z [] l.
Fixpoint list_eqb_z (a b : list Z) : bool :=
  match a, b with [], [] => true | x :: a', y :: b' => (x =? y) && list_eqb_z a' b' | _, _ => false end.
(* change points of an operation in the code: gates in the handler body + lower bounds of the
   version windows of an overloaded handler other than its first *)
Definition code_change_points (h : hinfo) : list Z :=
  let w := match sort_z (windows_of h) with [] => [] | _ :: rest => rest end in
  dedup_sorted (sort_z (h_gates h ++ w)).
Definition change_points_ok : bool :=
  forallb (fun r =>
    forallb (fun t =>
      match find_handler (snd t),
            find (fun x => let '(rr, m, _) := x in (rr =? fst r) && (m =? fst t)) doc_change_points with
      | Some h, Some (_, _, pts) => list_eqb_z (code_change_points h) pts
      | _, _ => false
      end) (snd r)) routes.

(* ---------------------------------------------------------------- version negotiation
   (microversion_parse.extract_version as used by deploy(): modelled, see DESIGN) *)
Inductive vheader := VAbsent | VLatest | VVersion (major minor : Z).
Inductive negotiated := Accepted (minor : Z) | NotAcceptable.
Definition negotiate (h : vheader) : negotiated :=
  match h with
  | VAbsent => Accepted 0
  | VLatest => Accepted max_version
  | VVersion mj mn => if (mj =? 1) && (0 <=? mn) && (mn <=? max_version) then Accepted mn else NotAcceptable
  end.

(* ---------------------------------------------------------------- authorisation tables (C16) *)
Definition rule_ops (rid : Z) : option (Z * list (Z * Z)) :=
  match find (fun x => let '(r, _, _) := x in r =? rid) rules with
  | Some (_, chk, opl) => Some (chk, opl)
  | None => None
  end.
(* every routed operation except the version document checks its documented rule before anything else *)
Definition authz_ok : bool :=
  forallb (fun r =>
    forallb (fun t =>
      match find_handler (snd t) with
      | None => false
      | Some h =>
          if (fst r =? 0) || (fst r =? 1) then h_rule h =? -1     (* "/" and "": public version document *)
          else h_check_first h &&
               match rule_ops (h_rule h) with
               | Some (_, opl) => existsb (fun o => (fst o =? fst t) && (snd o =? fst r)) opl
               | None => false
               end
      end) (snd r)) routes.
(* ... and every documented operation of every rule is routed to a handler that checks that rule *)
Definition rules_routed_ok : bool :=
  forallb (fun x => let '(rid, _, opl) := x in
    forallb (fun o =>
      match find (fun r => fst r =? snd o) routes with
      | Some (_, targets) =>
          match find (fun t => fst t =? fst o) targets with
          | Some (_, hid) => match find_handler hid with Some h => h_rule h =? rid | None => false end
          | None => false
          end
      | None => false
      end) opl) rules.
(* default check of an operation: 0 admin-or-service, 1 service, 2 admin-or-project-reader-or-service *)
Definition default_check (route method : Z) : option Z :=
  match find (fun r => fst r =? route) routes with
  | Some (_, targets) =>
      match find (fun t => fst t =? method) targets with
      | Some (_, hid) => match find_handler hid with
                         | Some h => match rule_ops (h_rule h) with Some (c, _) => Some c | None => None end
                         | None => None end
      | None => None
      end
  | None => None
  end.
Definition defaults_ok : bool :=
  base_rules_as_documented && middleware_order_as_documented &&
  forallb (fun r => forallb (fun t =>
    if (fst r =? 0) || (fst r =? 1) then true else
    match default_check (fst r) (fst t) with
    | Some c => c =? (if fst r =? 18 then 1 else if fst r =? 17 then 2 else 0)
    | None => false
    end) (snd r)) routes &&
  (* only GET /usages evaluates its rule against a caller-supplied project *)
  forallb (fun r => forallb (fun t =>
    match find_handler (snd t) with
    | Some h => Bool.eqb (h_target_project h) (fst r =? 17)
    | None => false end) (snd r)) routes.
