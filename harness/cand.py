"""Correspondence harness for the READ paths: GET /resource_providers (filters) and
GET /allocation_candidates, real service (harness.impl) against coq/Model/Candidates.v.

    PYTHONPATH=/repo PYTHONHASHSEED=0 /venv/bin/python -m harness.cand SEED N_STATES N_QUERIES

States are built with the abstract write ops of harness.ops (so the same list is replayed in Coq with
`run cf db0 [...]`); queries are generated per state, encoded to a query string and to a Coq term; the
JSON answers are canonicalised to token lists and compared inside Coq (vm_compute), which prints one
code per case: 0 agree, 1 disagree, 2/3 model says "depends on Python set iteration order"."""
import json
import os
import random
import sys
import tempfile

from harness import coqrun
from harness import gen
from harness import hist
from harness import impl
from harness import ops

MISC = ops.trait_tok('MISC_SHARES_VIA_AGGREGATE')
assert MISC == 372, MISC                       # Candidates.v: MISC_SHARES_VIA_AGGREGATE
T_AVX = ops.trait_tok('HW_CPU_X86_AVX')
T_SSD = ops.trait_tok('STORAGE_DISK_SSD')
T_CUSTOM = ops.CUSTOM_TRAIT_BASE + 1
T_UNKNOWN = ops.CUSTOM_TRAIT_BASE + 9          # never created: TraitNotFound
TRAITS = [MISC, T_AVX, T_SSD, T_CUSTOM]
AGGS = [1, 2, 3]
RC_EXTRA = [1000, ops.STD_RC.index('SRIOV_NET_VF'), None]
RC_UNKNOWN = 1007                              # CUSTOM_N7, never created: ResourceClassNotFound
V = 39


# ------------------------------------------------------------------ (i) states
class Built(object):
    def __init__(self, op_list, dump, classes):
        self.ops = op_list          # successful ops, in order
        self.dump = dump            # canonical dump of the real database
        self.rcmap = ops.rc_map(dump)
        self.classes = classes      # resource class NAME tokens in use
        self.st = gen.State(dump)
        self.providers = sorted(self.st.rps)

    def rcid(self, name_tok):
        if name_tok == RC_UNKNOWN:
            return -1
        return name_tok if name_tok < len(ops.STD_RC) else self.rcmap[name_tok]

    def rcid_of_name(self, name):
        t = ops.rc_tok(name)
        return t if t < len(ops.STD_RC) else self.rcmap[t]


def gen_inventory(rng, rc):
    total = rng.choice([2, 4, 8, 8, 10, 16, 16, 100, 7, 64, 1])
    return {'rc': rc, 'total': total,
            'reserved': rng.choice([0, 0, 0, 0, 0, 1, 2, total]) if total > 2 else 0,
            'min': rng.choice([1, 1, 1, 1, 1, 2]),
            'max': rng.choice([ops.MAX_INT, ops.MAX_INT, ops.MAX_INT, total, 4, 2, 8]),
            'step': rng.choice([1, 1, 1, 1, 1, 2, 3]),
            'ratio': rng.choice(gen.RATIOS), '_omit': ()}


def build_state(rng):
    """-> Built; issues real requests and keeps the ops that succeeded"""
    app = impl.App()
    done = []
    box = {'dump': ops.canon_dump(app.raw_dump())}

    def do(op):
        r, _obs = hist.observe(app, op)
        warm(app)
        if r.status < 300:
            done.append(op)
            box['dump'] = ops.canon_dump(app.raw_dump())
            return True
        return False

    def g(u):
        return gen.State(box['dump']).gen_of(u)

    extra = rng.choice(RC_EXTRA)
    classes = [0, 1, 2] + ([extra] if extra is not None else [])
    if extra == 1000:
        do(('rc_create', V, 1000))
    do(('trait_put', V, T_CUSTOM))

    # providers: <= 7 in <= 3 trees of depth <= 3
    flat = rng.random() < 0.25
    n = rng.randint(1, 3) if flat else rng.randint(2, 7)
    depth, roots = {}, []
    for u in range(1, n + 1):
        parents = [p for p in depth if depth[p] < 3]
        if flat or not parents or (len(roots) < 3 and rng.random() < 0.4):
            if len(roots) >= 3:
                parent = rng.choice(parents)
            else:
                parent = None
        else:
            parent = rng.choice(parents)
        if do(('rp_create', V, u, u, parent)):
            depth[u] = 1 if parent is None else depth[parent] + 1
            if parent is None:
                roots.append(u)
    provs = sorted(depth)

    sharer = rng.choice(provs) if rng.random() < 0.55 else None
    for u in provs:
        if rng.random() < 0.9 or u == sharer:
            k = rng.choice([1, 2, 2, 3, 3, 4])
            rcs = rng.sample(classes, min(k, len(classes)))
            if u == sharer and 2 not in rcs and rng.random() < 0.8:
                rcs.append(2)
            do(('inv_set', V, u, g(u), [gen_inventory(rng, rc) for rc in sorted(rcs)]))
    for u in provs:
        ts = [t for t in (T_AVX, T_SSD, T_CUSTOM) if rng.random() < 0.4]
        p_share = 0.12 if depth[u] == 1 else 0.1
        if u == sharer or rng.random() < p_share:
            ts.append(MISC)
        if ts:
            do(('traits_set', V, u, g(u), sorted(ts)))
    share_agg = rng.choice(AGGS)
    for u in provs:
        ags = set(a for a in AGGS if rng.random() < 0.3)
        if sharer is not None and (u == sharer or (u in roots and rng.random() < 0.7)):
            ags.add(share_agg)
        if ags:
            do(('aggs_set', V, u, g(u), sorted(ags)))

    # partial usage by a few consumers
    for c in range(1, rng.randint(0, 3) + 1):
        st = gen.State(box['dump'])
        good = [u for u in provs if gen.valid_claim(rng, st, u)]
        if not good:
            break
        allocs = []
        for u in rng.sample(good, min(len(good), rng.choice([1, 1, 2]))):
            claim = gen.valid_claim(rng, st, u)
            if rng.random() < 0.5:
                rc, amt = claim[0]
                inv = st.invs[u][rc]
                cap = int((inv[2] - inv[3]) * (inv[7] * 2.0 ** inv[8]))
                free = cap - st.used(u, rc)
                amts = [x for x in range(inv[6], min(inv[5], free) + 1, inv[6]) if x >= inv[4]]
                if amts:
                    claim = [(rc, rng.choice(amts))]
            allocs.append((u, claim))
        do(('alloc_put', V, {'uuid': c, 'allocs': allocs, 'proj': 1, 'user': 1, 'gen': None, 'type': 1}))
    app_dump = box['dump']
    return app, Built(done, app_dump, classes)


def _inv(rc, total):
    return {'rc': rc, 'total': total, 'reserved': 0, 'min': 1, 'max': ops.MAX_INT, 'step': 1, 'ratio': 1.0, '_omit': ()}


def _grp(suffix, resources, member_of=(), forbidden_aggs=(), required=(), forbidden=(), in_tree=None):
    return {'suffix': suffix, 'resources': list(resources), 'required': [list(x) for x in required], 'forbidden': list(forbidden),
            'member_of': [list(x) for x in member_of], 'forbidden_aggs': list(forbidden_aggs), 'in_tree': in_tree}


def _q(groups, v=39, policy='none', root_required=(), root_forbidden=(), same_subtree=()):
    return {'kind': 'cand', 'v': v, 'groups': groups, 'policy': policy, 'root_required': list(root_required),
            'root_forbidden': list(root_forbidden), 'same_subtree': [list(x) for x in same_subtree], 'verbose': False,
            'split_required': False}


# fixed states and queries that run first on every run (minimised shapes of earlier misses)
FIXED_CASES = [
    # two compute nodes sharing aggregate 3 with a sharing disk provider; node 1 is also in aggregate 1.  member_of on the
    # UNSUFFIXED group must not change what "sharing provider" means for a suffixed group (seed C03-e)
    ([('rp_create', 39, 1, 1, None), ('inv_set', 39, 1, 0, [_inv(0, 8)]), ('aggs_set', 39, 1, 1, [1, 3]),
      ('rp_create', 39, 2, 2, None), ('inv_set', 39, 2, 0, [_inv(0, 8)]), ('aggs_set', 39, 2, 1, [3]),
      ('rp_create', 39, 3, 3, None), ('inv_set', 39, 3, 0, [_inv(2, 100)]), ('traits_set', 39, 3, 1, [MISC]), ('aggs_set', 39, 3, 2, [3])],
     [_q([_grp(0, [(0, 1)]), _grp(1, [(2, 10)])]),
      _q([_grp(0, [(0, 1)], member_of=[[1]]), _grp(1, [(2, 10)])]),
      _q([_grp(1, [(2, 10)]), _grp(0, [(0, 1)], member_of=[[1]])]),
      _q([_grp(0, [(0, 1)], forbidden_aggs=[1]), _grp(1, [(2, 10)])], v=39),
      _q([_grp(0, [(0, 1)], member_of=[[1]]), _grp(1, [(2, 10)]), _grp(2, [(2, 5)])], policy='none'),
      _q([_grp(0, [(0, 1), (2, 10)], member_of=[[1]])], policy='absent')]),
    # root_required / root_forbidden constrain the ANCHOR, not a sharing provider serving a suffixed group (seed C03-b):
    # node 1 carries the trait, node 2 does not, the sharing disk provider 3 is associated with both
    ([('rp_create', 39, 1, 1, None), ('inv_set', 39, 1, 0, [_inv(0, 8)]), ('traits_set', 39, 1, 1, [T_AVX]), ('aggs_set', 39, 1, 2, [3]),
      ('rp_create', 39, 2, 2, None), ('inv_set', 39, 2, 0, [_inv(0, 8)]), ('aggs_set', 39, 2, 1, [3]),
      ('rp_create', 39, 3, 3, None), ('inv_set', 39, 3, 0, [_inv(2, 100)]), ('traits_set', 39, 3, 1, [MISC]), ('aggs_set', 39, 3, 2, [3])],
     [_q([_grp(0, [(0, 1)]), _grp(1, [(2, 10)])], root_required=[T_AVX]),
      _q([_grp(1, [(2, 10)]), _grp(0, [(0, 1)])], root_forbidden=[MISC]),
      _q([_grp(1, [(0, 1)]), _grp(2, [(2, 10)])], root_required=[T_AVX], policy='isolate'),
      _q([_grp(0, [(0, 1), (2, 10)])], root_required=[T_AVX], policy='absent'),
      _q([_grp(0, [(0, 1)]), _grp(1, [(2, 10)])], root_forbidden=[T_AVX]),
      _q([_grp(1, [(0, 1)]), _grp(2, [(2, 10)])], same_subtree=[[1, 2]], v=36)]),
    # list form of 1.10 / 1.11: a sharing provider supplies a class whose id lies BETWEEN two classes of the node (seed C02-g:
    # the node appeared in two entries of the allocations list)
    ([('rc_create', 39, 1000), ('rp_create', 39, 1, 1, None), ('inv_set', 39, 1, 0, [_inv(0, 8), _inv(1000, 4)]), ('aggs_set', 39, 1, 1, [3]),
      ('rp_create', 39, 2, 2, None), ('inv_set', 39, 2, 0, [_inv(2, 100)]), ('traits_set', 39, 2, 1, [MISC]), ('aggs_set', 39, 2, 2, [3])],
     [_q([_grp(0, [(0, 2), (2, 20), (1000, 1)])], v=10, policy='absent'),
      _q([_grp(0, [(0, 2), (2, 20), (1000, 1)])], v=11, policy='absent'),
      _q([_grp(0, [(0, 2), (2, 20), (1000, 1)])], v=12, policy='absent'),
      _q([_grp(0, [(1000, 1), (2, 20), (0, 2)])], v=16, policy='absent')]),
    # the deployment is FLAT while the first answers are given; the first tree then comes into being by giving an existing
    # root a parent (PUT, 1.14+); the unsuffixed group must be spread over parent and child (seed C03-h: a cached "no trees")
    ([('rp_create', 39, 1, 1, None), ('inv_set', 39, 1, 0, [_inv(0, 8)]), ('rp_create', 39, 2, 2, None),
      ('inv_set', 39, 2, 0, [_inv(2, 100)]), ('aggs_set', 39, 1, 1, [1]), ('rp_update', 39, 2, 2, 1)],
     [_q([_grp(0, [(0, 1), (2, 10)])], policy='absent'),
      _q([_grp(0, [(0, 1), (2, 10)], member_of=[[1]])], policy='absent'),
      _q([_grp(0, [(0, 1)]), _grp(1, [(2, 10)])]),
      _q([_grp(0, [(0, 1), (2, 10)])], v=28, policy='absent')]),
    # corner 4 (found by the proof of C03_exact_sharing): node 1 in aggregates 1 and 2, sharing disk provider 2 in aggregate 2;
    # member_of=!1 on the unsuffixed group asking DISK_GB only: the code drops the sharing provider under anchor 1
    ([('rp_create', 39, 1, 1, None), ('inv_set', 39, 1, 0, [_inv(0, 8)]), ('aggs_set', 39, 1, 1, [1, 2]),
      ('rp_create', 39, 2, 2, None), ('inv_set', 39, 2, 0, [_inv(2, 100)]), ('traits_set', 39, 2, 1, [MISC]), ('aggs_set', 39, 2, 2, [2])],
     [_q([_grp(0, [(2, 1)], forbidden_aggs=[1]), _grp(1, [(0, 1)])]),
      _q([_grp(0, [(2, 1)], forbidden_aggs=[1])], root_forbidden=[MISC], policy='absent'),
      _q([_grp(0, [(2, 1)]), _grp(1, [(0, 1)])]),
      _q([_grp(0, [(2, 1)], forbidden_aggs=[1])], policy='absent')]),
]


def _lq(v=39, **kw):
    f = {'kind': 'list', 'v': v, 'name': None, 'uuid': None, 'in_tree': None, 'member_of': [], 'forbidden_aggs': [],
         'required': [], 'forbidden': [], 'resources': [], 'split_required': False}
    f.update(kw)
    return f


# listings: every provider with the required trait also carries the forbidden one, while the aggregate has members -
# an intermediate result that becomes EMPTY must stay a restriction (seeds C13-c, C13-d, C13-f)
FIXED_LIST_CASES = [
    ([('rp_create', 39, 1, 1, None), ('inv_set', 39, 1, 0, [_inv(0, 8)]), ('traits_set', 39, 1, 1, [T_AVX, T_SSD]), ('aggs_set', 39, 1, 2, [1]),
      ('rp_create', 39, 2, 2, None), ('inv_set', 39, 2, 0, [_inv(0, 8), _inv(2, 50)]), ('aggs_set', 39, 2, 1, [1, 2]),
      ('rp_create', 39, 3, 3, None), ('inv_set', 39, 3, 0, [_inv(1, 64)]), ('traits_set', 39, 3, 1, [T_SSD])],
     [_lq(required=[[T_AVX]], forbidden=[T_SSD], member_of=[[1]]),
      _lq(required=[[T_AVX]], forbidden=[T_SSD], member_of=[[1]], split_required=True),
      _lq(required=[[T_AVX]], forbidden=[T_SSD]),
      _lq(uuid=1, forbidden=[T_AVX], member_of=[[1]]),
      _lq(name=1, forbidden=[T_SSD], member_of=[[1, 2]]),
      _lq(required=[[T_AVX, T_SSD]], forbidden=[T_SSD], member_of=[[1]]),
      _lq(member_of=[[1]], forbidden_aggs=[2], required=[[T_SSD]], forbidden=[T_AVX]),
      _lq(member_of=[[2]], forbidden_aggs=[1]),
      _lq(forbidden=[T_SSD], member_of=[[1]], v=22),
      _lq(resources=[(0, 1), (2, 1), (1, 1)]),
      _lq(resources=[(1, 1), (0, 1)], member_of=[[1]]),
      _lq(in_tree=1, forbidden=[T_AVX], member_of=[[1]])]),
]


# a state for the systematic sweep of filter COMBINATIONS: two trees (1 > 4, 2 > 5), a lone provider 3; traits and
# aggregates arranged so that intermediate results of the filter chain become empty while others are not
SWEEP_STATE = [
    ('rp_create', 39, 1, 1, None), ('inv_set', 39, 1, 0, [_inv(0, 8), _inv(1, 64)]), ('traits_set', 39, 1, 1, [T_AVX, T_SSD]),
    ('aggs_set', 39, 1, 2, [1]),
    ('rp_create', 39, 2, 2, None), ('inv_set', 39, 2, 0, [_inv(0, 8), _inv(2, 50)]), ('aggs_set', 39, 2, 1, [1, 2]),
    ('rp_create', 39, 3, 3, None), ('inv_set', 39, 3, 0, [_inv(1, 64)]), ('traits_set', 39, 3, 1, [T_SSD]),
    ('rp_create', 39, 4, 4, 1), ('inv_set', 39, 4, 0, [_inv(2, 100)]), ('traits_set', 39, 4, 1, [T_AVX]), ('aggs_set', 39, 4, 2, [2]),
    ('rp_create', 39, 5, 5, 2), ('inv_set', 39, 5, 0, [_inv(0, 2)]), ('aggs_set', 39, 5, 1, [3]),
]
SWEEP_OPTIONS = [
    ('name', [None, 1]),
    ('uuid', [None, 1, 2]),
    ('in_tree', [None, 1]),
    ('member_of', [[], [[1]], [[1, 2]], [[1], [2]]]),
    ('forbidden_aggs', [[], [2]]),
    ('required', [[], [[T_AVX]], [[T_AVX, T_SSD]]]),
    ('forbidden', [[], [T_SSD], [T_AVX]]),
    ('resources', [[], [(0, 1)], [(1, 1), (0, 1), (2, 1)]]),
]


def sweep_queries(limit=None, seed=0):
    """every combination of the options above (2 592 listings at 1.39); `limit`: a seeded sample that always contains the
    combinations of exactly three active filters"""
    import itertools
    out = []
    for combo in itertools.product(*[opts for _k, opts in SWEEP_OPTIONS]):
        kw = {k: v for (k, _o), v in zip(SWEEP_OPTIONS, combo)}
        active = sum(1 for v in combo if v not in (None, []))
        out.append((active, _lq(**kw)))
    if limit is not None and len(out) > limit:
        keep = [q for a, q in out if a == 3]
        rest = [q for a, q in out if a != 3]
        random.Random(seed).shuffle(rest)
        return keep + rest[:max(0, limit - len(keep))]
    return [q for _a, q in out]


def warm(app):
    """reads issued WHILE a state is being built (answers discarded): whatever a process remembers from answering them
    (caches of names, of "are there provider trees", ...) must not survive into answers about the later state"""
    for path in ('/allocation_candidates?resources=VCPU:1', '/allocation_candidates?resources=VCPU:1,DISK_GB:1',
                 '/resource_providers?resources=VCPU:1', '/resource_providers'):
        app.request('GET', path, version='1.39', headers={'x-roles': 'admin,service'})


def build_fixed(op_list):
    app = impl.App()
    done = []
    warm(app)
    for op in op_list:
        r, _obs = hist.observe(app, op)
        warm(app)
        assert r.status < 300, ('fixed candidate state: set-up request failed', op, r.status, r.body[:200])
        done.append(op)
    return app, Built(done, ops.canon_dump(app.raw_dump()), [0, 1, 2])


# ------------------------------------------------------------------ (ii) queries
def _pick_amount(rng, b, rc, u=None):
    """mostly satisfiable amounts (a valid multiple of step_size of some provider's inventory);
    sometimes at / beyond the free capacity of some provider"""
    rows = [inv for w in b.st.invs for r, inv in b.st.invs[w].items() if r == rc and (u is None or w == u)]
    if not rows:
        return rng.choice([1, 1, 2, 3])
    inv = rng.choice(rows)
    cap = int((inv[2] - inv[3]) * (inv[7] * 2.0 ** inv[8]))
    free = cap - b.st.used(inv[0], rc)
    if rng.random() < 0.07:
        return max(1, free + rng.choice([0, 0, -1, 1, -2]))
    step, lo = inv[6], inv[4]
    valid = [x for x in range(step, max(step, min(free, 12)) + 1, step) if x >= lo]
    if valid and rng.random() < 0.85:
        return rng.choice(valid[:3])
    return rng.choice([1, 1, 1, 2, 2, 3, 4, 6])


def _pick_classes(rng, b, s, k, tree=None):
    """classes (with a witness provider or None) that one provider (suffixed group) or one tree
    (unsuffixed group) actually has, most of the time"""
    invs = b.st.invs
    if invs and rng.random() < 0.8:
        u = rng.choice(sorted(w for w in invs if tree is None or b.st.rps[w][4] == tree) or sorted(invs))
        if s != 0:
            have = sorted(invs[u])
            return [(rc, u) for rc in rng.sample(have, min(k, len(have)))]
        root = b.st.rps[u][4]
        have = sorted(set((rc, w) for w in invs if b.st.rps[w][4] == root for rc in invs[w]))
        out = {}
        for rc, w in rng.sample(have, len(have)):
            out.setdefault(rc, w)
        return list(out.items())[:k]
    pool = sorted(set(rc for u in invs for rc in invs[u])) or b.classes
    if rng.random() < 0.1:
        pool = b.classes
    return [(rc, None) for rc in rng.sample(pool, min(k, len(pool)))]


def _traits_of(b, u):
    return [row[1] for row in b.dump[11] if row[0] == u]


def _aggs_of(b, u):
    return [row[1] for row in b.dump[10] if row[0] == u]


def _gen_traits(rng, v, p_req=0.2, p_forb=0.15, b=None, wit=None):
    """required any-of lists / forbidden traits; mostly consistent with the witness provider(s)"""
    required, forbidden = [], []
    pool = [T_AVX, T_SSD, T_CUSTOM, MISC]
    has = sorted(set(t for u in (wit or []) for t in _traits_of(b, u)))
    hasnt = [t for t in pool if t not in has]
    if v >= 17 and rng.random() < p_req:
        for _ in range(rng.choice([1, 1, 2])):
            base = has if has and rng.random() < 0.75 else pool
            if v >= 39 and rng.random() < 0.4:
                required.append(sorted(set([rng.choice(base)] + rng.sample(pool, rng.choice([1, 2])))))
                if len(required[-1]) == 1:
                    required[-1] = sorted(rng.sample(pool, 2))
            else:
                required.append([rng.choice(base if rng.random() < 0.97 else [T_UNKNOWN])])
    if v >= 22 and rng.random() < p_forb:
        base = hasnt if hasnt and rng.random() < 0.75 else pool
        forbidden = sorted(set(rng.choice(base if rng.random() < 0.97 else [T_UNKNOWN])
                               for _ in range(rng.choice([1, 1, 2]))))
    return required, forbidden


def _gen_aggs(rng, v, v_member, v_multi, p=0.18, b=None, wit=None):
    member_of, forbidden = [], []
    pool = AGGS + [4]
    has = sorted(set(a for u in (wit or []) for a in _aggs_of(b, u)))
    hasnt = [a for a in pool if a not in has]
    if v >= v_member and rng.random() < p:
        for _ in range(2 if v >= v_multi and rng.random() < 0.3 else 1):
            l = set(rng.sample(pool, rng.choice([1, 1, 2])))
            if has and rng.random() < 0.75:
                l = set([rng.choice(has)]) | (l if rng.random() < 0.4 else set())
            member_of.append(sorted(l))
    if v >= 32 and rng.random() < 0.1:
        base = hasnt if hasnt and rng.random() < 0.75 else pool
        forbidden = sorted(rng.sample(base, min(len(base), rng.choice([1, 1, 2]))))
    return member_of, forbidden


def gen_cand_query(rng, b):
    v = V if rng.random() < 0.35 else rng.choice([rng.randint(10, 39), rng.randint(29, 39)])
    n_suff = rng.choice([0, 0, 0, 1, 1, 2, 2, 3]) if v >= 25 else 0
    unsuffixed = v < 25 or n_suff == 0 or rng.random() < 0.8
    groups = []
    suffixes = ([0] if unsuffixed else []) + rng.sample([1, 2, 3], n_suff)
    # all groups look at one tree most of the time, so that merging them can succeed
    tree = b.st.rps[rng.choice(b.providers)][4] if b.providers and rng.random() < 0.8 else None
    damp = 1.0 / len(suffixes)
    # sharing scenario: the unsuffixed group takes one class from a sharing provider and the rest from a
    # tree associated with it through an aggregate
    sharers = [u for u in b.providers if MISC in _traits_of(b, u) and u in b.st.invs and _aggs_of(b, u)]
    scenario = None
    if sharers and rng.random() < 0.3:
        sp = rng.choice(sharers)
        mates = sorted(set(b.st.rps[w][4] for w in b.providers
                           if w != sp and set(_aggs_of(b, w)) & set(_aggs_of(b, sp))))
        if mates:
            tree = rng.choice(mates)
            scenario = sp
    # the group that takes a class from the sharing provider: mostly the unsuffixed one, sometimes a suffixed one
    scen_group = 0
    if scenario is not None and (0 not in suffixes or rng.random() < 0.35):
        scen_group = rng.choice(suffixes)
    for s in suffixes:
        k = rng.choice([1, 1, 2, 2, 3]) if s == 0 else rng.choice([1, 1, 1, 2])
        picked = _pick_classes(rng, b, s, k, tree)
        if s != 0 and s == scen_group and scenario is not None:
            rc = rng.choice(sorted(b.st.invs[scenario]))
            picked = [(rc, scenario)]               # a suffixed group lives on one provider: the sharing one
        if s == 0 and s == scen_group and scenario is not None:
            rc = rng.choice(sorted(b.st.invs[scenario]))
            picked = [(rc, scenario)] + [(c, w) for c, w in picked if c != rc][:2]
            if rng.random() < 0.3:
                picked = picked[:1]              # everything from the sharing provider
        resources = [(rc, _pick_amount(rng, b, rc, w)) for rc, w in picked]
        wit = sorted(set(w for _rc, w in picked if w is not None))
        if rng.random() < 0.015:
            resources[0] = (RC_UNKNOWN, 1)
        required, forbidden = _gen_traits(rng, v, 0.25 * damp, 0.2 * damp, b, wit)
        member_of, forbidden_aggs = _gen_aggs(rng, v, 21, 24, 0.22 * damp, b,
                                              wit + [b.st.rps[w][4] for w in wit])
        if s == 0 and scenario is not None and v >= 21 and rng.random() < 0.4:
            # aggregates of the anchor tree (its root spans the tree), not necessarily of the sharing provider
            member_of, forbidden_aggs = _gen_aggs(rng, v, 21, 24, 1.0, b, [tree])
        if s == 0 and scenario is not None and scen_group != 0 and v >= 21 and tree is not None and rng.random() < 0.6:
            # the sharing provider serves a SUFFIXED group; the unsuffixed group is restricted to an aggregate of the anchor tree
            # that the sharing provider is not in (whatever narrows "the sharing providers" for one group must not leak into another)
            only_tree = sorted(set(_aggs_of(b, tree)) - set(_aggs_of(b, scenario)))
            if only_tree:
                member_of, forbidden_aggs = [[rng.choice(only_tree)]], []
        in_tree = None
        if v >= 31 and rng.random() < (0.25 if s == 0 and scenario is not None else 0.12 * damp):
            in_tree = rng.choice(wit or b.providers) if rng.random() < 0.93 else 9
            if s == 0 and scenario is not None and rng.random() < 0.5:
                in_tree = scenario
        if s != 0 and v >= 36 and rng.random() < 0.15:
            resources = []                       # resourceless group: needs some other key + same_subtree
            kind = rng.choice(['keep', 'required', 'forbidden', 'member_of', 'in_tree', 'forbidden_aggs'])
            w1 = wit or b.providers
            if kind == 'required':
                required, forbidden, member_of, forbidden_aggs, in_tree = [[rng.choice(_traits_of(b, w1[0]) or [T_AVX])]], [], [], [], None
            elif kind == 'forbidden':
                required, forbidden, member_of, forbidden_aggs, in_tree = [], [rng.choice([T_AVX, T_SSD, T_CUSTOM])], [], [], None
            elif kind == 'member_of':
                required, forbidden, member_of, forbidden_aggs, in_tree = [], [], [[rng.choice(_aggs_of(b, w1[0]) or AGGS)]], [], None
            elif kind == 'in_tree':
                required, forbidden, member_of, forbidden_aggs, in_tree = [], [], [], [], rng.choice(w1)
            elif kind == 'forbidden_aggs':
                required, forbidden, member_of, forbidden_aggs, in_tree = [], [], [], [rng.choice(AGGS)], None
            if not (required or forbidden or member_of or forbidden_aggs or in_tree is not None):
                required = [[rng.choice([T_AVX, T_SSD, T_CUSTOM])]]
        groups.append({'suffix': s, 'resources': resources, 'required': required, 'forbidden': forbidden,
                       'member_of': member_of, 'forbidden_aggs': forbidden_aggs, 'in_tree': in_tree})
    # twin groups: two suffixed groups asking for the same classes and amounts under different filters
    # (anything keyed by (class, amount) alone must not leak from one group into the other)
    suff = [gr for gr in groups if gr['suffix'] != 0 and gr['resources']]
    if len(suff) >= 2 and rng.random() < 0.3:
        a, c = suff[0], suff[1]
        c['resources'] = list(a['resources'])
        if v >= 31 and b.providers:
            roots = sorted(set(b.st.rps[u][4] for u in b.providers))
            ta = rng.choice(roots)
            tc = rng.choice([r for r in roots if r != ta] or roots)
            pick = lambda root: rng.choice([u for u in b.providers if b.st.rps[u][4] == root])       # noqa: E731
            kind = rng.random()
            a['in_tree'] = pick(ta) if kind < 0.8 else None
            c['in_tree'] = pick(tc) if kind > 0.2 else None
    if rng.random() < 0.3:
        rng.shuffle(groups)
    policy = 'absent'
    if v >= 25:
        if n_suff > 1:
            policy = rng.choice(['none'] * 9 + ['isolate'] * 6 + ['absent'])
        else:
            policy = rng.choice(['absent', 'absent', 'none', 'isolate'])
    root_required, root_forbidden = [], []
    if v >= 35 and rng.random() < (0.35 if scenario is not None else 0.1):
        rt = _traits_of(b, tree) if tree is not None else []
        if rng.random() < 0.6:
            root_required = [rng.choice(rt if rt and rng.random() < 0.7 else [T_AVX, T_SSD, T_CUSTOM, MISC])]
        if rng.random() < 0.5 or not root_required:
            root_forbidden = [rng.choice([T_AVX, T_SSD, T_CUSTOM, MISC])]
    if scenario is not None and scen_group != 0 and v >= 35 and rng.random() < 0.5:
        # the documented use of root_required: "do not anchor a candidate on a sharing provider" - the sharing provider
        # serving a suffixed group fails the filter itself, the trees it shares with do not
        root_required, root_forbidden = [], [MISC]
        if rng.random() < 0.4:
            rt = [t for t in _traits_of(b, tree) if t not in _traits_of(b, scenario)] if tree is not None else []
            if rt:
                root_required, root_forbidden = [rng.choice(rt)], []
    same_subtree = []
    suffixed = [s for s in suffixes if s != 0]
    resourceless = [gr['suffix'] for gr in groups if not gr['resources']]
    if v >= 36 and suffixed and (resourceless or rng.random() < 0.3):
        first = set(resourceless) | set(rng.sample(suffixed, rng.randint(1, len(suffixed))))
        same_subtree.append(sorted(first))
        if len(suffixed) > 1 and rng.random() < 0.2:
            same_subtree.append(sorted(rng.sample(suffixed, 2)))
    q = {'kind': 'cand', 'v': v, 'groups': groups, 'policy': policy, 'root_required': root_required,
         'root_forbidden': root_forbidden, 'same_subtree': same_subtree,
         'verbose': v >= 33 and rng.random() < 0.3, 'split_required': rng.random() < 0.5}
    if rng.random() < 0.04:
        q['v'] = rng.randint(10, v)              # parameters that may not exist at that version: 400
        if q['v'] < 33:
            q['verbose'] = False
    return q


def gen_list_query(rng, b):
    v = V if rng.random() < 0.3 else rng.choice([0, 2, 3, 4, 10, 13, 14, 17, 18, 21, 22, 23, 24, 30, 31, 32, 38, 39])
    f = {'kind': 'list', 'v': v, 'name': None, 'uuid': None, 'in_tree': None, 'member_of': [], 'forbidden_aggs': [],
         'required': [], 'forbidden': [], 'resources': [], 'split_required': rng.random() < 0.5}
    if rng.random() < 0.15:
        f['name'] = rng.choice(['empty', rng.choice(b.providers), rng.choice(b.providers), 9])
    if rng.random() < 0.1:
        f['uuid'] = rng.choice(b.providers + [9])
    if v >= 14 and rng.random() < 0.25:
        f['in_tree'] = rng.choice(b.providers) if rng.random() < 0.9 else 9
    f['member_of'], f['forbidden_aggs'] = _gen_aggs(rng, v, 3, 24, p=0.35)
    f['required'], f['forbidden'] = _gen_traits(rng, v if v >= 18 else 0, p_req=0.35, p_forb=0.25)
    if v >= 4 and rng.random() < 0.5:
        have = sorted(set(rc for u in b.st.invs for rc in b.st.invs[u])) or b.classes
        rcs = rng.sample(have, min(rng.choice([1, 1, 2, 3, 3, 4]), len(have)))
        if rng.random() < 0.02:
            rcs[0] = RC_UNKNOWN
        f['resources'] = [(rc, _pick_amount(rng, b, rc)) for rc in rcs]
    if rng.random() < 0.04:
        f['v'] = rng.choice([0, 2, 3, 4, 13, 17, 21, 23, 31])
    return f


# ------------------------------------------------------------------ (iii) encoders
def suffix_str(q, s):
    if s == 0:
        return ''
    return ('_G%d' % s) if q.get('verbose') else str(s)


def suffix_tok(key):
    if key == '':
        return 0
    return int(key[2:]) if key.startswith('_G') else int(key)


def rc_qname(rc):
    return 'CUSTOM_N7' if rc == RC_UNKNOWN else ops.rc_name(rc)


def _required_params(key, required, forbidden, v, split):
    """-> [(key, value)]; any-of lists need their own `in:` parameter (1.39)"""
    singles = [ops.trait_name_or_unknown(a[0]) for a in required if len(a) == 1]
    multis = [a for a in required if len(a) > 1]
    forb = ['!' + ops.trait_name_or_unknown(t) for t in forbidden]
    out = []
    if v >= 39 and split and len(singles) + len(forb) > 1:
        out += [(key, x) for x in singles + forb]        # repeated parameter
    elif singles or forb:
        out.append((key, ','.join(singles + forb)))
    for a in multis:
        out.append((key, 'in:' + ','.join(ops.trait_name_or_unknown(t) for t in a)))
    return out


def _member_of_params(key, member_of, forbidden_aggs):
    out = []
    for a in member_of:
        us = [ops.uuid_of(x, ops.K_AGG) for x in a]
        out.append((key, us[0] if len(us) == 1 else 'in:' + ','.join(us)))
    if forbidden_aggs:
        us = [ops.uuid_of(x, ops.K_AGG) for x in forbidden_aggs]
        out.append((key, '!' + us[0] if len(us) == 1 else '!in:' + ','.join(us)))
    return out


def query_http(q):
    """-> (path with query string, version string)"""
    params = []
    v = q['v']
    if q['kind'] == 'cand':
        for gr in q['groups']:
            s = suffix_str(q, gr['suffix'])
            if gr['resources']:
                params.append(('resources' + s, ','.join('%s:%d' % (rc_qname(rc), a) for rc, a in gr['resources'])))
            params += _required_params('required' + s, gr['required'], gr['forbidden'], v, q['split_required'])
            params += _member_of_params('member_of' + s, gr['member_of'], gr['forbidden_aggs'])
            if gr['in_tree'] is not None:
                params.append(('in_tree' + s, ops.uuid_of(gr['in_tree'])))
        if q['policy'] != 'absent':
            params.append(('group_policy', q['policy']))
        if q['root_required'] or q['root_forbidden']:
            params.append(('root_required', ','.join([ops.trait_name_or_unknown(t) for t in q['root_required']] +
                                                     ['!' + ops.trait_name_or_unknown(t) for t in q['root_forbidden']])))
        for sst in q['same_subtree']:
            params.append(('same_subtree', ','.join(suffix_str(q, s) for s in sst)))
        path = '/allocation_candidates'
    else:
        if q['name'] is not None:
            params.append(('name', '' if q['name'] == 'empty' else ops.rp_name(q['name'])))
        if q['uuid'] is not None:
            params.append(('uuid', ops.uuid_of(q['uuid'])))
        if q['in_tree'] is not None:
            params.append(('in_tree', ops.uuid_of(q['in_tree'])))
        params += _member_of_params('member_of', q['member_of'], q['forbidden_aggs'])
        params += _required_params('required', q['required'], q['forbidden'], v, q['split_required'])
        if q['resources']:
            params.append(('resources', ','.join('%s:%d' % (rc_qname(rc), a) for rc, a in q['resources'])))
        path = '/resource_providers'
    qs = '&'.join('%s=%s' % (k, val.replace('!', '%21').replace(':', '%3A').replace(',', '%2C')) for k, val in params)
    return path + ('?' + qs if qs else ''), ops.ver(v)


def _zl(l):
    return ops.lst(ops.z(x) for x in l)


def _zll(ll):
    return ops.lst(_zl(l) for l in ll)


def _res_coq(b, res):
    return ops.lst('(%s, %s)' % (ops.z(b.rcid(rc)), ops.z(a)) for rc, a in res)


def query_coq(q, b):
    if q['kind'] == 'cand':
        gs = ops.lst('(mkGroup %s %s %s %s %s %s %s)' % (
            ops.z(gr['suffix']), _res_coq(b, gr['resources']), _zll(gr['required']), _zl(gr['forbidden']),
            _zll(gr['member_of']), _zl(gr['forbidden_aggs']), ops.oz(gr['in_tree'])) for gr in q['groups'])
        pol = {'absent': 'GPAbsent', 'none': 'GPNone', 'isolate': 'GPIsolate'}[q['policy']]
        return '(mkQuery %s %s None %s %s %s)' % (gs, pol, _zl(q['root_required']), _zl(q['root_forbidden']),
                                                  _zll(q['same_subtree']))
    name = 'NameAbsent' if q['name'] is None else 'NameEmpty' if q['name'] == 'empty' else '(NameIs %s)' % ops.z(q['name'])
    return '(mkRpFilters %s %s %s %s %s %s %s %s)' % (
        name, ops.oz(q['uuid']), ops.oz(q['in_tree']), _zll(q['member_of']), _zl(q['forbidden_aggs']),
        _zll(q['required']), _zl(q['forbidden']), _res_coq(b, q['resources']))


# ------------------------------------------------------------------ (iv) canonical responses
def canon_candidates(j, b, v):
    """-> (sorted allocation requests [(allocs rows, mapping rows)], sorted summaries)"""
    areqs = []
    for ar in j['allocation_requests']:
        rows = []
        al = ar['allocations']
        if isinstance(al, dict):
            for u, body in al.items():
                for rc, amt in body['resources'].items():
                    rows.append([ops.tok_of_uuid(u), b.rcid_of_name(rc), amt])
        else:
            seen_u = set()
            for x in al:
                u = ops.tok_of_uuid(x['resource_provider']['uuid'])
                if u in seen_u:
                    rows.append([u, -7, 0])        # a provider in two entries of the list form: never equal to a model answer
                seen_u.add(u)
                for rc, amt in x['resources'].items():
                    rows.append([u, b.rcid_of_name(rc), amt])
        maps = sorted([suffix_tok(k), sorted(ops.tok_of_uuid(u) for u in us)] for k, us in ar.get('mappings', {}).items())
        areqs.append([sorted(rows), maps])
    sums = []
    for u, s in j['provider_summaries'].items():
        par = s.get('parent_provider_uuid')
        sums.append([ops.tok_of_uuid(u),
                     sorted([b.rcid_of_name(rc), x['capacity'], x['used']] for rc, x in s['resources'].items()),
                     sorted(ops.trait_tok(t) for t in s.get('traits', [])),
                     None if par is None else ops.tok_of_uuid(par),
                     ops.tok_of_uuid(s['root_provider_uuid']) if 'root_provider_uuid' in s else -1])
    return sorted(areqs), sorted(sums, key=lambda x: x[0])


def observed_coq(q, obs):
    """obs: ('err', status) | ('cand', areqs, sums) | ('list', [tokens])"""
    if q['kind'] == 'list':
        return 'None' if obs[0] == 'err' else '(Some %s)' % _zl(obs[1])
    if obs[0] == 'err':
        return 'CKeyError' if obs[1] == 500 else '(CErr %d)' % obs[1]
    areqs = ops.lst('(mkCreq (-1) %s %s)' % (
        ops.lst('(mkRreq %s %s %s)' % tuple(ops.z(x) for x in row) for row in rows),
        ops.lst('(%s, %s)' % (ops.z(k), _zl(us)) for k, us in maps)) for rows, maps in obs[1])
    sums = ops.lst('(mkPsum %s %s %s %s %s)' % (
        ops.z(s[0]), ops.lst('(%s, %s, %s)' % tuple(ops.z(x) for x in r) for r in s[1]), _zl(s[2]),
        ops.oz(s[3]), ops.z(s[4])) for s in obs[2])
    return '(COk %s %s)' % (areqs, sums)


def ask(app, b, q):
    path, ver = query_http(q)
    r = app.request('GET', path, version=ver, headers={'x-roles': 'admin,service'})
    if r.status != 200:
        return ('err', r.status), r
    if q['kind'] == 'list':
        return ('list', sorted(ops.tok_of_uuid(x['uuid']) for x in r.json['resource_providers'])), r
    areqs, sums = canon_candidates(r.json, b, q['v'])
    return ('cand', areqs, sums), r


# ------------------------------------------------------------------ (v) driver
CODES = {0: 'agree', 1: 'DISAGREE',
         2: 'order-dependent (anchor de-duplication), observed = all-anchors result',
         4: 'order-dependent (anchor de-duplication), observed LOST candidates (subset of all-anchors result)',
         9: 'STATE DUMP DIFFERS'}


def ops_coq(b):
    """the state's op list as Coq terms (custom class ids resolved through the final dump)"""
    return ops.lst(ops.op_coq(op, b.rcmap) for op in b.ops)


def write_cases(path, states):
    """states: [(Built, [(query, observed)])]; Coq prints, per state, the dump check then one code per case"""
    with open(path, 'w') as f:
        f.write('From PV Require Import Spec.CandSpec Proofs.C03x.\n')
        f.write('Definition cf := mkCfg 0 0.\n')
        names = []
        for k, (b, cases) in enumerate(states):
            f.write('Definition d%d := Eval vm_compute in run cf db0 %s.\n' % (k, ops_coq(b)))
            items = ['(if dump_eqb (dump d%d) %s then 0 else 9)' % (k, ops.dump_coq(b.dump))]
            for q, obs in cases:
                if q['kind'] == 'cand':
                    qc = query_coq(q, b)
                    items.append('cand_check (candidates %d %s d%d) (candidates_all_anchors %d %s d%d) %s' % (
                        q['v'], qc, k, q['v'], qc, k, observed_coq(q, obs)))
                    # third party: the brute-force specification against the model (all anchors kept)
                    items.append('spec_check %d (candidates_all_anchors %d %s d%d) (spec_candidates %d %s d%d)' % (
                        q['v'], q['v'], qc, k, q['v'], qc, k))
                    # the two conditions of C03_exact_sharing (outside them the code is known to omit candidates)
                    items.append('((if in_tree_hyp %s d%d then 0 else 1) + (if forbidden_aggs_hyp %s d%d then 0 else 2))' % (qc, k, qc, k))
                else:
                    items.append('list_check (list_rps_result %d %s d%d) %s' % (q['v'], query_coq(q, b), k,
                                                                             observed_coq(q, obs)))
            f.write('Definition r%d : list Z := Eval vm_compute in [\n  %s].\n' % (k, ';\n  '.join(items)))
            names.append('r%d' % k)
        f.write('Definition results : list Z := %s.\n' % ' ++ '.join(names or ['[]']))
        f.write('Eval vm_compute in results.\n')


def model_answer(b, q, workdir='/tmp', spec=False):
    """debugging: the model's full answer to one query"""
    import subprocess
    path = os.path.join(workdir, 'cand_debug.v')
    with open(path, 'w') as f:
        f.write('From PV Require Import Spec.CandSpec.\nDefinition cf := mkCfg 0 0.\n')
        f.write('Definition d := Eval vm_compute in run cf db0 %s.\n' % ops_coq(b))
        if q['kind'] == 'cand':
            f.write('Eval vm_compute in candidates %d %s d.\n' % (q['v'], query_coq(q, b)))
            if spec:
                f.write('Eval vm_compute in map (creq_view %d) (spec_candidates %d %s d).\n' % (
                    q['v'], q['v'], query_coq(q, b)))
        else:
            f.write('Eval vm_compute in list_rps_result %d %s d.\n' % (q['v'], query_coq(q, b)))
    p = subprocess.run(['coqc', '-Q', coqrun.COQDIR, 'PV', path], capture_output=True, text=True, cwd=workdir)
    return p.stdout + p.stderr


LAST_STATS = {}
SWEEP_LIMIT = 700          # listings of the systematic sweep per run (None: all 2 592, 0: none); set by checks_cand per tier


def classify_spec_diff(q, obs, hyp):
    """the two conditions outside which the code is known to omit candidates (theorem C03_exact_sharing: inside them, in a
    reachable state, a 200 answer IS the specification's set), evaluated in Coq for this query and state:
    hyp & 1: in_tree on the unsuffixed group pins the anchor tree while a sharing provider of that tree shares with another
    tree; hyp & 2: a forbidden aggregate of the unsuffixed group contains the root of a tree a sharing provider shares with
    (the code excludes the sharing provider under that anchor, the property's text only looks at the provider itself).
    (the former classes A/B - resourceless groups - are repaired by 374fac3: a reappearance is UNCLASSIFIED)"""
    if hyp & 1:
        return 'in-tree-pins-anchor'
    if hyp & 2:
        return 'forbidden-aggs-anchor-root'
    return 'UNCLASSIFIED'


SPEC_CODES = {0: 'spec = model', 5: 'SPEC DIFFERS FROM MODEL', 6: 'model gives no candidate list'}
SPEC_DIFFS = []


def run(seed, n_states, n_queries, shard=20, workdir=None, verbose=True, keep=False, max_spec_print=6,
        p_cand=0.7, on_answer=None):
    """-> list of disagreements (dicts with the state's ops and dump, the query, its HTTP form, the observed
    canonical answer and the model's answer); statistics of the run are left in LAST_STATS"""
    rng = random.Random(seed)
    workdir = workdir or tempfile.mkdtemp(prefix='pvcand')
    os.makedirs(workdir, exist_ok=True)
    states = []
    if p_cand > 0:
        for op_list, queries in FIXED_CASES:
            app, b = build_fixed(op_list)
            cases = []
            for q in queries:
                obs, r = ask(app, b, q)
                if on_answer is not None:
                    on_answer(app, b, q, obs, r)
                cases.append((q, obs))
            app.close()
            states.append((b, cases))
    if p_cand < 1:
        for op_list, queries in FIXED_LIST_CASES:
            app, b = build_fixed(op_list)
            cases = []
            for q in queries:
                obs, r = ask(app, b, q)
                if on_answer is not None:
                    on_answer(app, b, q, obs, r)
                cases.append((q, obs))
            app.close()
            states.append((b, cases))
    if p_cand < 1 and SWEEP_LIMIT != 0:
        qs = sweep_queries(SWEEP_LIMIT, seed)
        for k in range(0, len(qs), 120):
            app, b = build_fixed(SWEEP_STATE)
            cases = []
            for q in qs[k:k + 120]:
                obs, r = ask(app, b, q)
                cases.append((q, obs))
            app.close()
            states.append((b, cases))
    for _ in range(n_states):
        app, b = build_state(rng)
        cases = []
        for _ in range(n_queries):
            q = gen_cand_query(rng, b) if rng.random() < p_cand else gen_list_query(rng, b)
            obs, r = ask(app, b, q)
            if on_answer is not None:
                on_answer(app, b, q, obs, r)      # implementation-side oracles while the state is alive
            cases.append((q, obs))
        app.close()
        states.append((b, cases))
    bad = []
    counts = {}
    spec_counts = {}
    spec_bad = []
    spec_classes = {}
    # the model side: one Coq file per shard of states, evaluated in parallel
    from concurrent.futures import ThreadPoolExecutor
    paths = {}
    for k in range(0, len(states), shard):
        paths[k] = os.path.join(workdir, 'cand_cases_%d.v' % k)
        write_cases(paths[k], states[k:k + shard])
    with ThreadPoolExecutor(max_workers=int(os.environ.get('VERIF_JOBS', '8'))) as ex:
        results = dict(zip(paths, ex.map(lambda kk: coqrun.run_coq(paths[kk], timeout=3000), list(paths))))
    for k in range(0, len(states), shard):
        part = states[k:k + shard]
        path = paths[k]
        res = results[k]
        assert len(res) == sum(1 + len(c) + 2 * sum(1 for q, _o in c if q['kind'] == 'cand') for _b, c in part), len(res)
        pos = 0
        for i, (b, cases) in enumerate(part):
            if res[pos] != 0:
                bad.append({'state': k + i, 'query': None, 'code': CODES[9], 'ops': b.ops, 'dump': b.dump})
            pos += 1
            for j, (q, obs) in enumerate(cases):
                code = res[pos]
                pos += 1
                counts[code] = counts.get(code, 0) + 1
                if q['kind'] == 'cand':
                    sc = res[pos]
                    hyp = res[pos + 1]
                    pos += 2
                    key = (SPEC_CODES[sc], 'impl: ' + ('500' if obs == ('err', 500) else
                                                     '400' if obs[0] == 'err' else CODES[code].split(',')[0]))
                    spec_counts[key] = spec_counts.get(key, 0) + 1
                    if sc == 5:
                        cls = classify_spec_diff(q, obs, hyp)
                        spec_classes[cls] = spec_classes.get(cls, 0) + 1
                        spec_bad.append({'class': cls, 'state': k + i, 'query': j, 'impl_vs_model': CODES[code], 'q': q,
                                         'http': query_http(q), 'observed': obs, 'ops': b.ops, 'dump': b.dump,
                                         'b': b})
                if code == 1:
                    bad.append({'state': k + i, 'query': j, 'code': CODES[1], 'q': q, 'http': query_http(q),
                                'observed': obs, 'coq_query': query_coq(q, b), 'ops': b.ops, 'dump': b.dump,
                                'model': model_answer(b, q, workdir)[-3000:]})
        if not keep:
            for ext in ('.v', '.vo', '.vok', '.vos', '.glob'):
                try:
                    os.remove(path[:-2] + ext)
                except OSError:
                    pass
            try:
                os.remove(os.path.join(workdir, '.cand_cases_%d.aux' % k))
            except OSError:
                pass
    allq = [(q, obs) for _b, cases in states for q, obs in cases]
    counts500 = sum(1 for q, obs in allq if q['kind'] == 'cand' and obs == ('err', 500))
    cand = [(q, obs) for q, obs in allq if q['kind'] == 'cand']
    stats = {
        'states': len(states), 'cases': len(allq), 'candidate_queries': len(cand),
        'listing_queries': len(allq) - len(cand),
        'cand_nonempty': sum(1 for q, obs in cand if obs[0] == 'cand' and obs[1]),
        'cand_200_empty': sum(1 for q, obs in cand if obs[0] == 'cand' and not obs[1]),
        'cand_400': sum(1 for q, obs in cand if obs == ('err', 400)),
        'cand_500': sum(1 for q, obs in cand if obs == ('err', 500)),
        'list_nonempty': sum(1 for q, obs in allq if q['kind'] == 'list' and obs[0] == 'list' and obs[1]),
        'list_400': sum(1 for q, obs in allq if q['kind'] == 'list' and obs[0] == 'err'),
        'codes': {CODES[c]: n for c, n in sorted(counts.items())},
        'model_vs_spec': {' / '.join(k): n for k, n in sorted(spec_counts.items())},
        'spec_difference_classes': spec_classes,
        'named_classes': {'in-tree-pins-anchor': spec_classes.get('in-tree-pins-anchor', 0),
                          'forbidden-aggs-anchor-root': spec_classes.get('forbidden-aggs-anchor-root', 0),
                          'nested-sharing-keyerror': counts500,
                          'anchor-dedup': counts.get(2, 0) + counts.get(4, 0)},
        'known_finding_anchor_dedup_cases': counts.get(2, 0) + counts.get(4, 0),
        'multi_group': sum(1 for q, _o in cand if len(q['groups']) > 1),
        'versions': len(set(q['v'] for q, _o in allq)),
    }
    if verbose:
        print(json.dumps(stats, indent=1))
        for d in bad[:10]:
            print('-' * 70)
            for key in ('state', 'query', 'code', 'http', 'q', 'observed', 'model', 'ops'):
                if key in d:
                    print('%s: %s' % (key, d[key]))
        for d in [x for x in spec_bad if x['class'] == 'UNCLASSIFIED'][:max_spec_print]:
            print('=' * 70)
            print('MODEL (= implementation: %s) DIFFERS FROM SPEC' % d['impl_vs_model'])
            for key in ('state', 'query', 'http', 'observed'):
                print('%s: %s' % (key, d[key]))
            print('providers', [(r[0], r[3], r[4]) for r in d['dump'][0]], 'inv', [r[:7] for r in d['dump'][1]],
                  'allocs', d['dump'][2], 'aggs', d['dump'][10], 'traits', d['dump'][11])
            print(model_answer(d['b'], d['q'], workdir, spec=True)[-2500:])
        print('seed %d: %d cases compared, %d disagreements impl/model, %d differences model/spec' % (
            seed, len(allq), len(bad), len(spec_bad)))
    SPEC_DIFFS[:] = spec_bad
    LAST_STATS.clear()
    LAST_STATS.update(stats)
    return bad


def replay_witnesses(path=None):
    """replay spec/c03_witnesses.json on the real application: every `expected_missing` candidate is a
    candidate of the specification that the implementation must (still) fail to return.
    -> {key: True if the finding is still present}"""
    path = path or os.path.join(os.path.dirname(coqrun.COQDIR), 'spec', 'c03_witnesses.json')
    wit = json.load(open(path))
    out = {}
    for key, w in wit.items():
        if key.startswith('_'):
            continue
        app = impl.App()
        for op in w['ops']:
            r, _obs = hist.observe(app, tuple(op))
            assert r.status < 300, (key, op, r)
        b = Built([tuple(op) for op in w['ops']], ops.canon_dump(app.raw_dump()), [0, 1, 2])
        r = app.request('GET', w['http'], version=w['version'], headers={'x-roles': 'admin,service'})
        assert r.status == 200, (key, r)
        got, _sums = canon_candidates(r.json, b, int(w['version'].split('.')[1]))
        spec = sorted(w['spec_candidates'])
        missing = [c for c in spec if c not in got]
        out[key] = bool(missing) and all(c in spec for c in got)
        app.close()
    return out


if __name__ == '__main__':
    a = [int(x) for x in sys.argv[1:4]]
    out = run(a[0] if a else 1, a[1] if len(a) > 1 else 60, a[2] if len(a) > 2 else 25)
    sys.exit(1 if out else 0)
