"""Checks of the read-path properties C13 (provider listing filters), C03 (allocation candidates are exactly the valid
combinations) and C02 (every candidate can be claimed as returned).

Coq side: Model/Candidates.v follows the search pipeline of the code; Spec/CandSpec.v is the declarative reading of
the properties; Proofs/C13.v proves model = specification for listings, Proofs/C03*.v prove the specification
enumerator sound/complete/distinct w.r.t. `valid`, the per-group matching step of the code model, and the two
refutations (`c03_refuted_*`: inputs on which the faithful model differs from the specification);
Proofs/C02*.v prove the claimability facts.
Tie: harness/cand.py builds states through the real API, asks the real application and evaluates model AND
specification on the same state and query inside Coq (three-way).  C02 additionally claims every returned candidate
on the real application."""
import collections
import json
import os
import random

from harness import cand
from harness import common
from harness import gen
from harness import ops

MODEL = ['Gen/GenConsts.v', 'Model/Base.v', 'Model/Tables.v', 'Model/Txn.v', 'Model/Handlers.v', 'Model/Candidates.v',
         'Spec/CandSpec.v']
DEPS = {'C13': MODEL + ['Proofs/C13.v', 'Model/Parse.v', 'Model/Json.v', 'Gen/GenSchemas.v', 'Spec/Fields.v', 'Model/DecodeQ.v',
                        'Proofs/C13q.v'],
        'C03': MODEL + ['Proofs/C03.v', 'Proofs/C03r.v', 'Proofs/C03e.v', 'Proofs/C03s.v', 'Proofs/C03c.v', 'Model/Parse.v', 'Model/Json.v',
                        'Gen/GenSchemas.v', 'Spec/Fields.v', 'Model/DecodeQ.v', 'Model/DecodeQC.v', 'Proofs/C03q.v'],
        'C02': MODEL + ['Proofs/C02.v', 'Proofs/C02m.v', 'Proofs/C02c.v']}
BUDGET = {'quick': {'C13': (40, 25), 'C03': (64, 25), 'C02': (40, 20)},
          'thorough': {'C13': (200, 40), 'C03': (240, 30), 'C02': (160, 25)}}
P_CAND = {'C13': 0.0, 'C03': 1.0, 'C02': 1.0}
SVC = {'x-roles': 'admin,service'}
KNOWN_CLASSES = ('in-tree-pins-anchor', 'forbidden-aggs-anchor-root', 'nested-sharing-keyerror', 'anchor-dedup')


def known(pid, pattern):
    for f in common.load_known():
        if f.get('kind') == 'known' and f.get('property') == pid and f.get('match', {}).get('pattern') == pattern:
            return f
    return None


# ------------------------------------------------------------------ C02: implementation-side oracle
def requested_totals(q):
    tot = collections.Counter()
    for g in q['groups']:
        for rc, amt in g['resources']:
            tot[rc] += amt
    return tot


def c02_oracle(app, b, q, r, budget, stats):
    """-> list of problem strings for one 200 answer of GET /allocation_candidates"""
    probs = []
    v = q['v']
    j = r.json
    st = gen.State(b.dump)
    traits_of = collections.defaultdict(set)
    for u, t in b.dump[11]:
        traits_of[u].add(t)
    want = requested_totals(q)
    sums = {ops.tok_of_uuid(u): s for u, s in j['provider_summaries'].items()}
    for idx, ar in enumerate(j['allocation_requests']):
        al = ar['allocations']
        rows = {}
        if isinstance(al, dict):
            for u, body in al.items():
                rows[ops.tok_of_uuid(u)] = {b.rcid_of_name(rc): amt for rc, amt in body['resources'].items()}
        else:
            for x in al:
                u = ops.tok_of_uuid(x['resource_provider']['uuid'])
                if u in rows:
                    probs.append('candidate %d names provider %d in two entries of its allocations list' % (idx, u))
                rows.setdefault(u, {}).update({b.rcid_of_name(rc): amt for rc, amt in x['resources'].items()})
        named = set(rows)
        maps = {}
        for k, us in ar.get('mappings', {}).items():
            maps[cand.suffix_tok(k)] = [ops.tok_of_uuid(u) for u in us]
            named |= set(maps[cand.suffix_tok(k)])
        stats['candidates'] += 1
        for u in named:
            if u not in st.rps:
                probs.append('candidate %d names provider %r which does not exist' % (idx, u))
        got = collections.Counter()
        for u, res in rows.items():
            for rc, amt in res.items():
                got[rc] += amt
        wanted = collections.Counter({b.rcid(rc): a for rc, a in want.items()})
        if got != wanted:
            probs.append('candidate %d places %r per class, requested %r' % (idx, dict(got), dict(wanted)))
        if v >= 34:
            for g in q['groups']:
                s = g['suffix']
                if s not in maps:
                    probs.append('candidate %d has no mapping for group %r' % (idx, s))
                    continue
                if s != 0:
                    if len(maps[s]) != 1:
                        probs.append('candidate %d maps suffixed group %r to %r' % (idx, s, maps[s]))
                        continue
                    p = maps[s][0]
                    for rc, amt in g['resources']:
                        if rows.get(p, {}).get(b.rcid(rc), 0) < amt:
                            probs.append('candidate %d: group %r wants %d of class %d on provider %d, placed %r' % (
                                idx, s, amt, rc, p, rows.get(p)))
                else:
                    for rc, amt in g['resources']:
                        if not any(rows.get(p, {}).get(b.rcid(rc), 0) >= amt for p in maps[s]):
                            probs.append('candidate %d: unsuffixed class %d (%d) is on no provider of its mapping %r' % (
                                idx, rc, amt, maps[s]))
        # provider summaries of the providers that supply resources
        for u, res in rows.items():
            s = sums.get(u)
            if s is None:
                probs.append('candidate %d: provider %d has no provider summary' % (idx, u))
                continue
            for rc in res:
                name = [n for n in s['resources'] if b.rcid_of_name(n) == rc]
                if not name:
                    probs.append('summary of provider %d lacks class %d it supplies' % (u, rc))
            for n, x in s['resources'].items():
                rc = ops.rc_tok(n)            # gen.State keys inventories by class NAME token
                inv = st.invs.get(u, {}).get(rc)
                if inv is None:
                    probs.append('summary of provider %d shows class %s it has no inventory of' % (u, n))
                    continue
                cap = int((inv[2] - inv[3]) * (inv[7] * 2.0 ** inv[8]))
                if x['capacity'] != cap or x['used'] != st.used(u, rc):
                    probs.append('summary of provider %d class %s: capacity/used %r/%r, stored state gives %r/%r' % (
                        u, n, x['capacity'], x['used'], cap, st.used(u, rc)))
            if v >= 17 and set(ops.trait_tok(t) for t in s.get('traits', [])) != traits_of[u]:
                probs.append('summary of provider %d shows traits %r, stored %r' % (u, s.get('traits'), sorted(traits_of[u])))
            if v >= 29:
                row = st.rps[u]
                par = s.get('parent_provider_uuid')
                if (None if par is None else ops.tok_of_uuid(par)) != (None if row[3] == -1 else row[3]) or \
                        ops.tok_of_uuid(s['root_provider_uuid']) != row[4]:
                    probs.append('summary of provider %d shows parent/root %r/%r, stored %r/%r' % (
                        u, par, s.get('root_provider_uuid'), row[3], row[4]))
        # claim it, unchanged, for a new consumer
        if budget[0] > 0:
            budget[0] -= 1
            cu = ops.uuid_of(900 + idx % 50, ops.K_CONS)
            body = dict(ar)
            if v >= 8:
                body['project_id'] = 'claimproj'
                body['user_id'] = 'claimuser'
            if v >= 28:
                body['consumer_generation'] = None
            if v >= 38:
                body['consumer_type'] = 'CLAIM'
            w = app.request('PUT', '/allocations/%s' % cu, body=body, version=ops.ver(v), headers=SVC)
            stats['claims'] += 1
            if w.status != 204:
                probs.append('candidate %d sent unchanged as the allocations of a new consumer was answered %d: %s' % (
                    idx, w.status, w.body[:200]))
            else:
                # "claimed exactly as returned": what is stored for the new consumer is the candidate, row for row
                g = app.request('GET', '/allocations/%s' % cu, version='1.39', headers=SVC)
                stored = {ops.tok_of_uuid(u): {b.rcid_of_name(rc): amt for rc, amt in x['resources'].items()}
                          for u, x in (g.json or {}).get('allocations', {}).items()}
                if stored != rows:
                    probs.append('candidate %d was accepted as the allocations of a new consumer but stored as %r, returned was %r' % (
                        idx, stored, rows))
                dl = app.request('DELETE', '/allocations/%s' % cu, version='1.39', headers=SVC)
                assert dl.status == 204, dl.status
    return probs


def run(pid, tier, out):
    t = common.Timer()
    seed = common.seed()
    ok_tr, tlog, blog = common.build()
    ps = common.proof_status(pid, DEPS[pid])
    hyg = common.hygiene()
    n_states, n_queries = BUDGET[tier][pid]
    stats = collections.Counter()
    oracle_hits = []

    def on_answer(app, b, q, obs, r):
        if pid != 'C02' or q['kind'] != 'cand' or r.status != 200:
            return
        budget = [12]
        probs = c02_oracle(app, b, q, r, budget, stats)
        if probs:
            oracle_hits.append({'ops': list(b.ops), 'http': cand.query_http(q), 'q': q, 'problems': probs[:5]})
        # the same question LIMITED, with and without [placement]randomize_allocation_candidates: what comes back must still
        # be claimable as returned and carry the summaries of the providers it names
        m = len(r.json['allocation_requests'])
        if m >= 2 and q['v'] >= 16 and stats['limited'] < (60 if tier == 'quick' else 3000):
            import random as _random
            path, ver = cand.query_http(q)
            for randomize in (True, False):
                app.conf.set_override('randomize_allocation_candidates', randomize, group='placement')
                try:
                    for lim in sorted(set([1, m - 1])):
                        _random.seed(stats['limited'])
                        r2 = app.request('GET', '%s&limit=%d' % (path, lim), version=ver, headers=SVC)
                        stats['limited'] += 1
                        if r2.status != 200:
                            probs2 = ['limit=%d (randomize %s) answered %d' % (lim, randomize, r2.status)]
                        else:
                            probs2 = c02_oracle(app, b, q, r2, [2], stats)
                        if probs2:
                            oracle_hits.append({'ops': list(b.ops), 'http': ('%s&limit=%d' % (path, lim), ver), 'q': q,
                                                'config': {'randomize_allocation_candidates': randomize},
                                                'problems': ['with limit=%d, randomize=%s: %s' % (lim, randomize, x) for x in probs2[:4]]})
                finally:
                    app.conf.clear_override('randomize_allocation_candidates', group='placement')

    model_ok = all(common.vo_fresh(d) for d in MODEL)
    bad, corr_error = [], None
    if model_ok:
        try:
            cand.SWEEP_LIMIT = 700 if tier == 'quick' else None
            bad = cand.run(seed * 101 + int(pid[1:]), n_states, n_queries, workdir=os.path.join(common.WORK, 'cand_%s' % pid),
                           verbose=False, p_cand=P_CAND[pid], on_answer=on_answer)
        except Exception as exc:      # noqa
            corr_error = '%s: %s' % (type(exc).__name__, str(exc)[-800:])
    else:
        corr_error = 'model did not build'
    st = dict(cand.LAST_STATS)
    spec_diffs = list(cand.SPEC_DIFFS)
    # C13: the front half of the listing handler (query string -> filters) against Model/DecodeQ.v: the REAL handler is
    # called on generated query strings and the filters it passes on are captured
    dq = None
    if pid == 'C13':
        if common.vo_fresh('Model/DecodeQ.v'):
            try:
                from harness import decodeq
                n_c, n_b, first, dstats = decodeq.run(seed + 13, 600 if tier == 'quick' else 8000)
                dq = {'query_strings': n_c, 'disagreements': n_b, 'outcomes': dstats}
                if n_b:
                    corr_error = (corr_error or '') + ' query decoding: Model/DecodeQ.v disagrees with list_resource_providers on %d of %d ' \
                        'query strings: %s' % (n_b, n_c, ' '.join(first.split())[:600])
            except Exception as exc:      # noqa
                corr_error = (corr_error or '') + ' query decoding stream: %s' % str(exc)[-500:]
        else:
            corr_error = (corr_error or '') + ' Model/DecodeQ.v did not build'
    if pid == 'C03':
        # the front half of the candidates handler (query string -> groups + request-wide parameters) against Model/DecodeQC.v
        if common.vo_fresh('Model/DecodeQC.v'):
            try:
                from harness import decodeqc
                n_c, n_b, first, dstats = decodeqc.run(seed + 3, 500 if tier == 'quick' else 8000)
                dq = {'query_strings': n_c, 'disagreements': n_b, 'outcomes': {k: v for k, v in dstats.items() if k != 'by version'}}
                if n_b:
                    corr_error = (corr_error or '') + ' query decoding: Model/DecodeQC.v disagrees with list_allocation_candidates on %d of ' \
                        '%d query strings: %s' % (n_b, n_c, ' '.join(first.split())[:600])
                    for bc in dstats.get('bad_cases', [])[:2]:
                        out.violation({'kind': 'query-acceptance', 'version': bc['version'], 'query': bc['query'], 'answer': bc['answer']},
                                      'GET /allocation_candidates?%s at 1.%d is %s; Model/DecodeQC.v (the rules of that version) says '
                                      'otherwise or decodes it differently' % (bc['query'][:200], bc['version'], bc['answer']))
            except Exception as exc:      # noqa
                corr_error = (corr_error or '') + ' query decoding stream: %s' % str(exc)[-500:]
        else:
            corr_error = (corr_error or '') + ' Model/DecodeQC.v did not build'
    proof_broken = (not ps['ok']) or bool(hyg) or not ok_tr
    tie_broken = bool(bad) or corr_error is not None

    # ---- verdicts
    found_input = False
    if pid == 'C02':
        for h in oracle_hits[:3]:
            found_input = True
            out.violation({'kind': 'candidate', 'ops': h['ops'], 'http': h['http'], 'problems': h['problems'],
                           'broken': ps.get('broken') or ('correspondence' if tie_broken else None)}, h['problems'][0])
    if pid in ('C03', 'C13'):
        # the model equals the specification where proved (C13) / is compared with it on every case (C03): a case on which
        # the application differs from the model is a concrete input on which it differs from the specification
        for d in bad[:3]:
            if d.get('query') is None:
                continue
            found_input = True
            out.violation({'kind': 'query', 'ops': d['ops'], 'http': d['http'], 'observed': d['observed'],
                           'model': d.get('model', '')[-1500:], 'broken': ps.get('broken') or 'correspondence'},
                          'the application answers %s differently from the model (= specification): observed %r' % (
                              d['http'][0], d['observed'] if len(str(d['observed'])) < 300 else str(d['observed'])[:300]))
    if pid == 'C03':
        by_class = collections.Counter(d['class'] for d in spec_diffs)
        for cls, n in sorted(by_class.items()):
            f = known('C03', cls)
            if cls in KNOWN_CLASSES and f is not None:
                out.known_finding('%s [%d queries of this run]' % (f['what'][:400], n))
            else:
                found_input = True
                d = [x for x in spec_diffs if x['class'] == cls][0]
                out.violation({'kind': 'query', 'class': cls, 'ops': d['ops'], 'http': d['http'], 'observed': d['observed'],
                               'broken': ps.get('broken')},
                              'candidates differ from the specification (class %s): %s' % (cls, d['http'][0]))
        n_dedup = st.get('known_finding_anchor_dedup_cases', 0)
        if n_dedup and known('C03', 'anchor-dedup'):
            out.known_finding('%s [%d queries of this run]' % (known('C03', 'anchor-dedup')['what'][:400], n_dedup))
        elif n_dedup:
            found_input = True
            out.violation({'kind': 'query', 'class': 'anchor-dedup', 'count': n_dedup}, 'order-dependent candidate loss')
        n500 = st.get('cand_500', 0)
        if n500 and known('C03', 'nested-sharing-keyerror'):
            out.known_finding('%s [%d queries of this run]' % (known('C03', 'nested-sharing-keyerror')['what'][:400], n500))
        elif n500:
            found_input = True
            out.violation({'kind': 'query', 'class': '500', 'count': n500}, 'GET /allocation_candidates answered 500')
        # the committed witnesses of the refutation theorems, replayed on the application
        try:
            wit = cand.replay_witnesses()
        except Exception as exc:      # noqa
            wit = {'error': str(exc)[-300:]}
        st['witnesses_still_reproduce'] = wit
    if not found_input:
        if proof_broken:
            what = ps['error'] or ('hygiene: %s' % hyg[:5] if hyg else 'translator failed: %s' % tlog[-500:])
            out.violation({'kind': 'proof-broken', 'theorem_or_file': ps.get('broken') or 'Props/%s.v' % pid, 'detail': what,
                           'not_closed': [x for x in ps['theorems'] if not x[1]]},
                          'proof obligation no longer checks: %s' % (ps.get('broken') or what), no_input=True)
        elif tie_broken:
            d0 = None
            if bad:
                d0 = {k: bad[0].get(k) for k in ('state', 'query', 'code', 'http', 'observed', 'ops')}
            out.violation({'kind': 'correspondence-broken', 'stream': 'candidates three-way', 'first_disagreement': d0,
                           'error': corr_error},
                          'model and implementation disagree (%d cases) and the oracle found no failing input' % len(bad),
                          no_input=True)
    nthm = len(ps['theorems'])
    obligations = max(1, nthm + ps['lemmas'])
    discharged = obligations if ps['ok'] else sum(1 for x in ps['theorems'] if x[1])
    cov = {'obligations': obligations, 'discharged': discharged,
           'checker_cmd': 'cd /verif/coq && make -k && coqc -Q . PV Props/%s.v' % pid,
           'trusted_base': common.TRUSTED_BASE + [
               'Model/Candidates.v is a hand-written model of the search pipeline; model = specification is PROVED for provider '
               'listings (C13) and for the per-group matching step, and COMPARED on every generated case for whole candidate '
               'queries (three-way: application, model, specification evaluated in Coq on the same state and query)',
               'query-string parsing is modelled as version gates over already parsed filters (rp_filters_wf, query_wf)'],
           'theorems': [{'name': n, 'closed_under_global_context': c, 'assumptions': a} for n, c, a in ps['theorems']],
           'proof_error': ps['error'], 'hygiene_hits': hyg,
           'evaluations': st.get('cases', 0) + stats['candidates'], 'distinct_nontrivial': st.get('cases', 0),
           'rule': '%d generated states (<= 7 providers in <= 3 trees, sharing providers, partial usage) x %d generated queries each; '
                   'a case = (state, query, microversion); non-trivial: see cand_nonempty / list_nonempty in run_statistics' % (
                       n_states, n_queries),
           'samples': [{'http': d['http'], 'class': d['class']} for d in spec_diffs[:3]] or [{'stats': st.get('codes')}],
           'traces_validated_against_impl': st.get('cases', 0) - len(bad) if not corr_error else 0,
           'model_impl_disagreements': len(bad), 'correspondence_error': corr_error, 'run_statistics': st, 'query_decoding': dq,
           'claims_attempted': stats['claims'], 'candidates_checked': stats['candidates'], 'oracle_hits': len(oracle_hits)}
    common.write_evidence(pid, tier, 'proof', cov, t.s(), len(out.violations),
                          assumptions=['SQLite as the database', 'states within the bounded scope stated by the property'])


def replay(pid, path, out):
    from harness import hist
    from harness import impl
    d = json.load(open(path))
    if d.get('kind') not in ('query', 'candidate') or not d.get('ops') or not d.get('http'):
        run(pid, 'quick', out)
        return
    app = impl.App()
    for op in d['ops']:
        from harness.checks_seq import tuple_op
        hist.observe(app, tuple_op(op))
    r = app.request('GET', d['http'][0], version=d['http'][1], headers=SVC)
    print('status %d' % r.status)
    print(json.dumps(r.json, indent=1)[:4000])
    app.close()
    # the verdict needs the model: re-run the stream
    run(pid, 'quick', out)
