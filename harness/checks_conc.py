"""Checks of C05 / C06 / C07: Coq theorems over all schedules of Model/Conc.v + differential execution of
generated scenarios under enumerated interleavings (deterministic scheduler on the real application) +
the properties' oracles (at-most-one, error codes, serial equivalence) evaluated on the implementation."""
import collections
import json
import os
import random

from harness import common
from harness import conc
from harness import coqrun
from harness import ops

MODEL = ['Gen/GenConsts.v', 'Model/Base.v', 'Model/Tables.v', 'Model/Txn.v', 'Model/Handlers.v', 'Model/Conc.v',
         'Proofs/Defs.v', 'Proofs/ConcDefs.v']
DEPS = {'C05': MODEL + ['Proofs/C05.v'], 'C06': MODEL + ['Proofs/C06.v'], 'C07': MODEL + ['Proofs/C07%s.v' % x for x in ('a', 'b', 'd', 'e', 'f', 'g', 'i', 'j', 'k', 'l', '')]}
BUDGET = {'quick': (10, 40), 'thorough': (60, 400)}          # scenarios, schedules per scenario


def inv(rc, total, **kw):
    d = {'rc': rc, 'total': total, 'reserved': 0, 'min': 1, 'max': ops.MAX_INT, 'step': 1, 'ratio': 1.0, '_omit': ()}
    d.update(kw)
    return d


def cons(c, gen, allocs, v=39):
    return {'uuid': c, 'allocs': allocs, 'proj': 1, 'user': 1, 'gen': gen, 'type': 1 if v >= 38 else None}


def base_setup(rng):
    """two or three providers with inventory, provider 1 with a trait and an aggregate, maybe existing consumers"""
    setup = [('rp_create', 39, 1, 1, None), ('inv_set', 39, 1, 0, [inv(0, 8), inv(2, 100, ratio=rng.choice([1.0, 1.5]))]),
             ('rp_create', 39, 2, 2, None), ('inv_set', 39, 2, 0, [inv(0, 8)]),
             ('traits_set', 39, 1, 1, [0]), ('aggs_set', 39, 1, 2, [1]),
             ('rp_create', 39, 3, 3, None)]          # provider 3: no inventory at all
    gens = {1: 3, 2: 1, 3: 0}
    consumers = {}
    for c in (2, 3):
        if rng.random() < 0.6:
            u = rng.choice([1, 2])
            setup.append(('alloc_put', 39, cons(c, None, [(u, [(0, rng.choice([1, 2]))])])))
            gens[u] += 1
            consumers[c] = 1
    return setup, gens, consumers


def gen_scenario(rng, pid, k):
    setup, gens, consumers = base_setup(rng)
    n = rng.choice([2, 2, 3])
    reqs = []
    guards = []
    u = rng.choice([1, 1, 3])
    v = rng.choice([28, 30, 36, 38, 39])

    def g_for(u):
        return gens[u] if rng.random() < 0.8 else gens[u] - 1

    def prov_write():
        kind = rng.choice(['inv_set', 'inv_put', 'traits_set', 'aggs_set', 'inv_post', 'inv_delete', 'traits_delete',
                           'inv_delete_all', 'traits_set', 'inv_set'])
        g = g_for(u)
        i = len(reqs)
        if kind == 'inv_set':
            reqs.append(('inv_set', v, u, g, [inv(0, rng.choice([4, 8, 16])), inv(2, 100)][:rng.choice([0, 1, 2] if u == 3 else [1, 2])]))
            guards.append((i, 'rp', u, g))
        elif kind == 'inv_put':
            reqs.append(('inv_put', v, u, g, inv(0, rng.choice([2, 8, 16]))))
            guards.append((i, 'rp', u, g))
        elif kind == 'traits_set':
            reqs.append(('traits_set', v, u, g, sorted(rng.sample([0, 1, 2], rng.randint(0, 2)))))
            guards.append((i, 'rp', u, g))
        elif kind == 'aggs_set':
            reqs.append(('aggs_set', v, u, g, sorted(rng.sample([1, 2, 3], rng.randint(0, 2)))))
            guards.append((i, 'rp', u, g))
        elif kind == 'inv_post':
            reqs.append(('inv_post', v, u, inv(1, 64)))
        elif kind == 'inv_delete':
            reqs.append(('inv_delete', u, rng.choice([0, 2])))
        elif kind == 'traits_delete':
            reqs.append(('traits_delete', v, u))
        else:
            reqs.append(('inv_delete_all', v, u))

    def alloc_write(shared_consumer=None, contention=False):
        c = shared_consumer if shared_consumer is not None else rng.choice([2, 3, 4, 5])
        known = consumers.get(c)
        r = rng.random()
        gen = (known if r < 0.75 else (None if r < 0.85 else known + 1)) if known is not None else \
            (None if r < 0.8 else 0)
        amt = rng.choice([5, 6, 7]) if contention else rng.choice([1, 2, 3])
        allocs = [(rng.choice([1, 1, 2]), [(0, amt)])]
        if rng.random() < 0.3:
            other = 2 if allocs[0][0] == 1 else 1
            allocs.append((other, [(0, 1)]))
        if rng.random() < 0.25 and known is not None:
            allocs = []
        kind = rng.choice(['alloc_put', 'alloc_put', 'alloc_post', 'reshape'])
        i = len(reqs)
        cc = cons(c, gen, allocs, v)
        if v >= 38 and rng.random() < 0.5:
            cc['type'] = 2
        if rng.random() < 0.3:
            cc['proj'], cc['user'] = rng.choice([1, 2]), rng.choice([1, 2])
        if kind == 'alloc_put':
            reqs.append(('alloc_put', v, cc))
        elif kind == 'alloc_post':
            cs = [cc]
            if rng.random() < 0.4:
                c2 = rng.choice([x for x in (2, 3, 4, 5) if x != c])
                k2 = consumers.get(c2)
                cs.append(cons(c2, k2, [(2, [(0, 1)])], v))
                guards.append((i, 'cons', c2, k2))
            reqs.append(('alloc_post', v, cs))
        else:
            if v < 30:
                reqs.append(('alloc_put', v, cc))
            else:
                reqs.append(('reshape', v, [(2, g_for(2), [inv(0, 8), inv(1, 32)])], [cc]))
        guards.append((i, 'cons', c, gen))

    if pid == 'C05':
        for _ in range(n):
            if rng.random() < 0.8:
                prov_write()
            else:
                alloc_write()
    elif pid == 'C06':
        shared = rng.choice([2, 3, 4])
        for _ in range(n):
            alloc_write(shared_consumer=shared if rng.random() < 0.85 else None)
    else:
        contention = rng.random() < 0.6
        for _ in range(n):
            if rng.random() < 0.7:
                alloc_write(contention=contention)
            else:
                prov_write()
    return conc.Scenario('%s-gen-%d' % (pid, k), setup, reqs, guards)


FIXED = {
    'C05': [
        ('same-traits-twice', [('traits_set', 39, 1, 3, [0, 1]), ('traits_set', 39, 1, 3, [0, 1])], [(0, 'rp', 1, 3), (1, 'rp', 1, 3)]),
        ('traits-vs-inventory', [('traits_set', 39, 1, 3, [1]), ('inv_set', 39, 1, 3, [inv(0, 4)])], [(0, 'rp', 1, 3), (1, 'rp', 1, 3)]),
        ('empty-inventory-vs-traits', [('inv_set', 39, 3, 0, []), ('traits_set', 39, 3, 0, [1])], [(0, 'rp', 3, 0), (1, 'rp', 3, 0)]),
        ('delete-all-vs-aggregates', [('inv_delete_all', 39, 3), ('aggs_set', 39, 3, 0, [2])], [(1, 'rp', 3, 0)]),
        ('reshape-emptying-vs-inventory', [('reshape', 39, [(2, 2, [])], [cons(2, 1, [])]),
                                           ('inv_set', 39, 2, 2, [inv(0, 16)])],
         [(0, 'rp', 2, 2), (1, 'rp', 2, 2)]),
        ('inventory-shrink-vs-claim', [('inv_put', 39, 2, 2, inv(0, 2)), ('alloc_put', 39, cons(5, None, [(2, [(0, 6)])]))],
         [(0, 'rp', 2, 2)]),
        # a reshape naming the same provider under inventories AND in a consumer's allocations (it shrinks DISK_GB on provider 1),
        # overtaken by a claim that only fits the old inventory: whichever comes first, the other one must be refused (seed C07-g:
        # the provider object loaded later for the allocations replaced the one whose generation had been checked)
        ('reshape-both-sections-vs-claim', [('reshape', 39, [(1, 3, [inv(0, 8), inv(2, 40)])], [cons(4, None, [(1, [(0, 1)])])]),
                                            ('alloc_put', 39, cons(5, None, [(1, [(2, 50)])]))],
         [(0, 'rp', 1, 3)]),
        ('three-guarded', [('inv_set', 39, 1, 3, [inv(0, 4)]), ('aggs_set', 39, 1, 3, [2]), ('inv_put', 39, 1, 3, inv(0, 16))],
         [(0, 'rp', 1, 3), (1, 'rp', 1, 3), (2, 'rp', 1, 3)]),
        # fault-assisted: request 0 loses the duplicate-key race for a NEW aggregate once (its transaction is rolled back and
        # retried by wrap_db_retry); the competitor carrying the same generation can run before the retry
        ('aggregate-retry-vs-competitor', [('aggs_set', 39, 3, 0, [5]), ('aggs_set', 39, 3, 0, [6])],
         [(0, 'rp', 3, 0), (1, 'rp', 3, 0)], (0, 'INSERT INTO placement_aggregates', 1)),
        ('aggregate-retry-vs-traits', [('aggs_set', 39, 1, 3, [1, 5]), ('traits_set', 39, 1, 3, [1])],
         [(0, 'rp', 1, 3), (1, 'rp', 1, 3)], (0, 'INSERT INTO placement_aggregates', 1)),
    ],
    'C06': [
        ('wipe-vs-write', [('alloc_put', 39, cons(2, 1, [])), ('alloc_put', 39, cons(2, 1, [(1, [(0, 2)])]))],
         [(0, 'cons', 2, 1), (1, 'cons', 2, 1)]),
        ('two-null-puts', [('alloc_put', 39, cons(5, None, [(1, [(0, 2)])])), ('alloc_put', 39, cons(5, None, [(2, [(0, 3)])]))],
         [(0, 'cons', 5, None), (1, 'cons', 5, None)]),
        ('null-put-vs-gen0-put', [('alloc_put', 39, cons(5, None, [(1, [(0, 2)])])), ('alloc_put', 39, cons(5, 0, [(2, [(0, 3)])]))],
         [(0, 'cons', 5, None), (1, 'cons', 5, 0)]),
        ('stale-write-changing-attributes', [('alloc_put', 39, dict(cons(2, 1, [(1, [(0, 2)])]), proj=2)),
                                             ('alloc_put', 39, cons(2, 1, [(2, [(0, 3)])]))],
         [(0, 'cons', 2, 1), (1, 'cons', 2, 1)]),
        ('stale-post-changing-type', [('alloc_post', 38, [dict(cons(2, 1, [(1, [(0, 2)])]), type=2)]),
                                      ('alloc_put', 38, cons(2, 1, [(2, [(0, 3)])]))],
         [(0, 'cons', 2, 1), (1, 'cons', 2, 1)]),
        ('racing-create-different-types', [('alloc_put', 38, dict(cons(5, None, [(1, [(0, 1)])]), type=1)),
                                           ('alloc_put', 38, dict(cons(5, None, [(1, [(0, 1)])]), type=2, proj=2))],
         [(0, 'cons', 5, None), (1, 'cons', 5, None)]),
        # consumers at DIFFERENT generations in one POST (consumer 3 is written twice in the extra set-up): a stale entry for
        # consumer 2 must not pass because its generation happens to be the one expected for consumer 3
        ('post-mixed-generations-vs-put', [('alloc_post', 39, [cons(2, 1, [(1, [(0, 1)])]), cons(3, 2, [(1, [(0, 2)])])]),
                                           ('alloc_put', 39, cons(2, 1, [(2, [(0, 3)])]))],
         [(0, 'cons', 2, 1), (1, 'cons', 2, 1)], None,
         [('alloc_put', 39, cons(3, None, [(1, [(0, 1)])])), ('alloc_put', 39, cons(3, 1, [(1, [(0, 1)])]))]),
        ('reshape-mixed-generations-vs-put', [('reshape', 39, [(3, 0, [inv(0, 4)])], [cons(2, 1, [(1, [(0, 1)])]), cons(3, 2, [(2, [(0, 2)])])]),
                                              ('alloc_put', 39, cons(2, 1, [(2, [(0, 3)])]))],
         [(0, 'cons', 2, 1), (1, 'cons', 2, 1)], None,
         [('alloc_put', 39, cons(3, None, [(1, [(0, 1)])])), ('alloc_put', 39, cons(3, 1, [(1, [(0, 1)])]))]),
        # an allocation write over TWO providers that also changes project / user / type of an existing consumer, overtaken by a
        # guarded write to the provider listed SECOND: refused (409) or complete - never accepted with the old attributes
        # (seed C07-h: the whole transaction function retried with the consumer objects already changed in memory)
        ('attr-change-two-providers-vs-inventory-put', [('alloc_put', 39, dict(cons(2, 1, [(1, [(0, 1)]), (2, [(0, 2)])]), proj=2, user=2, type=2)),
                                                        ('inv_put', 39, 2, 2, inv(0, 16))],
         [(0, 'cons', 2, 1), (1, 'rp', 2, 2)]),
        ('racing-create-older-version', [('alloc_put', 38, dict(cons(5, None, [(1, [(0, 1)])]), type=2)),
                                         ('alloc_put', 30, cons(5, None, [(1, [(0, 1)])], 30))],
         [(0, 'cons', 5, None), (1, 'cons', 5, None)]),
    ],
    'C07': [
        ('stale-write-changing-attributes', [('alloc_put', 39, dict(cons(2, 1, [(1, [(0, 2)])]), proj=2)),
                                             ('alloc_put', 39, cons(2, 1, [(2, [(0, 3)])]))],
         [(0, 'cons', 2, 1), (1, 'cons', 2, 1)]),
        # a single-class inventory PUT that shrinks capacity, overtaken by a claim that only fits the old capacity: the PUT's
        # generation is stale when it commits (either order alone refuses one of them)
        ('inventory-shrink-vs-claim', [('inv_put', 39, 2, 2, inv(0, 2)), ('alloc_put', 39, cons(5, None, [(2, [(0, 6)])]))],
         [(0, 'rp', 2, 2)]),
        ('inventory-set-shrink-vs-post', [('inv_set', 39, 1, 3, [inv(0, 2), inv(2, 100)]),
                                          ('alloc_post', 39, [cons(5, None, [(1, [(0, 6)])]), cons(4, None, [(1, [(2, 10)])])])],
         [(0, 'rp', 1, 3)]),
        # a reshape naming the same provider under inventories AND in a consumer's allocations (it shrinks DISK_GB on provider 1),
        # overtaken by a claim that only fits the old inventory: whichever comes first, the other one must be refused (seed C07-g:
        # the provider object loaded later for the allocations replaced the one whose generation had been checked)
        ('reshape-both-sections-vs-claim', [('reshape', 39, [(1, 3, [inv(0, 8), inv(2, 40)])], [cons(4, None, [(1, [(0, 1)])])]),
                                            ('alloc_put', 39, cons(5, None, [(1, [(2, 50)])]))],
         [(0, 'rp', 1, 3)]),
        # an allocation write over TWO providers that also changes project / user / type of an existing consumer, overtaken by a
        # guarded write to the provider listed SECOND: refused (409) or complete - never accepted with the old attributes
        # (seed C07-h: the whole transaction function retried with the consumer objects already changed in memory)
        ('attr-change-two-providers-vs-inventory-put', [('alloc_put', 39, dict(cons(2, 1, [(1, [(0, 1)]), (2, [(0, 2)])]), proj=2, user=2, type=2)),
                                                        ('inv_put', 39, 2, 2, inv(0, 16))],
         [(0, 'cons', 2, 1), (1, 'rp', 2, 2)]),
        ('capacity-race', [('alloc_put', 39, cons(4, None, [(1, [(0, 5)])])), ('alloc_put', 39, cons(5, None, [(1, [(0, 5)]), (2, [(0, 1)])]))], []),
        ('null-put-vs-gen0-put', [('alloc_put', 39, cons(5, None, [(1, [(0, 2)])])), ('alloc_put', 39, cons(5, 0, [(2, [(0, 3)])]))],
         [(0, 'cons', 5, None), (1, 'cons', 5, 0)]),
    ],
}


def fixed_scenarios(pid):
    setup = [('rp_create', 39, 1, 1, None), ('inv_set', 39, 1, 0, [inv(0, 8), inv(2, 100)]),
             ('rp_create', 39, 2, 2, None), ('inv_set', 39, 2, 0, [inv(0, 8)]),
             ('traits_set', 39, 1, 1, [0]), ('aggs_set', 39, 1, 2, [1]),
             ('alloc_put', 39, cons(2, None, [(2, [(0, 1)])])), ('rp_create', 39, 3, 3, None)]
    return [conc.Scenario(x[0], setup + (x[4] if len(x) > 4 else []), x[1], x[2], fault=(x[3] if len(x) > 3 else None))
            for x in FIXED[pid]]


def known_pattern(scn, obs):
    """the recorded finding: a request succeeded on a consumer that exists only because a request that was
    answered with an error created it"""
    start_consumers = set()
    for op in scn.setup:
        if op[0] == 'alloc_put':
            start_consumers.add(op[2]['uuid'])

    def named(op):
        cs = [op[2]] if op[0] == 'alloc_put' else (op[2] if op[0] == 'alloc_post' else (op[3] if op[0] == 'reshape' else []))
        return cs
    failed_creators = set()
    for op, o in zip(scn.requests, obs):
        if o[0] >= 400:
            for c in named(op):
                if c['gen'] is None and c['uuid'] not in start_consumers:
                    failed_creators.add(c['uuid'])
    for op, o in zip(scn.requests, obs):
        if o[0] < 300:
            for c in named(op):
                if c['gen'] is not None and c['uuid'] in failed_creators:
                    return True
    return False


def double_wipe(scn, obs):
    """the recorded finding: two successful requests both clear (empty allocations) the same consumer"""
    wipers = collections.Counter()
    for op, o in zip(scn.requests, obs):
        if o[0] < 300:
            cs = [op[2]] if op[0] == 'alloc_put' else (op[2] if op[0] == 'alloc_post' else (op[3] if op[0] == 'reshape' else []))
            for c in cs:
                if not c['allocs']:
                    wipers[c['uuid']] += 1
    return any(n > 1 for n in wipers.values())


def my_oracle(pid, scn, obs, dump):
    v = []
    for i, o in enumerate(obs):
        if o[0] >= 500:
            v.append(('5xx', 'request %d (%s) answered %d %s' % (i, scn.requests[i][0], o[0], o[3] or '')))
    kind = {'C05': 'rp', 'C06': 'cons'}.get(pid)
    if kind:
        groups = collections.defaultdict(list)
        for (i, k, u, g) in scn.guards:
            if k == kind:
                groups[(u, g)].append(i)
        for (u, g), idx in groups.items():
            winners = []
            for i in idx:
                if obs[i][0] < 300:
                    # a trait replacement that changed nothing reports the unchanged generation
                    if scn.requests[i][0] == 'traits_set' and obs[i][2] == g:
                        continue
                    winners.append(i)
            if len(winners) > 1:
                v.append(('at-most-one', 'requests %r all carry generation %r of %s %d and all succeeded' % (winners, g, kind, u)))
        for (i, k, u, g) in scn.guards:
            if k == kind and obs[i][0] == 409 and obs[i][1] not in (1, -1) and \
                    scn.requests[i][0] not in ('alloc_put', 'alloc_post', 'reshape'):
                v.append(('code', 'request %d rejected with 409 but not placement.concurrent_update' % i))
    if not any(o[0] >= 500 for o in obs):
        good, tried = conc.serializable(scn, obs, dump)
        if not good:
            v.append(('nonserializable', 'outcome %r is not equivalent to any serial execution of the successful '
                      'requests (orders tried: %r)' % ([o[0] for o in obs], [(t[0], t[1], t[2]) for t in tried])))
    return v


def schedules_for(scn, tier, rng, per_scn):
    """quick: targeted gap schedules + the DFS enumeration up to a budget; thorough: larger budget"""
    seen = set()
    out = []
    for sch in conc.gap_schedules(scn, k_max=9):
        obs, dump, trace, used = conc.run_schedule(scn, sch)
        if tuple(used) not in seen:
            seen.add(tuple(used))
            out.append((used, obs, dump))
        if len(out) >= per_scn // 2:
            break
    for used, obs, dump, trace in conc.all_schedules(scn, limit=per_scn, rng=rng):
        if tuple(used) not in seen:
            seen.add(tuple(used))
            out.append((used, obs, dump))
        if len(out) >= per_scn:
            break
    return out


def run(pid, tier, out):
    t = common.Timer()
    seed = common.seed()
    conc.init_engine()
    ok_tr, tlog, blog = common.build()
    ps = common.proof_status(pid, DEPS[pid])
    hyg = common.hygiene()
    rng = random.Random(seed * 7919 + int(pid[1:]))
    n_scn, per_scn = BUDGET[tier]
    scns = fixed_scenarios(pid) + [gen_scenario(rng, pid, k) for k in range(n_scn)]
    cases = []
    stats = {'schedules': 0, 'distinct': set(), 'outcomes': collections.Counter(), 'ops': collections.Counter()}
    viols = []
    known = collections.Counter()
    samples = []
    for scn in scns:
        for op in scn.requests:
            stats['ops'][op[0]] += 1
        for used, obs, dump in schedules_for(scn, tier, rng, per_scn):
            stats['schedules'] += 1
            sts = tuple(o[0] for o in obs)
            stats['outcomes'][sts] += 1
            stats['distinct'].add((scn.name, tuple(used)))
            cases.append((scn, used, obs, dump))
            if len(samples) < 4:
                samples.append({'scenario': scn.to_json(), 'schedule': list(used), 'statuses': list(sts)})
            for kind, text in my_oracle(pid, scn, obs, dump):
                # the two recorded consumer-generation findings belong to C06 / C07; under C05 (provider generations)
                # such a schedule is not a violation of the property and is not reported at all
                if kind == 'nonserializable' and known_pattern(scn, obs):
                    known[(pid, 'success-on-consumer-created-by-failed-request')] += 1
                    continue
                if kind in ('nonserializable', 'at-most-one') and double_wipe(scn, obs):
                    known[(pid, 'double-wipe')] += 1
                    continue
                viols.append(({'kind': 'schedule', 'scenario': scn.to_json(), 'schedule': list(used),
                               'statuses': list(sts), 'check': kind}, text))
    model_ok = all(common.vo_fresh(d) for d in MODEL)
    disagreements = []
    corr_error = None
    mcases = [c for c in cases if not c[0].fault]       # fault-assisted scenarios are oracle only (Model/Conc.v has no faults)
    if model_ok:
        try:
            disagreements = coqrun.check_sched_cases(
                [(c[0].setup, c[0].requests, c[1], [o[0] for o in c[2]], c[3]) for c in mcases],
                workdir=os.path.join(common.WORK, 'sched_%s' % pid))
        except Exception as exc:
            corr_error = str(exc)[-800:]
    else:
        corr_error = 'model did not build'
    proof_broken = (not ps['ok']) or bool(hyg) or not ok_tr
    tie_broken = bool(disagreements) or corr_error is not None

    for f in common.load_known():
        pat = f.get('match', {}).get('pattern')
        if f.get('kind') == 'known' and f.get('property') == pid and known[(pid, pat)]:
            out.known_finding('%s [%d schedules]' % (f['what'], known[(pid, pat)]))
    seen = set()
    for payload, text in viols:
        key = (payload['scenario']['name'], payload['check'])
        if key in seen:
            continue
        seen.add(key)
        if len(seen) > 4:
            break
        payload['broken'] = ps.get('broken') or ('correspondence' if tie_broken else None)
        out.violation(payload, text)
    if not viols:
        if proof_broken:
            what = ps['error'] or ('hygiene: %s' % hyg[:5] if hyg else 'translator failed: %s' % tlog[-500:])
            out.violation({'kind': 'proof-broken', 'theorem_or_file': ps.get('broken') or 'Props/%s.v' % pid,
                           'detail': what, 'not_closed': [x for x in ps['theorems'] if not x[1]]},
                          'proof obligation no longer checks: %s' % (ps.get('broken') or what), no_input=True)
        elif tie_broken:
            d0 = None
            if disagreements:
                c = mcases[disagreements[0]]
                d0 = {'scenario': c[0].to_json(), 'schedule': list(c[1]), 'impl_statuses': [o[0] for o in c[2]],
                      'impl_dump': c[3]}
            out.violation({'kind': 'correspondence-broken', 'stream': 'schedules', 'first_disagreement': d0,
                           'error': corr_error},
                          'schedule model and implementation disagree (%d schedules) and the oracle found no failing '
                          'input' % len(disagreements), no_input=True)
    nthm = len(ps['theorems'])
    obligations = max(1, nthm + ps['lemmas'])
    discharged = obligations if ps['ok'] else sum(1 for x in ps['theorems'] if x[1])
    cov = {'obligations': obligations, 'discharged': discharged,
           'checker_cmd': 'cd /verif/coq && make -k && coqc -Q . PV Props/%s.v' % pid,
           'trusted_base': common.TRUSTED_BASE + [
               'database assumed serializable at transaction granularity (each top-level transaction atomic and isolated), '
               'as the property states; SQLite with AUTOINCREMENT declared by the harness so that row ids are not re-used',
               'deterministic scheduler: one thread per request, parked between top-level transactions that touch core tables'],
           'theorems': [{'name': n, 'closed_under_global_context': c, 'assumptions': a} for n, c, a in ps['theorems']],
           'proof_error': ps['error'], 'hygiene_hits': hyg,
           'evaluations': stats['schedules'], 'distinct_nontrivial': len(stats['distinct']),
           'rule': '%d scenarios (fixed + seeded generated: 2-3 concurrent requests on a shared provider / consumer / inventory with '
                   'equal, stale and null generations); per scenario the targeted "one request entirely inside every gap of '
                   'another" schedules plus a depth-first enumeration of interleavings up to %d; a case = (scenario, executed '
                   'interleaving); all are distinct and non-trivial (at least two requests interleave)' % (len(scns), per_scn),
           'samples': samples, 'traces_validated_against_impl': len(mcases) - len(disagreements) if model_ok and not corr_error else 0,
           'model_impl_disagreements': len(disagreements), 'correspondence_error': corr_error,
           'outcome_histogram': {str(k): v for k, v in stats['outcomes'].most_common(12)},
           'op_histogram': dict(stats['ops']), 'known_finding_schedules': {'%s/%s' % k: v for k, v in known.items()}}
    common.write_evidence(pid, tier, 'proof', cov, t.s(), len(out.violations),
                          assumptions=['transactions atomic and isolated (serializable DBMS)'])


def replay(pid, path, out):
    p = json.load(open(path))
    if p.get('kind') != 'schedule':
        run(pid, 'quick', out)
        return
    conc.init_engine()
    from harness.checks_seq import tuple_op
    s = p['scenario']
    scn = conc.Scenario(s['name'], [tuple_op(o) for o in s['setup']], [tuple_op(o) for o in s['requests']],
                        [tuple(g) for g in s['guards']], fault=(tuple(s['fault']) if s.get('fault') else None))
    obs, dump, trace, used = conc.run_schedule(scn, p['schedule'])
    for kind, text in my_oracle(pid, scn, obs, dump):
        if kind == p.get('check') and not (kind == 'nonserializable' and known_pattern(scn, obs)) \
                and not double_wipe(scn, obs):
            out.violation(p, text)
