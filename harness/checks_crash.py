"""Check of C18: Coq theorems over crash_after (Model/Crash.v) for every crash point + crash injection at
every SQL statement and commit of a write corpus on the real application + the property's oracle."""
import json
import os
import subprocess

from harness import common
from harness import coqrun
from harness import inject
from harness import ops
from harness import oracles

MODEL = ['Gen/GenConsts.v', 'Model/Base.v', 'Model/Tables.v', 'Model/Txn.v', 'Model/Handlers.v', 'Model/Conc.v',
         'Model/Crash.v', 'Proofs/Defs.v']
DEPS = MODEL + ['Proofs/C18.v']
HEAVY = (0, 1, 2, 7, 8, 9, 10, 11)      # everything but consumers (3) and the auxiliary name tables (4, 5, 6)


def named_consumers(op):
    if op[0] == 'alloc_put':
        return {op[2]['uuid']}
    if op[0] == 'alloc_post':
        return {c['uuid'] for c in op[2]}
    if op[0] == 'reshape':
        return {c['uuid'] for c in op[3]}
    if op[0] == 'alloc_delete':
        return {op[1]}
    return set()


def crash_oracle(op, before, after, final, normal_obs):
    v = []
    # C08 (referential integrity), C09 (forest) on the surviving state; consumers without allocations are allowed residue
    for msg in oracles.c08(('noop',), (200, 0, -1), after, after):
        if 'has no consumer record' in msg or 'dangles' in msg or 'missing' in msg or 'no inventory' in msg:
            v.append('after crash: ' + msg)
    for msg in oracles.c09(('noop',), (200, 0, -1), after, after):
        v.append('after crash: ' + msg)
    # C01 relative capacity safety
    for msg in oracles.c01(op, (normal_obs[0], 0, -1), before, after):
        if 'over-commit' in msg or 'grew' in msg:
            v.append('after crash: ' + msg)
    # all or nothing on the heavy tables
    hb = [before[i] for i in HEAVY]
    ha = [after[i] for i in HEAVY]
    hf = [final[i] for i in HEAVY]
    if ha != hb and ha != hf:
        v.append('partial effect: providers/inventories/allocations/associations are neither as before nor as after '
                 'the complete request')
    if ha != hb and normal_obs[0] >= 400:
        v.append('a request that is rejected when it completes left an effect when crashed')
    # residue: only consumers without allocations named by the request
    holders = {a[0] for a in after[2]}
    stray_before = {c[0] for c in before[3]} - {a[0] for a in before[2]}
    for c in after[3]:
        if c[0] not in holders and c[0] not in stray_before and c[0] not in named_consumers(op):
            v.append('consumer %d without allocations survives although the request does not name it' % c[0])
    for h in holders:
        if h not in {c[0] for c in after[3]}:
            v.append('allocations of consumer %d survive without a consumer record' % h)
    return v


def coq_crash_cases(cases, workdir):
    """cases: (setup, op, after dump). The crashed state must be one of the model's crash states."""
    os.makedirs(workdir, exist_ok=True)
    bad = []
    shard = 150
    for k in range(0, len(cases), shard):
        part = cases[k:k + shard]
        path = os.path.join(workdir, 'crash_%d.v' % k)
        with open(path, 'w') as f:
            f.write('From PV Require Import Model.Crash.\n')
            f.write('Definition cf := mkCfg 0 0.\n')
            f.write('Definition crash_ok (x : list req * req * list (list (list Z))) : bool :=\n'
                    "  let '(setup, r, dmp) := x in let d0 := run cf db0 setup in\n"
                    '  existsb (fun n => dump_eqb (core_dump (dump (fst (crash_after cf n (cinit cf r) d0)))) (core_dump dmp))\n'
                    '          (seq 0 40).\n')
            f.write('Definition cases : list (list req * req * list (list (list Z))) := [\n')
            items = []
            for setup, op, dmp in part:
                rcmap = {}
                terms = []
                # resource class name -> id: replay the setup to learn ids is unnecessary: custom classes get 10000+ in order
                nxt = 10000
                for o in setup:
                    terms.append(ops.op_coq(o, rcmap))
                    if o[0] in ('rc_create', 'rc_put') and o[2] >= 1000 and o[2] not in rcmap:
                        rcmap[o[2]] = nxt
                        nxt += 1
                items.append('(%s, %s, %s)' % (ops.lst(terms), ops.op_coq(op, rcmap), ops.dump_coq(dmp)))
            f.write(';\n'.join(items))
            f.write('].\n')
            f.write('Eval vm_compute in map (fun c => if crash_ok c then 1 else 0) cases.\n')
        res = coqrun.run_coq(path)
        for i, r in enumerate(res):
            if r != 1:
                bad.append(k + i)
        for ext in ('.v', '.vo', '.vok', '.vos', '.glob'):
            try:
                os.remove(path[:-2] + ext)
            except OSError:
                pass
    return bad


def run(pid, tier, out):
    t = common.Timer()
    ok_tr, tlog, blog = common.build()
    ps = common.proof_status('C18', DEPS)
    hyg = common.hygiene()
    corpus = inject.corpus()
    if tier == 'quick':
        # every request of the corpus; crash points thinned for the long ones
        stride = 2
    else:
        stride = 1
    viols = []
    cases = []
    stats = {'points': 0, 'distinct': set(), 'effects': {'none': 0, 'full': 0, 'residue-only': 0}}
    samples = []
    for name, setup, op in corpus:
        for desc, k, before, after, final, nobs in inject.crash_points(setup, op):
            if stride > 1 and k < 1000 and k % stride and k > 3:
                continue
            stats['points'] += 1
            hb = [before[i] for i in HEAVY]
            ha = [after[i] for i in HEAVY]
            eff = 'none' if after == before else ('full' if ha != hb else 'residue-only')
            stats['effects'][eff] += 1
            stats['distinct'].add((name, desc))
            cases.append((setup, op, after, name, desc))
            if len(samples) < 5 and eff != 'none':
                samples.append({'request': name, 'crash': desc, 'effect': eff})
            for msg in crash_oracle(op, before, after, final, nobs):
                viols.append(({'kind': 'crash', 'request': name, 'setup': setup, 'op': op, 'point': k, 'where': desc}, msg))
    # raced requests (two connections, deterministic schedule): crash points along the conflict / retry / fall-back paths
    raced = {'points': 0, 'problems': []}
    try:
        import sys
        env = dict(os.environ, PYTHONPATH='%s:%s' % (os.environ.get('VERIF_REPO', '/repo'), common.ROOT), PYTHONHASHSEED='0')
        pr = subprocess.run([sys.executable, '-m', 'harness.raced_crash', '--json'], capture_output=True, text=True, timeout=1800,
                            cwd=common.ROOT, env=env)
        raced = json.loads(pr.stdout)
    except Exception as exc:      # noqa
        viols.append(({'kind': 'raced-crash', 'request': 'stream error', 'point': -1}, 'raced crash stream failed: %s' % str(exc)[-300:]))
    stats['points'] += raced['points']
    for b in raced['problems'][:2]:
        viols.append(({'kind': 'raced-crash', 'request': b['scenario'], 'requests': b['requests'], 'schedule': b['schedule'],
                       'point': b['crash_before_statement'], 'of': b['statements_of_the_request'],
                       'statuses_when_complete': b['statuses_when_complete'], 'replay_cmd': 'python -m harness.raced_crash'},
                      '%s, process dead before statement %d of %d (schedule %r): %s' % (
                          b['scenario'], b['crash_before_statement'], b['statements_of_the_request'], b['schedule'], b['text'])))
    model_ok = all(common.vo_fresh(d) for d in MODEL)
    disagreements = []
    corr_error = None
    if model_ok:
        try:
            disagreements = coq_crash_cases([(c[0], c[1], c[2]) for c in cases], os.path.join(common.WORK, 'crash'))
        except Exception as exc:
            corr_error = str(exc)[-800:]
    else:
        corr_error = 'model did not build'
    proof_broken = (not ps['ok']) or bool(hyg) or not ok_tr
    tie_broken = bool(disagreements) or corr_error is not None
    seen = set()
    for payload, text in viols:
        key = (payload['request'], text[:40])
        if key in seen:
            continue
        seen.add(key)
        if len(seen) > 4:
            break
        payload['broken'] = ps.get('broken') or ('correspondence' if tie_broken else None)
        out.violation(payload, text)
    if not viols:
        if proof_broken:
            what = ps['error'] or ('hygiene: %s' % hyg[:5] if hyg else 'translator failed: %s' % tlog[-500:])
            out.violation({'kind': 'proof-broken', 'theorem_or_file': ps.get('broken') or 'Props/C18.v', 'detail': what,
                           'not_closed': [x for x in ps['theorems'] if not x[1]]},
                          'proof obligation no longer checks: %s' % (ps.get('broken') or what), no_input=True)
        elif tie_broken:
            d0 = None
            if disagreements:
                c = cases[disagreements[0]]
                d0 = {'request': c[3], 'crash': c[4], 'setup': c[0], 'op': c[1], 'impl_dump': c[2]}
            out.violation({'kind': 'correspondence-broken', 'stream': 'crash-points', 'first_disagreement': d0,
                           'error': corr_error},
                          'a crashed state of the implementation is not a crash state of the model (%d points) and the oracle '
                          'found no failing input' % len(disagreements), no_input=True)
    nthm = len(ps['theorems'])
    obligations = max(1, nthm + ps['lemmas'])
    discharged = obligations if ps['ok'] else sum(1 for x in ps['theorems'] if x[1])
    cov = {'obligations': obligations, 'discharged': discharged,
           'checker_cmd': 'cd /verif/coq && make -k && coqc -Q . PV Props/C18.v',
           'trusted_base': common.TRUSTED_BASE + [
               'the database rolls the transaction in flight back when the process dies (assumed; the crash-injection stream '
               'exercises it on SQLite: a BaseException raised from the statement / commit hooks)'],
           'theorems': [{'name': n, 'closed_under_global_context': c, 'assumptions': a} for n, c, a in ps['theorems']],
           'proof_error': ps['error'], 'hygiene_hits': hyg,
           'evaluations': stats['points'], 'distinct_nontrivial': len(stats['distinct']),
           'rule': 'write corpus of %d requests covering every write route (succeeding and failing variants); a crash is injected '
                   'before every SQL statement (every %s) and before every commit; a case = (request, crash point); all are '
                   'distinct; effect histogram below' % (len(corpus), 'statement' if stride == 1 else '2nd statement beyond the first four'),
           'samples': samples, 'traces_validated_against_impl': len(cases) - len(disagreements) if model_ok and not corr_error else 0,
           'model_impl_disagreements': len(disagreements), 'correspondence_error': corr_error,
           'effect_histogram': stats['effects']}
    common.write_evidence('C18', tier, 'proof', cov, t.s(), len(out.violations),
                          assumptions=['atomic transactions; crash = BaseException at a statement/commit boundary'])


def replay(pid, path, out):
    from harness.checks_seq import tuple_op
    p = json.load(open(path))
    if p.get('kind') == 'raced-crash':
        from harness import raced_crash
        n, bad = raced_crash.run()
        for b in bad[:1]:
            out.violation(p, '%s, process dead before statement %d: %s' % (b['scenario'], b['crash_before_statement'], b['text']))
        return
    if p.get('kind') != 'crash':
        run(pid, 'quick', out)
        return
    setup = [tuple_op(o) for o in p['setup']]
    op = tuple_op(p['op'])
    for desc, k, before, after, final, nobs in inject.crash_points(setup, op):
        if k == p['point']:
            for msg in crash_oracle(op, before, after, final, nobs):
                out.violation(p, msg)
