"""Check of C17: Coq theorems over Model/Fault.v + one fault injected at every SQL statement of a write
corpus on the real application (retryable deadlock with / without the database having rolled back, duplicate
key while an aggregate is first recorded, non-retryable connection / generic errors; start-up sync) +
the property's oracle, with the recorded findings classified by fault kind and position."""
import collections
import json
import os

from harness import common
from harness import conc
from harness import coqrun
from harness import impl
from harness import inject
from harness import ops

MODEL = ['Gen/GenConsts.v', 'Model/Base.v', 'Model/Tables.v', 'Model/Txn.v', 'Model/Handlers.v', 'Model/Conc.v',
         'Model/Fault.v', 'Proofs/Defs.v']
DEPS = MODEL + ['Proofs/C17.v']
CORE = (0, 1, 2, 3, 7, 8, 9, 10, 11)


def core(d):
    return [d[i] for i in CORE]


def norm(s):
    return ' '.join(s.split())


def retry_scope(stmts, txn_of):
    """indices [a, b] of the statements issued by _set_allocations (inside wrap_db_retry) or None: from the first
    DELETE FROM allocations of the main transaction to the stray-consumer DELETE (or the last UPDATE .. generation /
    stray SELECT) of the SAME transaction"""
    a = None
    for i, s in enumerate(stmts):
        if norm(s).startswith(('DELETE FROM allocations WHERE allocations.consumer_id',
                               'SELECT resource_providers.id AS resource_provider_id')):
            a = i
            break
    if a is None or a >= len(txn_of):
        return None
    b = a
    for i in range(a, len(stmts)):
        if i >= len(txn_of) or txn_of[i] != txn_of[a]:
            break
        n = norm(stmts[i])
        if n.startswith('DELETE FROM consumers WHERE consumers.uuid IN'):
            b = i
            break
        if n.startswith(('DELETE FROM allocations', 'INSERT INTO allocations', 'UPDATE resource_providers SET generation',
                         'UPDATE consumers SET generation', 'SELECT consumers.uuid FROM consumers LEFT OUTER JOIN',
                         'SELECT resource_classes', 'SELECT resource_providers.id AS resource_provider_id')):
            b = i
        elif n.startswith(('SELECT rp.id', 'SELECT inventories', 'UPDATE inventories', 'INSERT INTO inventories',
                           'DELETE FROM inventories', 'SELECT allocations.resource_class_id', 'SELECT sum(')):
            break            # the reshaper's final inventory replacement follows _set_allocations
    return (a, b)


def first_cas_index(stmts, scope):
    for i in range(scope[0], scope[1] + 1):
        if norm(stmts[i]).startswith('UPDATE resource_providers SET generation') or \
                norm(stmts[i]).startswith('UPDATE consumers SET generation'):
            return i
    return scope[1] + 1


def model_index(stmts, scope, k):
    """map an implementation statement index inside _set_allocations to the index in Model/Fault.v's stmts_of"""
    idx = -1
    seen_check = False
    for i in range(scope[0], k + 1):
        n = norm(stmts[i])
        if n.startswith('DELETE FROM allocations'):
            idx += 1
        elif n.startswith('SELECT resource_classes') or n.startswith('SELECT resource_providers.id AS resource_provider_id'):
            if not seen_check:
                idx += 1
                seen_check = True
        elif n.startswith('INSERT INTO allocations'):
            idx += 1
        elif n.startswith('UPDATE resource_providers SET generation') or n.startswith('UPDATE consumers SET generation'):
            idx += 1
        elif n.startswith('SELECT consumers.uuid FROM consumers LEFT OUTER JOIN'):
            idx += 1
        elif n.startswith('DELETE FROM consumers WHERE consumers.uuid IN'):
            pass            # same model statement as the preceding SELECT
    return idx


def is_cleanup_stmt(stmts, k, scope):
    """a statement of a clean-up transaction (consumer removal after the main transaction / a rejection) or
    of the second transaction of DELETE /allocations"""
    n = norm(stmts[k])
    in_scope = scope is not None and scope[0] <= k <= scope[1]
    return (not in_scope) and (n.startswith('SELECT consumers.uuid FROM consumers LEFT OUTER JOIN') or
                               n.startswith('DELETE FROM consumers WHERE consumers.uuid IN'))


def coq_deadlock_cases(cases, workdir):
    """cases: (setup, op, model statement index, rb, after dump or None)"""
    os.makedirs(workdir, exist_ok=True)
    path = os.path.join(workdir, 'fault_cases.v')
    with open(path, 'w') as f:
        f.write('From PV Require Import Model.Fault.\nDefinition cf := mkCfg 0 0.\n')
        f.write('Fixpoint adv (fuel : nat) (t : tstate) (d : db) : db * tstate :=\n'
                '  match fuel with O => (d, t) | S k => match t with TMain _ _ _ => (d, t) | TDone _ => (d, t)\n'
                "    | _ => let '(d', t') := tstep t d in adv k t' d' end end.\n")
        f.write('Definition predicted (setup : list req) (r : req) (k : nat) (rb : bool) : option (list (list (list Z))) :=\n'
                '  let d0 := run cf db0 setup in\n'
                '  match adv 60 (tinit cf r) d0 with\n'
                '  | (d, TMain x ks objs) =>\n'
                '      match set_allocations_deadlock rb d (fold_left update_consumer ks d) objs k with\n'
                '      | Ok d1 => Some (core_dump (dump (delete_created d1 (empty_created ks (x_all x)))))\n'
                '      | Err _ => None end\n'
                '  | _ => None end.\n')
        f.write('Definition ok (c : list req * req * nat * bool * option (list (list (list Z)))) : bool :=\n'
                "  let '(setup, r, k, rb, exp) := c in\n"
                '  match predicted setup r k rb, exp with\n'
                '  | Some a, Some b => dump_eqb a (core_dump b) | None, None => true | _, _ => false end.\n')
        items = []
        for setup, op, k, rb, after in cases:
            rcmap = {}
            terms = []
            nxt = 10000
            for o in setup:
                terms.append(ops.op_coq(o, rcmap))
                if o[0] in ('rc_create', 'rc_put') and o[2] >= 1000 and o[2] not in rcmap:
                    rcmap[o[2]] = nxt
                    nxt += 1
            items.append('(%s, %s, %d%%nat, %s, %s)' % (ops.lst(terms), ops.op_coq(op, rcmap), k, 'true' if rb else 'false',
                                                       'None' if after is None else '(Some %s)' % ops.dump_coq(after)))
        f.write('Definition cases := [\n%s].\n' % ';\n'.join(items))
        f.write('Eval vm_compute in map (fun c => if ok c then 1 else 0) cases.\n')
    res = coqrun.run_coq(path)
    return [i for i, r in enumerate(res) if r != 1]


def sync_fault_stream(viols, stats):
    """deadlocks during the start-up synchronisation: retried, effect exactly once"""
    from placement import deploy
    from placement.objects import resource_class as rc_obj
    from placement.objects import trait as trait_obj
    from oslo_db import exception as db_exc
    ref = impl.App()
    ref_dump = ops.canon_dump(ref.raw_dump())
    ref_raw = ref.raw_dump()
    ref.close()
    for k in range(0, 6):
        app = impl.App(sync=False)
        fired = []

        def on_stmt(i, st, params, k=k, fired=fired):
            if i == k and not fired:
                fired.append(st)
                raise db_exc.DBDeadlock()
        impl.OBS.reset()
        impl.OBS.on_stmt = on_stmt
        trait_obj._TRAITS_SYNCED = False
        rc_obj._RESOURCE_CLASSES_SYNCED = False
        err = None
        try:
            deploy.update_database(app.conf)
        except Exception as exc:
            err = exc
        finally:
            impl.OBS.on_stmt = None
        raw = app.raw_dump()
        stats['points'] += 1
        stats['distinct'].add(('sync', k))
        names = lambda d, t: sorted((r.get('id') if t == 'resource_classes' else 0, r['name']) for r in d[t])   # noqa: E731
        if err is not None:
            viols.append(({'kind': 'sync-fault', 'statement': k}, 'start-up sync failed after one deadlock: %r' % err))
        elif names(raw, 'resource_classes') != names(ref_raw, 'resource_classes') or \
                sorted(r['name'] for r in raw['traits']) != sorted(r['name'] for r in ref_raw['traits']):
            viols.append(({'kind': 'sync-fault', 'statement': k}, 'start-up sync with one deadlock at statement %d did not '
                          'produce the standard classes / traits exactly once' % k))
        app.close()


def run(pid, tier, out):
    t = common.Timer()
    conc.init_engine()
    ok_tr, tlog, blog = common.build()
    ps = common.proof_status('C17', DEPS)
    hyg = common.hygiene()
    corpus = inject.corpus()
    kinds = [('connection', False), ('deadlock', False), ('deadlock', True), ('duplicate', False)]
    if tier == 'thorough':
        kinds.append(('dberror', False))
    stats = {'points': 0, 'distinct': set(), 'outcomes': collections.Counter()}
    viols = []
    known = collections.Counter()
    cases = []
    samples = []
    for name, setup, op in corpus:
        n, ntx, nobs, final, stmts = inject.statement_count(setup, op)
        scope = retry_scope(stmts, list(inject.LAST_TXN_OF)) if op[0] in ('alloc_put', 'alloc_post', 'reshape') else None
        fc = first_cas_index(stmts, scope) if scope else None
        for kind, rb in kinds:
            only = None
            if kind == 'duplicate':
                only = [i for i, s in enumerate(stmts) if norm(s).startswith('INSERT INTO placement_aggregates')]
                if not only:
                    continue
            elif kind == 'deadlock' and tier == 'quick' and scope is None:
                only = list(range(0, n, 3))
            elif kind == 'connection' and tier == 'quick':
                only = [i for i in range(n) if i % 2 == 0 or (scope and scope[0] <= i <= scope[1])]
            for f in inject.fault_points(setup, op, kind, rb, only=only):
                stats['points'] += 1
                k = f['k']
                st = f['obs'][0] if f['obs'] else 599
                same_before = core(f['after']) == core(f['before'])
                same_final = core(f['after']) == core(f['final'])
                stats['outcomes'][(kind + ('+rb' if rb else ''), st, 'none' if same_before else ('full' if same_final else 'other'))] += 1
                stats['distinct'].add((name, kind, rb, k))
                where = {'kind': 'fault', 'request': name, 'setup': setup, 'op': op, 'fault': kind, 'db_rolled_back': rb,
                         'statement': k, 'sql': norm(f['stmt'])[:80]}
                body_ok = hasattr(f['res'], 'json') and isinstance(f['res'].json, dict) and 'errors' in f['res'].json
                in_scope = scope is not None and scope[0] <= k <= scope[1]
                retried = (kind == 'deadlock' and in_scope) or kind == 'duplicate'
                if len(samples) < 5 and in_scope and kind == 'deadlock':
                    samples.append({'request': name, 'fault': f['desc'], 'status': st,
                                    'effect': 'none' if same_before else ('as without the fault' if same_final else 'other')})
                if retried:
                    # the statement-level model covers: no database rollback (any position), and a database
                    # rollback up to the first compare-and-swap (later positions interact with replace_all's
                    # own conflict retry, which Model/Fault.v does not compose with)
                    if kind == 'deadlock' and op[0] == 'alloc_put' and name != 'put-unknown-provider-new-consumer' \
                            and (not rb or k < fc):
                        cases.append((setup, op, model_index(stmts, scope, k), rb,
                                      f['after'] if st < 300 else None, name, f['desc']))
                    if st == f['normal_obs'][0] and same_final:
                        continue                       # exactly once
                    # classify the recorded findings
                    if kind == 'deadlock' and not rb and k >= fc and st < 300 and not same_final:
                        known['deadlock-norollback-after-cas'] += 1
                        continue
                    if kind == 'deadlock' and rb:
                        known['deadlock-rollback'] += 1
                        continue
                    viols.append((where, '%s: answered %d (without the fault: %d) and the state is %s' % (
                        f['desc'], st, f['normal_obs'][0], 'unchanged' if same_before else 'neither unchanged nor as without the fault')))
                else:
                    if st == 500 and same_before and body_ok:
                        continue
                    if is_cleanup_stmt(stmts, k, scope) or (op[0] == 'alloc_delete' and k >= 3):
                        known['fault-in-cleanup-transaction'] += 1
                        continue
                    viols.append((where, '%s: answered %d%s and core state %s' % (
                        f['desc'], st, '' if body_ok else ' (not a JSON error body)', 'unchanged' if same_before else 'CHANGED')))
    sync_fault_stream(viols, stats)
    model_ok = all(common.vo_fresh(d) for d in MODEL)
    disagreements = []
    corr_error = None
    if model_ok and cases:
        try:
            disagreements = coq_deadlock_cases([c[:5] for c in cases], os.path.join(common.WORK, 'fault'))
        except Exception as exc:
            corr_error = str(exc)[-800:]
    elif not model_ok:
        corr_error = 'model did not build'
    proof_broken = (not ps['ok']) or bool(hyg) or not ok_tr
    tie_broken = bool(disagreements) or corr_error is not None
    for f in common.load_known():
        pat = f.get('match', {}).get('pattern')
        if f.get('kind') == 'known' and f.get('property') == 'C17' and known.get(pat):
            out.known_finding('%s [%d fault points]' % (f['what'], known[pat]))
    seen = set()
    for payload, text in viols:
        key = (payload.get('request'), payload.get('fault'), text[-40:])
        if key in seen:
            continue
        seen.add(key)
        if len(seen) > 4:
            break
        payload['broken'] = ps.get('broken') or ('correspondence' if tie_broken else None)
        out.violation(payload, text)
    if not viols:
        if proof_broken:
            what = ps['error'] or ('hygiene: %s' % hyg[:5] if hyg else 'translator failed: %s' % tlog[-500:])
            out.violation({'kind': 'proof-broken', 'theorem_or_file': ps.get('broken') or 'Props/C17.v', 'detail': what,
                           'not_closed': [x for x in ps['theorems'] if not x[1]]},
                          'proof obligation no longer checks: %s' % (ps.get('broken') or what), no_input=True)
        elif tie_broken:
            d0 = None
            if disagreements:
                c = cases[disagreements[0]]
                d0 = {'request': c[5], 'fault': c[6], 'model_statement': c[2], 'db_rolled_back': c[3], 'impl_dump': c[4]}
            out.violation({'kind': 'correspondence-broken', 'stream': 'deadlock positions', 'first_disagreement': d0,
                           'error': corr_error},
                          'the statement-level model and the implementation disagree on %d deadlock positions and the oracle '
                          'found no failing input' % len(disagreements), no_input=True)
    nthm = len(ps['theorems'])
    obligations = max(1, nthm + ps['lemmas'])
    discharged = obligations if ps['ok'] else sum(1 for x in ps['theorems'] if x[1])
    cov = {'obligations': obligations, 'discharged': discharged,
           'checker_cmd': 'cd /verif/coq && make -k && coqc -Q . PV Props/C17.v',
           'trusted_base': common.TRUSTED_BASE + [
               'the database rolls back a failing top-level transaction atomically (assumed); whether a deadlock victim is rolled '
               'back is the parameter rb, emulated on SQLite by rolling back the DBAPI connection before raising DBDeadlock',
               'faults are exceptions raised from the SQLAlchemy before_cursor_execute hook'],
           'theorems': [{'name': n, 'closed_under_global_context': c, 'assumptions': a} for n, c, a in ps['theorems']],
           'proof_error': ps['error'], 'hygiene_hits': hyg,
           'evaluations': stats['points'], 'distinct_nontrivial': len(stats['distinct']),
           'rule': 'corpus of %d write requests (all write routes, succeeding and failing); one fault per run at statement k for '
                   '%s k: non-retryable connection error, deadlock without and with a database-side rollback, duplicate key at the '
                   'first recording of an aggregate; plus deadlocks during start-up sync; a case = (request, fault kind, k)'
                   % (len(corpus), 'every' if tier == 'thorough' else 'every statement inside the retry scopes and every 2nd/3rd elsewhere'),
           'samples': samples, 'traces_validated_against_impl': len(cases) - len(disagreements) if model_ok and not corr_error else 0,
           'model_impl_disagreements': len(disagreements), 'correspondence_error': corr_error,
           'outcome_histogram': {'%s/%s/%s' % k: v for k, v in sorted(stats['outcomes'].items(), key=str)},
           'known_finding_points': dict(known)}
    common.write_evidence('C17', tier, 'proof', cov, t.s(), len(out.violations))


def replay(pid, path, out):
    from harness.checks_seq import tuple_op
    p = json.load(open(path))
    if p.get('kind') != 'fault':
        run(pid, 'quick', out)
        return
    conc.init_engine()
    setup = [tuple_op(o) for o in p['setup']]
    op = tuple_op(p['op'])
    for f in inject.fault_points(setup, op, p['fault'], p['db_rolled_back'], only=[p['statement']]):
        st = f['obs'][0] if f['obs'] else 599
        same_before = core(f['after']) == core(f['before'])
        same_final = core(f['after']) == core(f['final'])
        if not ((st == 500 and same_before) or (st == f['normal_obs'][0] and same_final)):
            out.violation(p, '%s: answered %d' % (f['desc'], st))
