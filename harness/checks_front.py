"""Checks of C14 (documented surface per microversion) and C16 (authentication / authorisation):
Coq theorems over the tables regenerated from /repo + exhaustive probing of the real application."""
import json
import os
import random

from harness import common
from harness import impl
from harness import ops
from harness import surface

GEN = ['Gen/GenConsts.v', 'Gen/GenRoutes.v', 'Gen/GenSurfaceSpec.v']
DEPS = {'C14': GEN + ['Spec/Surface.v', 'Proofs/C14.v', 'Gen/GenSchemas.v', 'Model/Json.v', 'Model/Decode.v', 'Spec/Fields.v',
                      'Proofs/C14f.v', 'Spec/RespFields.v', 'Proofs/C14r.v'],
        'C16': GEN + ['Spec/Surface.v', 'Spec/Pipeline.v', 'Proofs/C16.v']}


def proof_part(pid, out, searched_hits):
    ok_tr, tlog, blog = common.build()
    ps = common.proof_status(pid, DEPS[pid])
    hyg = common.hygiene()
    broken = (not ps['ok']) or bool(hyg) or not ok_tr
    return ps, hyg, broken, tlog


def evidence_proof(ps):
    nthm = len(ps['theorems'])
    obligations = max(1, nthm + ps['lemmas'])
    discharged = obligations if ps['ok'] else sum(1 for x in ps['theorems'] if x[1])
    return obligations, discharged


# ---------------------------------------------------------------------------------------------- C14
def known_match(kind, **kw):
    for f in common.load_known():
        if f.get('kind') == 'known' and f.get('match', {}).get('kind') == kind:
            m = f['match']
            if all(m.get(k) == v for k, v in kw.items() if k in m):
                return f
    return None


def c14_probe_violation(v, route, method, r, exp):
    """-> list of (kind, text)"""
    res = []
    if exp[0] == 'available':
        if r.status in (404, 405):
            res.append(('availability', '%s %s at 1.%d answered %d but is documented as available' % (method, route, v, r.status)))
    elif r.status != exp[1]:
        res.append(('availability', '%s %s at 1.%d answered %d, documented %d' % (method, route, v, r.status, exp[1])))
    hv = r.headers.get('openstack-api-version')
    if hv != 'placement 1.%d' % v:
        res.append(('version-header', '%s %s at 1.%d: openstack-api-version header is %r' % (method, route, v, hv)))
    if 'openstack-api-version' not in r.headers.get('vary', '').lower():
        res.append(('missing-vary', '%s %s at 1.%d (%d): no Vary header listing openstack-api-version' % (method, route, v, r.status)))
    if exp == ('exact', 405) and route in surface.SPEC['availability'] and \
            method not in surface.SPEC['availability'][route]:
        allow = sorted(x.strip() for x in r.headers.get('allow', '').split(',') if x.strip())
        if allow != sorted(surface.SPEC['availability'][route]):
            res.append(('allow-header', '%s %s: Allow header %r does not list the documented methods' % (method, route, allow)))
    return res


NEGOTIATION = [(None, 0), ('latest', 39), ('1.0', 0), ('1.39', 39), ('1.40', 406), ('0.9', 406), ('2.0', 406),
               ('1.17', 17), ('1.100', 406)]


def run_c14(tier, out):
    t = common.Timer()
    ps, hyg, broken, tlog = proof_part('C14', out, None)
    stats = {'n': 0, 'distinct': set(), 'status': {}}
    viols = []
    known_hits = {}
    samples = []

    def on_probe(v, route, method, r, exp):
        stats['n'] += 1
        stats['distinct'].add((route, method, v, r.status))
        stats['status'][r.status] = stats['status'].get(r.status, 0) + 1
        if len(samples) < 6 and v in (0, 12, 39) and method in ('GET', 'DELETE'):
            samples.append({'version': v, 'route': route, 'method': method, 'status': r.status, 'expected': list(exp)})
        for kind, text in c14_probe_violation(v, route, method, r, exp):
            f = known_match(kind, route=route) if kind == 'missing-vary' else None
            if f is not None:
                known_hits[f['what']] = known_hits.get(f['what'], 0) + 1
            else:
                viols.append(({'kind': 'probe', 'version': v, 'route': route, 'method': method,
                               'expected': list(exp), 'observed': r.status, 'check': kind}, text))
    n_av = surface.availability_matrix(range(40), on_probe)

    fstats = {'n': 0}

    def on_feature(v, name, intro, present, err):
        fstats['n'] += 1
        stats['distinct'].add((name, v, present))
        if present != (v >= intro):
            viols.append(({'kind': 'feature', 'version': v, 'feature': name, 'introduced': intro,
                           'observed_present': present, 'error': err},
                          'feature %r (introduced 1.%d) is %s at 1.%d' % (name, intro, 'present' if present else 'absent', v)))
    surface.feature_matrix(range(40), on_feature)

    # negotiation: header values
    app = impl.App()
    for hv, exp in NEGOTIATION:
        r = app.request('GET', '/resource_providers', version=hv, headers=surface.SVC)
        stats['n'] += 1
        if exp == 406:
            if r.status != 406:
                viols.append(({'kind': 'negotiation', 'header': hv, 'observed': r.status}, 'version %r answered %d, expected 406' % (hv, r.status)))
        else:
            got = r.headers.get('openstack-api-version')
            if r.status != 200 or got != 'placement 1.%d' % exp:
                viols.append(({'kind': 'negotiation', 'header': hv, 'observed': [r.status, got]},
                              'version header %r: applied %r (status %d), expected 1.%d' % (hv, got, r.status, exp)))
    app.close()

    for what, n in known_hits.items():
        out.known_finding('%s [%d probes]' % (what, n))
    seen = set()
    for payload, text in viols:
        key = (payload.get('kind'), payload.get('route'), payload.get('method'), payload.get('feature'), payload.get('check'))
        if key in seen:
            continue
        seen.add(key)
        if len(seen) > 5:
            break
        payload['broken'] = ps.get('broken')
        out.violation(payload, text)
    # which schema each operation validates with at each minor version: learnt from the running code (a spy on
    # util.extract_json / util.validate_query_params) against the table Spec/Fields.v:schema_at that C14_fields is about
    sc_n, sc_err = 0, None
    if common.vo_fresh('Spec/Fields.v'):
        try:
            from harness import decode as decode_mod
            sc_n, sc_err = decode_mod.schema_choice('C14_%s' % tier)
        except Exception as exc:      # noqa
            sc_err = 'schema choice stream: %s' % str(exc)[-500:]
    else:
        sc_err = 'Spec/Fields.v did not build'
    # which query parameters / request groups GET /allocation_candidates accepts at each version: the real handler (search replaced
    # by a capture) against Model/DecodeQC.v - whose accepted set is what the schemas and lib.py rules of that version allow - on
    # fixed orphan-group cases on both sides of every introduction and on generated query strings
    if common.vo_fresh('Model/DecodeQC.v'):
        try:
            from harness import decodeqc
            dq_n, dq_bad, _first, dq_stats = decodeqc.run(common.seed() + 14, 150 if tier == 'quick' else 4000)
            stats['n'] += dq_n
            for b in dq_stats.get('bad_cases', [])[:3]:
                payload = {'kind': 'query-acceptance', 'version': b['version'], 'query': b['query'], 'answer': b['answer'],
                           'broken': ps.get('broken')}
                text = ('GET /allocation_candidates?%s at 1.%d is %s; the rules of that version say otherwise (or decode it '
                        'differently)' % (b['query'][:200], b['version'], b['answer']))
                out.violation(payload, text)
                viols.append((payload, text))
        except Exception as exc:      # noqa
            viols_err = 'query acceptance stream: %s' % str(exc)[-300:]
            out.violation({'kind': 'correspondence-broken', 'stream': 'query acceptance', 'error': viols_err}, viols_err, no_input=True)
            viols.append(({'kind': 'correspondence-broken'}, viols_err))
    # response members (body members by path, headers, status) per operation and version: the serialiser model
    # Spec/RespFields.v:resp_members that C14_response_fields / C14_no_undocumented_response_member compare with the documented
    # table, against one real successful request per operation and version
    rf_n, rf_err, rf_known = 0, None, {}
    rf_t = common.Timer()
    if common.vo_fresh('Spec/RespFields.v'):
        try:
            from harness import respfields
            rf_n, rf_bad, rf_err = respfields.run('C14_%s' % tier)
            rf_seen = set()
            for payload, text in rf_bad:
                key = (payload['route'], payload['method'], payload.get('producer'))
                if key in rf_seen or len(rf_seen) >= 5:
                    continue
                rf_seen.add(key)
                payload['broken'] = ps.get('broken')
                out.violation(payload, text)
                viols.append((payload, text))
            # members the model emits and the documented table does not give the operation (C14_no_undocumented_response_member
            # allows exactly Spec/RespFields.v:resp_known_extra): each must be a recorded finding
            if not rf_err:
                for route, method, member, from_v in respfields.undocumented(respfields.model_table('C14u_%s' % tier)):
                    f = known_match('response-undocumented', route=route, method=method, member=member)
                    if f is not None:
                        rf_known[f['what']] = rf_known.get(f['what'], 0) + 1
                    else:
                        payload = {'kind': 'response-undocumented', 'route': route, 'method': method, 'member': member,
                                   'version': from_v}
                        text = ('%s %s emits %s from 1.%d on; the documented table (spec/surface.json:response_fields) does not '
                                'give the operation this member' % (method, route, member, from_v))
                        out.violation(payload, text)
                        viols.append((payload, text))
        except Exception as exc:      # noqa
            rf_err = 'response members stream: %s' % str(exc)[-500:]
    else:
        rf_err = 'Spec/RespFields.v did not build'
    for what, n in rf_known.items():
        out.known_finding('%s [%d members]' % (what, n))
    rf_secs = rf_t.s()
    if broken and not viols:
        what = ps['error'] or ('hygiene: %s' % hyg[:5] if hyg else 'translator failed: %s' % tlog[-600:])
        out.violation({'kind': 'proof-broken', 'theorem_or_file': ps.get('broken') or 'Props/C14.v', 'detail': what,
                       'not_closed': [x for x in ps['theorems'] if not x[1]]},
                      'proof obligation no longer checks: %s' % (ps.get('broken') or what), no_input=True)
    elif sc_err and not viols:
        out.violation({'kind': 'correspondence-broken', 'stream': 'schema choice', 'error': sc_err},
                      'the schema an operation validates with is not the one the theorem C14_fields reads: %s' % sc_err[:300],
                      no_input=True)
    elif rf_err and not viols:
        out.violation({'kind': 'correspondence-broken', 'stream': 'response members', 'error': rf_err},
                      'the members the service answers with cannot be compared with Spec/RespFields.v:resp_members: %s'
                      % rf_err[:300], no_input=True)
    obligations, discharged = evidence_proof(ps)
    cov = {'obligations': obligations, 'discharged': discharged,
           'schema_choice_facts': sc_n, 'correspondence_error': sc_err or rf_err,
           'response_member_checks': rf_n, 'response_member_seconds': round(rf_secs, 1), 'response_documented_members': len(surface.SPEC.get('response_fields', [])),
           'checker_cmd': 'cd /verif/coq && make -k && coqc -Q . PV Props/C14.v',
           'trusted_base': common.TRUSTED_BASE + ['documented surface transcribed by hand into /verif/spec/surface.json',
                                                  'microversion_parse negotiation is modelled (Spec/Surface.v negotiate)'],
           'theorems': [{'name': n, 'closed_under_global_context': c, 'assumptions': a} for n, c, a in ps['theorems']],
           'proof_error': ps['error'], 'hygiene_hits': hyg,
           'evaluations': stats['n'] + fstats['n'], 'distinct_nontrivial': len(stats['distinct']),
           'rule': 'exhaustive: 40 microversions x 19 documented routes + 1 unknown x 5 methods on a populated state '
                   '(%d probes); %d feature probes x 40 versions (%d); %d negotiation headers; %d response-member checks (one '
                   'successful request per operation and version + 7 error producers per version: members / headers / status '
                   'against Spec/RespFields.v:resp_members); distinct = distinct '
                   '(route, method, version, status) / (feature, version, presence) outcomes; all are non-trivial'
                   % (n_av, len(surface.FEATURES), fstats['n'], len(NEGOTIATION), rf_n),
           'exhaustive': True, 'samples': samples, 'traces_validated_against_impl': n_av + fstats['n'] + rf_n,
           'status_histogram': {str(k): v for k, v in sorted(stats['status'].items())},
           'known_findings_seen': dict(known_hits, **rf_known)}
    common.write_evidence('C14', tier, 'proof', cov, t.s(), len(out.violations),
                          assumptions=['noauth2 authentication with admin+service roles for probing'])


def replay_c14(path, out):
    p = json.load(open(path))
    if p.get('kind') == 'probe':
        def on_probe(v, route, method, r, exp):
            if route == p['route'] and method == p['method']:
                for kind, text in c14_probe_violation(v, route, method, r, exp):
                    if kind == p.get('check') and not (kind == 'missing-vary' and known_match(kind, route=route)):
                        out.violation(p, text)
        surface.availability_matrix([p['version']], on_probe)
    elif p.get('kind') == 'feature':
        feats = [f for f in surface.FEATURES if f[0] == p['feature']]

        def on_feature(v, name, intro, present, err):
            if present != (v >= intro):
                out.violation(p, 'feature %r (introduced 1.%d) is %s at 1.%d' % (name, intro, 'present' if present else 'absent', v))
        surface.feature_matrix([p['version']], on_feature, feats)
    elif p.get('kind') == 'response-members':
        from harness import respfields
        n, bad, err = respfields.run('C14_replay', versions=[p['version']], only=(p['route'], p['method']))
        for payload, text in bad:
            if payload.get('producer') == p.get('producer'):
                out.violation(p, text)
                break
        if err:
            out.violation(p, err, no_input=True)
    else:
        run_c14('quick', out)


# ---------------------------------------------------------------------------------------------- C16
CALLERS = {
    # name: (token, roles, project queried on /usages)
    'no-roles': ('u1:p1', '', 'p1'),
    'reader-own-project': ('u1:p1', 'reader', 'p1'),
    'reader-other-project': ('u1:p1', 'reader', 'p2'),
    'member': ('u1:p1', 'member,reader', 'p1'),
    'admin': ('u1:p1', 'admin,member,reader', 'p2'),
    'service': ('u1:p1', 'service', 'p2'),
}


def documented_allowed(route, caller):
    roles = set(x for x in CALLERS[caller][1].split(',') if x)
    if route == '/reshaper':
        return 'service' in roles
    if route == '/usages':
        return bool({'admin', 'service'} & roles) or ('reader' in roles and CALLERS[caller][2] == 'p1')
    return bool({'admin', 'service'} & roles)


def ops_list():
    avail = surface.SPEC['availability']
    res = [(route, method) for route in avail for method in avail[route] if route not in ('/', '')]
    return [p for p in res if p[1] != 'DELETE'] + sorted([p for p in res if p[1] == 'DELETE'], key=lambda p: -len(p[0]))


def issue(app, route, method, token, roles, project, content_type='application/json', version=39):
    path = surface.concrete_path(route, method)
    if route == '/usages':
        path += '?project_id=%s' % project
    body = {} if method in ('POST', 'PUT') else None
    impl.OBS.reset()
    hdrs = {'x-roles': roles} if token is not None else {}
    r = app.request(method, path, body=body, version='1.%d' % version, headers=hdrs, token=token,
                    content_type=content_type)
    return r, list(impl.OBS.stmts)


def version_bands(route, method):
    """one representative microversion per documented behaviour band of an operation"""
    intro = surface.SPEC['availability'][route][method][0]
    pts = surface.SPEC['change_points'].get(route, {}).get(method, [])
    return sorted(set([intro, 39] + [p for p in pts if p >= intro]))


def check_denied(route, method, caller, r, stmts, before, after):
    v = []
    if r.status != 403:
        v.append('%s %s by %s answered %d, expected 403' % (method, route, caller, r.status))
    if before != after:
        v.append('%s %s by %s (denied) changed stored state' % (method, route, caller))
    if stmts:
        v.append('%s %s by %s (denied) issued SQL before the 403: %s' % (method, route, caller, stmts[0][:80]))
    if r.status < 400 or (r.json is not None and set(r.json) - {'errors'}):
        v.append('%s %s by %s (denied) returned data' % (method, route, caller))
    return v


def run_c16(tier, out):
    t = common.Timer()
    ps, hyg, broken, tlog = proof_part('C16', out, None)
    routes_json = json.load(open(os.path.join(common.WORK, 'routes.json'))) if os.path.exists(
        os.path.join(common.WORK, 'routes.json')) else None
    stats = {'n': 0, 'distinct': set(), 'status': {}}
    viols = []
    samples = []

    def note(route, method, caller, r, cfgname):
        stats['n'] += 1
        stats['distinct'].add((cfgname, route, method, caller, r.status))
        stats['status'][r.status] = stats['status'].get(r.status, 0) + 1
        if len(samples) < 8 and method in ('PUT', 'GET') and route in ('/usages', '/reshaper', '/resource_providers/{uuid}'):
            samples.append({'policy': cfgname, 'route': route, 'method': method, 'caller': caller, 'status': r.status})

    oplist = ops_list()
    # --- the FIRST request a freshly loaded process serves is a refused one (nothing - start-up work included - may be done on a
    #     refused caller's behalf: no SQL write, the stored tables as the start-up left them)
    for caller, token, roles, want in (('no-credentials', None, '', 401), ('member', 'member', 'member', 403), ('no-roles', 'x', '', 403)):
        for route, method in (('/resource_providers', 'GET'), ('/traits', 'GET'), ('/resource_classes', 'POST')):
            fresh = impl.App()
            raw0 = fresh.raw_dump()
            r, stmts = issue(fresh, route, method, token, roles, 'p1')
            raw1 = fresh.raw_dump()
            note(route, method, caller + '@first-request', r, 'default')
            writes = [x for x in stmts if str(x).lstrip().split(' ', 1)[0].upper() in ('INSERT', 'UPDATE', 'DELETE')]
            if r.status != want or raw0 != raw1 or writes:
                viols.append(({'kind': 'authz', 'policy': 'default', 'route': route, 'method': method, 'caller': caller,
                               'first_request_of_a_fresh_process': True, 'observed': r.status, 'sql_writes': len(writes)},
                              '%s %s by %s as the first request of a fresh process answered %d (expected %d), issued %d SQL writes, '
                              'tables %s' % (method, route, caller, r.status, want, len(writes), 'changed' if raw0 != raw1 else 'unchanged')))
            fresh.close()
    # --- no credentials
    app = impl.App()
    surface.setup_state(app)
    before = ops.canon_dump(app.raw_dump())
    for route, method in oplist:
        r, stmts = issue(app, route, method, None, '', 'p1')
        note(route, method, 'no-credentials', r, 'default')
        after = ops.canon_dump(app.raw_dump())
        if r.status != 401 or before != after or stmts:
            viols.append(({'kind': 'authz', 'policy': 'default', 'route': route, 'method': method, 'caller': 'no-credentials',
                           'observed': r.status}, '%s %s without credentials answered %d / changed state' % (method, route, r.status)))
    r = app.request('GET', '/', token=None)
    if r.status != 200:
        viols.append(({'kind': 'authz', 'route': '/', 'method': 'GET', 'caller': 'no-credentials', 'observed': r.status},
                      'the version document requires credentials (%d)' % r.status))
    # --- denied callers under the default policy (no state change, so one application serves them all)
    for caller, (token, roles, proj) in CALLERS.items():
        for route, method in oplist:
            if documented_allowed(route, caller):
                continue
            for ver in version_bands(route, method):
                r, stmts = issue(app, route, method, token, roles, proj, version=ver)
                note(route, method, caller + '@1.%d' % ver, r, 'default')
                after = ops.canon_dump(app.raw_dump())
                for msg in check_denied(route, method, caller, r, stmts, before, after):
                    viols.append(({'kind': 'authz', 'policy': 'default', 'route': route, 'method': method,
                                   'caller': caller, 'version': ver, 'observed': r.status}, msg + ' at 1.%d' % ver))
                    before = after
    # a denied caller whose request is also malformed for everybody: 415 / 405 are caller-independent
    for caller in ('member',):
        token, roles, proj = CALLERS[caller]
        r, _ = issue(app, '/resource_providers', 'POST', token, roles, proj, content_type='text/plain')
        r2, _ = issue(app, '/resource_providers', 'POST', 'a:b', 'admin', proj, content_type='text/plain')
        note('/resource_providers', 'POST', caller + '+text/plain', r, 'default')
        if r.status not in (403, r2.status):
            viols.append(({'kind': 'authz', 'policy': 'default', 'route': '/resource_providers', 'method': 'POST',
                           'caller': caller, 'observed': r.status}, 'denied caller got %d' % r.status))
    app.close()
    # --- allowed callers
    for caller, (token, roles, proj) in CALLERS.items():
        if not any(documented_allowed(route, caller) for route, m in oplist):
            continue
        app = impl.App()
        surface.setup_state(app)
        for route, method in oplist:
            if not documented_allowed(route, caller):
                continue
            r, stmts = issue(app, route, method, token, roles, proj)
            note(route, method, caller, r, 'default')
            if r.status in (401, 403):
                viols.append(({'kind': 'authz', 'policy': 'default', 'route': route, 'method': method, 'caller': caller,
                               'observed': r.status}, '%s %s by %s answered %d although the documented default allows it'
                              % (method, route, caller, r.status)))
        # the same credentials, in the same process, right after they were granted something: every operation (and, for
        # GET /usages, every other project) that the documented default denies them must still be denied - a decision
        # must not outlive the request it was taken for
        before = ops.canon_dump(app.raw_dump())
        for caller2, (token2, roles2, proj2) in CALLERS.items():
            if (token2, roles2) != (token, roles):
                continue
            for route, method in oplist:
                if documented_allowed(route, caller2):
                    continue
                r, stmts = issue(app, route, method, token2, roles2, proj2)
                note(route, method, caller2 + ' after grants to ' + caller, r, 'default')
                after = ops.canon_dump(app.raw_dump())
                for msg in check_denied(route, method, caller2, r, stmts, before, after):
                    viols.append(({'kind': 'authz', 'policy': 'default', 'route': route, 'method': method, 'caller': caller2,
                                   'after_grants_to': caller, 'version': 39, 'observed': r.status},
                                  msg + ' (same credentials had just been granted the operations allowed to %s)' % caller))
                    before = after
        app.close()
    # --- the project a reader is authorised for is the project whose usages it gets: project_id given twice, in both orders
    app = impl.App()
    surface.setup_state(app)
    adm = {'x-roles': 'admin,service'}
    for k, (proj, amount) in enumerate((('p1', 1), ('p2', 3))):
        body = {'allocations': {surface.RP_B: {'resources': {'MEMORY_MB': amount}}}, 'project_id': proj, 'user_id': 'u1',
                'consumer_generation': None, 'consumer_type': 'TYPE1'}
        app.request('PUT', '/allocations/%s' % ops.uuid_of(60 + k, ops.K_CONS), body=body, version='1.39', headers=adm)
    own = app.request('GET', '/usages?project_id=p1', version='1.39', headers=adm).json
    other = app.request('GET', '/usages?project_id=p2', version='1.39', headers=adm).json
    if own != other and own and other:
        for order in (('p1', 'p2'), ('p2', 'p1')):
            for ver in (9, 37, 38, 39):
                r = app.request('GET', '/usages?project_id=%s&project_id=%s' % order, version='1.%d' % ver,
                                headers={'x-roles': 'reader'}, token='u1:p1')
                stats['n'] += 1
                stats['distinct'].add(('default', '/usages', 'GET', 'reader-own-project, project_id=%s&project_id=%s' % order, r.status))
                if r.status == 200 and r.json == app.request('GET', '/usages?project_id=p2', version='1.%d' % ver, headers=adm).json \
                        and r.json != app.request('GET', '/usages?project_id=p1', version='1.%d' % ver, headers=adm).json:
                    viols.append(({'kind': 'authz', 'policy': 'default', 'route': '/usages', 'method': 'GET', 'caller': 'reader-own-project',
                                   'version': ver, 'observed': 200, 'query': 'project_id=%s&project_id=%s' % order},
                                  'a reader of project p1 asking GET /usages?project_id=%s&project_id=%s at 1.%d is answered 200 with the '
                                  'usages of project p2' % (order[0], order[1], ver)))
    app.close()
    # --- single-rule overrides: the rule of an operation is what grants / denies exactly that operation
    rules = {}
    if routes_json:
        for name, rinfo in routes_json['rules'].items():
            if name.startswith('placement:') and rinfo['operations']:
                rules[name] = [(p, m) for m, p in rinfo['operations']]
    names = sorted(rules)
    if tier == 'quick' and not broken:
        rng = random.Random(common.seed())
        names = sorted(rng.sample(names, min(8, len(names))))
    # (a broken proof or translator: every rule is probed, to find the failing operation)
    for name in names:
        app = impl.App(policy_rules={name: 'role:member'})
        # populate with the default policy semantics: the service role satisfies every other rule; the overridden
        # rule is satisfied by member, so populate with all three roles
        _populate_all_roles(app)
        before = ops.canon_dump(app.raw_dump())
        for route, method in oplist:
            mine = (route, method) in rules[name]
            # member: allowed exactly on the overridden rule's operations
            r, stmts = issue(app, route, method, 'u1:p1', 'member', 'p1')
            note(route, method, 'member', r, 'override:' + name)
            if mine and r.status in (401, 403):
                viols.append(({'kind': 'authz', 'policy': {name: 'role:member'}, 'route': route, 'method': method,
                               'caller': 'member', 'observed': r.status},
                              'overriding %s to role:member does not grant %s %s to a member (%d)' % (name, method, route, r.status)))
            if not mine and r.status != 403:
                viols.append(({'kind': 'authz', 'policy': {name: 'role:member'}, 'route': route, 'method': method,
                               'caller': 'member', 'observed': r.status},
                              'overriding %s also grants %s %s to a member (%d)' % (name, method, route, r.status)))
            if mine and method != 'GET':
                # state may have changed; recompute the reference dump
                before = ops.canon_dump(app.raw_dump())
            elif not mine and ops.canon_dump(app.raw_dump()) != before:
                viols.append(({'kind': 'authz', 'policy': {name: 'role:member'}, 'route': route, 'method': method,
                               'caller': 'member', 'observed': r.status}, 'denied request changed state'))
                before = ops.canon_dump(app.raw_dump())
            # admin+service without member: denied exactly on the overridden rule's operations
            if mine:
                r, stmts = issue(app, route, method, 'u1:p1', 'admin,service', 'p1')
                note(route, method, 'admin+service', r, 'override:' + name)
                if r.status != 403:
                    viols.append(({'kind': 'authz', 'policy': {name: 'role:member'}, 'route': route, 'method': method,
                                   'caller': 'admin+service', 'observed': r.status},
                                  'overriding %s to role:member still lets admin/service use %s %s (%d)' % (name, method, route, r.status)))
        app.close()

    seen = set()
    for payload, text in viols:
        key = (str(payload.get('policy')), payload.get('route'), payload.get('method'), payload.get('caller'))
        if key in seen:
            continue
        seen.add(key)
        if len(seen) > 5:
            break
        payload['broken'] = ps.get('broken')
        out.violation(payload, text)
    if broken and not viols:
        what = ps['error'] or ('hygiene: %s' % hyg[:5] if hyg else 'translator failed: %s' % tlog[-600:])
        out.violation({'kind': 'proof-broken', 'theorem_or_file': ps.get('broken') or 'Props/C16.v', 'detail': what,
                       'not_closed': [x for x in ps['theorems'] if not x[1]]},
                      'proof obligation no longer checks: %s' % (ps.get('broken') or what), no_input=True)
    obligations, discharged = evidence_proof(ps)
    cov = {'obligations': obligations, 'discharged': discharged,
           'checker_cmd': 'cd /verif/coq && make -k && coqc -Q . PV Props/C16.v',
           'trusted_base': common.TRUSTED_BASE + ['oslo.policy evaluation is modelled (Spec/Pipeline.v eval_chk); keystonemiddleware '
                                                  'is not exercised (noauth2 + the context middleware are)'],
           'theorems': [{'name': n, 'closed_under_global_context': c, 'assumptions': a} for n, c, a in ps['theorems']],
           'proof_error': ps['error'], 'hygiene_hits': hyg,
           'evaluations': stats['n'], 'distinct_nontrivial': len(stats['distinct']),
           'rule': 'exhaustive over the routing table at 1.39: every route x documented method x caller class (none, no roles, '
                   'reader own/other project, member, admin, service) under the default policy, plus %d single-rule overrides '
                   '(%s) x every operation x {member, admin+service}; distinct = distinct (policy, route, method, caller, '
                   'status); all non-trivial' % (len(names), 'all rules' if tier == 'thorough' else 'seeded sample of 8'),
           'exhaustive': tier == 'thorough', 'samples': samples, 'traces_validated_against_impl': stats['n'],
           'status_histogram': {str(k): v for k, v in sorted(stats['status'].items())}}
    common.write_evidence('C16', tier, 'proof', cov, t.s(), len(out.violations),
                          assumptions=['noauth2 authentication (token user:project, X-Roles header)'])


def _populate_all_roles(app):
    old = dict(surface.SVC)
    surface.SVC['x-roles'] = 'admin,service,member'
    try:
        surface.setup_state(app)
    finally:
        surface.SVC.clear()
        surface.SVC.update(old)


def replay_c16(path, out):
    p = json.load(open(path))
    if p.get('kind') != 'authz':
        run_c16('quick', out)
        return
    pol = p.get('policy')
    app = impl.App(policy_rules=pol if isinstance(pol, dict) else None)
    _populate_all_roles(app)
    before = ops.canon_dump(app.raw_dump())
    caller = p['caller']
    if caller == 'no-credentials':
        r, stmts = issue(app, p['route'], p['method'], None, '', 'p1')
        if r.status != 401 or ops.canon_dump(app.raw_dump()) != before:
            out.violation(p, 'without credentials: %d' % r.status)
    else:
        token, roles, proj = CALLERS.get(caller, ('u1:p1', caller.replace('+', ','), 'p1'))
        if p.get('after_grants_to') in CALLERS:
            # first everything the documented default grants to these credentials, as in the run
            t0, r0, p0 = CALLERS[p['after_grants_to']]
            for route, method in ops_list():
                if documented_allowed(route, p['after_grants_to']):
                    issue(app, route, method, t0, r0, p0)
            before = ops.canon_dump(app.raw_dump())
        r, stmts = issue(app, p['route'], p['method'], token, roles, proj, version=p.get('version', 39))
        if r.status == p['observed']:
            out.violation(p, '%s %s by %s still answers %d' % (p['method'], p['route'], caller, r.status))
    app.close()


def run(pid, tier, out):
    (run_c14 if pid == 'C14' else run_c16)(tier, out)


def replay(pid, path, out):
    (replay_c14 if pid == 'C14' else replay_c16)(path, out)
