"""Check of C15: Coq theorems (no modelled request is answered 5xx, in any state, behind the front pipeline;
rejected requests leave the core state alone) + (1) the differential history stream tying the model of the
write handlers to the application, with the C15 oracle on every step, (2) grammar-based mutation of valid
requests to every route on the real application in several states (plain, exotic topologies, random history),
checking: no escaped exception, no 5xx, well-formed response, JSON error document for every 4xx, no change of
the stored state for 400/404/405/406/415."""
import collections
import json
import os
import random
import re
import sys
import traceback

from harness import checks_seq
from harness import common
from harness import coqrun
from harness import fuzz
from harness import gen
from harness import hist
from harness import impl
from harness import inject
from harness import ops
from harness import oracles
from harness import parse
from harness import surface

DEPS = checks_seq.MODEL + ['Spec/Pipeline.v', 'Spec/ExcSpec.v', 'Proofs/C04.v', 'Proofs/C16.v', 'Proofs/C15.v', 'Proofs/C15x.v',
                            'Model/Parse.v', 'Proofs/C15p.v', 'Model/Json.v', 'Gen/GenSchemas.v', 'Model/Decode.v', 'Proofs/C15s.v']
U = ops.uuid_of
SVC = {'x-roles': 'admin,service'}
REJECT = (400, 404, 405, 406, 415)
LAST_EXC = []          # exc_info of the last exception that reached FaultWrapper


def install_exception_probe():
    """Record what reaches the last-resort 500 wrapper (harness-side patch of its logger call; no repo hook)."""
    from placement import fault_wrap
    if getattr(fault_wrap.LOG, '_pv_patched', False):
        return
    orig = fault_wrap.LOG.exception

    class L(object):
        _pv_patched = True

        def exception(self, *a, **kw):
            LAST_EXC.append(sys.exc_info())

        def __getattr__(self, n):
            return getattr(orig.__self__, n)
    fault_wrap.LOG = L()


def c15_oracle(op, obs, before, after):
    v = []
    if obs[0] >= 500:
        v.append('request answered %d' % obs[0])
    if obs[0] in REJECT:
        for t in oracles.CORE:
            if before[t] != after[t]:
                v.append('request rejected with %d changed table %d: %r -> %r' % (obs[0], t, before[t], after[t]))
                break
    return v


oracles.ORACLES['C15'] = c15_oracle


# ------------------------------------------------------------------ states
def exotic_state(app):
    """surface.setup_state plus legal but unusual topologies."""
    surface.setup_state(app)
    rq = lambda m, p, b=None: app.request(m, p, body=b, version='1.39', headers=SVC)       # noqa: E731

    def ok(r):
        assert r.status < 300, (r.status, r.body[:300])
    P, S, Y, SS = U(20), U(21), U(22), U(23)
    G3, G4 = U(3, ops.K_AGG), U(4, ops.K_AGG)
    # nested sharing provider: root P (no inventory) > S shares SRIOV_NET_VF through G3 with root Y (PCPU only)
    ok(rq('POST', '/resource_providers', {'name': 'rpP', 'uuid': P}))
    ok(rq('POST', '/resource_providers', {'name': 'rpS', 'uuid': S, 'parent_provider_uuid': P}))
    ok(rq('POST', '/resource_providers', {'name': 'rpY', 'uuid': Y}))
    ok(rq('PUT', '/resource_providers/%s/inventories' % S, {'resource_provider_generation': 0,
                                                          'inventories': {'SRIOV_NET_VF': {'total': 4}}}))
    ok(rq('PUT', '/resource_providers/%s/traits' % S, {'resource_provider_generation': 1,
                                                     'traits': ['MISC_SHARES_VIA_AGGREGATE']}))
    ok(rq('PUT', '/resource_providers/%s/aggregates' % S, {'resource_provider_generation': 2, 'aggregates': [G3]}))
    ok(rq('PUT', '/resource_providers/%s/inventories' % Y, {'resource_provider_generation': 0,
                                                          'inventories': {'PCPU': {'total': 4}}}))
    ok(rq('PUT', '/resource_providers/%s/aggregates' % Y, {'resource_provider_generation': 1, 'aggregates': [G3, G4]}))
    # root sharing provider with everything reserved, extreme ratio and units
    ok(rq('POST', '/resource_providers', {'name': 'rpSS', 'uuid': SS}))
    ok(rq('PUT', '/resource_providers/%s/inventories' % SS, {'resource_provider_generation': 0, 'inventories': {
        'DISK_GB': {'total': 2147483647, 'reserved': 2147483647, 'min_unit': 1, 'max_unit': 2147483647, 'step_size': 1,
                    'allocation_ratio': 1000.0},
        'IPV4_ADDRESS': {'total': 1, 'allocation_ratio': 0.001, 'max_unit': 1}}}))
    ok(rq('PUT', '/resource_providers/%s/traits' % SS, {'resource_provider_generation': 1,
                                                      'traits': ['MISC_SHARES_VIA_AGGREGATE', 'CUSTOM_T1']}))
    ok(rq('PUT', '/resource_providers/%s/aggregates' % SS, {'resource_provider_generation': 2, 'aggregates': [G4, surface.AGG]}))
    # a deep chain under the spare provider, the deepest with inventory
    parent = surface.RP_SPARE
    for i in range(5):
        u = U(30 + i)
        ok(rq('POST', '/resource_providers', {'name': 'deep%d' % i, 'uuid': u, 'parent_provider_uuid': parent}))
        parent = u
    ok(rq('PUT', '/resource_providers/%s/inventories' % parent, {'resource_provider_generation': 0,
                                                               'inventories': {'VGPU': {'total': 2}}}))
    # a consumer spanning trees
    ok(rq('PUT', '/allocations/%s' % U(9, ops.K_CONS), {
        'allocations': {surface.RP_B: {'resources': {'VCPU': 2, 'MEMORY_MB': 64}}, Y: {'resources': {'PCPU': 1}},
                        S: {'resources': {'SRIOV_NET_VF': 1}}},
        'project_id': 'proj2', 'user_id': 'user2', 'consumer_generation': None, 'consumer_type': 'TYPE2'}))


EXOTIC_TEMPLATES = [
    ('GET', '/allocation_candidates', {'resources': 'PCPU:1,SRIOV_NET_VF:1'}, None),
    ('GET', '/allocation_candidates', {'resources': 'VCPU:1,IPV4_ADDRESS:1', 'required': 'CUSTOM_T1'}, None),
    ('GET', '/allocation_candidates', {'resources1': 'VGPU:1', 'resources2': 'VCPU:1', 'same_subtree': '1,2',
                                       'group_policy': 'isolate'}, None),
    ('GET', '/allocation_candidates', {'resources': 'DISK_GB:1', 'resources1': 'PCPU:1', 'member_of': 'in:%s,%s' % (
        U(3, ops.K_AGG), U(4, ops.K_AGG))}, None),
    ('GET', '/resource_providers', {'resources': 'SRIOV_NET_VF:1', 'in_tree': U(20)}, None),
    ('GET', '/resource_providers', {'member_of': '!in:%s' % U(3, ops.K_AGG), 'required': 'in:CUSTOM_T1,HW_CPU_X86_AVX'}, None),
    ('GET', '/usages', {'project_id': 'proj2'}, None),
    ('GET', '/allocations/%s' % U(9, ops.K_CONS), None, None),
    ('DELETE', '/resource_providers/%s' % U(20), None, None),
    ('PUT', '/resource_providers/%s' % U(21), None, {'name': 'rpS', 'parent_provider_uuid': U(22)}),
    ('POST', '/reshaper', None, {
        'inventories': {U(21): {'resource_provider_generation': 4, 'inventories': {}},
                        U(22): {'resource_provider_generation': 3,
                                'inventories': {'PCPU': {'total': 4}, 'SRIOV_NET_VF': {'total': 4}}}},
        'allocations': {U(9, ops.K_CONS): {
            'allocations': {surface.RP_B: {'resources': {'VCPU': 2, 'MEMORY_MB': 64}},
                            U(22): {'resources': {'PCPU': 1, 'SRIOV_NET_VF': 1}}},
            'project_id': 'proj2', 'user_id': 'user2', 'consumer_generation': 1, 'consumer_type': 'TYPE2'}}}),
]


def core(raw):
    return {t: sorted(json.dumps(r, sort_keys=True, default=str) for r in raw[t]) for t in inject.CORE_TABLES}


def nested_sharing(app):
    """does a provider that is not the root of its tree carry MISC_SHARES_VIA_AGGREGATE?"""
    raw = app.raw_dump()
    tid = [t['id'] for t in raw['traits'] if t['name'] == 'MISC_SHARES_VIA_AGGREGATE']
    if not tid:
        return False
    holders = set(r['resource_provider_id'] for r in raw['resource_provider_traits'] if r['trait_id'] == tid[0])
    return any(r['id'] in holders and r['parent_provider_id'] is not None for r in raw['resource_providers'])


def known_match(exc_name, m, app):
    """a recorded finding is identified by the input that fails (route, exception type, the circumstance in the stored
    state), not by the name of the function the exception escapes from - a refactoring must not turn it into an alarm"""
    route = '%s /%s' % (m['method'], m['path'].strip('/').split('/')[0])
    for f in common.load_known():
        k = f.get('match', {})
        if f.get('kind') == 'known' and f.get('property') == 'C15' and k.get('kind') == 'server-error' \
                and k.get('exception') == exc_name and k.get('route') == route:
            if k.get('state') == 'nested-sharing-provider' and not nested_sharing(app):
                continue
            return f
    return None


CODE_VERSIONS = set('placement 1.%d' % i for i in range(23, 40)) | {'placement latest'}


def judge(m, resp, err, before, after):
    """-> list of (kind, text) problems for one mutated request"""
    probs = []
    if err is not None:
        if err.startswith('unbuildable'):
            return probs
        return [('escaped', err)]
    st = resp.status_int
    if not (100 <= st <= 599):
        probs.append(('malformed-response', 'status %r' % st))
    try:
        body = resp.body
        if resp.content_length is not None and resp.content_length != len(body) and m['method'] != 'HEAD':
            probs.append(('malformed-response', 'content-length %r but %d bytes of body' % (resp.content_length, len(body))))
    except Exception as exc:      # noqa
        probs.append(('malformed-response', 'body unreadable: %r' % exc))
        body = b''
    if st >= 500:
        exc_name = fn = None
        if LAST_EXC:
            ei = LAST_EXC[-1]
            exc_name = ei[0].__name__
            tb = traceback.extract_tb(ei[2])
            fn = tb[-1].name if tb else None
            # innermost frame inside placement
            for fr in reversed(tb):
                if '/placement/' in fr.filename:
                    fn = fr.name
                    break
        probs.append(('server-error', 'answered %d: %s in %s: %s' % (st, exc_name, fn, body[:200].decode('utf-8', 'replace')),
                      exc_name, fn))
    authenticated = 'x-auth-token' in m['headers']
    if authenticated and 400 <= st < 500 and m['headers'].get('accept') == 'application/json' and m['method'] != 'HEAD':
        try:
            doc = json.loads(body.decode('utf-8'))
            errs = doc['errors']
            assert isinstance(errs, list) and errs
            for e in errs:
                assert e['status'] == st, 'status field %r' % e.get('status')
                assert isinstance(e['title'], str) and e['title']
                assert isinstance(e['detail'], str)
                assert isinstance(e['request_id'], str) and e['request_id']
                if m['headers'].get('openstack-api-version') in CODE_VERSIONS:
                    assert isinstance(e.get('code'), str) and e['code'].startswith('placement.'), 'no error code'
        except Exception as exc:      # noqa
            probs.append(('error-format', '%d error body does not follow the errors guideline (%s: %s): %r' % (
                st, type(exc).__name__, exc, body[:200])))
        if 'json' not in (resp.content_type or ''):
            probs.append(('error-format', '%d error has content type %r' % (st, resp.content_type)))
    if st in REJECT and before != after:
        changed = [t for t in before if before[t] != after[t]]
        probs.append(('state-change', 'request rejected with %d changed %s' % (st, changed)))
    return probs


def jsonable(m):
    d = dict(m)
    d['body'] = None if m['body'] is None else m['body'].decode('latin-1')
    d['query'] = [[k, str(v), isinstance(v, fuzz.RawStr)] for k, v in m['query']]
    return d


def fuzz_state(name, app, templates, rng, n, stats, out_probs, known_hits):
    """n mutated requests against app; state-changing accepted requests are allowed to change it."""
    before = core(app.raw_dump())
    for i in range(n):
        with_body = [x for x in templates if x[3] is not None]
        tmpl = rng.choice(with_body) if with_body and rng.random() < 0.4 else rng.choice(templates)
        m = fuzz.mutate(rng, tmpl)
        del LAST_EXC[:]
        resp, err = fuzz.issue(app, m)
        after = core(app.raw_dump())
        st = resp.status_int if resp is not None else -1
        stats['evaluations'] += 1
        stats['status'][st] += 1
        stats['route'][tmpl[0] + ' ' + tmpl[1].split('/')[1]] += 1
        for w in m['what']:
            stats['mutation'][w.split(' ')[0]] += 1
        stats['distinct'].add((name, m['method'], m['path'], json.dumps(m['query']), m['body'], json.dumps(m['headers'], sort_keys=True), m['ctype']))
        for p in judge(m, resp, err, before, after):
            if p[0] == 'server-error':
                f = known_match(p[2], m, app)
                if f is not None:
                    known_hits.append((f, name, jsonable(m)))
                    continue
            out_probs.append({'state': name, 'index': i, 'request': jsonable(m), 'kind': p[0], 'text': p[1], 'status': st})
        before = after


def learn_schema(app, tmpl, version):
    """which schema object the handler validates this body with: learnt from the code by wrapping util.extract_json"""
    from placement import util as putil
    seen = []
    orig = putil.extract_json

    def spy(body, schema):
        seen.append(schema)
        return orig(body, schema)
    putil.extract_json = spy
    try:
        m = fuzz.mutate(random.Random(0), ('GET', '/', None, None))
        m.update({'method': tmpl[0], 'path': tmpl[1], 'query': [], 'body': json.dumps(tmpl[3]).encode(), 'ctype': 'application/json',
                  'what': []})
        m['headers']['openstack-api-version'] = 'placement 1.%d' % version
        fuzz.issue(app, m)
    finally:
        putil.extract_json = orig
    return seen[0] if seen else None


class RawBody(str):
    """a request body given as text (not to be JSON-encoded)"""


BOUNDARY_VERSIONS = (39, 37, 33, 27, 19, 14, 12, 8, 1)


def boundary_stream(tier, stats, out_probs, known_hits):
    """every valid write template x the versions on both sides of its schema changes: the schema the handler uses is learnt
    from the running code, then EVERY single-node boundary variant of the valid body (harness.schemas.boundary_docs: each
    keyword of the schema at each position) is sent to the service in a freshly populated state"""
    from harness import schemas as schemas_mod
    n = 0
    cap = 60 if tier == 'quick' else 100000
    templates = [t for t in fuzz.valid_requests() if t[3] is not None]
    app = impl.App()
    surface.setup_state(app)
    learnt = {(i, v): learn_schema(app, t, v) for i, t in enumerate(templates) for v in BOUNDARY_VERSIONS}
    app.close()
    for i, tmpl in enumerate(templates):
        seen_schema = set()
        for v in BOUNDARY_VERSIONS:
            sch = learnt[(i, v)]
            if sch is None or id(sch) in seen_schema:
                continue
            seen_schema.add(id(sch))
            docs = schemas_mod.boundary_docs(tmpl[3], sch)
            if len(docs) > cap:
                # keep every variant carrying an extreme number (nan, infinities, integers of 30+ digits), sample the rest
                def extreme(d):
                    # a number that is not finite or beyond the 32-bit integer range, anywhere in the document
                    if isinstance(d, bool):
                        return False
                    if isinstance(d, float):
                        return d != d or abs(d) >= 2 ** 31
                    if isinstance(d, int):
                        return abs(d) >= 2 ** 31
                    if isinstance(d, dict):
                        return any(extreme(x) for x in d.values())
                    if isinstance(d, (list, tuple)):
                        return any(extreme(x) for x in d)
                    return False
                prio = [d for d in docs if extreme(d)]
                rest = [d for d in docs if not extreme(d)]
                docs = prio + random.Random(len(docs)).sample(rest, min(len(rest), cap))
            # documents nested deeper than the JSON parser's recursion limit (sent as raw text)
            docs = [RawBody('[' * 100000 + ']' * 100000), RawBody('{"a":' * 50000 + '1' + '}' * 50000)] + docs
            app = impl.App()
            surface.setup_state(app)
            before = core(app.raw_dump())
            for doc in docs:
                try:
                    raw = doc.encode() if isinstance(doc, RawBody) else json.dumps(doc).encode()
                except (TypeError, ValueError):
                    continue
                m = fuzz.mutate(random.Random(0), ('GET', '/', None, None))
                m.update({'method': tmpl[0], 'path': tmpl[1], 'query': [], 'body': raw, 'ctype': 'application/json',
                          'what': ['boundary variant of the valid body']})
                m['headers']['openstack-api-version'] = 'placement 1.%d' % v
                del LAST_EXC[:]
                resp, err = fuzz.issue(app, m)
                after = core(app.raw_dump())
                st = resp.status_int if resp is not None else -1
                n += 1
                stats['evaluations'] += 1
                stats['status'][st] += 1
                stats['route'][tmpl[0] + ' ' + tmpl[1].split('/')[1]] += 1
                stats['mutation']['boundary'] += 1
                stats['distinct'].add(('boundary', m['method'], m['path'], v, raw))
                for p in judge(m, resp, err, before, after):
                    if p[0] == 'server-error':
                        f = known_match(p[2], m, app)
                        if f is not None:
                            known_hits.append((f, 'plain', jsonable(m)))
                            continue
                    out_probs.append({'state': 'plain', 'index': -2, 'request': jsonable(m), 'kind': p[0], 'text': p[1], 'status': st})
                before = after
            app.close()
    return n


KEY_VERSIONS = (39, 36, 33, 32, 25, 24, 18, 14, 10, 4, 0)


def key_variants(k):
    """spellings of a query KEY around what the key patterns accept (`$` also matches before a trailing line feed)"""
    base = [k + '\n', k + ' ', ' ' + k, k + '\t', k + '\r\n', k + '\x00', k.upper(), k + '\u0661', k + '_', k + '-', k + '1\n', k + '_A\n',
            k + '_' + 'x' * 64 + '\n', k + '\n\n', '\n' + k, k + '[]', k + '.x']
    if k[-1:].isdigit() or '_' in k[len('resources'):]:
        stem = k.rstrip('0123456789')
        base += [stem + '\n', stem + '01', stem + '\u0662']
    return base


def key_stream(tier, stats, out_probs, known_hits):
    """every GET template with query parameters x every parameter x every spelling variant of its KEY x versions on both
    sides of the query-schema changes; the variant replaces the key (the regular spelling absent) or accompanies it"""
    n = 0
    templates = [t for t in fuzz.valid_requests() if t[0] == 'GET' and t[2]]
    app = impl.App()
    surface.setup_state(app)
    before = core(app.raw_dump())
    for tmpl in templates:
        keys = list(tmpl[2])
        for ki, k in enumerate(keys):
            variants = key_variants(k)
            if tier == 'quick':
                variants = variants[:1] + random.Random(len(k) + ki).sample(variants[1:], 5)
            for kv in variants:
                for both in (False, True):
                    for v in (KEY_VERSIONS if tier != 'quick' else KEY_VERSIONS[:7]):
                        q = []
                        for k2 in keys:
                            if k2 == k:
                                if both:
                                    q.append((k2, tmpl[2][k2]))
                                q.append((kv, tmpl[2][k2]))
                            else:
                                q.append((k2, tmpl[2][k2]))
                        m = fuzz.mutate(random.Random(0), ('GET', '/', None, None))
                        m.update({'method': 'GET', 'path': tmpl[1], 'query': q, 'body': None, 'ctype': None,
                                  'what': ['key spelling %r' % kv]})
                        m['headers']['openstack-api-version'] = 'placement 1.%d' % v
                        del LAST_EXC[:]
                        resp, err = fuzz.issue(app, m)
                        st = resp.status_int if resp is not None else -1
                        n += 1
                        stats['evaluations'] += 1
                        stats['status'][st] += 1
                        stats['route']['GET ' + tmpl[1].split('/')[1]] += 1
                        stats['mutation']['key'] += 1
                        for p in judge(m, resp, err, before, before):
                            if p[0] == 'server-error':
                                f = known_match(p[2], m, app)
                                if f is not None:
                                    known_hits.append((f, 'plain', jsonable(m)))
                                    continue
                            out_probs.append({'state': 'plain', 'index': -3, 'request': jsonable(m), 'kind': p[0], 'text': p[1], 'status': st})
    app.close()
    return n


HEADER_VALUES = {
    # digits that str.isdigit() accepts and int() refuses, digit runs beyond CPython's 4300-digit conversion limit, signs, blanks
    'content-length': ['\xb2', '1\xb3', '\xb9\xb2', '9' * 4301, '9' * 6000, '0' * 5000 + '2', '+5', ' 5', '5 ', '1_0', '0x10', '1e3', '', ' ', '-0',
                       '00', '2.0', '2,2', '9223372036854775807'],
    # (a Content-Length that does not fit a machine word makes the WSGI input stream's read() raise OverflowError - in this harness
    #  io.BytesIO under webob, in production the WSGI server's stream: outside placement, excluded; see DESIGN 5.6)
    'content-type': ['application/json; charset=' + 'x' * 300, 'application/json;', ';', 'application/json; charset="', 'a/b/c',
                     'application/JSON', 'application/json , text/plain', '\xe9/\xe9', 'application/' + 'j' * 5000],
    'accept': ['application/json;q=' + '9' * 4301, 'application/json;q=\xb2', 'application/*;q=0.0', '*/*;q=x', ',,,', 'a' * 5000, '\xb2/\xb2',
               'application/json; version=' + '9' * 5000],
    # identity headers of a token that is not project-scoped, odd role lists (the refusal must be a well-formed 403 / the answer
    # must not depend on them beyond what the policy says)
    'openstack-system-scope': ['all', 'x', ''],
    'x-domain-id': ['d1', ''],
    'x-project-id': ['', 'p' * 300, '\xe9'],
    'x-user-id': ['', 'u' * 300],
    'x-roles': ['', ',', 'admin,,service', 'ADMIN', 'reader', 'member,reader', ' admin', 'admin ' * 50],
    'x-project-domain-id': ['default', ''],
    'x-is-admin-project': ['True', 'false', 'x'],
    'x-service-roles': ['service', ''],
    'x-identity-status': ['Confirmed', 'Invalid', ''],
    'openstack-api-version': ['placement 1.' + '9' * 4301, 'placement ' + '9' * 4301 + '.1', 'placement \xb2.\xb3', 'placement 1.\xb2',
                              'placement 1.39 ', ' placement 1.39', 'placement  1.39', 'PLACEMENT 1.39', 'placement 1.039', 'placement 1.3_9',
                              'placement +1.39', 'placement 1.39,placement 1.0', 'placement latest ', 'placement\t1.39'],
}


def header_stream(tier, stats, out_probs, known_hits):
    """every method family x every header above x every odd value (the other headers regular)"""
    n = 0
    app = impl.App()
    surface.setup_state(app)
    before = core(app.raw_dump())
    A = surface.RP_A
    targets = [('GET', '/resource_providers', None), ('HEAD', '/resource_providers', None), ('OPTIONS', '/resource_providers', None),
               ('GET', '/', None), ('DELETE', '/resource_providers/%s/inventories/NO_SUCH' % A, None),
               ('PUT', '/resource_providers/%s/traits' % A, b'{"resource_provider_generation": 9999, "traits": []}'),
               ('POST', '/resource_classes', b'{"name": "CUSTOM_HDR"}'), ('POST', '/no_such_route', b'{}')]
    for method, path, body in targets:
        for h, values in sorted(HEADER_VALUES.items()):
            for val in values:
                m = fuzz.mutate(random.Random(0), ('GET', '/', None, None))
                m.update({'method': method, 'path': path, 'query': [], 'body': body, 'ctype': 'application/json' if body is not None else None,
                          'what': ['header %s = %r' % (h, val[:40])]})
                m['headers']['openstack-api-version'] = 'placement 1.39'
                if h == 'content-type':
                    m['ctype'] = val
                else:
                    m['headers'][h] = val
                del LAST_EXC[:]
                resp, err = fuzz.issue(app, m)
                after = core(app.raw_dump())
                st = resp.status_int if resp is not None else -1
                n += 1
                stats['evaluations'] += 1
                stats['status'][st] += 1
                stats['route'][method + ' ' + path.split('/')[1]] += 1
                stats['mutation']['header-value'] += 1
                for p in judge(m, resp, err, before, after):
                    if p[0] == 'server-error':
                        f = known_match(p[2], m, app)
                        if f is not None:
                            known_hits.append((f, 'plain', jsonable(m)))
                            continue
                    d = jsonable(m)
                    d['headers'] = {k: (v if len(v) < 200 else v[:60] + '...(%d characters)' % len(v)) for k, v in d['headers'].items()}
                    out_probs.append({'state': 'plain', 'index': -4, 'request': d, 'kind': p[0], 'text': p[1], 'status': st})
                before = after
    app.close()
    return n


def history_state(app, rng, n_ops):
    dump = ops.canon_dump(app.raw_dump())
    for _ in range(n_ops):
        op = gen.gen_op(rng, dump, 'default')
        hist.observe(app, op)
        dump = ops.canon_dump(app.raw_dump())


def history_templates(app):
    """templates addressing what a random history left behind"""
    raw = app.raw_dump()
    t = []
    rps = [r['uuid'] for r in raw['resource_providers']]
    cons = [r['uuid'] for r in raw['consumers']]
    for u in rps[:4]:
        t += [('GET', '/resource_providers/%s/inventories' % u, None, None),
              ('DELETE', '/resource_providers/%s' % u, None, None),
              ('GET', '/resource_providers', {'in_tree': u, 'resources': 'VCPU:1'}, None),
              ('PUT', '/resource_providers/%s/inventories' % u, None, {'resource_provider_generation': 0, 'inventories': {
                  'VCPU': {'total': 4}}})]
    for c in cons[:3]:
        t += [('GET', '/allocations/%s' % c, None, None), ('DELETE', '/allocations/%s' % c, None, None)]
    t += [('GET', '/allocation_candidates', {'resources': 'VCPU:1,MEMORY_MB:1'}, None),
          ('GET', '/allocation_candidates', {'resources1': 'VCPU:1', 'resources2': 'DISK_GB:1', 'group_policy': 'none'}, None),
          ('GET', '/usages', {'project_id': 'P1'}, None), ('GET', '/resource_providers', None, None)]
    return t


def run(pid, tier, out):
    t = common.Timer()
    seed = common.seed()
    ok_tr, tlog, blog = common.build()
    ps = common.proof_status('C15', DEPS)
    hyg = common.hygiene()
    install_exception_probe()
    rng = random.Random(seed * 31 + 15)
    # (1) model tie: histories on model and implementation, C15 oracle on every step
    hstats = {'evaluations': 0, 'status': collections.Counter(), 'ops': collections.Counter(), 'distinct': set()}
    hits = []
    n_hist, n_ops = (24, 30) if tier == 'quick' else (600, 40)
    cases = checks_seq.run_stream('C15', n_hist // 2, n_ops, seed + 15, 'default', hstats, hits)
    cases += checks_seq.run_stream('C15', n_hist - n_hist // 2, n_ops, seed + 1515, 'names', hstats, hits)
    disagreements = []
    corr_error = None
    model_ok = all(common.vo_fresh(d) for d in checks_seq.MODEL)
    if model_ok:
        try:
            disagreements = coqrun.check_cases(cases, workdir=os.path.join(common.WORK, 'cases_C15'))
        except Exception as exc:
            corr_error = str(exc)[-800:]
    else:
        corr_error = 'model did not build'
    # (2) mutation stream
    stats = {'evaluations': 0, 'status': collections.Counter(), 'route': collections.Counter(),
             'mutation': collections.Counter(), 'distinct': set()}
    probs = []
    known_hits = []
    n = 500 if tier == 'quick' else 12000
    rounds = 1 if tier == 'quick' else 6
    for rnd in range(rounds):
        app = impl.App()
        surface.setup_state(app)
        fuzz_state('plain', app, fuzz.valid_requests(), rng, n // rounds, stats, probs, known_hits)
        app.close()
        app = impl.App()
        exotic_state(app)
        fuzz_state('exotic', app, fuzz.valid_requests() + EXOTIC_TEMPLATES * 2, rng, n // rounds, stats, probs, known_hits)
        app.close()
        app = impl.App()
        history_state(app, rng, 40)
        fuzz_state('history', app, history_templates(app) + fuzz.valid_requests()[:4], rng, n // (2 * rounds), stats, probs,
                   known_hits)
        app.close()
    n_boundary = boundary_stream(tier, stats, probs, known_hits)
    n_keys = key_stream(tier, stats, probs, known_hits)
    n_hdrs = header_stream(tier, stats, probs, known_hits)
    # the known trigger itself, so that the finding is looked at on every run
    app = impl.App()
    exotic_state(app)
    del LAST_EXC[:]
    m0 = fuzz.mutate(random.Random(0), ('GET', '/', None, None))
    m0.update({'method': 'GET', 'path': '/allocation_candidates', 'query': [('resources', 'PCPU:1,SRIOV_NET_VF:1')], 'body': None,
               'ctype': None, 'what': ['known trigger'],
               'headers': {'x-auth-token': 'admin', 'x-roles': 'admin,service', 'accept': 'application/json',
                           'openstack-api-version': 'placement 1.39'}})
    b0 = core(app.raw_dump())
    resp, err = fuzz.issue(app, m0)
    for p in judge(m0, resp, err, b0, core(app.raw_dump())):
        f = known_match(p[2], m0, app) if p[0] == 'server-error' else None
        if f is not None:
            known_hits.append((f, 'exotic', jsonable(m0)))
        else:
            probs.append({'state': 'exotic', 'index': -1, 'request': jsonable(m0), 'kind': p[0], 'text': p[1],
                          'status': resp.status_int if resp is not None else -1})
    app.close()

    # (3) query-string value parsers of util.py / lib.py: the real functions against Model/Parse.v on generated strings
    pstats, pdis, pn_cases = {}, [], 0
    if common.vo_fresh('Model/Parse.v'):
        try:
            pn_cases, pdis, pstats = parse.run(seed + 1515, 350 if tier == 'quick' else 8000, tag='C15_%s' % tier)
        except Exception as exc:      # noqa
            corr_error = (corr_error or '') + ' parse stream: %s' % str(exc)[-600:]
    else:
        corr_error = (corr_error or '') + ' Model/Parse.v did not build'
    # (4) JSON schemas: python-jsonschema as the handlers call it against Model/Json.v over the regenerated schemas
    sstats, sdis, sn_cases = {}, [], 0
    if common.vo_fresh('Model/Json.v') and common.vo_fresh('Gen/GenSchemas.v'):
        try:
            from harness import schemas as schemas_mod
            sn_cases, sdis, sstats = schemas_mod.run(seed + 1516, 4 if tier == 'quick' else 60, tag='C15_%s' % tier)
        except Exception as exc:      # noqa
            corr_error = (corr_error or '') + ' schema stream: %s' % str(exc)[-600:]
    else:
        corr_error = (corr_error or '') + ' Model/Json.v or Gen/GenSchemas.v did not build'
    # (5) the decoders of Model/Decode.v against the bodies the harness sends, and the schema each handler really uses at
    #     each minor version (learnt from the running code) against Decode.schema_of_*
    dn, ddis, dkinds, sc_n, sc_err, re_n = 0, [], {}, 0, None, 0
    if common.vo_fresh('Model/Decode.v'):
        try:
            from harness import decode as decode_mod
            dn, ddis, dkinds = decode_mod.decode_stream(seed + 1517, 8 if tier == 'quick' else 120, 30, 'C15_%s' % tier)
            sc_n, sc_err = decode_mod.schema_choice('C15_%s' % tier)
            re_n, re_probs = decode_mod.ratio_edges('C15_%s' % tier)
            if re_probs:
                sc_err = ((sc_err + '; ') if sc_err else '') + '; '.join(re_probs[:4])
        except Exception as exc:      # noqa
            corr_error = (corr_error or '') + ' decode stream: %s' % str(exc)[-600:]
        if sc_err:
            corr_error = (corr_error or '') + ' schema choice: %s' % sc_err[-600:]
    else:
        corr_error = (corr_error or '') + ' Model/Decode.v did not build'
    for e in pstats.get('escapes', [])[:3]:
        probs.append({'state': 'none', 'index': -1, 'request': {'parser_case': e['case']}, 'kind': 'parser-escape',
                      'text': 'query-string value parser raised %s instead of HTTPBadRequest on %r' % (e['exception'], e['case']),
                      'status': 500})

    proof_broken = (not ps['ok']) or bool(hyg) or not ok_tr
    tie_broken = bool(disagreements) or bool(pdis) or bool(sdis) or bool(ddis) or corr_error is not None
    for f, name, m in known_hits[:1]:
        out.known_finding('GET /allocation_candidates -> 500 KeyError with a nested sharing provider (%d requests of this run)'
                          % len(known_hits))
    seen = set()
    for (i, case, msgs) in hits[:2]:
        small, smsgs = checks_seq.shrink('C15', [c[0] for c in case])
        out.violation({'kind': 'history', 'ops': [checks_seq.op_json(o) for o in small], 'oracle': smsgs or msgs,
                       'broken': ps.get('broken') or ('correspondence' if tie_broken else None)}, (smsgs or msgs)[0])
    for p in probs:
        key = (p['kind'], p['text'][:60])
        if key in seen:
            continue
        seen.add(key)
        if len(seen) > 5:
            break
        if p['kind'] == 'parser-escape':
            out.violation({'kind': 'parse', 'case': p['request']['parser_case'], 'problem': p['kind'],
                           'broken': ps.get('broken') or ('correspondence' if tie_broken else None)}, p['text'])
            continue
        out.violation({'kind': 'fuzz', 'state': p['state'], 'request': p['request'], 'problem': p['kind'], 'status': p['status'],
                       'setup': 'harness.checks_fuzz.exotic_state / surface.setup_state / history (seed %d)' % seed,
                       'broken': ps.get('broken') or ('correspondence' if tie_broken else None)}, p['text'])
    if not probs and not hits:
        if proof_broken:
            what = ps['error'] or ('hygiene: %s' % hyg[:5] if hyg else 'translator failed: %s' % tlog[-500:])
            out.violation({'kind': 'proof-broken', 'theorem_or_file': ps.get('broken') or 'Props/C15.v', 'detail': what,
                           'not_closed': [x for x in ps['theorems'] if not x[1]]},
                          'proof obligation no longer checks: %s' % (ps.get('broken') or what), no_input=True)
        elif tie_broken:
            d0 = None
            if disagreements:
                ci, step = disagreements[0]
                d0 = {'ops': [checks_seq.op_json(c[0]) for c in cases[ci][:step + 1]],
                      'impl_observation': cases[ci][step][1], 'impl_dump': cases[ci][step][2]}
            out.violation({'kind': 'correspondence-broken',
                           'stream': 'histories/default' if disagreements else 'parse' if pdis else 'schemas' if sdis else 'decode' if ddis else 'build',
                           'first_disagreement': d0, 'parser_disagreements': pdis[:5], 'schema_disagreements': sdis[:5],
                           'decode_disagreements': ddis[:5],
                           'error': corr_error},
                          'model and implementation disagree (%d histories, %d parser cases, %d schema documents) and neither oracle '
                          'found a failing input' % (len(disagreements), len(pdis), len(sdis)), no_input=True)
    nthm = len(ps['theorems'])
    obligations = max(1, nthm + ps['lemmas'])
    discharged = obligations if ps['ok'] else sum(1 for x in ps['theorems'] if x[1])
    cov = {'obligations': obligations, 'discharged': discharged,
           'checker_cmd': 'cd /verif/coq && make -k && coqc -Q . PV Props/C15.v',
           'trusted_base': common.TRUSTED_BASE + [
               'theorems cover the modelled write handlers, the front pipeline and the query-string VALUE parsers of util.py/lib.py '
               '(Model/Parse.v, tied by the parse stream); body parsing, JSON schema validation, error formatting and the read '
               'routes behind the parsers are exercised by the mutation stream only (not proved)',
               'Model/Parse.v: CPython str.strip/split/isspace/int() and oslo is_uuid_like are modelled (tables compared with the '
               'running interpreter over all code points on every run)'],
           'theorems': [{'name': n_, 'closed_under_global_context': c, 'assumptions': a} for n_, c, a in ps['theorems']],
           'proof_error': ps['error'], 'hygiene_hits': hyg,
           'evaluations': stats['evaluations'] + hstats['evaluations'] + pn_cases + sn_cases + dn,
           'distinct_nontrivial': len(stats['distinct']) + len(hstats['distinct']) + int(pstats.get('distinct_cases') or 0)
           + int(sstats.get('distinct') or 0),
           'rule': 'mutated requests (1-3 mutations of a valid template: body structure/types/bounds, malformed JSON, query values, '
                   'repeated/added/dropped parameters, headers, path segments, method) in 3 kinds of state; distinct by '
                   '(state, method, path, query, body, headers); boundary variants of every valid write body over HTTP; plus %d histories '
                   'x %d modelled requests compared with the Coq model; plus the value-parser cases (distinct strings), the schema '
                   'documents (distinct documents) and the decoded bodies compared with Model/Parse.v, Model/Json.v, Model/Decode.v'
                   % (len(cases), n_ops),
           'samples': [jsonable(fuzz.mutate(random.Random(k), fuzz.valid_requests()[k * 7 % 30])) for k in range(3)],
           'traces_validated_against_impl': len(cases) - len(disagreements) if model_ok and corr_error is None else 0,
           'model_impl_disagreements': len(disagreements), 'correspondence_error': corr_error,
           'status_histogram': {str(k): v for k, v in sorted(stats['status'].items())},
           'route_histogram': dict(stats['route']), 'mutation_histogram': dict(stats['mutation']),
           'known_finding_hits': len(known_hits), 'problems': len(probs),
           'boundary_variants_over_http': n_boundary, 'query_key_spellings_over_http': n_keys, 'header_values_over_http': n_hdrs, 'parser_cases': pn_cases, 'parser_disagreements': len(pdis), 'parser_cases_by_kind': pstats.get('by_kind'),
           'parser_builtin_table_discrepancies': pstats.get('table_discrepancies'),
           'schema_documents': sn_cases, 'schema_disagreements': len(sdis), 'schema_stats': sstats,
           'decoded_bodies': dn, 'decode_disagreements': len(ddis), 'decoded_by_kind': dkinds,
           'schema_choice_facts': sc_n, 'schema_choice_error': sc_err,
           'allocation_ratio_edges': re_n}
    common.write_evidence('C15', tier, 'proof', cov, t.s(), len(out.violations),
                          assumptions=['SQLite as the database', 'requests are delivered through webob (inputs webob cannot build are skipped)',
                                       'stored state = the nine core tables (project/user/consumer-type name rows excluded, as in C04)'])


def replay(pid, path, out):
    install_exception_probe()
    d = json.load(open(path))
    if d.get('kind') == 'fuzz':
        app = impl.App()
        (exotic_state if d['state'] == 'exotic' else surface.setup_state)(app)
        m = dict(d['request'])
        m['body'] = None if m['body'] is None else m['body'].encode('latin-1')
        m['query'] = [(q[0], fuzz.RawStr(q[1]) if len(q) > 2 and q[2] else q[1]) for q in m['query']]
        b = core(app.raw_dump())
        resp, err = fuzz.issue(app, m)
        for p in judge(m, resp, err, b, core(app.raw_dump())):
            if p[0] == 'server-error' and known_match(p[2], m, app):
                out.known_finding(p[1])
            else:
                out.violation({'kind': 'fuzz', 'state': d['state'], 'request': d['request'], 'problem': p[0]}, p[1])
        app.close()
    elif d.get('kind') == 'parse':
        case = parse.tuplify(d['case'])
        o = parse.call_real(case, parse.load_util(None))
        if o[0] == 'escape' or (o[0] == 'raise' and o[1] != 'ValueError'):
            out.violation({'kind': 'parse', 'case': d['case'], 'problem': 'parser-escape'},
                          'query-string value parser raised %s instead of HTTPBadRequest on %r' % (o[1], case))
    else:
        run(pid, 'quick', out)
