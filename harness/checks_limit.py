"""Check of C20: Coq theorems about limit_results for any sample/shuffle meeting their contracts + (1) the real
limit_results function run on generated inputs against the Coq model with the same deterministic sample/shuffle,
(2) limited vs unlimited GET /allocation_candidates on the real application for every limit, both settings of
randomize_allocation_candidates and several PRNG seeds."""
import json
import os
import random
import types

from harness import common
from harness import coqrun
from harness import impl
from harness import ops

DEPS = ['Model/Limit.v', 'Proofs/C20.v']
SVC = {'x-roles': 'admin,service'}
U = ops.uuid_of


# ------------------------------------------------------------------ (1) object-level differential
def object_cases(rng, n):
    """inputs for limit_results: allocation requests as lists of (provider, root), summaries (provider, root)"""
    cases = []
    for _ in range(n):
        roots = list(range(1, rng.randint(2, 5)))
        provs = [(r, r) for r in roots] + [(10 * r + j, r) for r in roots for j in range(rng.randint(0, 2))]
        m = rng.randint(0, 7)
        ars = []
        for k in range(m):
            tree = rng.choice(roots)
            members = [p for p in provs if p[1] == tree]
            ars.append(rng.sample(members, rng.randint(1, len(members))) + (
                [rng.choice(provs)] if rng.random() < 0.3 else []))
        sums = sorted(set(p for a in ars for p in a) | set(rng.sample(provs, rng.randint(0, len(provs)))))
        limit = rng.choice([None, 0, 1, 2, 3, m, m + 1, max(0, m - 1)])
        cases.append((ars, sums, limit, rng.random() < 0.5))
    return cases


def run_real_limit(ars, sums, limit, randomize):
    from placement.objects import research_context as rc
    mk_rp = lambda p, r: types.SimpleNamespace(uuid=p, root_provider_uuid=r)       # noqa: E731
    aros = [types.SimpleNamespace(idx=i, resource_requests=[types.SimpleNamespace(resource_provider=mk_rp(p, r))
                                                           for p, r in a]) for i, a in enumerate(ars)]
    sobjs = [types.SimpleNamespace(key=(p, r), resource_provider=mk_rp(p, r)) for p, r in sums]
    fake = types.SimpleNamespace(_limit=limit, _ctx=types.SimpleNamespace(config=types.SimpleNamespace(
        placement=types.SimpleNamespace(randomize_allocation_candidates=randomize))))
    # deterministic stand-ins for random.sample / random.shuffle, mirrored in the Coq instantiation
    old_sample, old_shuffle = rc.random.sample, rc.random.shuffle
    rc.random.sample = lambda l, k: list(reversed(l))[:k]

    def shuf(l):
        l.reverse()
    rc.random.shuffle = shuf
    try:
        a2, s2 = rc.RequestWideSearchContext.limit_results(fake, list(aros), list(sobjs))
    finally:
        rc.random.sample, rc.random.shuffle = old_sample, old_shuffle
    return [a.idx for a in a2], [s.key for s in s2]


def coq_object_cases(cases, results, workdir):
    os.makedirs(workdir, exist_ok=True)
    path = os.path.join(workdir, 'limit_cases.v')
    z = ops.z

    def pl(l):
        return ops.lst('(%s, %s)' % (z(p), z(r)) for p, r in l)
    with open(path, 'w') as f:
        f.write('From Coq Require Import ZArith List Bool.\nFrom PV Require Import Model.Limit.\nImport ListNotations.\n'
                'Open Scope Z_scope.\n')
        f.write('(* an allocation request = (index, [(provider, root)]); sample / shuffle as patched in the harness *)\n')
        f.write('Definition AR := (Z * list (Z * Z))%type.\n')
        f.write('Definition lim := limit_results AR (fun a => snd a) (fun l k => firstn k (rev l)) (fun l => rev l).\n')
        f.write('Fixpoint leqb (a b : list Z) : bool := match a, b with [], [] => true | x :: a\', y :: b\' => (x =? y) && leqb a\' b\' | _, _ => false end.\n')
        f.write('Definition ok (c : bool * option nat * list AR * list (Z * Z) * list Z * list (Z * Z)) : bool :=\n'
                "  let '(rnd, l, ars, sums, ea, es) := c in\n"
                '  let r := lim rnd l ars (map (fun s => (fst s, snd s, 0)) sums) in\n'
                '  leqb (map fst (fst r)) ea && leqb (map (fun s => fst (fst s)) (snd r)) (map fst es)\n'
                '  && leqb (map (fun s => snd (fst s)) (snd r)) (map snd es).\n')
        items = []
        for (ars, sums, limit, rnd), (ea, es) in zip(cases, results):
            l = 'None' if limit is None else '(Some %d%%nat)' % limit
            arl = ops.lst('(%d, %s)' % (i, pl(a)) for i, a in enumerate(ars))
            items.append('(%s, %s, %s, %s, %s, %s)' % ('true' if rnd else 'false', l, arl, pl(sums),
                                                       ops.lst(z(i) for i in ea), pl(es)))
        f.write('Definition cases := [\n%s].\n' % ';\n'.join(items))
        f.write('Eval vm_compute in map (fun c => if ok c then 1 else 0) cases.\n')
    res = coqrun.run_coq(path)
    return [i for i, r in enumerate(res) if r != 1]


# ------------------------------------------------------------------ (2) HTTP level
def build_state(app, rng):
    """several trees, some with a child provider, so that queries have many candidates"""
    n = rng.randint(3, 6)
    rq = lambda m, p, b=None: app.request(m, p, body=b, version='1.39', headers=SVC)    # noqa: E731
    # shape: nested trees (has_trees), a flat cloud with a sharing provider (no provider has a parent), or both
    shape = rng.choice(['nested', 'flat-sharing', 'nested-sharing'])
    p_child = 0.0 if shape == 'flat-sharing' else 0.6
    if shape != 'nested':
        agg = U(1, ops.K_AGG)
        ss = U(90)
        assert rq('POST', '/resource_providers', {'name': 'shared-storage', 'uuid': ss}).status == 200
        assert rq('PUT', '/resource_providers/%s/inventories' % ss, {
            'resource_provider_generation': 0, 'inventories': {'DISK_GB': {'total': 1000}}}).status == 200
        assert rq('PUT', '/resource_providers/%s/traits' % ss, {
            'resource_provider_generation': 1, 'traits': ['MISC_SHARES_VIA_AGGREGATE']}).status == 200
        assert rq('PUT', '/resource_providers/%s/aggregates' % ss, {
            'resource_provider_generation': 2, 'aggregates': [agg]}).status == 200
    for i in range(1, n + 1):
        assert rq('POST', '/resource_providers', {'name': 'cn%d' % i, 'uuid': U(i)}).status == 200
        inv = {'VCPU': {'total': rng.choice([4, 8, 16])}, 'MEMORY_MB': {'total': 4096}}
        assert rq('PUT', '/resource_providers/%s/inventories' % U(i), {'resource_provider_generation': 0,
                                                                      'inventories': inv}).status == 200
        if shape != 'nested' and (i == 1 or rng.random() < 0.7):
            assert rq('PUT', '/resource_providers/%s/aggregates' % U(i), {
                'resource_provider_generation': 1, 'aggregates': [agg]}).status == 200
        if rng.random() < p_child:
            c = 100 + i
            assert rq('POST', '/resource_providers', {'name': 'child%d' % i, 'uuid': U(c),
                                                      'parent_provider_uuid': U(i)}).status == 200
            assert rq('PUT', '/resource_providers/%s/inventories' % U(c), {
                'resource_provider_generation': 0, 'inventories': {'DISK_GB': {'total': 100}, 'VCPU': {'total': 2}}}).status == 200
    return n


QUERIES = ['resources=VCPU:1', 'resources=VCPU:1,MEMORY_MB:64', 'resources=DISK_GB:10', 'resources=VCPU:1,DISK_GB:10',
           'resources1=VCPU:1&resources2=DISK_GB:5&group_policy=none', 'resources=VCPU:2&resources_D=DISK_GB:1&group_policy=none']
# (microversion, queries usable there): limit exists from 1.16, numbered groups from 1.25, string suffixes from 1.33
# two groups asking the SAME class: below 1.34 (no "mappings" member) two requests that differ only in which group sits on
# which provider look identical (recorded finding of C20, found by the proof of C20_code_limit)
SAME_CLASS = 'resources1=VCPU:1&resources2=VCPU:1&group_policy=none'
VERSIONED = [(39, QUERIES + [SAME_CLASS]), (33, QUERIES[:5] + [SAME_CLASS]), (28, QUERIES[:5]), (17, QUERIES[:4])]
KNOWN_DUPS = []


def strip_mappings(ar):
    return json.dumps({k: v for k, v in ar.items() if k != 'mappings'}, sort_keys=True)


def canon_ar(ar):
    return json.dumps(ar, sort_keys=True)


def http_stream(rng, n_states, seeds, viols, stats, samples):
    for si in range(n_states):
        for randomize in (False, True):
            app = impl.App(overrides={('placement', 'randomize_allocation_candidates'): randomize})
            srng = random.Random(rng.random())
            build_state(app, srng)
            for ver, q in [(ver, q) for ver, qs in VERSIONED for q in qs]:
                VER = '1.%d' % ver
                base = app.request('GET', '/allocation_candidates?' + q, version=VER, headers=SVC)
                if base.status != 200:
                    continue
                full = [canon_ar(a) for a in base.json['allocation_requests']]
                fullset = set(full)
                M = len(full)
                stats['evaluations'] += 1
                invisible = False
                if len(fullset) != M:
                    # identical entries are the recorded finding iff the version shows no mappings and the same query at 1.39
                    # returns as many requests, pairwise distinct by their mappings, with exactly these allocations
                    later = app.request('GET', '/allocation_candidates?' + q, version='1.39', headers=SVC) if ver < 34 else None
                    if later is not None and later.status == 200 \
                            and len(set(canon_ar(a) for a in later.json['allocation_requests'])) == len(later.json['allocation_requests']) \
                            and sorted(strip_mappings(a) for a in later.json['allocation_requests']) == sorted(
                                strip_mappings(a) for a in base.json['allocation_requests']):
                        invisible = True
                        KNOWN_DUPS.append((ver, q, M, len(fullset)))
                    else:
                        viols.append(({'kind': 'limit', 'query': q, 'version': ver}, 'unlimited result contains duplicates'))
                if M == 0:
                    continue
                for limit in range(1, M + 2):
                    for seed in seeds:
                        random.seed(seed)
                        r = app.request('GET', '/allocation_candidates?%s&limit=%d' % (q, limit), version=VER, headers=SVC)
                        stats['evaluations'] += 1
                        stats['distinct'].add((si, randomize, ver, q, limit, seed if randomize else 0))
                        if r.status != 200:
                            viols.append(({'kind': 'limit', 'query': q, 'limit': limit}, 'limited request answered %d' % r.status))
                            continue
                        got = [canon_ar(a) for a in r.json['allocation_requests']]
                        where = {'kind': 'limit', 'query': q, 'version': ver, 'limit': limit, 'randomize': randomize, 'seed': seed, 'state_seed': si}
                        if len(got) != min(limit, M):
                            viols.append((where, 'limit=%d returned %d requests, unlimited has %d' % (limit, len(got), M)))
                        if len(set(got)) != len(got) and not invisible:
                            viols.append((where, 'limited result contains duplicates'))
                        if invisible and any(got.count(x) > full.count(x) for x in set(got)):
                            viols.append((where, 'limited result repeats a request more often than the unlimited result'))
                        if not set(got) <= fullset:
                            viols.append((where, 'limited result contains a request that is not in the unlimited result'))
                        named = {rp for a in r.json['allocation_requests'] for rp in a['allocations']}
                        named |= {rp for a in r.json['allocation_requests'] for l in a.get('mappings', {}).values() for rp in l}
                        if ver < 12:
                            named = set()
                        if not named <= set(r.json['provider_summaries']):
                            viols.append((where, 'provider summaries do not cover the providers named by the limited result'))
                        for rp, s in r.json['provider_summaries'].items():
                            if base.json['provider_summaries'].get(rp) != s:
                                viols.append((where, 'summary of %s differs from the unlimited one' % rp))
                        if not randomize:
                            r2 = app.request('GET', '/allocation_candidates?%s&limit=%d' % (q, limit), version=VER, headers=SVC)
                            if r2.json['allocation_requests'] != r.json['allocation_requests']:
                                viols.append((where, 'identical request returned a different ordered list'))
                            if got != full[:limit]:
                                viols.append((where, 'limited result is not the prefix of the unlimited list'))
                        if len(samples) < 4 and limit == 2:
                            samples.append({'query': q, 'limit': limit, 'randomize': randomize, 'M': M, 'returned': len(got)})
                if randomize:
                    for seed in seeds:
                        random.seed(seed)
                        r = app.request('GET', '/allocation_candidates?' + q, version=VER, headers=SVC)
                        got = [canon_ar(a) for a in r.json['allocation_requests']]
                        if sorted(got) != sorted(full):
                            viols.append(({'kind': 'limit', 'query': q, 'randomize': True, 'seed': seed},
                                          'randomised unlimited result is not a permutation of the same set'))
                else:
                    r = app.request('GET', '/allocation_candidates?' + q, version=VER, headers=SVC)
                    if r.json['allocation_requests'] != base.json['allocation_requests']:
                        viols.append(({'kind': 'limit', 'query': q}, 'repeating an identical request changed the order'))
            app.close()


def run(pid, tier, out):
    t = common.Timer()
    seed = common.seed()
    ok_tr, tlog, blog = common.build()
    ps = common.proof_status('C20', DEPS)
    hyg = common.hygiene()
    rng = random.Random(seed * 13 + 20)
    stats = {'evaluations': 0, 'distinct': set()}
    viols = []
    samples = []
    ocases = object_cases(rng, 300 if tier == 'quick' else 3000)
    corr_error = None
    results = []
    for c in ocases:
        try:
            results.append(run_real_limit(*c))
        except Exception as exc:      # the real function no longer runs on the stand-in objects: the tie is broken
            corr_error = 'limit_results raised %s: %s on the object-level stand-ins' % (type(exc).__name__, exc)
            results = []
            break
    model_ok = all(common.vo_fresh(d) for d in DEPS[:1])
    disagreements = []
    if corr_error is not None:
        pass
    elif model_ok:
        try:
            disagreements = coq_object_cases(ocases, results, os.path.join(common.WORK, 'limit'))
        except Exception as exc:
            corr_error = str(exc)[-600:]
    else:
        corr_error = 'model did not build'
    for i, c in enumerate(ocases):
        stats['distinct'].add(('obj', json.dumps(c)))
    stats['evaluations'] += len(ocases)
    http_stream(rng, 2 if tier == 'quick' else 12, [1, 2, 3] if tier == 'quick' else list(range(1, 21)), viols, stats, samples)
    proof_broken = (not ps['ok']) or bool(hyg) or not ok_tr
    tie_broken = bool(disagreements) or corr_error is not None
    if KNOWN_DUPS and any(f.get('kind') == 'known' and f.get('property') == 'C20' and f.get('match', {}).get('kind') == 'invisible-mapping-duplicates'
                          for f in common.load_known()):
        out.known_finding('below 1.34 (no mappings member) requests that differ only in which group sits on which provider are '
                          'returned as identical entries: e.g. %s at 1.%d returns %d requests, %d distinct (%d answers of this run)'
                          % (KNOWN_DUPS[0][1], KNOWN_DUPS[0][0], KNOWN_DUPS[0][2], KNOWN_DUPS[0][3], len(KNOWN_DUPS)))
    elif KNOWN_DUPS:
        viols.append(({'kind': 'limit', 'query': KNOWN_DUPS[0][1], 'version': KNOWN_DUPS[0][0]}, 'unlimited result contains duplicates'))
    seen = set()
    for payload, text in viols:
        if text in seen:
            continue
        seen.add(text)
        if len(seen) > 4:
            break
        payload['broken'] = ps.get('broken') or ('correspondence' if tie_broken else None)
        out.violation(payload, text)
    if not viols:
        if proof_broken:
            what = ps['error'] or ('hygiene: %s' % hyg[:5] if hyg else 'translator failed: %s' % tlog[-500:])
            out.violation({'kind': 'proof-broken', 'theorem_or_file': ps.get('broken') or 'Props/C20.v', 'detail': what,
                           'not_closed': [x for x in ps['theorems'] if not x[1]]},
                          'proof obligation no longer checks: %s' % (ps.get('broken') or what), no_input=True)
        elif tie_broken:
            d0 = None
            if disagreements:
                c = ocases[disagreements[0]]
                d0 = {'allocation_requests': c[0], 'summaries': c[1], 'limit': c[2], 'randomize': c[3],
                      'implementation_result': results[disagreements[0]]}
            out.violation({'kind': 'correspondence-broken', 'stream': 'limit_results objects', 'first_disagreement': d0,
                           'error': corr_error},
                          'limit_results and its model disagree on %d inputs and the HTTP oracle found no failing input'
                          % len(disagreements), no_input=True)
    nthm = len(ps['theorems'])
    obligations = max(1, nthm + ps['lemmas'])
    discharged = obligations if ps['ok'] else sum(1 for x in ps['theorems'] if x[1])
    cov = {'obligations': obligations, 'discharged': discharged,
           'checker_cmd': 'cd /verif/coq && make -k && coqc -Q . PV Props/C20.v',
           'trusted_base': common.TRUSTED_BASE + [
               'random.sample / random.shuffle are hypotheses of the theorems (sample_contract, shuffle_contract), not axioms',
               'run-to-run determinism of the UNLIMITED order (CPython set/dict iteration, SQLite row order) is monitored by '
               'repeating requests, not proved'],
           'theorems': [{'name': n, 'closed_under_global_context': c, 'assumptions': a} for n, c, a in ps['theorems']],
           'proof_error': ps['error'], 'hygiene_hits': hyg,
           'evaluations': stats['evaluations'], 'distinct_nontrivial': len(stats['distinct']),
           'rule': '%d generated inputs to the real limit_results (patched deterministic sample/shuffle) compared with the Coq model; '
                   'HTTP: generated states x %d queries x every limit 1..M+1 x both settings of randomize_allocation_candidates x '
                   'seeds; a case is distinct by (state, setting, query, limit, seed)' % (len(ocases), len(QUERIES)),
           'samples': samples or [{'object_case': ocases[0]}],
           'traces_validated_against_impl': len(ocases) - len(disagreements) if model_ok and not corr_error else 0,
           'model_impl_disagreements': len(disagreements), 'correspondence_error': corr_error}
    common.write_evidence('C20', tier, 'proof', cov, t.s(), len(out.violations))


def replay(pid, path, out):
    run(pid, 'quick', out)
